"""C08 — models are row-wise functions of named variables.

Correspondence: every generated model (architecture tree + the weights the library initialised) is sent to
lean/drivers/C08.lean, which evaluates TPV.Net.Model.apply in IEEE double; replies are compared with the real
forward pass (space and batch shape exactly, values to 1e-9 relative; the models are run in float64) for
several presentations of the same data (own variable order, permuted variables, several batch axes, malformed
inputs).  Property oracles (independent of the Lean model, evaluated on the implementation's outputs on every
case): permutation of variables, rejection of inputs lacking a variable, row independence (single rows,
sub-batches, row permutations, re-batching), Sequential = composition by name, Parallel = join of the parts,
NormalizationLayer maps the bounding box to [-1, 1].
"""
import functools
import itertools
import operator
import random
from fractions import Fraction

import common
from common import fbits, unfbits, q

NAMES = ["x", "y", "z", "t", "s", "D", "k", "r"]
DEN = 64
RTOL = 1e-9
HISTORY_EVERY = 2


# ------------------------------------------------------------------------------------------------
# generators (pure data; everything derives from ctx.rng)

class Gen:
    def __init__(self, rng):
        self.rng, self.n = rng, 0

    def fresh(self, k):
        out = []
        for _ in range(k):
            self.n += 1
            out.append([f"o{self.n}", self.rng.choice([1, 1, 2])])
        return out


ACTS = ["tanh", "tanh", "relu", "sigmoid", "sin", ["relun", 2], ["relun", 3], ["adaptive", 1.5, 0.5, "tanh"],
        ["adaptive", 0.75, 2.0, "sin"], ["adaptive", 2.0, 1.0, ["relun", 2]]]


def gen_space(rng):
    vs = rng.sample(NAMES, rng.choice([1, 2, 2, 3, 3, 4, 4, 5]))
    return [[v, rng.choice([1, 1, 2, 2, 3])] for v in vs]


def gen_leaf(G, inS, outS=None, archs=None):
    rng = G.rng
    arch = rng.choice(archs or ["fcn", "fcn", "harm", "poly", "qres", "qres", "ritz", "norm"])
    if arch == "norm":
        dom = []
        for v, d in inS:
            if d == 1:
                lo = rng.randint(-256, 200)
                dom.append(dict(var=v, kind="interval", lo=lo, hi=lo + rng.randint(8, 320)))
            elif d == 2 and rng.random() < 0.5:
                dom.append(dict(var=v, kind="circle", c=[rng.randint(-128, 128), rng.randint(-128, 128)], r=rng.randint(16, 192)))
            elif d == 2:
                o = [rng.randint(-128, 128), rng.randint(-128, 128)]
                if rng.random() < 0.5:   # axis-parallel rectangle
                    a, b = rng.randint(16, 256), rng.randint(16, 256)
                    dom.append(dict(var=v, kind="par", o=o, c1=[o[0] + a, o[1]], c2=[o[0], o[1] + b]))
                else:                    # slanted parallelogram, positive orientation
                    a, b, c = rng.randint(32, 256), rng.randint(32, 256), rng.randint(-24, 24)
                    dom.append(dict(var=v, kind="par", o=o, c1=[o[0] + a, o[1] + c], c2=[o[0] - c, o[1] + b]))
            else:
                dom.append(dict(var=v, kind="sphere", c=[rng.randint(-128, 128) for _ in range(3)], r=rng.randint(16, 192)))
        return dict(arch="norm", **{"in": inS, "out": inS}, domain=dom)
    outS = outS or G.fresh(rng.choice([1, 1, 2, 2, 3, 4]))
    nh = rng.choice([1, 1, 2, 3])
    spec = dict(arch=arch, **{"in": inS, "out": outS})
    if arch in ("fcn", "harm", "qres", "poly") and rng.random() < 0.4:   # non-default Xavier gains: one number or one per hidden layer (only changes the initial weights)
        spec["gains"] = rng.choice([1.0, 0.5, 2.5])
    if arch in ("fcn", "harm", "qres"):
        spec["hidden"] = [rng.randint(1, 4) for _ in range(nh)]
        if "gains" in spec and rng.random() < 0.5:
            spec["gains"] = [rng.choice([1.0, 0.5, 2.5]) for _ in range(nh)]
        spec["acts"] = [rng.choice(ACTS) for _ in range(nh)] if rng.random() < 0.5 else rng.choice(ACTS)
        if arch == "harm":
            spec["minf"] = rng.choice([0, 0, 1])
            spec["maxf"] = spec["minf"] + rng.randint(1, 2)
    elif arch == "poly":
        spec["deg"] = rng.randint(1, 3)
        spec["res"] = rng.random() < 0.4
        w = rng.randint(1, 4)
        spec["hidden"] = [w] * rng.choice([1, 2, 3]) if spec["res"] else [rng.randint(1, 4) for _ in range(nh)]
        spec["acts"] = rng.choice(["tanh", "relu", "sigmoid", "sin"])
        if "gains" in spec and rng.random() < 0.5:
            spec["gains"] = [spec["gains"]] * len(spec["hidden"])
    else:
        spec["width"] = rng.randint(1, 4)
        spec["depth"] = rng.randint(0, 2)
    return spec


def sdim(S):
    return sum(d for _, d in S)


def out_space_of(spec):
    if spec["arch"] == "seq":
        return out_space_of(spec["parts"][-1])
    if spec["arch"] == "par":
        return [vd for p in spec["parts"] for vd in out_space_of(p)]
    return spec["out"]


def gen_model(G, inS, depth, top=True):
    """a model whose input variables are exactly those of inS"""
    rng = G.rng
    kind = rng.random()
    if depth <= 0 or kind < (0.3 if top else 0.5):
        return gen_leaf(G, inS, archs=None if top else ["fcn", "fcn", "harm", "poly", "qres", "qres", "ritz"])
    if kind < 0.65:   # Sequential
        n = rng.randint(1, 3)
        parts = []
        cur = inS
        for i in range(n):
            if i == 0 and rng.random() < 0.35:
                part = gen_leaf(G, cur, archs=["norm"])
            elif depth > 1 and rng.random() < 0.3:
                part = gen_model(G, cur, depth - 1, top=False)
            else:
                part = gen_leaf(G, cur, archs=["fcn", "fcn", "harm", "poly", "qres", "qres", "ritz"])
            parts.append(part)
            cur = list(out_space_of(part))
            if rng.random() < 0.6:
                rng.shuffle(cur)       # the next model declares the same variables in another order
        return dict(arch="seq", parts=parts)
    # Parallel: every part reads a subset of the variables (its own order); together they cover inS
    n = rng.randint(1, 3)
    subsets = []
    for i in range(n):
        k = rng.randint(1, len(inS))
        sub = rng.sample(inS, k)
        subsets.append(sub)
    missing = [vd for vd in inS if not any(vd in s for s in subsets)]
    subsets[rng.randrange(n)].extend(missing)
    parts = []
    for sub in subsets:
        sub = [list(vd) for vd in sub]
        if rng.random() < 0.04:   # the Counter-arithmetic corner: same name, other dimension
            sub[0][1] = sub[0][1] % 3 + 1
        if depth > 1 and rng.random() < 0.3:
            parts.append(gen_model(G, sub, depth - 1, top=False))
        else:
            parts.append(gen_leaf(G, sub, archs=["fcn", "fcn", "harm", "poly", "qres", "qres", "ritz"]))
    if len(parts) > 1 and rng.random() < 0.03 and "out" in parts[0] and "out" in parts[1] and parts[1]["arch"] != "norm":
        # two parts answering in the same variable: `Parallel.__init__` must refuse (model: `valid = false`)
        parts[1]["out"] = [list(parts[0]["out"][0])] + parts[1]["out"][1:]
    return dict(arch="par", parts=parts)


def gen_case(rng, idx):
    G = Gen(rng)
    inS = gen_space(rng)
    spec = gen_model(G, inS, depth=2)
    n = rng.choice([0, 1, 2, 3, 4, 6, 8, 12])
    # the variables the model declares (in its own order) are only known after construction; data are per name
    names = sorted({v for v, _ in inS})
    dims = {v: d for v, d in inS}
    coords = {v: [[rng.randint(-160, 160) for _ in range(dims[v])] for _ in range(n)] for v in names}
    perm = names[:]
    rng.shuffle(perm)
    shapes = [s for s in ([n], [1, n], [n, 1], [2, n // 2], [n // 2, 2], [2, n // 4, 2], [3, n // 3], [n // 4, 2, 2]) if _prod(s) == n and len(s) > 1]
    return dict(idx=idx, spec=spec, seed=rng.randrange(2 ** 31), n=n, dims=dims, coords=coords,
                perm=perm, perm2=rng.sample(names, len(names)),
                perms_extra=[rng.sample(names, len(names)) for _ in range(5 if len(names) >= 3 else 0)],
                shape2=rng.choice(shapes) if shapes else [1, n],
                shape_own_order=rng.random() < 0.5,
                rowperm=rng.sample(range(n), n), sub=sorted(rng.sample(range(n), rng.randint(0, n))),
                drop=rng.choice(names), fresh="q" + rng.choice(names), training=rng.random() < 0.5,
                swap_seed=rng.randrange(1000))


def _prod(s):
    return functools.reduce(operator.mul, s, 1)


# ------------------------------------------------------------------------------------------------
# building the real models

def act_module(tp, torch, a):
    if a == "tanh":
        return torch.nn.Tanh()
    if a == "relu":
        return torch.nn.ReLU()
    if a == "sigmoid":
        return torch.nn.Sigmoid()
    if a == "sin":
        return tp.models.Sinus()
    if a[0] == "relun":
        return tp.models.ReLUn(a[1])
    if a[0] == "adaptive":
        return tp.models.AdaptiveActivationFunction(act_module(tp, torch, a[3]), inital_a=a[1], scaling=a[2])
    raise ValueError(a)


def act_token(a):
    if isinstance(a, str):
        return a
    if a[0] == "relun":
        return f"relun {fbits(a[1])}"
    return f"adaptive {fbits(a[1])} {fbits(a[2])} {act_token(a[3])}"


def mk_space(tp, S):
    return functools.reduce(operator.mul, [tp.spaces.Rn(v, d) for v, d in S], tp.spaces.Space({}))


def mk_domain(tp, dom):
    parts = []
    for d in dom:
        sp = tp.spaces.Rn(d["var"], {"interval": 1, "circle": 2, "par": 2, "sphere": 3}[d["kind"]])
        f = lambda v: [a / DEN for a in v] if isinstance(v, list) else v / DEN
        if d["kind"] == "interval":
            parts.append(tp.domains.Interval(sp, f(d["lo"]), f(d["hi"])))
        elif d["kind"] == "circle":
            parts.append(tp.domains.Circle(sp, f(d["c"]), f(d["r"])))
        elif d["kind"] == "par":
            parts.append(tp.domains.Parallelogram(sp, f(d["o"]), f(d["c1"]), f(d["c2"])))
        else:
            parts.append(tp.domains.Sphere(sp, f(d["c"]), f(d["r"])))
    return functools.reduce(operator.mul, parts)


def exact_box(dom):
    """the bounding box the domains denote, as exact rationals (lo, hi) per coordinate"""
    box = []
    F = lambda a: Fraction(a, DEN)
    for d in dom:
        if d["kind"] == "interval":
            box.append((F(d["lo"]), F(d["hi"])))
        elif d["kind"] in ("circle", "sphere"):
            box += [(F(c - d["r"]), F(c + d["r"])) for c in d["c"]]
        else:
            o, c1, c2 = d["o"], d["c1"], d["c2"]
            c3 = [c1[i] + c2[i] - o[i] for i in range(2)]
            for i in range(2):
                vals = [o[i], c1[i], c2[i], c3[i]]
                box.append((F(min(vals)), F(max(vals))))
    return box


def build(tp, torch, spec):
    a = spec["arch"]
    if a == "seq":
        return tp.models.Sequential(*[build(tp, torch, p) for p in spec["parts"]])
    if a == "par":
        return tp.models.Parallel(*[build(tp, torch, p) for p in spec["parts"]])
    if a == "norm":
        return tp.models.NormalizationLayer(mk_domain(tp, spec["domain"]))
    I, O = mk_space(tp, spec["in"]), mk_space(tp, spec["out"])
    if a in ("fcn", "harm", "qres"):
        acts = spec["acts"]
        acts = act_module(tp, torch, acts) if _is_act(acts) else [act_module(tp, torch, x) for x in acts]
        kw = dict(xavier_gains=spec["gains"]) if "gains" in spec else {}
        if a == "fcn":
            return tp.models.FCN(I, O, hidden=tuple(spec["hidden"]), activations=acts, **kw)
        if a == "qres":
            return tp.models.QRES(I, O, hidden=tuple(spec["hidden"]), activations=acts, **kw)
        return tp.models.Harmonic_FCN(I, O, max_frequenz=spec["maxf"], min_frequenz=spec["minf"], hidden=tuple(spec["hidden"]), activations=acts, **kw)
    if a == "poly":
        return tp.models.Polynomial_FCN(I, O, polynomial_degree=spec["deg"], hidden=tuple(spec["hidden"]),
                                        activation=act_module(tp, torch, spec["acts"]), res_connection=spec["res"],
                                        **(dict(xavier_gains=spec["gains"]) if "gains" in spec else {}))
    return tp.models.DeepRitzNet(I, O, width=spec["width"], depth=spec["depth"])


def _is_act(a):
    """is `a` one activation spec (and not a list of them)"""
    return isinstance(a, str) or (isinstance(a, list) and len(a) > 0 and isinstance(a[0], str) and a[0] in ("relun", "adaptive"))


def act_list(spec):
    acts = spec["acts"]
    if _is_act(acts):
        return [acts] * len(spec["hidden"])
    return acts


class Extraction(Exception):
    pass


def sp_tok(S):
    return " ".join([str(len(S))] + [f"{v} {d}" for v, d in S])


def mat_tok(W):
    return " ".join(fbits(x) for row in W.tolist() for x in row)


def lin_tok(l):
    W, b = l.weight.detach(), l.bias.detach()
    return f"{W.shape[0]} {W.shape[1]} {mat_tok(W)} " + " ".join(fbits(x) for x in b.tolist())


def emit(torch, obj, spec):
    """the model token string for the driver, with the weights of the real object"""
    a = spec["arch"]
    try:
        if a in ("seq", "par"):
            subs = list(obj.models)
            if len(subs) != len(spec["parts"]):
                raise Extraction("number of sub-models")
            return f"{a} {len(subs)} " + " ".join(emit(torch, o, s) for o, s in zip(subs, spec["parts"]))
        I, O = sp_tok(spec["in"]), sp_tok(spec["out"])
        if a == "norm":
            lins = [m for m in obj.modules() if isinstance(m, torch.nn.Linear)]
            if len(lins) != 1:
                raise Extraction("normalization layer is not one linear map")
            return f"fcn {I} {O} 0 {lin_tok(lins[0])}"
        if a in ("fcn", "harm"):
            lins = [m for m in obj.modules() if isinstance(m, torch.nn.Linear)]
            acts = act_list(spec)
            if len(lins) != len(acts) + 1:
                raise Extraction("number of linear layers")
            body = " ".join(f"{lin_tok(l)} {act_token(x)}" for l, x in zip(lins, acts)) + (" " if acts else "") + lin_tok(lins[-1])
            if a == "fcn":
                return f"fcn {I} {O} {len(acts)} {body}"
            return f"harm {I} {O} {spec['minf']} {spec['maxf']} {len(acts)} {body}"
        if a == "qres":
            qs = [m for m in obj.modules() if type(m).__name__ == "Quadratic"]
            acts = act_list(spec)
            if len(qs) != len(acts) + 1:
                raise Extraction("number of quadratic layers")

            def qtok(m):
                W1, W2, b = m.linear_weights.weight.detach(), m.quadratic_weights.weight.detach(), m.bias.detach().reshape(-1)
                return f"{W1.shape[0]} {W1.shape[1]} {mat_tok(W1)} {mat_tok(W2)} " + " ".join(fbits(x) for x in b.tolist())
            body = " ".join(f"{qtok(m)} {act_token(x)}" for m, x in zip(qs, acts)) + " " + qtok(qs[-1])
            return f"qres 1 {I} {O} {len(acts)} {body}"
        if a == "poly":
            Ls = [p.detach() for p in obj.parameters()]
            if any(L.dim() != 3 or L.shape[2] != spec["deg"] for L in Ls):
                raise Extraction("polynomial layers")
            body = " ".join(f"{L.shape[0]} {L.shape[1]} " + " ".join(fbits(x) for k in L.tolist() for l in k for x in l) for L in Ls)
            return f"poly {I} {O} {spec['deg']} {1 if spec['res'] else 0} {act_token(spec['acts'])} {len(Ls)} {body}"
        if a == "ritz":
            blocks = " ".join(f"{lin_tok(l1)} {lin_tok(l2)}" for l1, l2 in zip(obj.linear1, obj.linear2))
            return f"ritz {I} {O} {lin_tok(obj.linearIn)} {len(obj.linear1)} {blocks}{' ' if blocks else ''}{lin_tok(obj.linearOut)}"
    except AttributeError as e:
        raise Extraction(str(e))
    raise Extraction(a)


# ------------------------------------------------------------------------------------------------
# running the implementation

ERR = {"ValueError": "err:names", "KeyError": "err:names", "IndexError": "err:names",
       "RuntimeError": "err:shape", "AssertionError": "err:shape"}


class Out:
    """canonical result of a forward call"""

    def __init__(self, space=None, shape=None, rows=None, err=None, exc=None):
        self.space, self.shape, self.rows, self.err, self.exc = space, shape, rows, err, exc

    @property
    def ok(self):
        return self.err is None

    def named(self):
        """coordinates by variable name, sliced here (not by the library)"""
        out, s = {}, 0
        for v, d in self.space:
            out[v] = [r[s:s + d] for r in self.rows]
            s += d
        return out

    def brief(self):
        if not self.ok:
            return f"{self.err} ({self.exc})"
        return dict(space=self.space, shape=self.shape, rows=self.rows[:4])


def canon(torch, res):
    t = res.as_tensor.detach()
    S = [[v, int(d)] for v, d in res.space.items()]
    return Out(S, [int(a) for a in t.shape[:-1]], t.reshape(-1, t.shape[-1]).tolist() if t.numel() else [[] for _ in range(_prod(t.shape[:-1]))])


def call(torch, model, pts):
    try:
        return canon(torch, model(pts))
    except Exception as e:   # noqa: the kind is what is compared
        k = type(e).__name__
        return Out(err=ERR.get(k, "err:other:" + k), exc=f"{k}: {str(e)[:120]}".replace("\n", " "))


def mk_points(tp, torch, order, dims, coords, n, shape=None, idx=None):
    """the data `coords` (per name) presented with the variables in `order` (cat done here, not by the library)"""
    idx = list(range(n)) if idx is None else idx
    rows = [[c / DEN for v in order for c in coords[v][i]] for i in idx]
    D = sum(dims[v] for v in order)
    t = torch.tensor(rows, dtype=torch.float64).reshape(len(idx), D)
    shape = [len(idx)] if shape is None else shape
    return tp.spaces.Points(t.reshape(*shape, D), mk_space(tp, [[v, dims[v]] for v in order])), rows


def pts_tok(order, dims, rows, shape):
    S = [[v, dims[v]] for v in order]
    if not rows:
        # torch checks matrix shapes on an empty batch as well; in the model a shape error arises per row.
        # Empty batches are therefore sent with one probe row of zeros; acceptance, space and batch shape are compared.
        rows = [[0.0] * sum(dims[v] for v in order)]
    return f"{sp_tok(S)} {len(shape)} " + " ".join(map(str, shape)) + f" {len(rows)} " + " ".join(
        f"{len(r)} " + " ".join(fbits(x) for x in r) for r in rows)


def parse_reply(rep):
    if not rep.startswith("ok"):
        return Out(err=rep.split()[0] if rep else "empty", exc=rep)
    _, sp, sh, rows = [x.strip() for x in rep.split("|")]
    t = sp.split()
    S = [[t[1 + 2 * i], int(t[2 + 2 * i])] for i in range(int(t[0]))]
    shape = [int(a) for a in sh.split()]
    R = [[unfbits(x) for x in r.split()] for r in rows.split(";")] if rows else []
    if rows == "" and _prod(shape) > 0:
        R = [[] for _ in range(_prod(shape))]
    return Out(S, shape, R)


def close_rows(A, B, rtol=RTOL, slack=None):
    """|a-b| <= rtol*(1+max|values|) + slack[row]; slack = what the implementation's own output moves under a
    rounding-level perturbation of the input (see `sensitivity`)"""
    if len(A) != len(B) or any(len(a) != len(b) for a, b in zip(A, B)):
        return False
    flat = [abs(x) for r in A + B for x in r if x == x and abs(x) != float("inf")]
    scale = 1.0 + (max(flat) if flat else 0.0)
    for i, (a, b) in enumerate(zip(A, B)):
        extra = slack[i] if slack is not None and i < len(slack) else 0.0
        if extra == float("inf"):
            continue
        for x, y in zip(a, b):
            if x != x or y != y or abs(x) == float("inf") or abs(y) == float("inf"):
                if not ((x != x and y != y) or x == y):
                    return False
            elif abs(x - y) > rtol * scale + extra:
                return False
    return True


def same_out(a, b, rtol=RTOL, shape=True, slack=None, kinds=True):
    if a.ok != b.ok:
        return False
    if not a.ok:
        # which of several reasons for a rejection is hit first depends on the evaluation order
        return a.err == b.err or not kinds
    if _prod(a.shape) == 0 and a.shape == b.shape:   # empty batch (probe row on the model side)
        return a.space == b.space
    return a.space == b.space and (a.shape == b.shape or not shape) and close_rows(a.rows, b.rows, rtol, slack)


EPS = 2.0 ** -44


def identical(a, b, rtol=1e-12):
    """two evaluations of the SAME object on the SAME data (same kernels, same shapes): equal up to rtol per row, inf/nan
    patterns included"""
    if a.ok != b.ok:
        return False
    if not a.ok:
        return a.err == b.err
    if a.space != b.space or a.shape != b.shape or len(a.rows) != len(b.rows):
        return False
    return all(_row_close(x, y, rtol, 0.0) for x, y in zip(a.rows, b.rows))


def repeat_check(torch, cr, model, pts, first, what, detail, rtol=1e-12):
    """evaluate the same object again on the same data; a difference is a property failure (the output then depends on
    something else than the values bound to the variable names).  Returns the second answer."""
    again = call(torch, model, pts)
    cr.counts.append("repeat-call")
    if not identical(first, again, rtol):
        cr.fails.append((f"the same model object gives another output for the same input {what}",
                         dict(detail, input=canon(torch, pts).brief(), first_call=first.brief(), later_call=again.brief())))
    return again


class perturbed_params:
    """context: every parameter of the model multiplied elementwise by (1 +- eps) (fixed pseudo-random signs), restored
    bit-exactly on exit.  Rounding noise enters a network at EVERY layer (each product with a weight), not only at the input:
    an input perturbation alone is damped by a saturated sigmoid/tanh and then misses the amplification by later cubes /
    squares / sin of large arguments."""

    def __init__(self, torch, model, eps, seed):
        self.torch, self.model, self.eps, self.seed = torch, model, eps, seed

    def __enter__(self):
        torch = self.torch
        self.saved = [(p, p.detach().clone()) for p in self.model.parameters()]
        g = torch.Generator().manual_seed(self.seed)
        with torch.no_grad():
            for p, _ in self.saved:
                sgn = (torch.randint(0, 2, p.shape, generator=g).to(p.dtype) * 2 - 1) if p.numel() else p
                p.mul_(1 + self.eps * sgn)

    def __exit__(self, *a):
        with self.torch.no_grad():
            for p, old in self.saved:
                p.copy_(old)
        return False


def sensitivity(torch, model, pts, base=None):
    """per row: 8 * max over two sign patterns of |model'(x*(1 +- eps) +- eps) - model(x)| with eps = 2^-44 (about 256 ulp),
    model' = the model with every parameter multiplied by (1 +- eps): what rounding-level noise in the input AND at every
    layer does to the implementation's own output.  Cubes followed by sin/quadratic
    layers reach magnitudes where one ulp of an intermediate value is a visible change of the output; such rows get a
    large slack (counted as ill-conditioned), well-conditioned rows a negligible one.  inf where it cannot be evaluated."""
    # always a fresh re-evaluation: a stateful object (first call differs from later ones) must not inflate the slack
    base = call(torch, model, pts)
    n = len(base.rows) if base.ok else 0
    if not base.ok:
        return []
    t = pts.as_tensor
    out = [0.0] * n
    for k in (1, 2):
        g = torch.Generator().manual_seed(1000 + k)
        s1 = torch.randint(0, 2, t.shape, generator=g).to(t.dtype) * 2 - 1
        s2 = torch.randint(0, 2, t.shape, generator=g).to(t.dtype) * 2 - 1
        try:
            with perturbed_params(torch, model, EPS, 2000 + k):   # noise at every layer, not only at the input
                pert = call(torch, model, type(pts)(t * (1 + EPS * s1) + EPS * s2, pts.space))
        except Exception:   # noqa
            return [float("inf")] * n
        if not pert.ok or len(pert.rows) != n:
            return [float("inf")] * n
        for i, (a, b) in enumerate(zip(base.rows, pert.rows)):
            d = [abs(x - y) for x, y in zip(a, b)]
            out[i] = float("inf") if any(x != x or x == float("inf") for x in d) else max(out[i], 8.0 * max(d + [0.0]))
    return out


WILD = 1e6


def magnitude(torch, model, pts):
    """largest absolute value any sub-module of the model produces on `pts` (forward hooks of torch's public API)"""
    box = [0.0]

    def hook(_mod, _inp, out):
        t = getattr(out, "as_tensor", out)
        if isinstance(t, torch.Tensor) and t.numel():
            v = t.detach().abs().max().item()
            box[0] = float("inf") if v != v else max(box[0], v)
    handles = [m.register_forward_hook(hook) for m in model.modules()]
    try:
        model(pts)
    except Exception:   # noqa
        box[0] = float("inf")
    finally:
        for h in handles:
            h.remove()
    return box[0]


def finite(o):
    return o.ok and all(x == x and abs(x) != float("inf") for r in o.rows for x in r)


# ------------------------------------------------------------------------------------------------
# one case: implementation runs, driver lines, oracles

def declared_in(model):
    return [[v, int(d)] for v, d in model.input_space.items()]


def presentations(case, inS_decl):
    """name -> (order, shape, row index list)"""
    n, dims = case["n"], case["dims"]
    names = sorted(dims)
    own = [v for v, _ in inS_decl if v in dims] + [v for v in names if v not in {w for w, _ in inS_decl}]
    P = {"own": (own, [n], None), "perm": (case["perm"], [n], None),
         "axes": (own if case["shape_own_order"] else case["perm2"], case["shape2"], None)}
    return P, own


def malformed(case, own):
    """inputs that are not the model's variables: (order, dims, coords)"""
    dims, coords, n = case["dims"], case["coords"], case["n"]
    out = {}
    d = case["drop"]
    if len(own) > 1:
        out["missing"] = ([v for v in own if v != d], dims, coords)
    f = case["fresh"]
    out["renamed"] = ([f if v == d else v for v in own], {**dims, f: dims[d]}, {**coords, f: coords[d]})
    out["extra"] = (own + [f], {**dims, f: 1}, {**coords, f: [[7] for _ in range(n)]})
    diff = [(a, b) for a in own for b in own if dims[a] < dims[b]]
    if diff:
        a, b = diff[case["swap_seed"] % len(diff)]
        flat = lambda i: [c for v in own for c in coords[v][i]]
        nd = {**dims, a: dims[b], b: dims[a]}
        nc = {v: [] for v in own}
        for i in range(n):
            r, s = flat(i), 0
            for v in own:
                nc[v].append(r[s:s + nd[v]])
                s += nd[v]
        out["dims-swapped"] = (own, nd, nc)
    if n > 0:
        out["dim-changed"] = (own, {**dims, d: dims[d] + 1}, {**coords, d: [r + [3] for r in coords[d]]})
    return out


class CaseRun:
    def __init__(self, case):
        self.case = case
        self.lines, self.tags = [], []       # driver requests and what they are compared with
        self.fails, self.counts, self.disagree = [], [], []
        self.nontrivial = False
        self.slack = None


def run_case(case):
    tp = common.use_repo()
    import torch
    cr = CaseRun(case)
    spec = case["spec"]
    torch.manual_seed(case["seed"])
    try:
        model = build(tp, torch, spec).double()
    except (AssertionError, IndexError) as e:
        cr.construct_error = type(e).__name__
        cr.counts.append("construct-rejected")
        cr.lines.append("spaces " + skeleton(spec))
        cr.tags.append(("construct", None))
        return cr
    model.train(bool(case.get("training", False)))   # Lightning: fit runs in training mode, validate/test/predict in eval mode
    cr.counts.append("mode:" + ("train" if case.get("training") else "eval"))
    inS = declared_in(model)
    outS = [[v, int(d)] for v, d in model.output_space.items()]
    try:
        tok = emit(torch, model, spec)
    except Extraction as e:
        tok = None
        cr.disagree.append(("weights of the real model could not be read (" + str(e) + ")", None, None))
    if tok:
        cr.lines.append("spaces " + tok)
        cr.tags.append(("spaces", (inS, outS)))
    n, dims, coords = case["n"], case["dims"], case["coords"]
    P, own = presentations(case, inS)
    outs = {}
    with torch.no_grad():
        for name, (order, shape, idx) in P.items():
            pts, rows = mk_points(tp, torch, order, dims, coords, n, shape, idx)
            outs[name] = call(torch, model, pts)
            if tok:
                cr.lines.append(f"apply {tok} {pts_tok(order, dims, rows, shape)}")
                cr.tags.append(("apply:" + name, outs[name]))
        base = outs["own"]
        cr.counts.append("base:" + ("ok" if base.ok else base.err))
        pts_own, _ = mk_points(tp, torch, own, dims, coords, n)
        desc0 = dict(model=spec, torch_seed=case["seed"])
        if base.ok:
            repeat_check(torch, cr, model, pts_own, base, "on a later call (other presentations of the data were evaluated in between)", desc0)
        slack = sensitivity(torch, model, pts_own, base) if base.ok else None
        wild = base.ok and magnitude(torch, model, pts_own) > WILD
        if wild:
            # beyond ~1e6 torch's vectorised sin/pow kernels and their scalar tails (batch of 1) are not the same
            # function any more; values of such a case are not compared at all (acceptance, space and shape still are)
            slack = [float("inf")] * len(base.rows)
            cr.counts.append("wild-magnitude-case")
        cr.slack = slack
        cr.nontrivial = base.ok and n >= 2 and finite(base) and not wild
        if slack:
            big = 1.0 + max([abs(x) for r in base.rows for x in r if x == x and abs(x) != float("inf")] + [0.0])
            cr.counts.append(("ill-conditioned-rows", sum(1 for x in slack if x > 1e-3 * big and not wild)))
        if base.ok and not finite(base):
            cr.counts.append("nonfinite-output")
        desc = dict(model=spec, torch_seed=case["seed"])

        # ---- malformed inputs: correspondence of accept/reject; oracle: a missing variable is rejected
        for name, (order, d2, c2) in malformed(case, own).items():
            pts, rows = mk_points(tp, torch, order, d2, c2, n)
            o = call(torch, model, pts)
            cr.counts.append(f"{name}:{'accepted' if o.ok else o.err}")
            if o.ok:   # its own conditioning (the data are not those of the base presentation)
                o.slack = ([float("inf")] * len(o.rows) if magnitude(torch, model, pts) > WILD
                           else sensitivity(torch, model, pts, o))
            if tok:
                cr.lines.append(f"apply {tok} {pts_tok(order, d2, rows, [n])}")
                cr.tags.append(("apply:" + name, o))
            if name in ("missing", "renamed") and o.ok:
                lacking = case["drop"]
                cr.fails.append((f"input without the required variable '{lacking}' ({name}) was accepted",
                                 dict(desc, presented_variables=order, required=inS, rows=rows[:3], output=o.brief())))

        if not base.ok and spec["arch"] in ("seq", "par") and n > 0:
            structure(tp, torch, cr, model, spec, pts_own, desc, case, [0.0] * n)
        if base.ok and finite(base):
            # ---- same named data, other variable order
            o = outs["perm"]
            if not same_out(base, o, slack=slack):
                cr.fails.append(("same data with the variables in another order gives another output",
                                 dict(desc, order_a=P["own"][0], order_b=P["perm"][0], coords=_coords(case), out_a=base.brief(), out_b=o.brief())))
            # more orders (implementation only): with >= 4 variables most orders keep the first/last variable in place
            for order in case.get("perms_extra", []):
                o = call(torch, model, mk_points(tp, torch, order, dims, coords, n)[0])
                cr.counts.append(f"perm-extra:{len(order)}vars")
                if not same_out(base, o, slack=slack):
                    cr.fails.append(("same data with the variables in another order gives another output",
                                     dict(desc, order_a=P["own"][0], order_b=order, coords=_coords(case), out_a=base.brief(), out_b=o.brief())))
                    break
            # ---- several batch axes: if accepted, the rows are those of the flat batch
            o = outs["axes"]
            cr.counts.append("axes:" + ("accepted" if o.ok else o.err) + f":{len(case['shape2'])}d")
            if o.ok and not (o.shape == case["shape2"] and o.space == base.space and close_rows(base.rows, o.rows, slack=slack)):
                cr.fails.append((f"the batch arranged as {case['shape2']} gives other rows than the flat batch",
                                 dict(desc, order=P["axes"][0], coords=_coords(case), flat=base.brief(), arranged=o.brief())))
            # ---- row independence: single rows, a sub-batch, a permutation of the rows
            for what, idx in [("row permutation", case["rowperm"]), ("sub-batch", case["sub"])] + [(f"single row {i}", [i]) for i in range(min(n, 3))]:
                pts, rows = mk_points(tp, torch, own, dims, coords, n, idx=idx)
                o = call(torch, model, pts)
                want = Out(base.space, [len(idx)], [base.rows[i] for i in idx])
                if not same_out(want, o, slack=[slack[i] for i in idx]):
                    cr.fails.append((f"{what}: the rows are mapped differently than inside the full batch",
                                     dict(desc, rows_taken=idx, coords=_coords(case), in_batch=want.brief(), alone=o.brief())))
            # ---- structure: Sequential = composition by name, Parallel = join of the parts
            pts, _ = mk_points(tp, torch, own, dims, coords, n)
            if not wild:
                structure(tp, torch, cr, model, spec, pts, desc, case, slack)
        if base.ok:
            repeat_check(torch, cr, model, pts_own, base, "at the end of the case (after single rows, sub-batches, other orders, malformed inputs)", desc0)
        if case["idx"] % HISTORY_EVERY == 0 or case.get("force_history"):
            history(tp, torch, cr, model, spec, case)
    if case["idx"] % 2 == 1 or case.get("force_history"):
        extremes(tp, torch, cr, spec, case)
    return cr


def _coords(case):
    return {v: [[f"{c}/{DEN}" for c in r] for r in rows[:4]] for v, rows in case["coords"].items()}


def reorder(tp, torch, pts, order):
    """the same named data with the variables in `order` (slicing done here)"""
    S = [[v, int(d)] for v, d in pts.space.items()]
    t = pts.as_tensor
    off, s = {}, 0
    for v, d in S:
        off[v] = (s, d)
        s += d
    cols = [t[..., off[v][0]:off[v][0] + off[v][1]] for v in order]
    return tp.spaces.Points(torch.cat(cols, dim=-1), mk_space(tp, [[v, off[v][1]] for v in order]))


def structure(tp, torch, cr, model, spec, pts, desc, case, slack=None):
    slack = slack if slack is not None else sensitivity(torch, model, pts)
    a = spec["arch"]
    if a not in ("seq", "par"):
        return
    whole = call(torch, model, pts)
    if whole.ok and not finite(whole):
        return
    parts = list(zip(list(model.models), spec["parts"]))
    def rng_order(names):
        names = sorted(names)
        random.Random(f"{case['swap_seed']}:{','.join(names)}").shuffle(names)
        return names
    if a == "seq":
        cur, trace = pts, []
        for k, (m, s) in enumerate(parts):
            # each part is a function of named variables: hand it the previous result in its own order and in another one
            want = [v for v in m.input_space.keys()]
            have = list(cur.space.keys())
            if set(want) != set(have):
                return   # Sequential of non-matching parts (rejected by the whole as well, or a Parallel that ignores extras)
            try:
                r1 = m(reorder(tp, torch, cur, want))
            except Exception:   # noqa: the whole was accepted; a part that rejects its own named input shows up in the comparison above
                return
            r2 = call(torch, m, reorder(tp, torch, cur, rng_order(have)))
            c1 = canon(torch, r1)
            if not same_out(c1, r2, slack=sensitivity(torch, m, reorder(tp, torch, cur, want), c1)):
                cr.fails.append((f"part {k} of a Sequential is not a function of the named variables: same data, other order, other result",
                                 dict(desc, part=s, order_a=want, order_b=rng_order(have), out_a=c1.brief(), out_b=r2.brief())))
            structure(tp, torch, cr, m, s, reorder(tp, torch, cur, want), desc, case)
            cur = r1
        comp = canon(torch, cur)
        if not whole.ok:
            cr.fails.append(("Sequential rejects an input on which the composition of its parts (by variable name) is defined",
                             dict(desc, sequential=whole.brief(), composition=comp.brief(), input=canon(torch, pts).brief())))
        elif not same_out(comp, whole, slack=slack):
            cr.fails.append(("Sequential(m1..mk)(p) differs from mk(..m1(p)) composed by variable name",
                             dict(desc, sequential=whole.brief(), composition=comp.brief(), input=canon(torch, pts).brief())))
    else:
        named = whole.named() if whole.ok else None
        expect_space = []
        part_outs = []
        for k, (m, s) in enumerate(parts):
            want = [v for v in m.input_space.keys()]
            if not set(want) <= set(pts.space.keys()):
                return
            sub = reorder(tp, torch, pts, want)
            o = call(torch, m, sub)
            if not o.ok:
                return
            expect_space += o.space
            part_outs.append(o)
            if named is None:
                continue
            for v, rows in o.named().items():
                if v not in named or not close_rows(rows, named[v], slack=slack):
                    cr.fails.append((f"Parallel: output variable '{v}' is not what part {k} gives on its own input variables {want}",
                                     dict(desc, part=s, parallel=whole.brief(), part_output=o.brief(), input=canon(torch, pts).brief())))
            structure(tp, torch, cr, m, s, sub, desc, case)
        if not whole.ok:
            if parts and len({v for v, _ in expect_space}) == len(expect_space):
                cr.fails.append(("Parallel rejects an input although every part accepts its own input variables picked by name",
                                 dict(desc, parallel=whole.brief(), part_outputs=[o.brief() for o in part_outs], input=canon(torch, pts).brief())))
        elif expect_space != whole.space:
            cr.fails.append(("Parallel: output space is not the product of the parts' output spaces in order",
                             dict(desc, parallel_space=whole.space, parts=expect_space)))


def walk(obj, spec, path=()):
    yield obj, spec, path
    if spec["arch"] in ("seq", "par"):
        for i, (o, sp) in enumerate(zip(list(obj.models), spec["parts"])):
            yield from walk(o, sp, path + (i,))


def history(tp, torch, cr, model, spec, case):
    """Model objects stay in use after they have been composed: every sub-model OBJECT of the tree (and the tree itself) is
    called directly, several times in a row with different variable orders, first as it is (already part of a
    composition), then again after it has additionally been wrapped into a new Parallel and a new Sequential.  Reference =
    a stand-alone twin (same class, same hyper-parameters, same weights via state_dict) that was never composed.
    Oracles: every accepted presentation of the same named data gives the twin's answer; inputs lacking a variable are
    rejected; the wrappers answer like the object itself."""
    rng = random.Random(f"hist:{case['seed']}")
    desc = dict(model=case["spec"], torch_seed=case["seed"])
    subs = list(walk(model, spec))
    if len(subs) > 4:
        subs = [subs[0]] + rng.sample(subs[1:], 3)
    for obj, sp, path in subs:
        inS = declared_in(obj)
        names = [v for v, _ in inS]
        dims = dict(inS)
        n = rng.choice([1, 2, 3])
        coords = {v: [[rng.randint(-160, 160) for _ in range(d)] for _ in range(n)] for v, d in inS}
        try:
            twin = build(tp, torch, sp).double()
            twin.load_state_dict(obj.state_dict())
            twin.eval()
        except Exception:   # noqa: (a construction the library refuses is the business of the construction stream)
            continue
        own, _ = mk_points(tp, torch, names, dims, coords, n)
        ref = call(torch, twin, own)
        if ref.ok:
            repeat_check(torch, cr, twin, own, ref, "on the second call of a freshly built object", dict(desc, sub_model=sp))
        if not ref.ok or not finite(ref) or magnitude(torch, twin, own) > WILD:
            cr.counts.append("history:skipped")
            continue
        slack = sensitivity(torch, twin, own, ref)
        p1, p2 = names[:], names[:]
        rng.shuffle(p1)
        rng.shuffle(p2)
        orders = [names, p1, names, p2, p1]
        drop = rng.choice(names)
        where = dict(desc, sub_model=sp, path=list(path), data={v: [[f"{c}/{DEN}" for c in r] for r in rows] for v, rows in coords.items()})
        for stage in ("after composing", "after wrapping it again into Parallel(m) and Sequential(m)"):
            if stage != "after composing":
                try:
                    w1, w2 = tp.models.Parallel(obj).double(), tp.models.Sequential(obj).double()
                except Exception as e:   # noqa
                    cr.fails.append((f"an existing model object cannot be wrapped: {type(e).__name__}", where))
                    break
                for wn, w, order in (("Parallel(m)", w1, p1), ("Sequential(m)", w2, p2)):
                    o = call(torch, w, mk_points(tp, torch, order, dims, coords, n)[0])
                    if not same_out(ref, o, slack=slack):
                        cr.fails.append((f"{wn} answers differently than the model m it wraps",
                                         dict(where, order=order, wrapper=o.brief(), stand_alone_twin=ref.brief())))
            for k, order in enumerate(orders):
                o = call(torch, obj, mk_points(tp, torch, order, dims, coords, n)[0])
                cr.counts.append("history:call")
                if not same_out(ref, o, slack=slack):
                    cr.fails.append((f"a model object called directly {stage} (call {k + 1} in a row, variables presented as {order}) "
                                     f"answers differently than the same model that was never composed",
                                     dict(where, order=order, declared=inS, composed_object=o.brief(), stand_alone_twin=ref.brief())))
                    break
            bad = [("renamed", ["q" + v if v == drop else v for v in names], {**dims, "q" + drop: dims[drop]}, {**coords, "q" + drop: coords[drop]})]
            if len(names) > 1:
                bad.append(("missing", [v for v in names if v != drop], dims, coords))
            for what, order, d2, c2 in bad:
                o = call(torch, obj, mk_points(tp, torch, order, d2, c2, n)[0])
                if o.ok:
                    cr.fails.append((f"a model object called directly {stage} accepts an input without its variable '{drop}' ({what})",
                                     dict(where, presented_variables=order, declared=inS, output=o.brief())))


LADDER = [0.0, 1e-3, 0.5, 1.0, 30.0, 300.0, 2e3, 1e5, 1e8, 1e13, 1e20, 1e30]
LADDER64 = [1e40, 1e80, 1e110, 1e200]


def _row_close(a, b, rtol, slack):
    """one output row in two batch contexts; inf/nan patterns must agree"""
    if len(a) != len(b):
        return False
    if slack == float("inf"):
        return True
    scale = max([abs(x) for x in a + b if x == x and abs(x) != float("inf")] + [0.0])
    for x, y in zip(a, b):
        fx, fy = x == x and abs(x) != float("inf"), y == y and abs(y) != float("inf")
        if not fx or not fy:
            if not ((x != x and y != y) or x == y):
                return False
        elif abs(x - y) > rtol * scale + slack + 1e-300:
            return False
    return True


def extremes(tp, torch, cr, spec, case):
    """Row independence where the main stream does not go: the library's default dtype float32 as well as float64, training
    mode as well as evaluation mode (Lightning's validate/test/predict), autograd on or off, batches that mix magnitudes
    0 ... 1e30 (float64: ... 1e200) so that some rows overflow to inf/nan next to ordinary rows.  Oracle (implementation
    only): the answer to row i inside a batch does not change when the OTHER rows of the batch are replaced (zeros, ones,
    a rotation of themselves, huge rows) or when the batch is arranged into two axes — same batch size and row position, so
    the torch kernels take the same path; slack = 8 x the effect of a 256-ulp perturbation of row i itself in the same
    batch (chaotic rows are skipped, and so are rows whose inf/nan pattern is not stable under that perturbation)."""
    rng = random.Random(f"ext:{case['seed']}")
    combos = [(d, t) for d in ("float32", "float64") for t in (False, True)]
    rng.shuffle(combos)
    chosen = combos[:2]
    if all(t for _, t in chosen):
        chosen[1] = (chosen[1][0], False)
    for dtype_name, training in chosen:
        dtype = getattr(torch, dtype_name)
        grad = rng.random() < 0.3
        torch.manual_seed(case["seed"])
        try:
            model = build(tp, torch, spec).to(dtype)
        except (AssertionError, IndexError):
            return
        model.train(training)
        inS = declared_in(model)
        D = sum(d for _, d in inS)
        space = mk_space(tp, inS)
        n = rng.choice([4, 6, 8])
        ladder = LADDER + (LADDER64 if dtype_name == "float64" else [])
        mags = [rng.choice(ladder) for _ in range(n)]
        mags[rng.randrange(n)] = rng.choice(ladder[-5:])          # at least one huge row ...
        mags[rng.randrange(n)] = rng.choice([30.0, 300.0, 2e3])    # ... next to an ordinary one
        X = torch.tensor([[m * rng.choice([-1, 1]) * rng.randint(16, 64) / 64 for _ in range(D)] for m in mags], dtype=dtype)
        tag = f"ext:{dtype_name}:{'train' if training else 'eval'}"
        cr.counts.append(tag)
        rtol, eps = (1e-4, 2.0 ** -15) if dtype_name == "float32" else (1e-9, 2.0 ** -44)
        P = tp.spaces.Points
        with (torch.enable_grad() if grad else torch.no_grad()):
            base = call(torch, model, P(X.clone(), space))
            if not base.ok:
                cr.counts.append(tag + ":" + base.err)
                continue
            again = repeat_check(torch, cr, model, P(X.clone(), space), base,
                                 f"on the second call of a freshly built object ({dtype_name}, {'training' if training else 'evaluation'} mode)",
                                 dict(model=spec, torch_seed=case["seed"], dtype=dtype_name, training=training), rtol=rtol * 1e-2)
            if not identical(base, again, rtol * 1e-2):
                continue
            cr.counts.append(("ext:nonfinite-rows", sum(1 for r in base.rows if not all(x == x and abs(x) != float("inf") for x in r))))
            huge = torch.full((D,), ladder[-1], dtype=dtype)
            for i in rng.sample(range(n), 3):
                # conditioning of row i in this very batch
                slack = 0.0
                for sgn in (1.0, -1.0):
                    Xp = X.clone()
                    Xp[i] = X[i] * (1 + sgn * eps) + sgn * eps * 1e-3
                    with perturbed_params(torch, model, eps, 3000 + int(sgn)):
                        pert = call(torch, model, P(Xp, space))
                    if not pert.ok:
                        slack = float("inf")
                        break
                    for x, y in zip(base.rows[i], pert.rows[i]):
                        fx, fy = x == x and abs(x) != float("inf"), y == y and abs(y) != float("inf")
                        if fx and fy:
                            slack = max(slack, 8.0 * abs(x - y))
                        elif not ((x != x and y != y) or x == y):
                            slack = float("inf")
                if slack == float("inf"):
                    cr.counts.append("ext:row-skipped")
                    continue
                others = [j for j in range(n) if j != i]
                variants = {}
                for name, fill in (("zeros", 0.0), ("ones", 1.0)):
                    V = torch.full_like(X, fill)
                    V[i] = X[i]
                    variants[name] = V
                V = X.clone()
                V[others] = X[others[1:] + others[:1]]
                variants["other rows rotated"] = V
                V = X.clone()
                V[others] = huge
                variants["other rows huge"] = V
                V = X.clone()
                V[others[0]] = huge
                variants["one other row huge"] = V
                for name, V in variants.items():
                    o = call(torch, model, P(V, space))
                    cr.counts.append("ext:context")
                    if not o.ok or not _row_close(base.rows[i], o.rows[i], rtol, slack):
                        cr.fails.append((f"row {i} of a batch is answered differently when the OTHER rows are replaced ({name}); "
                                         f"{dtype_name}, {'training' if training else 'evaluation'} mode",
                                         dict(case=None, model=spec, torch_seed=case["seed"], dtype=dtype_name, training=training, autograd=grad,
                                              declared=inS, batch=X.tolist(), other_batch=V.tolist(), row=i,
                                              answer_in_batch=base.rows[i], answer_in_other_batch=(o.rows[i] if o.ok else o.brief()), slack=slack)))
                        break
                o = call(torch, model, P(X.clone().reshape(2, n // 2, D), space))
                if o.ok and not (o.shape == [2, n // 2] and _row_close(base.rows[i], o.rows[i], rtol, slack)):
                    cr.fails.append((f"row {i} is answered differently when the batch is arranged as (2, {n // 2}); {dtype_name}, "
                                     f"{'training' if training else 'evaluation'} mode",
                                     dict(model=spec, torch_seed=case["seed"], dtype=dtype_name, training=training, batch=X.tolist(), row=i,
                                          flat=base.rows[i], arranged=o.brief())))


def skeleton(spec):
    """model token with all-zero weights (for construction-time questions)"""
    a = spec["arch"]
    if a in ("seq", "par"):
        return f"{a} {len(spec['parts'])} " + " ".join(skeleton(p) for p in spec["parts"])
    return f"fcn {sp_tok(spec['in'])} {sp_tok(spec['out'])} 0 0 0"


# ---- normalisation layer: coefficients from the bounding box

def norm_specs(spec):
    if spec["arch"] == "norm":
        yield spec
    for p in spec.get("parts", []):
        yield from norm_specs(p)


def run_norm(cr, nspec):
    tp = common.use_repo()
    import torch
    layer = tp.models.NormalizationLayer(mk_domain(tp, nspec["domain"]))
    lin = [m for m in layer.modules() if isinstance(m, torch.nn.Linear)][0]
    W, b = lin.weight.detach().double(), lin.bias.detach().double()
    box = exact_box(nspec["domain"])
    cr.lines.append("normq " + f"{len(box)} " + " ".join(f"{q(lo)} {q(hi)}" for lo, hi in box))
    cr.tags.append(("normq", (W.tolist(), b.tolist(), nspec)))
    # oracle: the corners of the bounding box go to -1 / +1 in every coordinate, the centre to 0
    S = nspec["in"]
    lo = [float(l) for l, _ in box]
    hi = [float(h) for _, h in box]
    mid = [(a + c) / 2 for a, c in zip(lo, hi)]
    pts = tp.spaces.Points(torch.tensor([lo, hi, mid], dtype=torch.float32), mk_space(tp, S))
    with torch.no_grad():
        o = call(torch, layer, pts)
    want = [[-1.0] * len(lo), [1.0] * len(lo), [0.0] * len(lo)]
    scale = max(1.0, max(abs(x) / max(h - l, 1e-9) for x, l, h in zip(lo + hi, lo + lo, hi + hi)))
    if not o.ok or not close_rows(o.rows, want, rtol=2e-5 * scale):
        cr.fails.append(("NormalizationLayer does not map the corners/centre of the domain's bounding box to -1/+1/0",
                         dict(domain=nspec["domain"], box=[[str(a), str(c)] for a, c in box], output=o.brief())))


# ------------------------------------------------------------------------------------------------

def judge(rep, cr, replies):
    case = cr.case
    for (tag, ref), reply in zip(cr.tags, replies):
        if tag == "construct":
            if not reply.startswith("0 |") and reply != "err:construct":
                rep.disagree("construction: model accepts a Parallel/Sequential the library refuses to build", case, cr.construct_error, reply)
        elif tag == "spaces":
            inS, outS = ref
            want = f"1 | {sp_tok(inS)} | {sp_tok(outS)}"
            if reply != want:
                rep.disagree("input/output space of the composed model: drivers/C08.lean `spaces` vs model.input_space/output_space", case, want, reply)
        elif tag.startswith("apply:"):
            m = parse_reply(reply)
            if not same_out(ref, m, slack=getattr(ref, "slack", None) or getattr(cr, "slack", None), kinds=False):
                rep.disagree(f"forward pass ({tag[6:]} presentation): drivers/C08.lean `apply` (TPV.Net.Model.apply) vs model(points)",
                             dict(spec=case["spec"], seed=case["seed"], idx=case["idx"], presentation=tag[6:]), ref.brief(), m.brief())
        elif tag == "normq":
            W, b, nspec = ref
            if reply.startswith("err"):
                rep.disagree("normalisation coefficients", nspec, "finite", reply)
                continue
            t = reply.split()
            for i in range(len(b)):
                d, c = float(Fraction(t[2 * i])), float(Fraction(t[2 * i + 1]))
                offdiag = [W[i][j] for j in range(len(b)) if j != i]
                if abs(W[i][i] - d) > 1e-5 * abs(d) or abs(b[i] - c) > 1e-5 * max(abs(c), abs(d)) or any(x != 0 for x in offdiag):
                    rep.disagree("normalisation coefficients: TPV.Net.normCoeff (exact) vs NormalizationLayer weights", nspec,
                                 dict(weight_row=W[i], bias=b[i]), dict(weight=d, bias=c, coordinate=i))
    for what, inp, model in cr.disagree:
        rep.disagree(what, case["spec"], inp, model)
    for what, detail in cr.fails:
        rep.fail(what, dict(case=case), detail=detail)
    for c in cr.counts:
        if isinstance(c, tuple):
            rep.count(c[0], c[1])
        else:
            rep.count(c)


def options_of(spec):
    """constructor options a case exercises (for the evidence histogram: what a run never hits is visible)"""
    if spec["arch"] in ("seq", "par"):
        out = [f"opt:{spec['arch']}:{min(len(spec['parts']), 3)}parts"]
        for p in spec["parts"]:
            out += options_of(p)
        return out
    a = spec["arch"]
    out = []
    if "gains" in spec:
        out.append(f"opt:{a}:xavier_gains:" + ("list" if isinstance(spec["gains"], list) else "number"))
    acts = spec.get("acts")
    if acts is not None:
        for x in ([acts] if _is_act(acts) else acts):
            out.append("opt:activation:" + (x if isinstance(x, str) else x[0] + (":" + str(x[1]) if x[0] == "relun" else "")))
        if a in ("fcn", "harm", "qres"):
            out.append(f"opt:{a}:activations:" + ("single" if _is_act(acts) else "list"))
    if a == "harm":
        out.append(f"opt:harm:min_frequenz:{spec['minf']}")
    if a == "poly":
        out += [f"opt:poly:degree:{spec['deg']}", f"opt:poly:res_connection:{spec['res']}"]
    if a == "ritz":
        out.append(f"opt:ritz:depth:{spec['depth']}")
    if a == "norm":
        out += [f"opt:norm:domain:{d['kind']}" for d in spec["domain"]]
    if "hidden" in spec:
        out.append(f"opt:{a}:hidden_layers:{len(spec['hidden'])}")
    return out


def archs_of(spec):
    if spec["arch"] in ("seq", "par"):
        return [spec["arch"]] + [a for p in spec["parts"] for a in archs_of(p)]
    return [spec["arch"]]


def run(ctx, rep, cases=None):
    rep.rule = ("one case = one generated model tree (architecture, hyper-parameters, library-initialised weights) with one data set, "
                "presented in its own variable order, a permuted order, several batch axes, 5 malformed variants, row subsets; "
                "non-trivial = the model accepts the data, n >= 2 rows and the output is finite; distinct = distinct model trees")
    if cases is None:
        cases = [gen_case(ctx.rng, i) for i in range(ctx.scale(500, 5000))]
    runs = []
    for case in cases:
        cr = run_case(case)
        for ns in norm_specs(case["spec"]):
            run_norm(cr, ns)
        runs.append(cr)
    lines = [l for cr in runs for l in cr.lines]
    try:
        replies = common.run_driver("C08", lines)
    except common.DriverFailure:
        for cr in runs:
            cr.tags = []
            judge(rep, cr, [])
        raise
    k = 0
    for cr in runs:
        mine = replies[k:k + len(cr.lines)]
        k += len(cr.lines)
        case = cr.case
        for a in archs_of(case["spec"]):
            rep.count("arch:" + a)
        for o in options_of(case["spec"]):
            rep.count(o)
        rep.count(f"rows:{case['n']}")
        rep.count(f"vars:{len(case['dims'])}")
        rep.traces_validated += sum(1 for t, _ in cr.tags if t.startswith("apply:"))
        rep.case(dict(spec=case["spec"], seed=case["seed"]), cr.nontrivial,
                 sample=dict(model=case["spec"], rows=case["n"], variables=case["dims"], reply=(mine[1][:160] if len(mine) > 1 else "")),
                 kind=case["spec"]["arch"])
        judge(rep, cr, mine)


def search_only(ctx, rep):
    """driver unusable: property oracles alone"""
    for i in range(ctx.scale(500, 5000)):
        cr = run_case(gen_case(ctx.rng, i))
        cr.tags = []
        judge(rep, cr, [])


def replay(ctx, obj):
    rep = common.Report(ctx)
    inp = obj.get("failing_input") or obj.get("first")
    case = inp["input"].get("case") if isinstance(inp["input"], dict) and "case" in inp["input"] else None
    lean = common.lean_check("C08")
    if case is None:
        # a correspondence replay names the case by (tier, seed, idx): regenerate the stream up to it
        idx = inp["input"].get("idx")
        rng = common.Ctx("C08", obj["tier"], obj["seed"]).rng
        for i in range(idx + 1):
            case = gen_case(rng, i)
    run(ctx, rep, [case])
    return common.finish(ctx, rep, lean)
