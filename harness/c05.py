"""C05 — membership tests agree with the set the domain expression denotes.

Correspondence = property oracle here: the Lean driver evaluates, in exact rational arithmetic on the
exact values of the float32 inputs, the membership algorithm that `contains_iff_mem` proves equal to the
denoted set, together with the smallest normalised slack of any comparison.  Whenever that slack
exceeds MARGIN the implementation's Boolean must agree (a difference is a failing input: the point is
farther than the tolerance from every decision boundary and the answer is wrong)."""
import json
from fractions import Fraction as Fr

import common
import geomgen
from geomgen import Gen, env_tokens

MARGIN = Fr(1, 2000)          # normalised slack above which float32 must agree with exact arithmetic
ATOL, RTOL, BATOL = "1/100000000", "1/100000", "1/100000"   # torch.isclose defaults; BARY_ATOL of parallelogram.py


def f32(x):
    import numpy as np
    return Fr(float(np.float32(float(x))))


def near_points(node, env, rng, out, fwd=lambda p: p):
    """points near the edges of every primitive leaf (in the leaf's frame, mapped forward through motions)"""
    k = node.kind
    deltas = [Fr(0), Fr(1, 10), Fr(-1, 10), Fr(1, 100), Fr(-1, 100), Fr(1, 1000), Fr(-1, 1000)]
    try:
        if k in ("par", "tri"):
            o, c1, c2 = [p.eval(env) for p in node.pfs]
            d1 = [c1[0] - o[0], c1[1] - o[1]]
            d2 = [c2[0] - o[0], c2[1] - o[1]]
            for _ in range(6):
                s = rng.choice([Fr(0), Fr(1), Fr(rng.randint(0, 16), 16)]) + rng.choice(deltas)
                t = rng.choice([Fr(0), Fr(1), Fr(rng.randint(0, 16), 16)]) + rng.choice(deltas)
                if k == "tri" and rng.random() < 0.4:
                    t = 1 - s + rng.choice(deltas)
                if rng.random() < 0.15:
                    # on the lines through the edges, beyond the corners
                    far = Fr(rng.choice([1, 2, 4]), 4) * rng.choice([1, -1])
                    s, t = rng.choice([(1 + far, -far), (Fr(0), 1 + abs(far)), (1 + abs(far), Fr(0)), (-abs(far), Fr(1)), (Fr(1), -abs(far))])
                out.append(fwd([o[0] + s * d1[0] + t * d2[0], o[1] + s * d1[1] + t * d2[1]]))
        elif k == "circle":
            (cx, cy), (r,) = node.pfs[0].eval(env), node.pfs[1].eval(env)
            for _ in range(5):
                dx, dy = rng.choice([(1, 0), (0, 1), (-1, 0), (0, -1), (Fr(3, 5), Fr(4, 5)), (Fr(-5, 13), Fr(12, 13))])
                rr = r * (1 + rng.choice(deltas))
                out.append(fwd([cx + rr * dx, cy + rr * dy]))
        elif k == "sphere":
            (cx, cy, cz), (r,) = node.pfs[0].eval(env), node.pfs[1].eval(env)
            for _ in range(5):
                d = rng.choice([(1, 0, 0), (0, 0, -1), (Fr(2, 3), Fr(1, 3), Fr(2, 3)), (Fr(-2, 7), Fr(3, 7), Fr(6, 7))])
                rr = r * (1 + rng.choice(deltas))
                out.append(fwd([cx + rr * d[0], cy + rr * d[1], cz + rr * d[2]]))
        elif k == "interval":
            (l,), (u,) = node.pfs[0].eval(env), node.pfs[1].eval(env)
            for _ in range(4):
                out.append(fwd([rng.choice([l, u, (l + u) / 2]) + (u - l) * rng.choice(deltas)]))
        elif k == "translate":
            t = node.pfs[0].eval(env)
            near_points(node.kids[0], env, rng, out, lambda p: fwd([a + b for a, b in zip(p, t)]))
        elif k == "rotate":
            m, ctr = node.pfs[0].eval(env), node.pfs[1].eval(env)
            def rot(p):
                qx, qy = p[0] - ctr[0], p[1] - ctr[1]
                return fwd([m[0] * qx + m[1] * qy + ctr[0], m[2] * qx + m[3] * qy + ctr[1]])
            near_points(node.kids[0], env, rng, out, rot)
        elif k in ("union", "cut", "inter", "bdry"):
            for kid in node.kids:
                near_points(kid, env, rng, out, fwd)
    except KeyError:
        pass


def far_tols(node):
    """the tolerances the library's boundary tests use for ONE primitive far from the origin, as (atol, rtol, batol) strings:
    barycentric: max(1e-5, 2.5e-7 * largest |coordinate| * L / |det|), L = larger 1-norm of the two edge vectors;
    ball:        atol + rtol*r = max(1e-8 + 1e-5 r, 2.5e-7 * (largest |centre coordinate| + r))"""
    prim = node.kids[0] if node.kind == "bdry" else node
    atol, rtol, batol = Fr(ATOL), Fr(RTOL), Fr(BATOL)
    if prim.kind in ("par", "tri"):
        o, c1, c2 = [pf.eval({}) for pf in prim.pfs]
        d1 = [c1[0] - o[0], c1[1] - o[1]]
        d2 = [c2[0] - o[0], c2[1] - o[1]]
        largest = max(abs(v_) for p_ in (o, c1, c2) for v_ in p_)
        det = abs(d1[0] * d2[1] - d1[1] * d2[0])
        L = max(abs(d1[0]) + abs(d1[1]), abs(d2[0]) + abs(d2[1]))
        batol = max(batol, Fr(25, 10 ** 8) * largest * L / det)
    elif prim.kind in ("circle", "sphere"):
        ctr, (r,) = prim.pfs[0].eval({}), prim.pfs[1].eval({})
        largest = max(abs(v_) for v_ in ctr) + abs(r)
        atol = max(atol + rtol * abs(r), Fr(25, 10 ** 8) * largest) - rtol * abs(r)
    return [common.q(atol), common.q(rtol), common.q(batol)]


def scale_tree(node, sc):
    """multiply every coordinate-valued parameter of the expression by `sc` (not the entries of a rotation matrix)"""
    for i, pf in enumerate(node.pfs):
        if node.kind == "rotate" and i == 0:
            continue
        pf.terms = [("*", geomgen.c(sc), t) if t[0] != "c" else geomgen.c(t[1] * sc) for t in pf.terms]
    for kid in node.kids:
        scale_tree(kid, sc)


def make_case(ctx, idx, force_mode=None):
    rng = ctx.rng
    top_op = None
    if force_mode and force_mode.startswith("bdry:"):
        force_mode, top_op = "bdry", force_mode.split(":")[1]
    mode = force_mode or rng.choice(["solid2", "solid2", "solid2", "solid1", "solid3", "prod", "prod", "bdry", "bdry", "bdry-adjacent", "bdry-contained", "far"])
    thin_case = False
    params = rng.choice([[], ["t"], ["t", "D"], ["t", "D"]])
    g = Gen(rng, params=params, p_default=0.5)   # parameter functions with a defaulted argument: supplied values must win
    depth = rng.choice([1, 2, 2, 3, 3]) if ctx.quick else rng.choice([1, 2, 3, 3, 4])
    if mode == "solid2":
        node = g.solid(depth, "x")
    elif mode == "solid1":
        g.allow_rotate = False
        node = g.solid(min(depth, 2), "y")
    elif mode == "solid3":
        node = g.solid(min(depth, 2), "z")
    elif mode == "prod":
        # first factor may depend on the second factor's variable (dependent product)
        gb = Gen(rng, params=params, p_default=0.5)
        b = gb.prim1("s")
        ga = Gen(rng, params=params + (["s"] if rng.random() < 0.6 else []), allow_translate=False, allow_rotate=False, p_default=0.5)
        a = ga.solid(min(depth, 2), "x")
        node = geomgen.Node("prod", None, [], [a, b])
    elif mode == "far":
        # ONE primitive (or its boundary) that is small compared to its distance from the origin: size 2^-k, offset up to 2^10.
        # The float32 rounding error of a point is ~6e-8 * |coordinate|; the boundary tests of the library use a tolerance
        # relative to the coordinates there (/repo 20d0b69, 214537b) — the model gets that effective tolerance (far_tols).
        params = []
        g = Gen(rng, params=[])
        prim = g.prim(rng.choice(["x", "x", "x", "z", "y"]))
        scale_tree(prim, Fr(2) ** rng.choice([-8, -6, -4, -2, 0]))
        make_thin = prim.kind in ("par", "tri") and rng.random() < 0.7
        thin_exp = rng.choice([5, 7, 9])
        off = [Fr(rng.choice([0, 1, -3, 30, 60, -500, 1000, 2000])) for _ in range(3)]
        for i_, pf in enumerate(prim.pfs):
            if prim.kind in ("circle", "sphere") and i_ == 1:
                continue            # the radius is not a position
            pf.terms = [geomgen.c(geomgen.pt_eval(t, {}) + off[j]) for j, t in enumerate(pf.terms)]
        if make_thin:
            # long and thin (aspect ratio 2^5 … 2^9), edges not axis-parallel in general: the tolerance of the barycentric tests
            # is governed by the LONGER edge (largest * L / |det|).  The moved corner is rounded to float32 (the library stores
            # float32 corners) and the short edge must stay well above the float32 resolution at that place (64 ulp).
            o_, c1_, c2_ = [pf_.eval({}) for pf_ in prim.pfs]
            th = Fr(1, 2 ** thin_exp)
            n2_ = [f32(o_[j] + th * (c2_[j] - o_[j])) for j in range(2)]
            d1_ = [c1_[j] - o_[j] for j in range(2)]
            d2_ = [n2_[j] - o_[j] for j in range(2)]
            ulp_ = max(abs(v_) for p_ in (o_, c1_, n2_) for v_ in p_) / 2 ** 23
            L_ = max(abs(d1_[0]) + abs(d1_[1]), abs(d2_[0]) + abs(d2_[1]))
            if abs(d1_[0] * d2_[1] - d1_[1] * d2_[0]) > 64 * ulp_ * L_:
                prim.pfs[2] = geomgen.PF([geomgen.c(v_) for v_ in n2_])
                thin_case = True
        node = geomgen.Node("bdry", None, [], [prim]) if rng.random() < 0.6 else prim
    elif mode == "bdry-adjacent":
        # union of two parallelograms that share an edge (an L-shape / strip built from blocks)
        params = []
        g = Gen(rng, params=[])
        while True:
            a = g.prim2("x")
            if a.kind == "par":
                break
        o, c1, c2 = [p_.eval({}) for p_ in a.pfs]
        d1 = [c1[0] - o[0], c1[1] - o[1]]
        sh = lambda pt: geomgen.PF([geomgen.c(pt[0] + d1[0]), geomgen.c(pt[1] + d1[1])])
        b = geomgen.Node("par", "x", [sh(o), sh(c1), sh(c2)])
        # half of them built as UnionDomain(a, b, disjoint=True): the flag must not change membership
        inner = geomgen.Node("union", None, [], [a, b] if rng.random() < 0.5 else [b, a],
                             flags=({"disjoint": True} if rng.random() < 0.5 else None))
        node = geomgen.Node("bdry", None, [], [inner])
    elif mode == "bdry-contained":
        # CutDomain(A, B, contained=True) with B inside A but touching A's boundary: B = the sub-parallelogram at A's
        # origin corner spanning s, t of A's edges.  The shared edge pieces are NOT boundary of A - B.
        params = []
        g = Gen(rng, params=[])
        while True:
            a = g.prim2("x")
            if a.kind == "par":
                break
        if rng.random() < 0.5:
            # axis-parallel with dyadic coordinates: every float32 operation of the membership tests is exact here, so the
            # implementation's answer on the shared edge is deterministic (it rejects) — no rounding excuse
            o0 = [geomgen.dy(rng, -2, 2), geomgen.dy(rng, -2, 2)]
            w, h = rng.choice([1, -1]) * geomgen.dy(rng, 0.5, 3), rng.choice([1, -1]) * geomgen.dy(rng, 0.5, 3)
            e1, e2 = ([w, 0], [0, h]) if rng.random() < 0.5 else ([0, h], [w, 0])
            cst0 = lambda pt: geomgen.PF([geomgen.c(pt[0]), geomgen.c(pt[1])])
            a = geomgen.Node("par", "x", [cst0(o0), cst0([o0[0] + e1[0], o0[1] + e1[1]]), cst0([o0[0] + e2[0], o0[1] + e2[1]])])
        o, c1, c2 = [p_.eval({}) for p_ in a.pfs]
        d1 = [c1[0] - o[0], c1[1] - o[1]]
        d2 = [c2[0] - o[0], c2[1] - o[1]]
        s_, t_ = rng.choice([(Fr(1, 2), Fr(1, 2)), (Fr(1), Fr(1, 2)), (Fr(1, 2), Fr(1)), (Fr(1, 4), Fr(3, 4)), (Fr(3, 4), Fr(1))])
        cst = lambda pt: geomgen.PF([geomgen.c(pt[0]), geomgen.c(pt[1])])
        b = geomgen.Node("par", "x", [cst(o), cst([o[0] + s_ * d1[0], o[1] + s_ * d1[1]]), cst([o[0] + t_ * d2[0], o[1] + t_ * d2[1]])])
        inner = geomgen.Node("cut", None, [], [a, b], flags=({"contained": True} if rng.random() < 0.8 else None))
        node = geomgen.Node("bdry", None, [], [inner]) if rng.random() < 0.8 else inner
    else:
        # boundaries, half of them of moved domains (Translate / Rotate about a pivot: their `.boundary` is the moved boundary)
        if rng.random() < 0.5:
            g.allow_rotate = False
            g.allow_translate = False
        var_ = rng.choice(["x", "x", "y", "z"])
        inner = g.solid(min(depth, 2) + (1 if g.allow_translate else 0), var_)
        if top_op:
            # a fixed share of boundaries of an intersection / cut / union (not left to the draw)
            for _ in range(60):
                if inner.kind == top_op:
                    break
                inner = g.solid(2, var_)
        node = geomgen.Node("bdry", None, [], [inner])
    if mode == "far":
        mode = "bdry" if node.kind == "bdry" else {"x": "solid2", "y": "solid1", "z": "solid3"}[node.vars()[0]]
        far_case = True
    else:
        far_case = False
    # a quarter of the plain expressions live at another length scale (all coordinates times a power of two: sizes 1e-3 … 1e3);
    # parameter values stay in [0, 1], rotation matrices are not scaled
    sc = Fr(1)
    if mode in ("solid2", "solid1", "solid3", "bdry") and rng.random() < 0.25:
        sc = Fr(2) ** rng.choice([-8, -4, 4, 7])
        scale_tree(node, sc)
    k = rng.choice([1, 2, 3]) if params else 0
    prow = [{p: [Fr(rng.randint(0, 16), 16)] for p in params} for _ in range(max(k, 1))]
    n = ctx.scale(36, 80)
    rows = []
    for i in range(n):
        env = prow[i % len(prow)]
        pt = {}
        for var in node.vars():
            d = geomgen.DIM[var]
            pt[var] = [Fr(rng.randint(-5 * 32, 5 * 32), 32) * sc for _ in range(d)]
        if far_case:
            # queries in a box of three times the primitive's size around it (random points of the plane would all be far outside)
            prim_ = node.kids[0] if node.kind == "bdry" else node
            pos = [pf_.eval({}) for i2, pf_ in enumerate(prim_.pfs) if not (prim_.kind in ("circle", "sphere") and i2 == 1)]
            ctr = [sum(p_[j] for p_ in pos) / len(pos) for j in range(len(pos[0]))]
            ext = max([abs(p_[j] - ctr[j]) for p_ in pos for j in range(len(ctr))] + ([prim_.pfs[1].eval({})[0]] if prim_.kind in ("circle", "sphere") else []))
            pt = {node.vars()[0]: [f32(ctr[j] + ext * Fr(rng.randint(-96, 96), 32)) for j in range(len(ctr))]}
        rows.append((pt, env))
    ring_rows = []
    if mode == "bdry-adjacent":
        # points on the open shared edge: c1 + t*(c2 - o)
        ring_rows = list(range(len(rows), len(rows) + 7))
        for t8 in (1, 2, 3, 4, 5, 6, 7):
            t = Fr(t8, 8)
            rows.append(({"x": [f32(c1[0] + t * (c2[0] - o[0])), f32(c1[1] + t * (c2[1] - o[1]))]}, {}))
        mode = "bdry"
    if mode == "bdry-contained":
        # points on the open shared edge pieces o + tau*s*d1 and o + tau*t*d2
        first = len(rows)
        for t8 in (1, 2, 3, 5, 6, 7):
            tau = Fr(t8, 8)
            rows.append(({"x": [f32(o[0] + tau * s_ * d1[0]), f32(o[1] + tau * s_ * d1[1])]}, {}))
            rows.append(({"x": [f32(o[0] + tau * t_ * d2[0]), f32(o[1] + tau * t_ * d2[1])]}, {}))
        ring_rows = list(range(first, len(rows)))
        mode = "bdry" if node.kind == "bdry" else "solid2"
    # near-edge points (only for single-variable expressions)
    if len(node.vars()) == 1:
        var = node.vars()[0]
        extra = []
        for env in prow:
            pts = []
            near_points(node, {k_: v_ for k_, v_ in env.items()}, rng, pts)
            extra += [({var: [f32(a) for a in p]}, env) for p in pts if len(p) == geomgen.DIM[var]]
        rng.shuffle(extra)
        rows += extra[: ctx.scale(40, 120)]
    # rows on the integer lattice: evaluated once more as int64 / int32 query points (and all rows as float64), see dtype_pass
    int_rows = []
    if not far_case:
        for i in range(24):
            env = prow[i % len(prow)]
            int_rows.append(len(rows))
            rows.append(({var: [Fr(rng.randint(-4, 4)) for _ in range(geomgen.DIM[var])] for var in node.vars()}, env))
    shared_cut = bool(ring_rows) and node.kind == "bdry" and node.kids[0].kind == "cut"
    axis_par = False
    if shared_cut:
        o_, c1_, c2_ = [p_.eval({}) for p_ in node.kids[0].kids[0].pfs]
        axis_par = all(0 in (c_[0] - o_[0], c_[1] - o_[1]) for c_ in (c1_, c2_))
    return dict(id=idx, mode=mode, scale=str(sc), int_rows=int_rows, thin=thin_case, tol=(far_tols(node) if far_case else None), shared_cut=shared_cut, axis_parallel=axis_par, adjacent=(node.kind == "bdry" and node.kids[0].kind == "union" and all(k.kind == "par" for k in node.kids[0].kids)
                                        and not node.free_vars() and bool(ring_rows)), ring_rows=ring_rows, dom=node.describe(), params=params,
                rows=[({k_: [str(a) for a in v_] for k_, v_ in pt.items()}, {k_: [str(a) for a in v_] for k_, v_ in env.items()})
                      for pt, env in rows])


def run_impl(case, qdtype=None, only=None):
    tp = common.use_repo()
    import torch
    qdt = getattr(torch, qdtype) if qdtype else torch.float32
    node = geomgen.from_json(case["dom"])
    # every second parameter-free (every fourth parameter-dependent) 2-D case realises the variable 'x' as R1('xa')*R1('xb') and hands the query
    # points over in the order (xb, xa): the domain has to pick its coordinates by NAME
    # (moved domains included: a Translate / Rotate over a space of several variables has to pick ITS columns by name too)
    split = (node.vars() == ["x"] and case.get("id", 0) % 2 == 0 and (not case["params"] or case.get("id", 0) % 4 == 2))
    geomgen.SPLIT_VARS = {"x": ["xa", "xb"]} if split else {}
    try:
        dom = node.to_tp(tp)
        rows = case["rows"] if only is None else [case["rows"][i] for i in only]
        vars_ = node.vars()
        if len(vars_) > 1 and case.get("id", 0) % 2 == 1:
            # the query points list the variables in another order than the domain's own space
            vars_ = vars_[1:] + vars_[:1] if case.get("id", 0) % 4 == 1 else vars_[::-1]
        cols = []
        for pt, _ in rows:
            r = []
            for var in vars_:
                vals = [float(Fr(a)) for a in pt[var]]
                r += vals[::-1] if split else vals
            cols.append(r)
        qspace = None
        for name in vars_:
            if split and name == "x":
                s_ = tp.spaces.R1("xb") * tp.spaces.R1("xa")
            else:
                s_ = {1: tp.spaces.R1, 2: tp.spaces.R2, 3: tp.spaces.R3}[geomgen.DIM[name]](name)
            qspace = s_ if qspace is None else qspace * s_
        if not qdt.is_floating_point:
            cols = [[int(round(v)) for v in r] for r in cols]
        pts = tp.spaces.Points(torch.tensor(cols, dtype=qdt), qspace)
        params = case["params"]
        if params:
            pspace = None
            for p in params:
                s = tp.spaces.R1(p)
                pspace = s if pspace is None else pspace * s
            pr = tp.spaces.Points(torch.tensor([[float(Fr(env[p][0])) for p in params] for _, env in rows], dtype=torch.float32), pspace)
        else:
            pr = tp.spaces.Points.empty()
        try:
            res = dom._contains(pts, pr)
        except Exception as e:  # noqa
            return dict(error=f"{type(e).__name__}: {str(e)[:200]}", split=split)
        shape = tuple(res.shape)
        return dict(bools=[bool(b) for b in res.reshape(-1).tolist()], shape=shape, split=split)
    finally:
        geomgen.SPLIT_VARS = {}


def driver_lines(case):
    node = geomgen.from_json(case["dom"])
    dt = node.tokens()
    lines = []
    for pt, env in case["rows"]:
        pe = {k: [Fr(a) for a in v] for k, v in pt.items()}
        ee = {k: [Fr(a) for a in v] for k, v in env.items()}
        a_, r_, b_ = case.get("tol") or (ATOL, RTOL, BATOL)
        lines.append(f"contains {a_} {r_} {b_} {dt} {env_tokens(pe)} {env_tokens(ee)}")
    return lines


def boundary_acceptance(case, rep):
    """own boundary samples must be accepted by the boundary's membership test"""
    tp = common.use_repo()
    import torch
    if case["mode"] != "bdry":
        return
    node = geomgen.from_json(case["dom"])
    B = node.to_tp(tp)
    params = case["params"]
    envs = []
    for _, env in case["rows"]:
        if env not in envs:
            envs.append(env)
    if params:
        pspace = None
        for p in params:
            s = tp.spaces.R1(p)
            pspace = s if pspace is None else pspace * s
        pr = tp.spaces.Points(torch.tensor([[float(Fr(env[p][0])) for p in params] for env in envs], dtype=torch.float32), pspace)
    else:
        pr = tp.spaces.Points.empty()
    n = 16
    torch.manual_seed(case["id"])
    hows = ["random", "grid", "random-n1"]
    if len(envs) <= 1:
        hows += ["random-density", "grid-density"]     # density sampling is defined for one parameter row
    for how in hows:
        try:
            if how == "random-n1":
                # ONE point per parameter row (the path a product domain takes for its first factor), several draws
                parts = [common.call_with_timeout(3, B.sample_random_uniform, n=1, params=pr) for _ in range(6)]
                if any(len(p_) != max(1, len(envs)) for p_ in parts):
                    rep.count("bdry-sampler-wrong-count:" + how)
                    continue
                s = tp.spaces.Points(torch.cat([p_.as_tensor for p_ in parts], dim=0), parts[0].space)
            elif how == "random":
                s = common.call_with_timeout(3, B.sample_random_uniform, n=n, params=pr)
            elif how == "grid":
                s = common.call_with_timeout(3, B.sample_grid, n=n, params=pr)
            elif how == "random-density":
                s = common.call_with_timeout(3, B.sample_random_uniform, d=6.0, params=pr)
            else:
                s = common.call_with_timeout(3, B.sample_grid, d=6.0, params=pr)
        except common.CallTimeout:
            rep.count("bdry-sampler-timeout:" + how)   # non-termination belongs to C01
            continue
        except Exception:
            rep.count("bdry-sampler-raised:" + how)   # sampling defects belong to C01/C02
            continue
        if how == "random-n1":
            rp = tp.spaces.Points(pr.as_tensor.repeat(6, 1), pr.space) if params else pr
        elif how.endswith("density"):
            if len(s) == 0:
                continue
            rp = tp.spaces.Points(pr.as_tensor.repeat(len(s), 1), pr.space) if params else pr
        else:
            if len(s) != n * max(1, len(envs)):
                rep.count("bdry-sampler-wrong-count:" + how)
                continue
            rp = tp.spaces.Points(torch.repeat_interleave(pr.as_tensor, n, dim=0), pr.space) if params else pr
        if not torch.isfinite(s.as_tensor).all():
            rep.count("bdry-sampler-nan:" + how)
            continue
        try:
            ok = B._contains(s, rp).reshape(-1)
        except Exception as e:
            rep.fail(f"boundary membership raised {type(e).__name__}: {str(e)[:160]} on the points of the boundary's own {how} sampler",
                     dict(dom=case["dom"], params=params, envs=envs, how=how, n=n, seed=case["id"]))
            continue
        rep.count("own-boundary-samples", len(ok))
        if not bool(ok.all()):
            bad = int((~ok).sum())
            i = int(torch.nonzero(~ok)[0])
            prim_kinds = sorted(set(k for k in node.kinds() if k in ("par", "tri", "circle", "sphere", "interval")))
            rep.fail(f"{bad} of {len(ok)} points produced by the boundary's own {how} sampler are rejected by its membership test; "
                     f"e.g. point {s.as_tensor[i].tolist()} (parameter row {i // n})",
                     dict(dom=case["dom"], params=params, envs=envs, how=how, n=n, seed=case["id"]),
                     finding=None)


def _param_points(tp, torch, params, envs):
    if not params:
        return tp.spaces.Points.empty()
    pspace = None
    for p_ in params:
        s_ = tp.spaces.R1(p_)
        pspace = s_ if pspace is None else pspace * s_
    return tp.spaces.Points(torch.tensor([[float(Fr(env[p_][0])) for p_ in params] for env in envs], dtype=torch.float32), pspace)


def moved_boundary_all(cases, rep):
    """`.boundary` of a translated / rotated domain is the moved boundary of the inner domain.  For boundary cases whose
    expression is a chain of motions around an inner domain D: (1) points of the library's sampler of D.boundary, moved
    FORWARD exactly (rational arithmetic on the sampled float32 values, the result handed over in float64), must be accepted
    by the moved domain's boundary test; (2) points of the moved boundary's own sampler, moved BACK exactly, must be accepted
    by D.boundary's test.  (Own-sample acceptance alone cannot see a boundary that is moved by another motion than the
    domain: such an object is self-consistent.)"""
    tp = common.use_repo()
    import torch
    for cs in cases:
        if cs["mode"] != "bdry" or cs.get("scale", "1") != "1" or cs.get("tol"):
            continue
        node = geomgen.from_json(cs["dom"])
        chain, cur = [], node.kids[0]
        while cur.kind in ("translate", "rotate"):
            chain.append(cur)
            cur = cur.kids[0]
        if not chain or len(node.vars()) != 1:
            continue
        var = node.vars()[0]
        params = cs["params"]
        envs = []
        for _, env in cs["rows"]:
            if env not in envs:
                envs.append(env)
        try:
            Bm = node.to_tp(tp)
            Bi = geomgen.Node("bdry", None, [], [cur]).to_tp(tp)
        except Exception:
            continue
        sp = {1: tp.spaces.R1, 2: tp.spaces.R2, 3: tp.spaces.R3}[geomgen.DIM[var]](var)

        def motion(m, e, p, forward):
            if m.kind == "translate":
                t = m.pfs[0].eval(e)
                return [a + b for a, b in zip(p, t)] if forward else [a - b for a, b in zip(p, t)]
            M, c = m.pfs[0].eval(e), m.pfs[1].eval(e)
            if not forward:
                det = M[0] * M[3] - M[1] * M[2]
                M = [M[3] / det, -M[1] / det, -M[2] / det, M[0] / det]
            qx, qy = p[0] - c[0], p[1] - c[1]
            return [M[0] * qx + M[1] * qy + c[0], M[2] * qx + M[3] * qy + c[1]]

        torch.manual_seed(cs["id"] + 11)
        for env in envs[:2]:
            e = {k: [Fr(a) for a in v_] for k, v_ in env.items()}
            pr = _param_points(tp, torch, params, [env])
            for direction, src, dst in (("forward", Bi, Bm), ("back", Bm, Bi)):
                try:
                    smp = common.call_with_timeout(3, src.sample_random_uniform, n=10, params=pr)
                except Exception:
                    rep.count("moved-boundary:sampler-failed")
                    continue
                if len(smp) != 10 or not torch.isfinite(smp.as_tensor).all():
                    rep.count("moved-boundary:sampler-failed")
                    continue
                pts = []
                for r in smp.as_tensor.tolist():
                    pnt = [Fr(x) for x in r]
                    for m in (reversed(chain) if direction == "forward" else chain):
                        pnt = motion(m, e, pnt, direction == "forward")
                    pts.append([float(x) for x in pnt])
                q = tp.spaces.Points(torch.tensor(pts, dtype=torch.float64), sp)
                prr = tp.spaces.Points(pr.as_tensor.repeat(len(pts), 1), pr.space) if params else pr
                try:
                    ok = dst._contains(q, prr).reshape(-1)
                except Exception as ex:
                    rep.fail(f"boundary membership raised {type(ex).__name__}: {str(ex)[:120]} on float64 points",
                             dict(dom=cs["dom"], params=env, direction=direction, seed=cs["id"]))
                    continue
                rep.count("moved-boundary:" + direction, len(pts))
                if not bool(ok.all()):
                    i = int(torch.nonzero(~ok)[0])
                    what = ("a point of the inner domain's boundary (the library's own boundary sample), moved by the same "
                            "translation / rotation, is rejected by the moved domain's boundary test" if direction == "forward" else
                            "a point of the moved domain's own boundary sampler, moved back by the inverse motion, is rejected by "
                            "the inner domain's boundary test: the boundary object is not the moved boundary of the inner domain")
                    rep.fail(f"{what}: {int((~ok).sum())} of {len(pts)} points, e.g. {pts[i]}",
                             dict(dom=cs["dom"], expression=node.tokens(), params=env, direction=direction, point=pts[i], seed=cs["id"],
                                  stream="moved-boundary"))


def operand_boundary_prepare(case, rep):
    """Boolean nodes: a point of an operand's boundary that lies strictly inside (intersection, cut-out
    part) resp. strictly outside (union, cut) the partner is a boundary point of the composite and must be
    accepted by the composite's boundary test.  'strictly' is decided by the exact model with margin.
    Phase 1: sample the operands' boundaries, return the driver requests."""
    tp = common.use_repo()
    import torch
    if case["mode"] != "bdry":
        return []
    node = geomgen.from_json(case["dom"])
    inner = node.kids[0]
    if inner.kind not in ("union", "cut", "inter"):
        return []
    a, b = inner.kids
    params = case["params"]
    envs = []
    for _, env in case["rows"]:
        if env not in envs:
            envs.append(env)
    pr = _param_points(tp, torch, params, envs)
    n = 20
    torch.manual_seed(case["id"] + 7)
    var = inner.vars()[0]
    jobs = []
    for which, src, partner in (("a", a, b), ("b", b, a)):
        try:
            S = geomgen.Node("bdry", None, [], [src]).to_tp(tp)
            s = common.call_with_timeout(3, S.sample_random_uniform, n=n, params=pr)
        except Exception:
            rep.count("operand-bdry-sampler-failed")
            continue
        if len(s) != n * max(1, len(envs)) or not torch.isfinite(s.as_tensor).all():
            rep.count("operand-bdry-sampler-failed")
            continue
        rows = s.as_tensor.tolist()
        lines = []
        for i, r in enumerate(rows):
            env = envs[i // n] if params else {}
            lines.append(f"contains {ATOL} {RTOL} {BATOL} {partner.tokens()} {env_tokens({var: [Fr(x) for x in r]})} "
                         f"{env_tokens({k: [Fr(x) for x in v_] for k, v_ in env.items()})}")
        jobs.append(dict(which=which, s=s, rows=rows, lines=lines, envs=envs, pr=pr, n=n, kind=inner.kind))
    return jobs


def operand_boundary_finish(case, job, replies, rep):
    tp = common.use_repo()
    import torch
    node = geomgen.from_json(case["dom"])
    B = node.to_tp(tp)
    params = case["params"]
    which, s, rows, envs, pr, n, kind = job["which"], job["s"], job["rows"], job["envs"], job["pr"], job["n"], job["kind"]
    want_inside = (kind == "inter") or (kind == "cut" and which == "b")
    keep = []
    for i, rl in enumerate(replies):
        bb, m = rl.split()
        if bb == "none" or Fr(m) <= MARGIN * 4:
            continue
        if (bb == "1") == want_inside:
            keep.append(i)
    if not keep:
        return
    rp = tp.spaces.Points(torch.repeat_interleave(pr.as_tensor, n, dim=0), pr.space) if params else pr
    try:
        ok = B._contains(s, rp).reshape(-1)
    except Exception as e:
        rep.fail(f"boundary membership raised {type(e).__name__}: {str(e)[:160]} on points of an operand's boundary",
                 dict(dom=case["dom"], params=params, envs=envs, how="operand-" + which, n=n, seed=case["id"]))
        return
    rep.count("operand-boundary-points", len(keep))
    bad = [i for i in keep if not bool(ok[i])]
    if bad:
        i = bad[0]
        rep.fail(f"{len(bad)} of {len(keep)} points of operand {which}'s boundary that lie strictly "
                 f"{'inside' if want_inside else 'outside'} the partner are rejected by the {kind} boundary's membership test; "
                 f"e.g. point {rows[i]} (parameter row {i // n})",
                 dict(dom=case["dom"], params=params, envs=envs, how="operand-" + which, n=n, seed=case["id"]))


def operand_boundary_all(cases, rep):
    jobs, lines = [], []
    for cs in cases:
        for job in operand_boundary_prepare(cs, rep):
            jobs.append((cs, job, len(lines), len(job["lines"])))
            lines += job["lines"]
    if not lines:
        return
    replies = common.run_driver("C05", lines)
    for cs, job, a, n in jobs:
        operand_boundary_finish(cs, job, replies[a:a + n], rep)


RING = [(Fr(1), Fr(0)), (Fr(0), Fr(1)), (Fr(-1), Fr(0)), (Fr(0), Fr(-1)), (Fr(3, 5), Fr(4, 5)), (Fr(-3, 5), Fr(4, 5)),
        (Fr(3, 5), Fr(-4, 5)), (Fr(-3, 5), Fr(-4, 5)), (Fr(4, 5), Fr(3, 5)), (Fr(-4, 5), Fr(3, 5)), (Fr(4, 5), Fr(-3, 5)),
        (Fr(-4, 5), Fr(-3, 5)), (Fr(5, 13), Fr(12, 13)), (Fr(-12, 13), Fr(5, 13)), (Fr(12, 13), Fr(-5, 13)), (Fr(-5, 13), Fr(-12, 13))]
RING_DELTA = Fr(1, 32)


def interior_acceptance_all(cases, results, rep):
    """'rejects points farther than the tolerance from the boundary': a 2-D point accepted by a boundary test
    whose whole neighbourhood of radius 1/32 (centre, 16 directions, two radii) lies inside the solid domain with
    margin (exact model) is an interior point of the set — accepting it is a failing input."""
    jobs, lines = [], []
    for cs, res in zip(cases, results):
        if cs["mode"] != "bdry" or "bools" not in res:
            continue
        if cs.get("tol"):
            continue    # far-from-origin primitives: the probe radius and the margin are not scaled to them (judged by the margin rule)
        node = geomgen.from_json(cs["dom"])
        if node.vars() != ["x"]:
            continue
        solid = node.kids[0].tokens()
        acc = [i for i, b in enumerate(res["bools"]) if b]
        picked = sorted(set(acc[:20] + acc[-20:] + [i for i in cs.get("ring_rows", []) if res["bools"][i]]))
        for i in picked:
            pt, env = cs["rows"][i]
            x, y = [Fr(a) for a in pt["x"]]
            ee = {k: [Fr(a) for a in v] for k, v in env.items()}
            ls = []
            rd = RING_DELTA * Fr(cs.get("scale", "1"))
            for rad in (rd, rd / 2):
                for dx, dy in RING:
                    ls.append(f"sd {solid} {env_tokens({'x': [x + rad * dx, y + rad * dy]})} {env_tokens(ee)}")
            ls.append(f"sd {solid} {env_tokens({'x': [x, y]})} {env_tokens(ee)}")
            if cs.get("shared_cut"):
                # exact position of the (float) point relative to the removed operand B
                ls.append(f"sd {node.kids[0].kids[1].tokens()} {env_tokens({'x': [x, y]})} {env_tokens(ee)}")
            # is the point itself a member of the solid (exact)?  a member whose neighbours are outside IS a boundary point
            ls.append(f"contains {ATOL} {RTOL} {BATOL} {solid} {env_tokens({'x': [x, y]})} {env_tokens(ee)}")
            jobs.append((cs, i, len(lines), len(ls)))
            lines += ls
    if not lines:
        return
    replies = common.run_driver("C05", lines)
    for cs, i, a, n in jobs:
        rs = replies[a:a + n]
        rep.count("accepted-boundary-points-ring-tested")
        if any(r == "none" for r in rs):
            continue
        member = rs[-1].split()[0]
        rs = rs[:-1]
        sd_b = None
        if cs.get("shared_cut"):
            sd_b = Fr(rs[-1])
            rs = rs[:-1]
        vals = [Fr(r) for r in rs]
        pt, env = cs["rows"][i]
        where = dict(dom=cs["dom"], expression=geomgen.from_json(cs["dom"]).tokens(), point=pt, params=env)
        # no probe outside the set, and all but a few (those on a line through the point) strictly inside
        if all(v_ >= 0 for v_ in vals) and sum(1 for v_ in vals if v_ > MARGIN) >= len(vals) - 5:
            finding = "union_shared_boundary_piece" if cs.get("adjacent") else None
            rep.fail(f"boundary membership accepts the point {[float(Fr(a)) for a in pt['x']]}, but none of 33 probe points within "
                     f"distance {float(RING_DELTA)} of it lies outside the domain and at least 28 lie strictly inside (exact signed CSG margin): it is an interior point, farther than the tolerance from the boundary",
                     where, finding=finding)
        # every probe (and the point itself) strictly outside the set: an exterior point
        elif (all(v_ < -MARGIN for v_ in vals) or
              # a point ON a primitive's edge (zero signed margin) is judged only in the constructed shared-edge configuration,
              # where the geometry is known (B covers A's side of the piece): in general a thin wedge or sliver of the set can
              # pass between the 32 probes, so "no probe inside" does not make a corner or crossing point an exterior point
              (cs.get("shared_cut") and i in cs.get("ring_rows", []) and member == "0" and all(v_ <= 0 for v_ in vals)
               and sum(1 for v_ in vals if v_ < -MARGIN) >= len(vals) - 5)):
            # known: on a slanted shared edge the sharp `not in B` test of CutBoundaryDomain is decided by float32 rounding (the exact
            # position of the float point relative to B is within 1e-5 of the edge), so about half of those points are accepted;
            # on an axis-parallel dyadic configuration every float operation is exact, the unchanged code rejects, and accepting
            # is a new violation
            finding = "cut_shared_boundary_piece" if (sd_b is not None and not cs.get("axis_parallel") and abs(sd_b) < Fr(1, 10 ** 5)) else None
            rep.count("shared-cut-edge:" + ("slanted(sharp test undecidable in float32)" if finding else "axis-parallel(exact)") if sd_b is not None else "exterior-ring")
            rep.fail(f"boundary membership accepts the point {[float(Fr(a)) for a in pt['x']]}, but no probe point within distance "
                     f"{float(RING_DELTA)} of it lies inside the domain and at least 28 of 33 lie strictly outside (exact signed CSG margin): "
                     f"it is farther than the tolerance from the boundary", where, finding=finding)


def _prim_leaves(node):
    if node.is_prim():
        return [node]
    out = []
    for k_ in node.kids:
        out += _prim_leaves(k_)
    return out


def slice_stream(ctx, rep):
    """products evaluated at ALL variables of a multi-variable factor (`P(**values)`, keywords in any order):
    the result must be the slice — membership = membership of the full product at the fixed values, and points whose
    fixed coordinates differ from the values (e.g. swapped) are rejected.  (Partial evaluation as such is C17's; this
    stream keeps 'a product is the conjunction of its factors' honest for evaluated products.)"""
    tp = common.use_repo()
    import torch
    rng = ctx.rng
    cases, lines = [], []
    for idx in range(ctx.scale(30, 300)):
        g = Gen(rng, params=["s"] if rng.random() < 0.5 else [], allow_rotate=False, allow_translate=False)
        a = g.solid(rng.choice([1, 2]), "x")
        gi = Gen(rng, params=[])
        b = geomgen.Node("prod", None, [], [gi.prim1("s"), gi.prim1("y")])
        node = geomgen.Node("prod", None, [], [a, b])
        # values strictly inside the intervals, different from each other by at least 1/4
        def inside(iv):
            (l,), (u,) = iv.pfs[0].eval({}), iv.pfs[1].eval({})
            return l + (u - l) * Fr(rng.randint(2, 6), 8)
        s0, y0 = inside(b.kids[0]), inside(b.kids[1])
        if abs(s0 - y0) < Fr(1, 4):
            continue
        order = rng.choice([("s", "y"), ("y", "s")])
        # (1,1) tensors: the generated parameter functions index their arguments like batched tensors
        vals = {"s": torch.tensor([[float(s0)]]), "y": torch.tensor([[float(y0)]])}
        try:
            P = node.to_tp(tp)
            sliced = P(**{k: vals[k] for k in order})
        except Exception as e:
            rep.fail(f"evaluating a product at all variables of its second factor raised {type(e).__name__}: {str(e)[:150]}",
                     dict(dom=node.describe(), call_order=list(order), values={k: str(v) for k, v in (("s", s0), ("y", y0))}))
            continue
        xs = [[Fr(rng.randint(-5 * 16, 5 * 16), 16), Fr(rng.randint(-5 * 16, 5 * 16), 16)] for _ in range(8)]
        # … and points at / around the centroids of the primitives of the first factor at s = s0, so that the slice is not
        # only probed from outside (a stream whose random points all miss the shape decides nothing about "on" and "swapped" rows)
        for leaf in [l_ for l_ in _prim_leaves(a) if l_.kind in ("par", "tri", "circle")][:3]:
            try:
                pos = [pf_.eval({"s": [s0]}) for pf_ in (leaf.pfs[:1] if leaf.kind == "circle" else leaf.pfs)]
            except Exception:  # noqa
                continue
            if leaf.kind == "par":
                cen = [pos[1][j] / 2 + pos[2][j] / 2 for j in range(2)]
            else:
                cen = [sum(p_[j] for p_ in pos) / len(pos) for j in range(2)]
            xs.append([f32(cen[0]), f32(cen[1])])
            xs.append([f32(cen[0] + Fr(rng.randint(-2, 2), 16)), f32(cen[1] + Fr(rng.randint(-2, 2), 16))])
        rows = []
        for x in xs:
            rows.append(("on", x, s0, y0))
            rows.append(("swapped", x, y0, s0))
            rows.append(("off", x, s0 + Fr(1, 8), y0))
        t = torch.tensor([[float(x[0]), float(x[1]), float(sv), float(yv)] for _, x, sv, yv in rows], dtype=torch.float32)
        try:
            res = sliced._contains(tp.spaces.Points(t, node.space(tp))).reshape(-1).tolist()
        except Exception as e:
            rep.fail(f"membership of an evaluated product raised {type(e).__name__}: {str(e)[:150]}",
                     dict(dom=node.describe(), call_order=list(order)))
            continue
        dt = node.tokens()
        ls = [f"contains {ATOL} {RTOL} {BATOL} {dt} {env_tokens({'x': x, 's': [s0], 'y': [y0]})} 0" for x in xs]
        cases.append((node, order, s0, y0, rows, res, len(lines), len(ls)))
        lines += ls
    if not lines:
        return
    replies = common.run_driver("C05", lines)
    for node, order, s0, y0, rows, res, a0, n in cases:
        rep.case(dict(dom=node.describe(), order=order), True, kind="prod-slice",
                 sample=dict(expression=node.tokens(), call=f"P({order[0]}=…, {order[1]}=…)", s=str(s0), y=str(y0)))
        rep.count("mode:prod-slice")
        full = {}
        for (kind, x, sv, yv), rl in zip(rows[0::3], replies[a0:a0 + n]):
            full[tuple(x)] = rl.split()
        for (kind, x, sv, yv), got in zip(rows, res):
            b, m = full[tuple(x)]
            where = dict(dom=node.describe(), expression=node.tokens(), call_order=list(order), fixed=dict(s=str(s0), y=str(y0)),
                         point=dict(x=[str(v_) for v_ in x], s=str(sv), y=str(yv)))
            if kind == "on":
                if b != "none" and Fr(m) > MARGIN and bool(got) != (b == "1"):
                    rep.fail(f"P({order[0]}=…, {order[1]}=…) answers {bool(got)} for a point of the slice although the full product "
                             f"{'contains' if b == '1' else 'does not contain'} it at these values (exact evaluation)", where)
            elif got:
                rep.fail(f"P({order[0]}=…, {order[1]}=…) accepts a point whose fixed coordinates are ({float(sv)}, {float(yv)}) instead of ({float(s0)}, {float(y0)})", where)


def family_stream(ctx, rep):
    """several evaluated copies of ONE parent: `D1 = D(t=v1); D2 = D(t=v2); …` — every copy (the EARLIER ones too, after the
    later ones were made) and the parent afterwards must answer membership for their own values: copy i at rows of the other
    parameter D agrees with the exact model of the original expression at {t: v_i, D: row}; the parent with full rows agrees
    with the model.  (Evaluation returns a new object and leaves parent and siblings unchanged — C17 owns partial evaluation
    as such; this keeps 'parameter-dependent shapes are evaluated with each point's own parameter row' honest for objects
    that share a parent.)  Parameter functions depend on BOTH parameters so that fixing t is a partial evaluation."""
    tp = common.use_repo()
    import torch
    rng = ctx.rng
    jobs, lines = [], []
    for idx in range(ctx.scale(16, 240)):
        # no declared default arguments here: with `def f(t, D=…)` the call D(t=v) is a COMPLETE evaluation (absent optional
        # names take their defaults) and the copy rightly ignores later rows of D
        g = Gen(rng, params=["t", "D"], p_dep=0.9, p_default=0.0, allow_rotate=True)
        g.p_two = True
        inner = g.solid(rng.choice([1, 2, 2]), "x")
        node = geomgen.Node("bdry", None, [], [inner]) if rng.random() < 0.3 else inner
        if not ({"t", "D"} <= set(node.free_vars())):
            continue
        tvals = rng.sample([Fr(k, 8) for k in range(0, 9)], rng.choice([2, 3]))
        drows = [Fr(rng.randint(0, 16), 16) for _ in range(3)]
        try:
            parent = node.to_tp(tp)
            copies = [parent(t=torch.tensor([[float(v)]])) for v in tvals]         # all copies first
        except Exception as e:
            rep.fail(f"evaluating a domain at one of its two parameters raised {type(e).__name__}: {str(e)[:150]}",
                     dict(stream="family", dom=node.describe(), tvals=[str(v) for v in tvals]))
            continue
        pts = []
        for d in drows:
            for v in tvals:
                near = []
                near_points(inner, {"t": [v], "D": [d]}, rng, near)
                pts += [([f32(a) for a in p_], d) for p_ in near[:4] if len(p_) == 2]
            pts += [([Fr(rng.randint(-5 * 32, 5 * 32), 32) for _ in range(2)], d) for _ in range(4)]
        X = tp.spaces.R2("x")
        q = tp.spaces.Points(torch.tensor([[float(a) for a in p_] for p_, _ in pts], dtype=torch.float32), X)
        Dp = tp.spaces.Points(torch.tensor([[float(d)] for _, d in pts], dtype=torch.float32), tp.spaces.R1("D"))
        answers = []
        try:
            for cp in copies:                      # earliest copy first, after ALL copies exist
                answers.append(cp._contains(q, Dp).reshape(-1).tolist())
            full = []
            for v in tvals:                        # and the parent, with complete rows
                TD = tp.spaces.Points(torch.tensor([[float(v), float(d)] for _, d in pts], dtype=torch.float32),
                                      tp.spaces.R1("t") * tp.spaces.R1("D"))
                full.append(parent._contains(q, TD).reshape(-1).tolist())
        except Exception as e:
            rep.fail(f"membership of an evaluated copy / of the parent after the evaluations raised {type(e).__name__}: {str(e)[:150]}",
                     dict(stream="family", dom=node.describe(), tvals=[str(v) for v in tvals]))
            continue
        dt = node.tokens()
        op = "contains"
        a0 = len(lines)
        for v in tvals:
            for p_, d in pts:
                lines.append(f"{op} {ATOL} {RTOL} {BATOL} {dt} {env_tokens({'x': p_})} {env_tokens({'t': [v], 'D': [d]})}")
        jobs.append((node, tvals, pts, answers, full, a0))
    if not lines:
        return
    replies = common.run_driver("C05", lines)
    for node, tvals, pts, answers, full, a0 in jobs:
        rep.case(dict(dom=node.describe(), tvals=[str(v) for v in tvals]), True, kind="family",
                 sample=dict(expression=node.tokens(), copies=[f"D(t={v})" for v in tvals]))
        rep.count("mode:family-of-evaluated-copies")
        rep.count("family:copies=%d" % len(tvals))
        n = len(pts)
        for i, v in enumerate(tvals):
            for j, (p_, d) in enumerate(pts):
                b, m = replies[a0 + i * n + j].split()
                if b == "none" or Fr(m) <= MARGIN:
                    continue
                want = b == "1"
                where = dict(stream="family", dom=node.describe(), expression=node.tokens(), tvals=[str(x) for x in tvals], copy=i,
                             point=[str(a) for a in p_], D=str(d))
                if bool(answers[i][j]) != want:
                    rep.fail(f"copy #{i} = D(t={v}) of {len(tvals)} copies of one parent answers {bool(answers[i][j])} for a point that is "
                             f"{'inside' if want else 'outside'} the set at t={v}, D={d} (exact evaluation, slack {float(Fr(m)):.3g}); "
                             f"the copies were all made before any was used", where)
                if bool(full[i][j]) != want:
                    rep.fail(f"after {len(tvals)} evaluations D(t=…) the PARENT answers {bool(full[i][j])} at the row t={v}, D={d} for a point that is "
                             f"{'inside' if want else 'outside'} (exact evaluation)", where)


# ------------------------------------------------------------------------------------------------------------------
# three-valued (Kleene) evaluation of the membership formulas for rows the margin rule leaves undecided

PRIMS = ("interval", "par", "tri", "circle", "sphere")


def kleene_all(cases, results, undecided, rep):
    """Rows of boundary cases that the margin rule skipped (a point ON the boundary has a closeness slack of the size of the
    tolerance, far below the margin) are decided leaf by leaf BY THE MODEL (driver op `kleene` = `TPV.Geom.kleeneBdry`): motions
    are pushed down to the primitives; a leaf's interior test counts if its slack exceeds the margin; a leaf's boundary test
    counts as TRUE if the exact model accepts with a QUARTER of the tolerances (deep inside the band) and as FALSE if it
    rejects with FOUR times the tolerances (far outside); the composite's formula is then evaluated in Kleene logic.
    Proved (lean/TPV/Props/C05Kleene.lean, `kleeneBdry_sound_per_leaf`): a definite value is the value of the coded formula on
    ANY leaf answers whose boundary tests behave like the exact test at some tolerance inside that sandwich — i.e. what every
    implementation whose float error stays below 3/4 of the band must return."""
    jobs, lines = [], []
    for ci, rows in undecided.items():
        cs, res = cases[ci], results[ci]
        node = geomgen.from_json(cs["dom"])
        if cs["mode"] != "bdry" or node.kind != "bdry" or "bools" not in res:
            continue
        if any(kd in ("bdryL", "bdryR", "bdry") for kd in node.kids[0].kinds()):
            continue
        a_, r_, b_ = [Fr(x) for x in (cs.get("tol") or (ATOL, RTOL, BATOL))]
        tk = node.kids[0].tokens()
        for ri in rows[:40]:
            pt, env = cs["rows"][ri]
            pe = env_tokens({k: [Fr(v) for v in vs] for k, vs in pt.items()})
            ee = env_tokens({k: [Fr(v) for v in vs] for k, vs in env.items()})
            lines.append(f"kleene {common.q(a_)} {common.q(r_)} {common.q(b_)} {common.q(Fr(MARGIN))} {tk} {pe} {ee}")
            jobs.append((ci, ri))
    if not lines:
        return
    replies = common.run_driver("C05", lines)
    for (ci, ri), reply in zip(jobs, replies):
        cs, res = cases[ci], results[ci]
        reply = reply.strip()
        if reply not in ("0", "1"):
            rep.count("kleene:undecided" if reply == "u" else "kleene:" + reply.split()[0])
            continue
        val = reply == "1"
        rep.count("kleene:decided-" + ("on-boundary" if val else "off-boundary"))
        got = res["bools"][ri]
        if bool(got) != val:
            node = geomgen.from_json(cs["dom"])
            pt, env = cs["rows"][ri]
            rep.fail(f"boundary membership answers {bool(got)}, but evaluated leaf by leaf the point is {'on' if val else 'off'} the boundary of the "
                     f"composite: every leaf test that matters is decided (interior tests with margin, boundary tests deep inside a quarter / "
                     f"far outside four times the tolerance band) and the coded formula gives {val} (theorem kleeneBdry_sound_per_leaf)",
                     dict(dom=cs["dom"], expression=node.tokens(), point=pt, params=env))


def compare_rows(cs, node, idxs, bools, replies, rep, label=""):
    """the margin rule on the rows `idxs` of a case; returns the rows it could not decide"""
    skipped = []
    for ri_, got in zip(idxs, bools):
        (pt, env), rl = cs["rows"][ri_], replies[ri_]
        b, m = rl.split()
        if b == "none":
            rep.disagree("drivers/C05.lean contains: model rejects an input the implementation accepts",
                         dict(dom=cs["dom"], point=pt, params=env), got, rl)
            continue
        mg = Fr(m)
        if mg > MARGIN:
            rep.count("decided-with-margin" + label)
            if got != (b == "1"):
                what = ("boundary membership" if cs["mode"] == "bdry" else "membership")
                inp = dict(dom=cs["dom"], expression=node.tokens(), point=pt, params=env)
                if label:
                    inp["qdtype"] = label.strip(" ()").split()[0]
                rep.fail(f"{what} test{label} answers {got} but the point is {'inside' if b == '1' else 'outside'} the denoted set "
                         f"(exact evaluation, smallest comparison slack {float(mg):.3g})", inp)
        else:
            rep.count("within-margin(skipped)" + label)
            skipped.append(ri_)
    return skipped


def dtype_pass(cs, node, replies, rep):
    """The same rows handed over in ANOTHER dtype than float32: all rows as float64, the integer-lattice rows as int64 / int32
    tensors (legal: a lattice of indices, pixel centres …).  The parameters stay float32 — a float parameter row must not be
    cast to the dtype of the points.  The library refuses integer points for Parallelogram / Triangle with a RuntimeError
    ("result type Float can't be cast …", an in-place subtraction) — a refusal, not a wrong answer: counted, not reported."""
    if cs.get("alt_dtype"):
        alts = [cs["alt_dtype"]]
    else:
        alts = ["float64"] if cs.get("id", 0) % 3 == 0 else []
        alts.append(["int64", "int32"][cs.get("id", 0) % 2])
    for alt in alts:
        _dtype_pass(cs, node, replies, rep, alt)


def _dtype_pass(cs, node, replies, rep, alt):
    idxs = list(range(len(cs["rows"]))) if alt == "float64" else list(cs.get("int_rows") or [])
    if cs.get("tol") or not idxs:
        return
    res = run_impl(cs, qdtype=alt, only=idxs)
    label = f" ({alt} query points)"
    rep.count("dtype-pass:" + alt)
    if "error" in res:
        if all(replies[i].startswith("none") for i in idxs):
            return
        if alt != "float64" and "can't be cast to the desired output type" in res["error"] and any(k in ("par", "tri") for k in node.kinds()):
            rep.count("dtype-pass:integer points refused by Parallelogram/Triangle (RuntimeError)")
            return
        rep.fail(f"_contains raised {res['error']} for {alt} query points on a well-formed expression",
                 dict(dom=cs["dom"], expression=node.tokens(), point=cs["rows"][idxs[0]][0], params=cs["rows"][idxs[0]][1], qdtype=alt))
        return
    if res["shape"] != (len(idxs), 1):
        rep.fail(f"_contains returned shape {res['shape']} for {len(idxs)} rows of {alt} query points",
                 dict(dom=cs["dom"], expression=node.tokens(), point=cs["rows"][idxs[0]][0], params=cs["rows"][idxs[0]][1], qdtype=alt))
        return
    compare_rows(cs, node, idxs, res["bools"], replies, rep, label)


def run(ctx, rep, cases=None):
    rep.rule = ("domain expressions generated from the public constructors (depth in input_distribution), parameter-dependent shapes, "
                "1-3 parameter rows paired row-wise with the query points; queries = random dyadic points + points at relative "
                "distances 0, ±1e-1, ±1e-2, ±1e-3 from the edges of every primitive; non-trivial = expression has an operation node or "
                "parameter dependence; distinct = distinct (expression, rows)")
    fresh = cases is None
    if cases is None:
        cases = [make_case(ctx, i) for i in range(ctx.scale(150, 2500))]
        # primitives far from the origin (half of the parallelograms / triangles long and thin): a fixed share, not left to the draw
        cases += [make_case(ctx, len(cases) + i, force_mode="far") for i in range(ctx.scale(40, 400))]
        cases += [make_case(ctx, len(cases) + i, force_mode="bdry:" + ["inter", "cut", "inter", "union"][i % 4]) for i in range(ctx.scale(16, 240))]
    lines, spans = [], []
    for cs in cases:
        ls = driver_lines(cs)
        spans.append((len(lines), len(ls)))
        lines += ls
    replies = common.run_driver("C05", lines)
    results = []
    undecided = {}
    for cs, (a, n) in zip(cases, spans):
        node = geomgen.from_json(cs["dom"])
        rep.count("mode:" + cs["mode"])
        if cs.get("scale", "1") != "1":
            rep.count("length-scale:" + cs["scale"])
        if cs.get("tol"):
            rep.count("far-from-origin primitive" + (" (tolerance relative to the coordinates in force)" if cs["tol"] != [ATOL, RTOL, BATOL] else ""))
        if '"default ' in json.dumps(cs["dom"]):
            rep.count("parameter-function-with-defaulted-argument")
        if len(node.vars()) > 1 and cs.get("id", 0) % 2 == 1:
            rep.count("query-variables-permuted")
        rep.count("depth:%d" % node.depth())
        for kd in set(node.kinds()):
            rep.count("node:" + kd)
        rep.count("param-rows:%d" % len({str(e) for _, e in cs["rows"]}) if cs["params"] else "param-rows:0")
        res = run_impl(cs)
        results.append(res)
        if res.get("split"):
            rep.count("2-D variable realised as R1*R1, query order swapped")
        nontrivial = node.depth() > 1 or bool(node.free_vars())
        rep.case(dict(dom=cs["dom"], rows=len(cs["rows"])), nontrivial,
                 sample=dict(expression=node.tokens(), first_query=cs["rows"][0], implementation=(res.get("bools") or [res])[0],
                             model=replies[a]), kind=cs["mode"])
        if "error" in res:
            if all(r.startswith("none") for r in replies[a:a + n]):
                rep.count("both-reject")
                continue
            rep.fail(f"_contains raised {res['error']} on a well-formed expression", dict(dom=cs["dom"], params=cs["params"], rows=cs["rows"][:3]))
            continue
        if res["shape"] != (len(cs["rows"]), 1) or len(res["bools"]) != len(cs["rows"]):
            rep.fail(f"_contains returned shape {res['shape']} for {len(cs['rows'])} rows (one truth value per row expected)",
                     dict(dom=cs["dom"], params=cs["params"], rows=cs["rows"][:3]))
            continue
        for ri_ in compare_rows(cs, node, range(len(cs["rows"])), res["bools"], replies[a:a + n], rep):
            undecided.setdefault(len(results) - 1, []).append(ri_)
        dtype_pass(cs, node, replies[a:a + n], rep)
        boundary_acceptance(cs, rep)
    kleene_all(cases, results, undecided, rep)
    operand_boundary_all(cases, rep)
    moved_boundary_all(cases, rep)
    interior_acceptance_all(cases, results, rep)
    if fresh:
        slice_stream(ctx, rep)
        family_stream(ctx, rep)
        # ShapelyPolygon against the Lean polygon model (lean/TPV/Model/Polygon.lean, Props/Polygon.lean)
        import polygon
        polygon.run_stream(ctx, rep)
        # Point (and products with points), 3-D rotation, TrimeshPolyhedron against lean/TPV/Model/GeomExtra.lean
        import geomextra
        geomextra.run_stream(ctx, rep)


def replay(ctx, obj):
    rep = common.Report(ctx)
    lean = common.lean_check("C05")
    inp = (obj.get("failing_input") or obj.get("first"))["input"]
    if inp.get("stream") == "polygon":
        import polygon
        polygon.replay(ctx, rep, inp)
        return common.finish(ctx, rep, lean)
    if inp.get("stream") == "geomextra":
        import geomextra
        geomextra.replay(ctx, rep, inp)
        return common.finish(ctx, rep, lean)
    if inp.get("stream") == "moved-boundary":
        case = dict(id=inp.get("seed", 0), mode="bdry", dom=inp["dom"], params=sorted(inp["params"].keys()), rows=[({}, inp["params"])])
        moved_boundary_all([case], rep)
        return common.finish(ctx, rep, lean)
    if "point" in inp:
        case = dict(id=0, mode="replay", dom=inp["dom"], params=sorted(inp["params"].keys()), rows=[(inp["point"], inp["params"])],
                    alt_dtype=inp.get("qdtype"), int_rows=[0] if inp.get("qdtype") else [])
        run(ctx, rep, [case])
    else:
        case = dict(id=inp.get("seed", 0), mode="bdry", dom=inp["dom"], params=inp["params"], rows=[({}, e) for e in inp["envs"]])
        boundary_acceptance(case, rep)
        operand_boundary_all([case], rep)
    return common.finish(ctx, rep, lean)
