"""C04 — a condition's loss is reduce(error(residual)) on exactly its sampled points.

Correspondence: generated conditions (all condition classes, static / non-static samplers, learnable
parameters, data functions, permuted space orders, custom error/reduce) are run on the real code with
recording samplers and residual / data functions that record their arguments; the same case is sent
to the Lean driver (drivers/C04.lean, exact rationals).  Compared: loss, residual table, and the value
bound to every residual parameter for every row.
Oracles (independent of the Lean model, exact Fractions): the documented reduction recomputed from
the residual values; every named argument recomputed by NAME from the recorded points."""
import math
from fractions import Fraction

import common
from common import lst
import cond_common as cc
from cond_common import (pe_tok, pe_frac, pe_torch, pe_D, pe_from_json, pe_to_json, scalar_vars, dim_of,
                         tok_space, tok_table, tok_named, tok_ufun, tok_net, der_name, classes, mk_space,
                         Recorder, tensor_rows, mk_user_fn, close, rows_close)

F = Fraction
VARS = ["x", "t", "y", "z"]
OUTS = ["u", "v", "w"]
PARS = ["D", "k"]
DATA = ["f", "g"]


def js(x):
    return str(F(x))


def jrows(rows):
    return [[js(v) for v in r] for r in rows]


def prow(rows):
    return [[F(v) for v in r] for r in rows]


# ------------------------------------------------------------------------------------------------
# generators (case = JSON-able dict; fractions as strings, PE as nested lists)

def gen_space(rng, pool, kmin, kmax, dmax=2):
    names = rng.sample(pool, rng.randint(kmin, min(kmax, len(pool))))
    return [[n, rng.randint(1, dmax)] for n in names]


def gen_rows(rng, n, d):
    return [[js(cc.dy(rng)) for _ in range(d)] for _ in range(n)]


FORMS = ["def"] * 6 + ["lambda", "method", "object", "kwonly"]


def gen_fn(rng, name, avail, outdim, deg=2, allow_default=True):
    """a user function over a random non-empty subset of the available named vectors, in random order, with
    0-3 declared defaults of DIFFERENT values that nobody supplies, possibly one defaulted argument whose name
    IS supplied (the supplied value must win), declared as def / lambda / bound method / callable object /
    with keyword-only parameters"""
    k = rng.randint(1, min(3, len(avail)))
    chosen = rng.sample(avail, k)
    params = [n for n, _ in chosen]
    sv = scalar_vars(chosen)
    defaults = []
    if allow_default:
        rest = [a for a in avail if a not in chosen and a[1] == 1]
        if rest and rng.random() < 0.25:
            # e.g. `def g(t, x=0.5)` on points that contain x: the default is NOT used
            nm = rng.choice(rest)[0]
            params.append(nm)
            defaults.append([nm, [js(cc.dy(rng, 1, 6, 2))]])
            sv = sv + [(nm, 0)]
        nd = rng.choice([0, 0, 0, 1, 2, 2, 3])
        base = ["a", "b", "c"] if name != "resid" else ["c0", "c1", "c2"]
        vals = rng.sample([F(m, 2) for m in range(1, 9)], nd)
        for dn, v in zip(base, vals):
            params.append(dn)
            defaults.append([dn, [js(v)]])
            sv = sv + [(dn, 0)]
    body = [pe_to_json(cc.gen_pe(rng, sv, deg)) for _ in range(outdim)]
    for dn, _ in defaults[-2:]:
        # make sure the declared defaults matter
        body[0] = ["+", body[0], ["*", ["c", js(cc.dy(rng, 1, 4, 2))], ["v", dn, 0]]]
    form = rng.choice(FORMS)
    kwonly = 0
    if form == "kwonly":
        form = "def"
        kwonly = rng.randint(1, len(params) - 1) if (not defaults and len(params) >= 2) else 0
    spec = dict(name=name, params=params, defaults=defaults, body=body, form=form, kwonly=kwonly)
    if allow_default and rng.random() < 0.25:
        add_state(rng, spec)
    return spec


def add_state(rng, spec):
    """the function is handed over as a `tp.utils.UserFunction` OBJECT that carries state the user gave it after
    wrapping: `set_default(a=…)` overriding a declared default, a `partially_evaluate(q=…)` copy that fixes a
    necessary argument, optionally a deep copy of the result.  `defaults` always holds the EFFECTIVE values."""
    declared = [d for d in spec["defaults"] if d[0] in ("a", "b", "c", "c0", "c1", "c2")]
    kind = rng.choice(["set_default", "partial", "partial"]) if declared else "partial"
    st = dict(kind=kind, deepcopy=rng.random() < 0.3)
    if kind == "set_default":
        dn, dv = rng.choice(declared)
        st["name"] = dn
        st["declared"] = js(F(dv[0]) + rng.choice([1, 2, -3]))       # what the `def` line says; set_default replaces it
    else:
        qn = "q" if spec["name"] != "resid" else "q0"
        st["name"] = qn
        spec["params"].insert(len(spec["params"]) - len(spec["defaults"]), qn)     # necessary argument, no declared default
        spec["defaults"].insert(0, [qn, [js(cc.dy(rng, 1, 6, 2))]])
        spec["body"][0] = ["+", spec["body"][0], ["*", ["c", js(cc.dy(rng, 1, 4, 1))], ["v", qn, 0]]]
    spec["state"] = st
    spec["kwonly"] = 0
    spec["wrap"] = True


def make_defaulted(rng, fn, name):
    """turn `name` (dimension 1) into a DEFAULTED argument of the function and make the body use it"""
    dn = [n for n, _ in fn["defaults"]]
    if name in dn:
        return
    st_ = fn.get("state")
    if st_ and st_["kind"] == "partial" and [p_ for p_ in fn["params"] if p_ not in dn and p_ != name] == []:
        return      # partially_evaluate with ALL necessary arguments given evaluates the function: keep one necessary argument
    if name in fn["params"]:
        fn["params"].remove(name)
    st = fn.get("state")
    npy = len(fn["defaults"]) - (1 if st and st["kind"] == "partial" else 0)      # parameters with a DECLARED default
    fn["params"].insert(len(fn["params"]) - npy, name)
    fn["defaults"].insert(0, [name, [js(cc.dy(rng, 1, 6, 2))]])
    fn["kwonly"] = 0
    fn["body"][0] = ["+", fn["body"][0], ["*", ["c", js(cc.dy(rng, 1, 4, 1))], ["v", name, 0]]]


def gen_const(rng, name, outdim):
    """a data 'function' that is a constant tensor (one row, broadcast over the points)"""
    return dict(name=name, params=[], defaults=[], body=[pe_to_json(('c', cc.dy(rng))) for _ in range(outdim)],
                form="const", kwonly=0)


def gen_sm(ctx, rng):
    cls = rng.choice(["pinn", "pinn", "pinn", "mean", "ritz", "single", "single", "hpm"])
    space = gen_space(rng, VARS, 1, 3)
    in_space = space[:]
    rng.shuffle(in_space)                     # the model lists its inputs in its own order
    out_space = gen_space(rng, OUTS, 1, 2)
    net = dict(**{"in": in_space, "out": out_space},
               body=[pe_to_json(cc.gen_pe(rng, scalar_vars(in_space), 2)) for _ in range(dim_of(out_space))])
    param = []
    if rng.random() < 0.5:
        pn = rng.choice(PARS)
        param = [[pn, [js(cc.dy(rng)) for _ in range(rng.randint(1, 2))]]]
    data = []
    for dn in rng.sample(DATA, rng.choice([0, 1, 1, 2])):
        d = gen_const(rng, dn, rng.randint(1, 2)) if rng.random() < 0.1 else gen_fn(rng, dn, space, rng.randint(1, 2))
        d["wrap"] = rng.random() < 0.3           # handed over as a UserFunction object instead of a plain callable
        data.append(d)
    static = rng.random() < 0.45
    n = rng.choice([1, 2, 3, 5])
    data = tabulate(rng, data, n)
    interval = None
    if static and rng.random() < 0.3:
        interval = rng.choice([1, 2, 3])
    calls = rng.choice([1, 2, 3]) if interval is None else rng.choice([3, 4, 5])
    sets = [gen_rows(rng, n, dim_of(space)) for _ in range(4 + len(data) + calls)]
    # residual: named arguments in random order
    avail = list(space) + [[p[0], len(p[1])] for p in param] + [[d["name"], len(d["body"])] for d in data]
    ders = []
    if cls != "hpm":
        avail += out_space
    resid = gen_fn(rng, "resid", avail, rng.randint(1, 3), deg=2)
    varying = [a[0] for a in avail if a[0] not in [p[0] for p in param]]
    const_names = [d["name"] for d in data if d.get("form") in ("const", "number")]
    if not (set(resid["params"]) - set(const_names)) & set(varying) and (cls in ("single",) or rng.random() < 0.7):
        # a residual of parameters/constants only returns a 1-row tensor (broadcasting): legal, and the mean /
        # max of one row is the mean / max over the points — kept for the fixed-reduction classes, avoided
        # for custom reductions (torch.sum of one row is not the sum over the points)
        resid["params"].insert(0, rng.choice([v for v in varying if v not in const_names]))
    if cls != "hpm" and rng.random() < 0.5:
        # derivatives of outputs w.r.t. named coordinates: needs the output and the coordinate in the signature
        o = rng.choice(out_space)
        i = rng.choice(in_space)
        for nm in (o[0], i[0]):
            if nm not in resid["params"]:
                resid["params"].insert(rng.randint(0, len(resid["params"]) - len(resid["defaults"])), nm)
        dn = der_name(o[0], i[0])
        ders.append([dn, o[1] * i[1]])
        sv = [(dn, c) for c in range(o[1] * i[1])]
        if rng.random() < 0.5:
            i2 = rng.choice(in_space)
            if i2[0] not in resid["params"]:
                resid["params"].insert(0, i2[0])
            d2 = der_name(o[0], i[0], i2[0])
            ders.append([d2, o[1] * i[1] * i2[1]])
            sv += [(d2, c) for c in range(o[1] * i[1] * i2[1])]
        allv = scalar_vars([a for a in avail if a[0] in resid["params"]]) + sv
        resid["body"] = [pe_to_json(('+', pe_from_json(b), cc.gen_pe(rng, sv, 1, 2) if rng.random() < 0.5 else cc.gen_pe(rng, allv, 2, 2)))
                         for b in resid["body"]]
    err, red = dict(pinn=("sq", "mean"), mean=("id", "mean"), ritz=("id", "mean"), hpm=("sq", "mean")).get(
        cls, (rng.choice(["sq", "id", "abs"]), rng.choice(["mean", "sum", "max"])))
    return dict(kind="sm", cls=cls, space=space, sets=sets, static=static, interval=interval, net=net, param=param,
                data=data, resid=resid, ders=ders, err=err, red=red, calls=calls, weight=js(cc.dy(rng, 1, 8, 2)),
                sampler="list", startup=gen_startup(rng, 0.25, 0.04),
                # options that are only stored on the condition (read by the Solver): track_gradients, name
                track=(None if (ders or rng.random() < 0.5) else rng.random() < 0.5), cname="cond_" + rng.choice("abc"))


def gen_aw(ctx, rng):
    """AdaptiveWeightsCondition: a PINN-type condition on a static sampler with one learnable weight per point"""
    while True:
        c = gen_sm(ctx, rng)
        if c["cls"] == "pinn" and c["interval"] is None:
            break
    n = len(c["sets"][0])
    c.update(cls="aw", static=True, err=rng.choice(["sq", "sq", "abs"]), red="mean",
             weights=[js(cc.dy(rng, 1, 12, 4)) for _ in range(n)])
    return c


def gen_int(ctx, rng):
    """IntegroPINNCondition: points x integral points, the integral variables overwritten by name"""
    space = gen_space(rng, VARS, 1, 3)
    ivars = rng.sample(space, rng.randint(1, len(space)))
    in_space = space[:]
    rng.shuffle(in_space)
    out_space = gen_space(rng, OUTS, 1, 2)
    net = {"in": in_space, "out": out_space,
           "body": [pe_to_json(cc.gen_pe(rng, scalar_vars(in_space), 2)) for _ in range(dim_of(out_space))]}
    n, m = rng.choice([1, 2, 3]), rng.choice([1, 2, 3])
    param = []
    if rng.random() < 0.4:
        param = [[rng.choice(PARS), [js(cc.dy(rng))]]]
    data = [gen_fn(rng, dn, space, rng.randint(1, 2)) for dn in rng.sample(DATA, rng.choice([0, 1, 1]))]
    for d in data:
        d["wrap"] = rng.random() < 0.3
    data = tabulate(rng, data, n, p=0.35)
    integral = [[o + "_integral", m * d] for o, d in out_space] + [[v + "_integral", m * d] for v, d in ivars]
    avail = list(space) + out_space + [[p[0], len(p[1])] for p in param] + [[d["name"], len(d["body"])] for d in data] + integral
    resid = gen_fn(rng, "resid", avail, rng.randint(1, 2), deg=2)
    if not set(resid["params"]) & {a[0] for a in integral} or rng.random() < 0.5:
        nm, dm = rng.choice(integral)
        if nm not in resid["params"]:
            resid["params"].insert(0, nm)
        # e.g. u - mean_j u_integral_j: a sum over the integral points
        resid["body"][0] = ["-", resid["body"][0], pe_to_json(cc.pe_sum([('*', ('c', F(1, m)), ('v', nm, j)) for j in range(dm)]))]
    for d in data:
        if d.get("form") == "table" and d["name"] not in resid["params"]:
            resid["params"].insert(0, d["name"])          # a table entry that the residual does not read cannot go wrong
            resid["body"][0] = ["+", resid["body"][0], ["v", d["name"], 0]]
    varying = [a[0] for a in list(space) + out_space]
    if not set(resid["params"]) & set(varying):
        resid["params"].insert(0, rng.choice(varying))
    # every component depends on the point (a residual of integral rows / parameters only is a 1-row tensor)
    vn = next(v for v in resid["params"] if v in varying)
    resid["body"] = [["+", b, ["*", ["c", js(cc.dy(rng, 1, 4, 2))], ["v", vn, 0]]] for b in resid["body"]]
    resid["kwonly"] = 0
    custom = rng.random() < 0.3
    err, red = (rng.choice(["sq", "id"]), rng.choice(["mean", "sum", "max"])) if custom else ("sq", "mean")
    calls = rng.choice([1, 2])
    return dict(kind="int", space=space, ispace=ivars, net=net, n=n, m=m, param=param, data=data, resid=resid,
                static=rng.random() < 0.4, istatic=rng.random() < 0.3, calls=calls, custom=custom, err=err, red=red,
                sets=[gen_rows(rng, n, dim_of(space)) for _ in range(calls + 3)],
                isets=[gen_rows(rng, m, dim_of(ivars)) for _ in range(calls + 1)],
                startup=gen_startup(rng, 0.3, 0.05))


def run_int(case):
    C = classes()
    tp, torch = C["tp"], C["torch"]
    inner = C["ListSampler"](case["space"], [prow(s) for s in case["sets"]])
    sampler = inner.make_static() if case["static"] else inner
    rec = Recorder(sampler)
    iinner = C["ListSampler"](case["ispace"], [prow(s) for s in case["isets"]])
    isampler = iinner.make_static() if case["istatic"] else iinner
    rec_i = Recorder(isampler)
    net = case["net"]
    model = C["PolyModel"](net["in"], net["out"], [pe_from_json(b) for b in net["body"]])
    obs = Obs()
    user_dict = {d["name"]: build_fn(C, d, []) for d in case["data"]}
    resid = build_fn(C, case["resid"], obs.resid_args, record_out=obs.resid_out)
    kw = dict(data_functions=user_dict)
    if case["param"]:
        pn, pv = case["param"][0]
        kw["parameter"] = tp.models.Parameter([float(F(v)) for v in pv], mk_space([[pn, len(pv)]]))
    if case["custom"]:
        kw["error_fn"] = ERR_FNS[case["err"]](tp, torch)
        kw["reduce_fn"] = RED_FNS[case["red"]](torch)
    out = dict(losses=[], points=[], ipoints=[], errors=[], construct_points=[])
    try:
        cond = tp.conditions.IntegroPINNCondition(model, sampler, resid, isampler, **kw)
    except Exception as e:  # noqa
        out["errors"].append(("construct", classify_exc(e)))
        return out
    out["construct_points"] = list(rec.calls)
    if not do_startup(case, [cond], out, [obs.resid_args, obs.resid_out]):
        return out
    for k in range(case["calls"]):
        b, bi, n_obs = len(rec.calls), len(rec_i.calls), len(obs.resid_args)
        try:
            out["losses"].append(float(cond.forward()))
        except Exception as e:  # noqa
            out["losses"].append(None)
            out["errors"].append((k, classify_exc(e)))
        out["points"].append(rec.calls[b:])
        out["ipoints"].append(rec_i.calls[bi:])
        if len(obs.resid_args) == n_obs:
            obs.resid_args.append(None)
            obs.resid_out.append(None)
    out["resid_args"], out["resid_out"] = obs.resid_args, obs.resid_out
    return out


def lines_int(case, res):
    if res["errors"] and isinstance(res["errors"][0][0], str):   # construction / training start failed: nothing was evaluated
        return []
    lines = []
    for k in range(case["calls"]):
        p = used_points_of(res, k)
        q_ = pick_points(res["ipoints"][k], None)
        if p is None or q_ is None:
            lines.append(None)
            continue
        pre = pre_tok(case["static"], None, p["rows"])
        lines.append(" ".join(["int", tok_space(p["space"]), tok_space(q_["space"]), tok_table(p["rows"]), tok_table(q_["rows"]),
                               net_tok(case["net"]), resid_ufun_tok(case),
                               lst(case["data"], data_tok), pre,
                               tok_named([(n, [F(v) for v in vs]) for n, vs in case["param"]]), case["err"], case["red"]]))
    return lines


def judge_int(rep, case, res, replies):
    rep.count("int:" + ("static" if case["static"] else "non-static") + ("+static-integral-sampler" if case["istatic"] else ""))
    rep.count(f"int:integral-variables={len(case['ispace'])}-of-{len(case['space'])}")
    for d in case["data"]:
        rep.count("int:data=" + (d.get("form") if d.get("form") in ("table", "const") else "callable") + (":static" if case["static"] else ":non-static"))
    count_shapes(rep, [case["resid"]] + case["data"])
    count_startup(rep, case)
    if res["errors"]:
        for where, what in res["errors"]:
            rep.fail(f"IntegroPINNCondition raised at {where}: {what}", case)
        return
    body = [pe_from_json(b) for b in case["net"]["body"]]
    for k in range(case["calls"]):
        p = used_points_of(res, k)
        q_ = pick_points(res["ipoints"][k], None)
        if p is None or q_ is None:
            rep.fail(f"IntegroPINNCondition: forward call {k} drew no point set / no integral point set", case)
            continue
        n = len(p["rows"])
        args, out, loss = res["resid_args"][k], res["resid_out"][k], res["losses"][k]
        if args is None:
            rep.fail(f"IntegroPINNCondition: forward call {k} never called the residual", case)
            continue
        if len(out) != n:
            rep.fail(f"IntegroPINNCondition: forward call {k}: the residual tensor has {len(out)} rows for {n} sampled points "
                     f"(an argument does not have the (points, 1, dim) layout of the others)", case,
                     detail=dict(call=k, rows_of_arguments={a: len(v) for a, v in args.items()}))
            continue
        doc = documented_reduction(case["err"], case["red"], out)
        if doc is None or not close(loss, float(doc), TOL["rel"], TOL["abs"]):
            rep.fail(f"integro: forward call {k} returned {loss!r}; the documented reduction ({case['err']}/{case['red']}) of the "
                     f"residual values on the {n} sampled points is {float(doc)!r}", case)
        exp = {}
        envs = [named_row(p["space"], r) for r in p["rows"]]
        ienvs = [named_row(q_["space"], r) for r in q_["rows"]]
        for nm, d in p["space"]:
            exp[nm] = [e[nm] for e in envs]
        for nm, d in q_["space"]:
            exp[nm + "_integral"] = [[v for ie in ienvs for v in ie[nm]] for _ in envs]
        kk = 0
        for nm, d in case["net"]["out"]:
            exp[nm] = [[pe_frac(b, e) for b in body[kk:kk + d]] for e in envs]
            exp[nm + "_integral"] = [[pe_frac(b, dict(e, **ie)) for ie in ienvs for b in body[kk:kk + d]] for e in envs]
            kk += d
        for d in case["data"]:
            exp[d["name"]] = data_expected(d, envs)
        for nm, vs in case["param"]:
            exp[nm] = [[F(v) for v in vs] for _ in envs]
        for nm, vs in case["resid"]["defaults"]:
            exp.setdefault(nm, [[F(v) for v in vs] for _ in envs])
        for name, got in args.items():
            want = exp.get(name)
            if want is None or not rows_close(expand(got, n), want, 1e-12, 1e-12):
                what = ("the integral rows paired with each sampled point (integral variables overwritten by name)"
                        if name.endswith("_integral") else "its value on the rows the sampler produced for this call")
                rep.fail(f"integro: forward call {k}: argument '{name}' seen by the residual is not {what}", case,
                         detail=dict(call=k, name=name, got=[[str(v) for v in r] for r in expand(got, n)][:4],
                                     want=None if want is None else [[str(v) for v in r] for r in want][:4]))
        m = parse_reply(replies[k]) if replies[k] is not None else dict(error="no-line")
        if "error" in m:
            rep.disagree("int: model rejects, implementation returns a loss", dict(case=case, call=k), loss, m["error"])
            continue
        if not close(loss, float(m["loss"]), TOL["rel"], TOL["abs"]):
            rep.disagree("int loss: drivers/C04.lean `int` vs IntegroPINNCondition.forward()", dict(case=case, call=k), loss, str(m["loss"]))
        for i in range(n):
            for j, name in enumerate(case["resid"]["params"]):
                got = expand(args[name], n)[i]
                if not rows_close([got], [m["bound"][i][j]], 1e-12, 1e-12):
                    rep.disagree(f"int argument binding '{name}' row {i}", dict(case=case, call=k), [str(v) for v in got], [str(v) for v in m["bound"][i][j]])
                    return


# ---- least exercised classes: ParameterCondition, HPM_EquationLoss_at_DataPoints (exact Python oracles only)

def gen_misc(ctx, rng):
    if rng.random() < 0.4:
        pn = rng.choice(PARS)
        vals = [js(cc.dy(rng)) for _ in range(rng.randint(1, 2))]
        pen = gen_fn(rng, "penalty", [[pn, len(vals)]], 1, deg=2)
        return dict(kind="misc", cls="parameter", param=[[pn, vals]], fn=pen, weight=js(cc.dy(rng, 1, 8, 2)))
    xspace = gen_space(rng, VARS, 1, 2)
    n = rng.randint(2, 6)
    xs = []
    while len(xs) < n:
        r = [js(cc.dy(rng)) for _ in range(dim_of(xspace))]
        if r not in xs:
            xs.append(r)
    param = [[rng.choice(PARS), [js(cc.dy(rng))]]] if rng.random() < 0.5 else []
    resid = gen_fn(rng, "resid", list(xspace) + [[p[0], len(p[1])] for p in param], rng.randint(1, 2), deg=2)
    if not set(resid["params"]) & {v for v, _ in xspace}:
        resid["params"].insert(0, xspace[0][0])
        resid["kwonly"] = 0
    vn = next(v for v in resid["params"] if v in [a for a, _ in xspace])
    resid["body"] = [["+", b, ["v", vn, 0]] for b in resid["body"]]
    bs = rng.randint(1, n + 1)
    full = rng.random() < 0.4
    return dict(kind="misc", cls="hpmdata", xspace=xspace, xs=xs, bs=bs, param=param, fn=resid, norm=rng.choice([1, 2, 3, "inf"]),
                root=rng.choice([1, 2, 3]), full=full, calls=1 if full else rng.randint(1, 2 * math.ceil(n / bs)))


def run_misc(case):
    C = classes()
    tp, torch = C["tp"], C["torch"]
    out = dict(losses=[], errors=[], args=[], outs=[])
    try:
        pn, pv = (case["param"][0] if case["param"] else (None, None))
        par = tp.models.Parameter([float(F(v)) for v in pv], mk_space([[pn, len(pv)]])) if pn else None
        fn = build_fn(C, case["fn"], out["args"], record_out=out["outs"])
        if case["cls"] == "parameter":
            cond = tp.conditions.ParameterCondition(par, fn, weight=float(F(case["weight"])))
            out["weight_ok"] = cond.weight == float(F(case["weight"]))
            out["registered"] = any(p is par.as_tensor for p in cond.parameters())
            out["losses"].append(float(torch.sum(cond.forward())))
            return out
        X = mk_space(case["xspace"])
        xin = tp.spaces.Points(torch.tensor([[float(F(v)) for v in r] for r in case["xs"]], dtype=torch.float64), X)
        yout = tp.spaces.Points(torch.zeros(len(case["xs"]), 1, dtype=torch.float64), tp.spaces.R1("u"))
        loader = tp.utils.PointsDataLoader((xin, yout), batch_size=case["bs"], shuffle=False)
        model = C["PolyModel"](case["xspace"], [["u", 1]], [("c", F(0))])
        kw = dict(parameter=par) if par is not None else {}
        cond = tp.conditions.HPM_EquationLoss_at_DataPoints(model, loader, case["norm"], fn, root=float(case["root"]),
                                                            use_full_dataset=case["full"], **kw)
        for k in range(case["calls"]):
            before = len(out["outs"])
            out["losses"].append(float(cond.forward()))
            out.setdefault("per_call", []).append(list(range(before, len(out["outs"]))))
    except Exception as e:  # noqa
        out["errors"].append(("run", classify_exc(e)))
    return out


def judge_misc(rep, case, res, replies):
    rep.count("misc:" + case["cls"])
    count_shapes(rep, [case["fn"]])
    for where, what in res["errors"]:
        rep.fail(f"{case['cls']} condition raised: {what}", case)
    if res["errors"]:
        return
    if case["cls"] == "parameter":
        env = {n: [F(v) for v in vs] for n, vs in case["param"]}
        want = sum(eval_fn_spec(case["fn"], env))
        if not close(res["losses"][0], float(want), 1e-6, 1e-9) or not res.get("weight_ok") or not res.get("registered"):
            rep.fail(f"ParameterCondition returned {res['losses'][0]!r}; the penalty of the (registered, learnable) parameter by name is "
                     f"{float(want)!r}", case)
        return
    rep.count(f"misc:hpmdata:norm={case['norm']}:root={case['root']}:{'full' if case['full'] else 'batch'}")
    target_rows = {tuple(r) for r in prow(case["xs"])}
    for k, idxs in enumerate(res.get("per_call", [])):
        vals = []
        for i in idxs:
            # the residual must have been evaluated on rows of the data set, by name; its values reduce to ONE number per batch
            a = res["args"][i]
            n = max(len(v) for v in a.values())
            rows = [tuple(v for nm, _ in case["xspace"] for v in expand(a[nm], n)[j]) if all(nm in a for nm, _ in case["xspace"]) else None
                    for j in range(n)]
            if any(r is not None and r not in target_rows for r in rows):
                rep.fail("HPM_EquationLoss_at_DataPoints evaluated the residual on a row that is not in the data set", case)
                return
            un = [sum(v * v for v in r) for r in res["outs"][i]]
            vals.append(sum(un) / len(un))
        if not vals:
            rep.fail(f"HPM_EquationLoss_at_DataPoints: forward call {k} never called the residual", case)
            continue
        if case["norm"] == "inf":
            doc = max([F(0)] + vals) if case["full"] else vals[0]
        else:
            doc = sum(v ** case["norm"] for v in vals) / len(vals) if case["full"] else vals[0] ** case["norm"]
        docv = float(doc) ** (1.0 / case["root"]) if case["root"] != 1 else float(doc)
        tol = (1e-5, 0.0) if case["full"] else (1e-9, 0.0)
        if not close(res["losses"][k], docv, *tol):
            rep.fail(f"HPM_EquationLoss_at_DataPoints(norm={case['norm']}, root={case['root']}, full={case['full']}) call {k} returned "
                     f"{res['losses'][k]!r}; the stated norm of the reduced squared residual per batch is {docv!r}", case)


TP_SPACES = dict(interval=[["x", 1]], par2d=[["x", 2]], product=[["x", 1], ["t", 1]], dependent=[["x", 1], ["t", 1]])


def gen_sm_tp(ctx, rng):
    """the same conditions on the library's own samplers (float32 points; product samplers; a domain whose
    bound depends on another sampled variable = sampling with parameters)"""
    while True:
        c = gen_sm(ctx, rng)
        if c["interval"] is None:
            break
    kind = rng.choice(["interval", "par2d", "product", "dependent"])
    space = TP_SPACES[kind]
    # re-target the generated structure to this space: regenerate everything that mentions variables
    in_space = space[:]
    rng.shuffle(in_space)
    out_space = c["net"]["out"]
    c["net"] = {"in": in_space, "out": out_space,
                "body": [pe_to_json(cc.gen_pe(rng, scalar_vars(in_space), 2)) for _ in range(dim_of(out_space))]}
    c["data"] = [gen_fn(rng, d["name"], space, len(d["body"])) for d in c["data"]]
    avail = list(space) + [[p[0], len(p[1])] for p in c["param"]] + [[d["name"], len(d["body"])] for d in c["data"]]
    if c["cls"] != "hpm":
        avail += out_space
    c["resid"] = gen_fn(rng, "resid", avail, rng.randint(1, 2), deg=2)
    varying = [a[0] for a in avail if a[0] not in [p[0] for p in c["param"]]]
    if not set(c["resid"]["params"]) & set(varying):
        c["resid"]["params"].insert(0, rng.choice(varying))
    c["ders"] = []
    if c["cls"] != "hpm" and rng.random() < 0.4:
        o, i = out_space[0], rng.choice(in_space)
        for nm in (o[0], i[0]):
            if nm not in c["resid"]["params"]:
                c["resid"]["params"].insert(0, nm)
        dn = der_name(o[0], i[0])
        c["ders"] = [[dn, o[1] * i[1]]]
        c["resid"]["body"][0] = ["+", c["resid"]["body"][0], ["v", dn, 0]]
    c.update(space=space, sets=[], sampler="tp", tp=dict(kind=kind, n=rng.choice([1, 2, 3, 5]), m=rng.choice([1, 2, 3]),
                                                       grid=rng.random() < 0.3, seed=rng.randint(0, 10 ** 6)))
    return c


def build_tp_sampler(tp, torch, spec):
    X1, X2, T = tp.spaces.R1("x"), tp.spaces.R2("x"), tp.spaces.R1("t")
    S = tp.samplers.GridSampler if spec["grid"] else tp.samplers.RandomUniformSampler
    k, n, m = spec["kind"], spec["n"], spec["m"]
    if k == "interval":
        return S(tp.domains.Interval(X1, 0.0, 2.0), n_points=n)
    if k == "par2d":
        return tp.samplers.RandomUniformSampler(tp.domains.Parallelogram(X2, [0.0, 0.0], [1.0, 0.0], [0.0, 2.0]), n_points=n)
    st = tp.samplers.RandomUniformSampler(tp.domains.Interval(T, 0.0, 2.0), n_points=m)
    if k == "product":
        return S(tp.domains.Interval(X1, -1.0, 1.0), n_points=n) * st
    return tp.samplers.RandomUniformSampler(tp.domains.Interval(X1, 0.0, lambda t: t + 1.0), n_points=n) * st


# ------------------------------------------------------------------------------------------------
# implementation run

class Obs:
    def __init__(self):
        self.resid_args, self.resid_out, self.data_calls = [], [], []


def build_fn(C, spec, obs_list, ders=(), out_space=None, in_space=None, record_out=None):
    """Python function for a PE-bodied user function; records the tensors it receives by name"""
    torch = C["torch"]
    body = [pe_from_json(b) for b in spec["body"]]

    def impl(args):
        env = {}
        like = None
        for k, v in args.items():
            if torch.is_tensor(v):
                if k.endswith("_integral") and v.dim() == 3:
                    v = v.reshape(v.shape[0], 1, -1)
                    args = dict(args, **{k: v})
                env[k] = v if v.dim() > 0 else v.reshape(1)
                if like is None or v.numel() > like.numel():
                    like = env[k][..., 0]
            else:
                env[k] = torch.tensor([float(v)], dtype=torch.float64)
        if like is None:
            like = torch.zeros(1, dtype=torch.float64)
        rec = {k: tensor_rows(v) for k, v in args.items()}
        for dn, _ in ders:
            parts = dn.split(".")
            o, i = parts[1], parts[2]
            u, x = args[o], args[i]
            cols = []
            for c in range(u.shape[-1]):
                g1 = torch.autograd.grad(u[..., c].sum(), x, create_graph=True, allow_unused=True)[0]
                if g1 is None:
                    g1 = torch.zeros_like(x)
                if parts[0] == "d":
                    cols.append(g1)
                else:
                    x2 = args[parts[3]]
                    for j in range(x.shape[-1]):
                        if g1.requires_grad:
                            g2 = torch.autograd.grad(g1[..., j].sum(), x2, create_graph=True, allow_unused=True)[0]
                        else:
                            g2 = None
                        cols.append(g2 if g2 is not None else torch.zeros_like(x2))
            env[dn] = torch.cat(cols, dim=-1)
            rec[dn] = tensor_rows(env[dn])
        # components may differ in batch shape (a pre-evaluated (n, d) data tensor next to (F, n, d) outputs)
        out = torch.stack(torch.broadcast_tensors(*[pe_torch(b, env, like) for b in body]), dim=-1)
        obs_list.append(rec)
        if record_out is not None:
            record_out.append(tensor_rows(out))
        return out
    defaults = [(n, float(F(v[0]))) for n, v in spec.get("defaults", [])]
    st = spec.get("state")
    if st:
        # what the `def` line declares: without the partially evaluated argument, with the pre-set_default value
        defaults = [(n, float(F(st["declared"])) if (st["kind"] == "set_default" and n == st["name"]) else v)
                    for n, v in defaults if not (st["kind"] == "partial" and n == st["name"])]
    if spec.get("form") == "const":
        fn = torch.tensor([[float(F(b[1])) for b in spec["body"]]], dtype=torch.float64)
    elif spec.get("form") == "table":
        fn = torch.tensor([[float(F(v)) for v in r] for r in spec["rows"]], dtype=torch.float64)
    elif spec.get("form") == "number":
        fn = float(F(spec["body"][0][1]))
    else:
        fn = mk_user_fn(spec["name"], spec["params"], defaults, impl, form=spec.get("form", "def"), kwonly=spec.get("kwonly", 0))
    if spec.get("wrap") or st:
        fn = C["tp"].utils.UserFunction(fn)
    if st:
        eff = dict((n, float(F(v[0]))) for n, v in spec["defaults"])[st["name"]]
        if st["kind"] == "set_default":
            fn.set_default(**{st["name"]: eff})
        else:
            parent = fn
            fn = parent.partially_evaluate(**{st["name"]: eff})
            sibling = parent.partially_evaluate(**{st["name"]: eff + 7.0})      # a LATER copy from the same parent must not matter
            del sibling
        if st["deepcopy"]:
            import copy
            fn = copy.deepcopy(fn)
    return fn


def _sq(tp, torch):
    from torchphysics.problem.conditions.condition import SquaredError
    return SquaredError()


ERR_FNS = dict(sq=_sq, id=lambda tp, torch: torch.nn.Identity(),
               abs=lambda tp, torch: (lambda r: torch.sum(torch.abs(r), dim=1)))
RED_FNS = dict(mean=lambda torch: torch.mean, sum=lambda torch: torch.sum, max=lambda torch: torch.max)


def gen_startup(rng, p_hook, p_fit):
    r = rng.random()
    return "fit" if r < p_fit else "hook" if r < p_fit + p_hook else None


def do_startup(case, conds, out, obs_lists=()):
    """between construction and the evaluations a training may be started with the condition(s): the Solver's
    start-up hook (`_move_static_data`), or a real one-step fit with learning rate 0"""
    if not case.get("startup"):
        return True
    try:
        cc.training_start(conds, fit=case["startup"] == "fit")
    except Exception as e:  # noqa
        out["errors"].append(("training start (" + case["startup"] + ")", classify_exc(e)))
        return False
    for l in obs_lists:
        del l[:]
    return True


def classify_exc(e):
    msg = str(e)
    if isinstance(e, AssertionError) and "is necessary" in msg:
        return "err:missing-arg:" + msg.split("'")[1]
    if isinstance(e, ValueError) and "should lie" in msg:
        return "err:space"
    return f"exception:{type(e).__name__}:{msg[:120]}"


def run_sm(case):
    C = classes()
    tp, torch = C["tp"], C["torch"]
    space = case["space"]
    if case["sampler"] == "tp":
        torch.manual_seed(case["tp"]["seed"])
        inner = build_tp_sampler(tp, torch, case["tp"])
    else:
        inner = C["ListSampler"](space, [prow(s) for s in case["sets"]])
    sampler = inner.make_static(case["interval"] if case["interval"] is not None else math.inf) if case["static"] else inner
    rec = Recorder(sampler)
    net = case["net"]
    model = C["PolyModel"](net["in"], net["out"], [pe_from_json(b) for b in net["body"]])
    obs = Obs()
    user_dict, data_obs = {}, {}
    for d in case["data"]:
        data_obs[d["name"]] = []
        user_dict[d["name"]] = build_fn(C, d, data_obs[d["name"]])
    resid = build_fn(C, case["resid"], obs.resid_args, ders=case["ders"], record_out=obs.resid_out)
    kw = dict(data_functions=user_dict, weight=float(F(case["weight"])))
    if case.get("track") is not None:
        kw.update(track_gradients=case["track"], name=case["cname"])
    if case["param"]:
        pn, pv = case["param"][0]
        kw["parameter"] = tp.models.Parameter([float(F(v)) for v in pv], mk_space([[pn, len(pv)]]))
    out = dict(losses=[], points=[], construct_points=[], errors=[], data_obs=data_obs)
    try:
        cls = case["cls"]
        if cls == "pinn":
            cond = tp.conditions.PINNCondition(model, sampler, resid, **kw)
        elif cls == "mean":
            cond = tp.conditions.MeanCondition(model, sampler, resid, **kw)
        elif cls == "ritz":
            cond = tp.conditions.DeepRitzCondition(model, sampler, resid, **kw)
        elif cls == "hpm":
            cond = tp.conditions.HPM_EquationLoss_at_Sampler(model, sampler, resid, **kw)
        elif cls == "aw":
            cond = tp.conditions.AdaptiveWeightsCondition(model, sampler, resid, error_fn=ERR_FNS[case["err"]](tp, torch), **kw)
            layer = getattr(cond, "adaptive_layer", None)
            w0 = getattr(layer, "weight", None)
            if w0 is None:
                # the weights are not reachable under their documented name: the sub-oracle is skipped, the loss is
                # checked with the initial weights (all 1)
                out["aw_skipped"] = True
                case["weights"] = ["1"] * len(case["weights"])
            else:
                out["aw_initial_ones"] = bool(torch.all(w0 == 1.0)) and len(w0) == len(case["weights"])
                out["aw_registered"] = any(p is w0 for p in cond.parameters())
                with torch.no_grad():
                    w0.copy_(torch.tensor([float(F(v)) for v in case["weights"]]))
        else:
            cond = tp.conditions.SingleModuleCondition(model, sampler, resid, ERR_FNS[case["err"]](tp, torch),
                                                       reduce_fn=RED_FNS[case["red"]](torch), **kw)
    except Exception as e:  # noqa
        out["errors"].append(("construct", classify_exc(e)))
        return out
    out["weight_ok"] = cond.weight == float(F(case["weight"]))
    if case.get("track") is not None:
        out["weight_ok"] = out["weight_ok"] and cond.track_gradients == case["track"] and cond.name == case["cname"]
    out["construct_points"] = list(rec.calls)
    out["data_calls_at_construct"] = {k: len(v) for k, v in data_obs.items()}
    if not do_startup(case, [cond], out, [obs.resid_args, obs.resid_out]):
        return out
    for k in range(case["calls"]):
        before = len(rec.calls)
        n_obs = len(obs.resid_args)
        try:
            loss = cond.forward()
            out["losses"].append(float(loss))
            out.setdefault("f32", []).append(loss.dtype == torch.float32)
        except Exception as e:  # noqa
            out["losses"].append(None)
            out.setdefault("f32", []).append(False)
            out["errors"].append((k, classify_exc(e)))
        out["points"].append(rec.calls[before:])
        if len(obs.resid_args) == n_obs:
            obs.resid_args.append(None)
            obs.resid_out.append(None)
    out["resid_args"], out["resid_out"] = obs.resid_args, obs.resid_out
    return out


# ------------------------------------------------------------------------------------------------
# model lines

def resid_ufun_tok(case):
    r = case["resid"]
    spec = dict(params=r["params"] + [d[0] for d in case.get("ders", [])],
                defaults=[(n, [F(v) for v in vs]) for n, vs in r["defaults"]],
                body=[pe_from_json(b) for b in r["body"]])
    return tok_ufun(spec)


def fn_tok(d):
    return tok_ufun(dict(params=d["params"], defaults=[(n, [F(v) for v in vs]) for n, vs in d["defaults"]],
                         body=[pe_from_json(b) for b in d["body"]]))


def data_tok(d):
    if d.get("form") == "table":
        return f"{d['name']} tab {tok_table(prow(d['rows']))}"
    return f"{d['name']} fn {fn_tok(d)}"


def data_expected(d, envs, period=None):
    """what a data-function entry is worth at every row: a callable by name on the row's coordinates, a table its own
    row (`period` rows per block for tensors that are tiled over input functions)"""
    if d.get("form") == "table":
        rows = prow(d["rows"])
        return [rows[i % len(rows)] for i in range(len(envs))]
    return [eval_fn_spec(d, e) for e in envs]


def gen_table(rng, name, n, outdim):
    """a data 'function' that is a TABLE: a tensor with one row of values per sampled point"""
    return dict(name=name, params=[], defaults=[], body=[["c", "0"]] * outdim, rows=gen_rows(rng, n, outdim), form="table", kwonly=0,
                wrap=rng.random() < 0.3)


def tabulate(rng, data, n, p=0.15):
    """replace some data functions by tables of n rows (every condition class x static / non-static sampler)"""
    out = []
    for d in data:
        r = rng.random()
        if d.get("form") == "const" or r >= p + 0.05:
            out.append(d)
        elif r < p:
            out.append(gen_table(rng, d["name"], n, len(d["body"])))
        else:
            # a plain Python number as data "function"
            out.append(dict(name=d["name"], params=[], defaults=[], body=[pe_to_json(("c", cc.dy(rng)))], form="number",
                            kwonly=0, wrap=False))
    return out


def net_tok(net):
    return tok_net({"in": net["in"], "out": net["out"], "body": [pe_from_json(b) for b in net["body"]]})


def lines_sm(case, res):
    """one driver line per forward call (the points are those the recording sampler returned)"""
    lines = []
    if res["errors"] and isinstance(res["errors"][0][0], str):   # construction / training start failed: nothing was evaluated
        return lines
    for k in range(case["calls"]):
        p = used_points_of(res, k)
        if p is None:
            lines.append(None)
            continue
        pre = pre_tok(case["static"], case["interval"], p["rows"])
        if case["cls"] == "aw":
            lines.append(" ".join(["aw", tok_space(p["space"]), tok_table(p["rows"]), net_tok(case["net"]), resid_ufun_tok(case),
                                   lst(case["data"], data_tok), pre,
                                   tok_named([(n, [F(v) for v in vs]) for n, vs in case["param"]]), case["err"],
                                   cc.tok_vec([F(v) for v in case["weights"]])]))
            continue
        net = "0" if case["cls"] == "hpm" else "1 " + net_tok(case["net"])
        lines.append(" ".join(["sm", tok_space(p["space"]), tok_table(p["rows"]), net, resid_ufun_tok(case),
                               lst(case["data"], data_tok), pre,
                               tok_named([(n, [F(v) for v in vs]) for n, vs in case["param"]]),
                               case["err"], case["red"]]))
    return lines


def pre_tok(static, interval, kept_rows):
    """static flag, resample interval, the point set a never-resampling static sampler keeps (by value).  How many
    times the sampler was asked for it during construction is deliberately NOT transmitted: no theorem needs it."""
    return f"{1 if static else 0} {'inf' if interval is None else interval} " + tok_table(kept_rows)


def same_points(a, b):
    return a["space"] == b["space"] and a["rows"] == b["rows"]


def pick_points(cands, prev, args=None):
    """the point set a forward call USED: the sampler may be asked any number of times per call (also zero times, if the
    points are kept elsewhere) — what matters is which set reached the residual.  None = undecidable."""
    if not cands:
        return prev
    if all(same_points(c, cands[0]) for c in cands):
        return cands[0]
    if args:
        for c in cands:
            ok, seen_any = True, False
            for i, (nm, d) in enumerate(c["space"]):
                if nm in args:
                    seen_any = True
                    k0 = sum(dd for _, dd in c["space"][:i])
                    col = [r[k0:k0 + d] for r in c["rows"]]
                    got = args[nm]
                    if not rows_close(got * len(col) if len(got) == 1 and len(col) > 1 else got, col, 1e-6, 1e-9):
                        ok = False
            if ok and seen_any:
                return c
    return cands[-1]


def used_points_of(res, k):
    prev = None
    for j in range(min(k + 1, len(res.get("points", [])))):
        args = res["resid_args"][j] if j < len(res.get("resid_args", [])) else None
        prev = pick_points(res["points"][j], prev, args)
    return prev


def parse_reply(r):
    if r.startswith("err:") or r.startswith("bad-op"):
        return dict(error=r)
    loss, res, bound = r.split(" | ")
    tab = [[F(v) for v in row.split()] for row in res.split(" ; ")] if res.strip() else []
    b = [[[F(v) for v in vec.split()] for vec in row.split(" , ")] for row in bound.split(" ; ")] if bound.strip() else []
    return dict(loss=F(loss), res=tab, bound=b)


# ------------------------------------------------------------------------------------------------
# oracles (exact, by name, independent of the Lean model)

def named_row(space, row):
    env, k = {}, 0
    for n, d in space:
        env[n] = row[k:k + d]
        k += d
    return env


def documented_reduction(err, red, table):
    """the statement's reduction of a residual table (rows x components), exact"""
    if err == "sq":
        un = [sum(v * v for v in r) for r in table]
    elif err == "id":
        un = [v for r in table for v in r]
    else:
        un = [sum(abs(v) for v in r) for r in table]
    if not un:
        return None
    return dict(mean=lambda: sum(un) / len(un), sum=lambda: sum(un), max=lambda: max(un))[red]()


def expand(rows, n):
    return rows * n if len(rows) == 1 and n > 1 else rows


def eval_fn_spec(d, env):
    e = dict(env)
    for n, vs in d["defaults"]:
        e.setdefault(n, [F(v) for v in vs])
    return [pe_frac(pe_from_json(b), e) for b in d["body"]]


def expected_args_sm(case, p):
    """for every name the residual may ask for: the rows it must carry, from the recorded points `p`"""
    exp = {}
    rows = p["rows"]
    envs = [named_row(p["space"], r) for r in rows]
    for n, d in p["space"]:
        exp[n] = [e[n] for e in envs]
    for n, vs in case["param"]:
        exp[n] = [[F(v) for v in vs] for _ in rows]
    for d in case["data"]:
        exp[d["name"]] = data_expected(d, envs)
    if case["cls"] != "hpm":
        net = case["net"]
        body = [pe_from_json(b) for b in net["body"]]
        k = 0
        for n, d in net["out"]:
            exp[n] = [[pe_frac(b, e) for b in body[k:k + d]] for e in envs]
            for dn, _ in case["ders"]:
                parts = dn.split(".")
                if parts[1] != n:
                    continue
                di = dict(map(tuple, net["in"]))[parts[2]]
                if parts[0] == "d":
                    exp[dn] = [[pe_frac(pe_D(b, parts[2], j), e) for b in body[k:k + d] for j in range(di)] for e in envs]
                else:
                    d2 = dict(map(tuple, net["in"]))[parts[3]]
                    exp[dn] = [[pe_frac(pe_D(pe_D(b, parts[2], j), parts[3], kk), e) for b in body[k:k + d]
                                for j in range(di) for kk in range(d2)] for e in envs]
            k += d
    for n, vs in case["resid"]["defaults"]:
        exp.setdefault(n, [[F(v) for v in vs] for _ in rows])
    return exp


TOL = dict(rel=1e-9, abs=1e-12)


def count_startup(rep, case):
    if case.get("startup"):
        rep.count("evaluated-after-" + ("one-step-fit" if case["startup"] == "fit" else "training-start-hook") + ":" + case["kind"])


def count_shapes(rep, fns):
    """input-distribution histogram of the signature shapes of the user functions of a case"""
    for f in fns:
        if f is None:
            continue
        nd = len(f.get("defaults", []))
        rep.count(f"fn:declared-defaults={min(nd, 3)}{'+' if nd > 3 else ''}")
        rep.count("fn:form=" + ("kwonly" if f.get("kwonly") else f.get("form", "def")))
        if f.get("form") in ("table", "const", "number"):
            rep.count("fn:non-callable-entry:" + f["form"])
        if f.get("wrap"):
            rep.count("fn:handed-over-as-UserFunction")
        if f.get("state"):
            rep.count("fn:UserFunction-with-state:" + f["state"]["kind"] + ("+deepcopy" if f["state"]["deepcopy"] else ""))


def judge_sm(rep, case, res, replies):
    cls = case["cls"]
    rep.count("sm:" + cls)
    rep.count("static" if case["static"] else "non-static")
    if case["interval"] is not None:
        rep.count("static:finite-resample-interval")
    rep.count(f"data-fns={len(case['data'])}")
    rep.count("with-parameter" if case["param"] else "no-parameter")
    rep.count("with-derivatives" if case["ders"] else "no-derivatives")
    rep.count("space-order-permuted" if case["net"]["in"] != case["space"] else "space-order-same")
    count_shapes(rep, [case["resid"]] + case["data"])
    count_startup(rep, case)
    if res["errors"]:
        for where, what in res["errors"]:
            rep.fail(f"{cls} condition raised at {where}: {what}", case)
        return
    if not res.get("weight_ok", True):
        rep.fail("condition.weight is not the weight given to the constructor", case)
    if cls == "aw" and res.get("aw_skipped"):
        rep.count("oracle-skipped:adaptive-weights-not-visible")
    elif cls == "aw" and not (res.get("aw_initial_ones") and res.get("aw_registered")):
        rep.fail("AdaptiveWeightsCondition: the point weights are not one learnable, registered weight 1.0 per sampled point", case)
    if case["static"] and case["interval"] is None:
        # a never-resampling static sampler keeps ONE point set: whatever number of times it was asked (at construction,
        # per forward call), every answer is that set, by value
        allsets = list(res["construct_points"]) + [c for cs in res["points"] for c in cs]
        if any(not same_points(c, allsets[0]) for c in allsets):
            rep.fail("a static sampler that never resamples handed out different point sets to one condition", case)
    f32 = case["sampler"] == "tp"       # the library's samplers emit float32: everything downstream is float32
    ltol = (3e-4, 1e-4) if f32 else (TOL["rel"], TOL["abs"])
    atol = (1e-4, 1e-5) if f32 else (1e-12, 1e-12)
    if f32:
        rep.count("sm:library-sampler:" + case["tp"]["kind"])
    for k in range(case["calls"]):
        p = used_points_of(res, k)
        if p is None:
            rep.fail(f"forward call {k}: no point set was ever drawn from the condition's sampler", case)
            continue
        n = len(p["rows"])
        loss = res["losses"][k]
        if not f32 and res.get("f32", [False] * (k + 1))[k]:
            # learnable parameters are float32 in the library: a residual of parameters only gives a float32 loss
            ltol = (2e-5, 1e-6)
            rep.count("sm:float32-loss(residual of float32 inputs only)")
        args, out = res["resid_args"][k], res["resid_out"][k]
        if args is None:
            rep.fail(f"forward call {k}: the residual function was never called", case)
            continue
        # ---- oracle 1: documented reduction of the residual values the residual function returned
        doc = documented_reduction(case["err"], case["red"], out)
        if cls == "aw":
            # mean over the points of (learnable weight of the point) x (error of the point)
            un = [sum(v * v for v in r) if case["err"] == "sq" else sum(abs(v) for v in r) for r in expand(out, n)]
            doc = sum(F(w) * u for w, u in zip(case["weights"], un)) / len(un) if len(un) == len(case["weights"]) else None
        if doc is None or not close(loss, float(doc), *ltol):
            rep.fail(f"{cls}: forward call {k} returned {loss!r}; the documented reduction ({case['err']}/{case['red']}) of the "
                     f"residual values on the {n} sampled points is {float(doc) if doc is not None else None!r}", case,
                     detail=dict(call=k, residual=[[str(v) for v in r] for r in out]), finding=None)
        # ---- oracle 2: every named argument carries, by name, the rows it should
        exp = expected_args_sm(case, p)
        for name, got in args.items():
            want = exp.get(name)
            if want is None:
                rep.fail(f"residual received an argument '{name}' that is none of coordinates/outputs/parameters/data", case)
                continue
            if not rows_close(expand(got, n), want, *atol):
                kind = ("data function" if name in [d["name"] for d in case["data"]] else
                        "derivative" if name.startswith("d") and "." in name else "argument")
                finding = None
                rep.fail(f"{cls}: forward call {k}: {kind} '{name}' seen by the residual is not its value on the rows "
                         f"the sampler produced for this call", case,
                         detail=dict(call=k, name=name, got=[[str(v) for v in r] for r in expand(got, n)][:4],
                                     want=[[str(v) for v in r] for r in want][:4], points=jrows(p["rows"])[:4]),
                         finding=finding)
        # ---- correspondence with the Lean model
        m = parse_reply(replies[k]) if replies[k] is not None else dict(error="no-line")
        if "error" in m:
            rep.disagree("sm: model rejects, implementation returns a loss", dict(case=case, call=k), loss, m["error"])
            continue
        if not close(loss, float(m["loss"]), *ltol):
            rep.disagree("sm loss: drivers/C04.lean `sm` vs Condition.forward()", dict(case=case, call=k), loss, str(m["loss"]))
        if not rows_close(expand(out, n), m["res"], *atol):
            rep.disagree("sm residual table", dict(case=case, call=k), [[str(v) for v in r] for r in out], [[str(v) for v in r] for r in m["res"]])
        names = case["resid"]["params"] + [d[0] for d in case["ders"]]
        for i in range(n):
            for j, name in enumerate(names):
                got = expand(args[name], n)[i] if name in args else None
                if got is None or not rows_close([got], [m["bound"][i][j]], *atol):
                    rep.disagree(f"sm argument binding '{name}' row {i}", dict(case=case, call=k),
                                 None if got is None else [str(v) for v in got], [str(v) for v in m["bound"][i][j]])
                    break
            else:
                continue
            break


# ------------------------------------------------------------------------------------------------
# DataCondition

def gen_data(ctx, rng):
    xspace = gen_space(rng, VARS, 1, 2)
    in_space = xspace[:]
    rng.shuffle(in_space)
    out_space = gen_space(rng, OUTS, 1, 2)
    net = {"in": in_space, "out": out_space,
           "body": [pe_to_json(cc.gen_pe(rng, scalar_vars(in_space), 2)) for _ in range(dim_of(out_space))]}
    n = rng.randint(2, 7)
    xs = []
    while len(xs) < n:
        r = [js(cc.dy(rng)) for _ in range(dim_of(xspace))]
        if r not in xs:
            xs.append(r)
    ys = gen_rows(rng, n, dim_of(out_space))
    bs = rng.randint(1, n + 1)
    nb = math.ceil(n / bs)
    full = rng.random() < 0.4
    # value scale of outputs and targets: 2^-20 (about 1e-6) ... 2^20 (about 1e6); the stated norm is homogeneous,
    # so it must come out right RELATIVELY on every scale (exact rational oracle, no absolute tolerance)
    e = rng.choice([-20, -20, -10, 0, 0, 0, 10, 20])
    constrain = None
    if e == 0 and rng.random() < 0.4:
        constrain = gen_fn(rng, "constrain", out_space + xspace, dim_of(out_space), deg=2, allow_default=False)
    if e != 0:
        sc = F(2) ** e
        net["body"] = [["*", ["c", js(sc)], b] for b in net["body"]]
        ys = [[js(F(v) * sc) for v in r] for r in ys]
    return dict(kind="data", xspace=xspace, net=net, xs=xs, ys=ys, bs=bs, norm=rng.choice([1, 2, 2, 3, "inf"]),
                root=rng.choice([1, 1, 2, 2, 3]), full=full, constrain=constrain, scale_exp=e,
                calls=rng.randint(1, 2) if full else rng.randint(1, 2 * nb + 1))


def run_data(case):
    C = classes()
    tp, torch = C["tp"], C["torch"]
    X, U = mk_space(case["xspace"]), mk_space(case["net"]["out"])
    xin = tp.spaces.Points(torch.tensor([[float(F(v)) for v in r] for r in case["xs"]], dtype=torch.float64), X)
    yout = tp.spaces.Points(torch.tensor([[float(F(v)) for v in r] for r in case["ys"]], dtype=torch.float64), U)
    loader = tp.utils.PointsDataLoader((xin, yout), batch_size=case["bs"], shuffle=False)
    batches = []
    for xb, yb in iter(loader):
        batches.append(dict(x=cc.points_record(xb), y=cc.points_record(yb)))
    net = case["net"]
    model = C["PolyModel"](net["in"], net["out"], [pe_from_json(b) for b in net["body"]])
    cobs = []
    g = build_fn(C, case["constrain"], cobs) if case["constrain"] else None
    out = dict(batches=batches, losses=[], seen=[], errors=[], cobs=cobs)
    try:
        cond = tp.conditions.DataCondition(model, loader, case["norm"], root=float(case["root"]),
                                           use_full_dataset=case["full"], constrain_fn=g)
        for k in range(case["calls"]):
            before = len(model.seen)
            out["losses"].append(float(cond.forward()))
            out["seen"].append(model.seen[before:])
    except Exception as e:  # noqa
        out["errors"].append(("run", classify_exc(e)))
    return out


def lines_data(case, res):
    if res["errors"]:
        return []
    g = "0" if not case["constrain"] else "1 " + fn_tok(case["constrain"])
    b = lst(res["batches"], lambda bt: lst(list(zip(bt["x"]["rows"], bt["y"]["rows"])),
                                           lambda xy: cc.tok_vec(xy[0]) + " " + cc.tok_vec(xy[1])))
    sp = tok_space(res["batches"][0]["x"]["space"])
    return [" ".join(["data", sp, net_tok(case["net"]), g, str(case["norm"]), "full" if case["full"] else str(k), b])
            for k in range(case["calls"])]


def judge_data(rep, case, res, replies):
    rep.count("data:" + ("full" if case["full"] else "per-batch"))
    rep.count(f"data:norm={case['norm']}")
    rep.count(f"data:root={case['root']}")
    if case["constrain"]:
        rep.count("data:constrain_fn")
        count_shapes(rep, [case["constrain"]])
    for where, what in res["errors"]:
        rep.fail(f"data condition raised: {what}", case)
    if res["errors"]:
        return
    target = {tuple(x): y for x, y in zip(prow(case["xs"]), prow(case["ys"]))}
    net = case["net"]
    body = [pe_from_json(b) for b in net["body"]]
    nb = len(res["batches"])
    if not case["full"] and case["calls"] > nb:
        rep.count("data:iterator-restarted")
    rep.count(f"data:value-scale=2^{case.get('scale_exp', 0)}")
    # relative comparison only (values live on scales 1e-6 ... 1e6); the full-data-set accumulator is a float32 tensor
    tol = (1e-5, 0.0) if case["full"] else (1e-9, 0.0)
    for k in range(case["calls"]):
        seen = res["seen"][k]
        # oracle: |model - target|, paired by the input row the model actually saw, in the stated norm
        per_batch = []
        for s in seen:
            a = []
            for row in s["rows"]:
                env = named_row(s["space"], row)
                y = [pe_frac(b, env) for b in body]
                if case["constrain"]:
                    e2 = dict(env)
                    kk = 0
                    for n_, d_ in net["out"]:
                        e2[n_] = y[kk:kk + d_]
                        kk += d_
                    y = eval_fn_spec(case["constrain"], e2)
                xkey = tuple(v for n_, _ in case["xspace"] for v in env[n_])
                t = target.get(xkey)
                if t is None:
                    rep.fail("data condition evaluated the model on a row that is not in the data set", case, detail=dict(row=[str(v) for v in row]))
                    return
                a += [abs(u - v) for u, v in zip(y, t)]
            per_batch.append(a)
        if not per_batch or any(not a for a in per_batch):
            rep.fail(f"data condition: forward call {k} did not evaluate the model", case)
            continue
        if case["full"]:
            if sorted(tuple(r) for s in seen for r in s["rows"]) != sorted(tuple(r) for b in res["batches"] for r in b["x"]["rows"]):
                rep.fail("use_full_dataset=True did not visit every datum exactly once", case)
            if case["norm"] == "inf":
                doc = max([F(0)] + [v for a in per_batch for v in a])
            else:
                doc = sum(sum(v ** case["norm"] for v in a) / len(a) for a in per_batch) / len(per_batch)
        else:
            if any(t["rows"] != seen[0]["rows"] for t in seen):
                rep.fail(f"data condition: forward call {k} evaluated the model on {len(seen)} different row sets", case)
                continue
            a = per_batch[0]
            doc = max(a) if case["norm"] == "inf" else sum(v ** case["norm"] for v in a) / len(a)
        docv = float(doc) ** (1.0 / case["root"]) if case["root"] != 1 else float(doc)
        if not close(res["losses"][k], docv, *tol):
            rep.fail(f"DataCondition(norm={case['norm']}, root={case['root']}, full={case['full']}) call {k} returned "
                     f"{res['losses'][k]!r}; the stated norm of model minus target on the rows it used is {docv!r}", case,
                     detail=dict(call=k))
        m = replies[k]
        if m is None or m.startswith("err") or m.startswith("bad-op"):
            rep.disagree("data: model rejects", dict(case=case, call=k), res["losses"][k], m)
            continue
        mv = float(F(m)) ** (1.0 / case["root"]) if case["root"] != 1 else float(F(m))
        if not close(res["losses"][k], mv, *tol):
            rep.disagree("data loss: drivers/C04.lean `data` vs DataCondition.forward()", dict(case=case, call=k), res["losses"][k], m)


# ------------------------------------------------------------------------------------------------
# PeriodicCondition

def gen_per(ctx, rng):
    pv = rng.choice(VARS)
    others = [v for v in VARS if v != pv]
    a = cc.dy(rng, -8, 4, 4)
    b = a + cc.dy(rng, 1, 8, 4)
    bspace = gen_space(rng, others, 1, 2) if rng.random() < 0.8 else []
    psp = [[pv, 1]]
    full = psp + bspace
    in_space = full[:]
    rng.shuffle(in_space)
    out_space = gen_space(rng, OUTS, 1, 2)
    net = {"in": in_space, "out": out_space,
           "body": [pe_to_json(cc.gen_pe(rng, scalar_vars(in_space), 2)) for _ in range(dim_of(out_space))]}
    param = []
    if rng.random() < 0.4:
        pn = rng.choice(PARS)
        param = [[pn, [js(cc.dy(rng)) for _ in range(rng.randint(1, 2))]]]
    data = [gen_fn(rng, dn, full, rng.randint(1, 2)) for dn in rng.sample(DATA, rng.choice([0, 1, 1, 2]))]
    for d in data:
        if bspace and not set(d["params"]) & {v for v, _ in bspace} and rng.random() < 0.8:
            # data that depends on the NON-periodic point: frozen or misplaced values show
            bv = bspace[0][0]
            st_ = d.get("state")
            npy = len(d["defaults"]) - (1 if st_ and st_["kind"] == "partial" else 0)
            d["params"].insert(len(d["params"]) - npy, bv)
            d["kwonly"] = 0
            d["body"][0] = ["+", d["body"][0], ["*", ["c", js(cc.dy(rng, 1, 4, 1))], ["v", bv, 0]]]
    for d in data:
        if rng.random() < 0.4:
            # `def g(y, x=0.5)` with x the PERIODIC variable: the end point is supplied, the default never used
            make_defaulted(rng, d, pv)
        d["wrap"] = rng.random() < 0.4           # the SAME UserFunction object serves the left and the right side
    n = rng.choice([1, 1, 2, 3, 4]) if bspace else 1          # a single non-periodic point is a size edge case of its own
    data = tabulate(rng, data, n)
    static = bool(bspace) and rng.random() < 0.5
    calls = rng.choice([1, 2])
    sets = [gen_rows(rng, n, dim_of(bspace)) for _ in range(6)] if bspace else []
    avail = list(bspace) + [[p[0], len(p[1])] for p in param]
    for nm, d in psp + out_space + [[d["name"], len(d["body"])] for d in data]:
        avail += [[nm + "_left", d], [nm + "_right", d]]
    resid = gen_fn(rng, "resid", avail, rng.randint(1, 2), deg=2)
    flat = {d["name"] + side for d in data if d.get("form") in ("const", "number") for side in ("_left", "_right")}
    varying = [a_[0] for a_ in avail if a_[0] not in [p[0] for p in param] and a_[0] not in flat]
    if not set(resid["params"]) & set(varying):
        # (a residual of parameters / numbers / constants only is a 1-row tensor: not the sum over the points for torch.sum)
        resid["params"].insert(0, rng.choice(varying))
    for d in data:
        # the residual should look at both sides of the data it is given (that is where sides can be mixed up)
        if rng.random() < 0.7:
            for side in ("_left", "_right"):
                if d["name"] + side not in resid["params"]:
                    resid["params"].insert(0, d["name"] + side)
                    resid["body"][0] = ["+", resid["body"][0], ["*", ["c", js(cc.dy(rng, 1, 4, 2))], ["v", d["name"] + side, 0]]]
    resid["kwonly"] = 0
    custom = rng.random() < 0.3
    err, red = (rng.choice(["sq", "id", "abs"]), rng.choice(["mean", "sum", "max"])) if custom else ("sq", "mean")
    return dict(kind="per", pv=pv, a=js(a), b=js(b), bspace=bspace, net=net, param=param, data=data, resid=resid,
                n=n, static=static, calls=calls, sets=sets, err=err, red=red, custom=custom,
                startup=gen_startup(rng, 0.4, 0.08))


def gen_per_single_point(ctx, rng):
    """fixed share, not left to the draw: a periodic condition whose NON-static non-periodic sampler creates exactly ONE
    point, with a callable data function of that point which the residual reads on both sides"""
    while True:
        p = gen_per(ctx, rng)
        call = [d for d in p["data"] if d.get("form") not in ("table", "number", "const")]
        if p["bspace"] and call and not any(d.get("form") == "table" for d in p["data"]) and \
                any(set(d["params"]) & {v for v, _ in p["bspace"]} for d in call):
            break
    p.update(n=1, static=False, calls=3, sets=[gen_rows(rng, 1, dim_of(p["bspace"])) for _ in range(6)])
    d = next(d for d in call if set(d["params"]) & {v for v, _ in p["bspace"]})
    for side in ("_left", "_right"):
        if d["name"] + side not in p["resid"]["params"]:
            p["resid"]["params"].insert(0, d["name"] + side)
            p["resid"]["body"][0] = ["+", p["resid"]["body"][0], ["*", ["c", "2"], ["v", d["name"] + side, 0]]]
    return p


def run_per(case):
    C = classes()
    tp, torch = C["tp"], C["torch"]
    psp = [[case["pv"], 1]]
    interval = tp.domains.Interval(mk_space(psp), float(F(case["a"])), float(F(case["b"])))
    net = case["net"]
    model = C["PolyModel"](net["in"], net["out"], [pe_from_json(b) for b in net["body"]])
    obs = Obs()
    user_dict, data_obs = {}, {}
    for d in case["data"]:
        data_obs[d["name"]] = []
        user_dict[d["name"]] = build_fn(C, d, data_obs[d["name"]])
    resid = build_fn(C, case["resid"], obs.resid_args, record_out=obs.resid_out)
    kw = dict(data_functions=user_dict)
    rec_b = None
    if case["bspace"]:
        inner = C["ListSampler"](case["bspace"], [prow(s) for s in case["sets"]])
        nps = inner.make_static() if case["static"] else inner
        rec_b = Recorder(nps)
        kw["non_periodic_sampler"] = nps
    if case["param"]:
        pn, pv = case["param"][0]
        kw["parameter"] = tp.models.Parameter([float(F(v)) for v in pv], mk_space([[pn, len(pv)]]))
    if case["custom"]:
        kw["error_fn"] = ERR_FNS[case["err"]](tp, torch)
        kw["reduce_fn"] = RED_FNS[case["red"]](torch)
    out = dict(losses=[], rows=[], errors=[])
    try:
        cond = tp.conditions.PeriodicCondition(model, interval, resid, **kw)
    except Exception as e:  # noqa
        out["errors"].append(("construct", classify_exc(e)))
        return out
    # the end-point samplers are attributes of the condition; if a refactoring keeps them elsewhere the end points are
    # taken to be the interval's (per_rows) and the by-name oracle on x_left / x_right still decides
    class _NoCalls:
        calls = []
    ls_, rs_ = getattr(cond, "left_sampler", None), getattr(cond, "right_sampler", None)
    rec_l = Recorder(ls_) if ls_ is not None else _NoCalls()
    rec_r = Recorder(rs_) if rs_ is not None else _NoCalls()
    out["endpoint_samplers_visible"] = ls_ is not None and rs_ is not None
    if not do_startup(case, [cond], out, [obs.resid_args, obs.resid_out]):
        return out
    for k in range(case["calls"]):
        bl, br, bb = len(rec_l.calls), len(rec_r.calls), len(rec_b.calls) if rec_b else 0
        n_obs = len(obs.resid_args)
        try:
            lv = cond.forward()
            out["f32"] = out.get("f32", False) or (lv.dtype == torch.float32)
            out["losses"].append(float(lv))
        except Exception as e:  # noqa
            out["losses"].append(None)
            out["errors"].append((k, classify_exc(e)))
        out["rows"].append(dict(left=rec_l.calls[bl:], right=rec_r.calls[br:], b=rec_b.calls[bb:] if rec_b else []))
        if len(obs.resid_args) == n_obs:
            obs.resid_args.append(None)
            obs.resid_out.append(None)
    out["resid_args"], out["resid_out"] = obs.resid_args, obs.resid_out
    return out


def per_rows(case, r, prev=None):
    """(xl, xr, xb) per row from the recorded left/right/non-periodic points of one forward call; the end-point
    samplers may be asked any number of times (equal answers), or not at all (the end points are then the interval's)"""
    def one(cands, fallback):
        if not cands:
            return fallback
        return cands[0]["rows"] if all(c["rows"] == cands[0]["rows"] for c in cands) else None
    B = one(r["b"], prev[2] if prev else None) if case["bspace"] else None
    if case["bspace"] and B is None:
        return None
    n = len(B) if case["bspace"] else 1
    L = one(r["left"], [[F(case["a"])]] * n)
    R = one(r["right"], [[F(case["b"])]] * n)
    if L is None or R is None:
        return None
    if not case["bspace"]:
        B = [[] for _ in L]
    if not (len(L) == len(R) == len(B)):
        return None
    return list(zip(L, R, B))


def reorder_rows(rec, space):
    """rows of a points record re-ordered into `space` order (by name)"""
    out = []
    for row in rec["rows"]:
        env = named_row(rec["space"], row)
        out.append([v for n, _ in space for v in env[n]])
    return out


def lines_per(case, res):
    if res["errors"] and isinstance(res["errors"][0][0], str):   # construction / training start failed: nothing was evaluated
        return []
    psp = [[case["pv"], 1]]
    full = psp + case["bspace"]
    lines = []

    for k in range(case["calls"]):
        rows = per_rows(case, res["rows"][k])
        if rows is None:
            lines.append(None)
            continue
        # the sets a static non-periodic sampler keeps: end point next to the non-periodic row, per side
        pl = pre_tok(case["static"], None, [list(t[0]) + list(t[2]) for t in rows])
        pr = pre_tok(case["static"], None, [list(t[1]) + list(t[2]) for t in rows])
        lines.append(" ".join(["per", tok_space(psp), tok_space(case["bspace"]),
                               lst(rows, lambda t: " ".join(cc.tok_vec(v) for v in t)),
                               net_tok(case["net"]), resid_ufun_tok(case),
                               lst(case["data"], data_tok), pl, pr,
                               tok_named([(n, [F(v) for v in vs]) for n, vs in case["param"]]), case["err"], case["red"]]))
    return lines


def expected_args_per(case, rows):
    psp = [[case["pv"], 1]]
    exp = {}
    body = [pe_from_json(b) for b in case["net"]["body"]]
    for side, idx in (("_left", 0), ("_right", 1)):
        envs = []
        for t in rows:
            env = named_row(psp, t[idx])
            env.update(named_row(case["bspace"], t[2]))
            envs.append(env)
        exp[case["pv"] + side] = [e[case["pv"]] for e in envs]
        k = 0
        for n, d in case["net"]["out"]:
            exp[n + side] = [[pe_frac(b, e) for b in body[k:k + d]] for e in envs]
            k += d
        for d in case["data"]:
            exp[d["name"] + side] = data_expected(d, envs)
    for n, d in case["bspace"]:
        exp[n] = [named_row(case["bspace"], t[2])[n] for t in rows]
    for n, vs in case["param"]:
        exp[n] = [[F(v) for v in vs] for _ in rows]
    for n, vs in case["resid"]["defaults"]:
        exp.setdefault(n, [[F(v) for v in vs] for _ in rows])
    return exp


def judge_per(rep, case, res, replies):
    rep.count("per:" + ("static" if case["static"] else "empty-sampler" if not case["bspace"] else "non-static"))
    rep.count(f"per:data-fns={len(case['data'])}")
    if res.get("endpoint_samplers_visible") is False:
        rep.count("oracle-skipped:periodic-end-point-samplers-not-visible")
    count_shapes(rep, [case["resid"]] + case["data"])
    count_startup(rep, case)
    if any(case["pv"] in [n for n, _ in d["defaults"]] for d in case["data"]):
        rep.count("per:data-fn-with-defaulted-periodic-variable" + (":static" if case["static"] else ""))
    if res["errors"]:
        for where, what in res["errors"]:
            rep.fail(f"periodic condition raised at {where}: {what}", case)
        return
    for k in range(case["calls"]):
        rows = per_rows(case, res["rows"][k])
        if rows is None:
            rep.fail(f"periodic condition: forward call {k} did not draw one left, one right and one non-periodic point set of equal length", case)
            continue
        n = len(rows)
        a, b = F(case["a"]), F(case["b"])
        if any(t[0] != [a] or t[1] != [b] for t in rows):
            rep.fail("periodic condition: left/right points are not the interval's end points", case)
        args, out, loss = res["resid_args"][k], res["resid_out"][k], res["losses"][k]
        if args is None:
            rep.fail(f"periodic condition: forward call {k} never called the residual", case)
            continue
        # the interval's end points come from a float32 GridSampler: without float64 non-periodic points the
        # whole computation (model, residual, reduction) runs in float32
        ltol = (2e-5, 1e-6) if res.get("f32") else (TOL["rel"], TOL["abs"])
        atol = (2e-5, 1e-6) if not case["bspace"] else (1e-12, 1e-12)
        doc = documented_reduction(case["err"], case["red"], out)
        if doc is None or not close(loss, float(doc), *ltol):
            rep.fail(f"periodic: forward call {k} returned {loss!r}; documented reduction of the residual values is {float(doc)!r}", case)
        exp = expected_args_per(case, rows)
        for name, got in args.items():
            want = exp.get(name)
            if want is None or not rows_close(expand(got, n), want, *atol):
                rep.fail(f"periodic: forward call {k}: argument '{name}' seen by the residual is not its value on its own side's rows", case,
                         detail=dict(call=k, name=name, got=[[str(v) for v in r] for r in expand(got, n)][:4],
                                     want=None if want is None else [[str(v) for v in r] for r in want][:4]))
        m = parse_reply(replies[k]) if replies[k] is not None else dict(error="no-line")
        if "error" in m:
            rep.disagree("per: model rejects, implementation returns a loss", dict(case=case, call=k), loss, m["error"])
            continue
        if not close(loss, float(m["loss"]), *ltol):
            rep.disagree("per loss: drivers/C04.lean `per` vs PeriodicCondition.forward()", dict(case=case, call=k), loss, str(m["loss"]))
        names = case["resid"]["params"]
        for i in range(n):
            for j, name in enumerate(names):
                got = expand(args[name], n)[i]
                if not rows_close([got], [m["bound"][i][j]], *atol):
                    rep.disagree(f"per argument binding '{name}' row {i}", dict(case=case, call=k), [str(v) for v in got], [str(v) for v in m["bound"][i][j]])
                    return


# ------------------------------------------------------------------------------------------------
# PIDeepONetCondition

def gen_don(ctx, rng):
    sv = rng.choice(VARS)                                   # the input variable of the branch functions
    others = [v for v in VARS if v != sv]
    xspace = [[sv, 1]] + (gen_space(rng, others, 1, 1) if rng.random() < 0.5 else [])
    rng.shuffle(xspace)
    trunk_in = xspace[:]
    rng.shuffle(trunk_in)
    pspace = [["k", rng.randint(1, 2)]]
    fout = [["f", rng.randint(1, 2)]]
    fn = gen_fn(rng, "fset", pspace + [[sv, 1]], dim_of(fout), deg=2, allow_default=False)
    for nm in ("k", sv):
        if nm not in fn["params"]:
            fn["params"].append(nm)
    out_space = gen_space(rng, ["u", "v"], 1, 1)
    du = dim_of(out_space)
    nk = rng.randint(1, 2)
    m = rng.randint(1, 3)
    zs = []
    while len(zs) < m:
        z = js(cc.dy(rng, 0, 4, 4))
        if [z] not in zs:
            zs.append([z])
    W = [[js(rng.randint(-2, 2)) for _ in range(du * nk)] for _ in range(m * dim_of(fout))]
    feats = [pe_to_json(cc.gen_pe(rng, scalar_vars(trunk_in), 1, 2)) for _ in range(du * nk)]
    F_ = rng.choice([1, 2, 3])
    n = rng.choice([1, 2, 3, 5])
    calls = rng.choice([1, 2])
    static = rng.random() < 0.4
    psets = [gen_rows(rng, F_, dim_of(pspace)) for _ in range(calls + 1)]
    xsets = [gen_rows(rng, n, dim_of(xspace)) for _ in range(calls + 3)]
    def sub(first):
        """one PIDeepONetCondition on the shared DeepONet / function set: own input sampler, residual, data"""
        n_ = n if first else rng.choice([1, 2, 3, 5])
        data = [gen_fn(rng, dn, xspace, rng.randint(1, 2)) for dn in rng.sample(["g"], rng.choice([0, 1]))]
        for d in data:
            d["wrap"] = rng.random() < 0.3
        data = tabulate(rng, data, n_)
        param = []
        if rng.random() < 0.3:
            param = [["D", [js(cc.dy(rng))]]]
        avail = list(xspace) + out_space + [[p[0], len(p[1])] for p in param] + [[d["name"], len(d["body"])] for d in data]
        use_f = rng.random() < (0.5 if first else 0.8)
        if use_f:
            avail = avail + fout
        resid = gen_fn(rng, "resid", avail, rng.randint(1, 2), deg=2)
        if use_f and "f" not in resid["params"]:
            resid["params"].insert(0, "f")
            resid["body"][0] = ["+", resid["body"][0], ["v", "f", 0]]
        if out_space[0][0] not in resid["params"]:
            resid["params"].insert(0, out_space[0][0])
        if dim_of(fout) == 1 and rng.random() < 0.3:
            # fixed share: the function-set output is an argument of the residual WITH A DEFAULT — it is supplied all the same
            use_f = True
            if "f" not in resid["params"]:
                resid["params"].insert(0, "f")
            make_defaulted(rng, resid, "f")
        return dict(static=(static if first else rng.random() < 0.6), n=n_, data=data, param=param, resid=resid, use_f=use_f,
                    xsets=[gen_rows(rng, n_, dim_of(xspace)) for _ in range(calls + 3)])
    # 1-3 conditions share ONE DeepONet and ONE function set (equation + boundary/initial conditions); every
    # training iteration evaluates all of them, in an order that changes from iteration to iteration
    nconds = rng.choice([1, 1, 2, 2, 3])
    # how the conditions are called: with the training iteration number (Solver.training_step), directly
    # (`cond()` / validation step: iteration=None), or a mixture; the function set resamples exactly when the
    # key it is called with differs from the key of the previous call
    mode = rng.choice(["train"] * 5 + ["direct"] * 3 + ["mixed"] * 2)
    if nconds > 1 or mode != "train":
        calls = rng.choice([2, 3])
    if mode == "train":
        keys = list(range(calls))
    elif mode == "direct":
        keys = [None] * calls
    else:
        calls = rng.choice([3, 4])
        keys = [rng.choice([None, 0, 1]) for _ in range(calls)]
    psets = [gen_rows(rng, F_, dim_of(pspace)) for _ in range(calls + 1)]
    subs = [sub(True)] + [sub(False) for _ in range(nconds - 1)]
    steps = []
    for k in range(calls):
        order = list(range(nconds))
        rng.shuffle(order)
        steps += [[k, j] for j in order]
    # which function sets the conditions use: ONE shared set (usual), TWO different sets that take their parameters from one
    # shared STATIC parameter sampler (their param_batch is one and the same object), or two FunctionSetCollections of the
    # same member sets in different order (param_batch stays None) — fixed shares, not left to the draw
    fsmode = "one"
    fn2 = None
    if nconds >= 2:
        fsmode = rng.choice(["one", "one", "two_static", "collection"])
    if fsmode != "one":
        for j_, sb in enumerate(subs):
            sb["fs"] = j_ % 2
        if fsmode == "two_static":
            fn2 = gen_fn(rng, "fset2", pspace + [[sv, 1]], dim_of(fout), deg=2, allow_default=False)
            for nm in ("k", sv):
                if nm not in fn2["params"]:
                    fn2["params"].append(nm)
            fn2["body"][0] = ["+", fn2["body"][0], ["*", ["c", "3"], ["v", "k", 0]]]
        # every round evaluates the first condition AGAIN after the others (same iteration key)
        steps = [st_ for k_ in range(calls) for st_ in ([s_ for s_ in steps if s_[0] == k_] + [[k_, steps[0][1]]])]
    dsub = None
    if fsmode == "one" and rng.random() < 0.5:
        # a DeepONetDataCondition on the SAME DeepONet: it feeds its own branch data to the shared branch net; it is
        # evaluated between the physics conditions (steps [k, "D"])
        nT = rng.choice([1, 2, 3])
        dsub = dict(branch=[gen_rows(rng, len(zs), dim_of(fout)) for _ in range(F_)], trunk=gen_rows(rng, nT, dim_of(xspace)),
                    out=[gen_rows(rng, nT, dim_of(out_space)) for _ in range(F_)], norm=rng.choice([1, 2, "inf"]), root=rng.choice([1, 2]))
        st2 = []
        for k_, j_ in steps:
            st2.append([k_, j_])
            if rng.random() < 0.5:
                st2.append([k_, "D"])
        if not any(j_ == "D" for _, j_ in st2):
            st2.insert(rng.randint(1, len(st2)), [st2[0][0], "D"])
        steps = st2
    return dict(kind="don", sv=sv, xspace=xspace, trunk_in=trunk_in, pspace=pspace, fout=fout, fn=fn, out=out_space,
                nk=nk, zs=zs, W=W, feats=feats, F=F_, calls=calls, psets=psets, subs=subs, steps=steps, keys=keys,
                mode=mode, dsub=dsub, fsmode=fsmode, fn2=fn2, psets2=[gen_rows(rng, F_, dim_of(pspace)) for _ in range(2 * calls + 2)],
                startup=gen_startup(rng, 0.3, 0.0))


def don_batches(case, steps=None):
    """the function-set rule: a call resamples iff its iteration key differs from the key of the previous call
    (initially -1); returns for every step the number of the function batch in force, and the number of draws"""
    cur, draws, out = -1, 0, []
    keys = case.get("keys") or list(range(case["calls"]))
    for k, j in (steps if steps is not None else case["steps"]):
        if j == "D":
            out.append(max(draws - 1, 0))       # the data condition does not touch the function set
            continue
        if keys[k] != cur or (keys[k] is None) != (cur is None):
            cur, draws = keys[k], draws + 1
        out.append(draws - 1)
    return out, draws


def don_fn(case, sub):
    return case["fn2"] if (case.get("fsmode") == "two_static" and sub.get("fs") == 1) else case["fn"]


def don_net(case, fn=None):
    """the DeepONet (trunk features · linear branch of the discretised input function) as ONE polynomial
    program of the function parameters `k` and the trunk variables"""
    sv, nk = case["sv"], case["nk"]
    fbody = [pe_from_json(b) for b in (fn or case["fn"])["body"]]
    dout = dim_of(case["fout"])
    du = dim_of(case["out"])
    feats = [pe_from_json(b) for b in case["feats"]]
    W = [[F(v) for v in r] for r in case["W"]]
    body = []
    for c in range(du):
        terms = []
        for k in range(nk):
            col = c * nk + k
            br = []
            for mi, z in enumerate(case["zs"]):
                for o in range(dout):
                    br.append(('*', ('c', W[mi * dout + o][col]), cc.pe_subst(fbody[o], sv, [F(z[0])])))
            terms.append(('*', feats[col], cc.pe_sum(br)))
        body.append(cc.pe_sum(terms))
    return {"in": case["pspace"] + case["trunk_in"], "out": case["out"], "body": [pe_to_json(b) for b in body]}


def run_don(case, only=None):
    """only = j: construct and evaluate condition j alone (fresh objects, the same draws)"""
    C = classes()
    tp, torch = C["tp"], C["torch"]
    sv = case["sv"]
    fspace = tp.spaces.FunctionSpace(tp.domains.Interval(mk_space([[sv, 1]]), 0.0, 1.0), mk_space(case["fout"]))
    custom_fn = build_fn(C, case["fn"], [])
    psampler = C["ListSampler"](case["pspace"], [prow(s) for s in case["psets"]])
    rec_p = Recorder(psampler)
    fsmode = case.get("fsmode", "one")
    if fsmode == "two_static":
        sps = psampler.make_static()                                          # ONE static parameter sampler object
        rec_p = Recorder(sps)
        fsets = [tp.domains.CustomFunctionSet(fspace, sps, custom_fn),
                 tp.domains.CustomFunctionSet(fspace, sps, build_fn(C, case["fn2"], []))]
    elif fsmode == "collection":
        ps2 = C["ListSampler"](case["pspace"], [prow(s) for s in case["psets2"]])
        # static member samplers: the member sets are shared by both collections, so what they hold must not depend on
        # who asked last
        fa = tp.domains.CustomFunctionSet(fspace, psampler.make_static(), custom_fn)
        fb = tp.domains.CustomFunctionSet(fspace, ps2.make_static(), custom_fn)
        fsets = [fa + fb, fb + fa]          # same members, other order; param_batch is None
    else:
        fsets = [tp.domains.CustomFunctionSet(fspace, psampler, custom_fn)]    # shared by all conditions
    fset = fsets[0]

    def current_params(fs):
        members = getattr(fs, "collection", None)
        if members is None:
            pb = getattr(fs, "param_batch", None)
            return cc.points_record(pb) if pb is not None else (rec_p.calls[-1] if rec_p.calls else None)
        recs = [cc.points_record(m.param_batch) for m in members if getattr(m, "param_batch", None) is not None]
        if len(recs) != len(members):
            return None
        return dict(space=recs[0]["space"], rows=[r for rc in recs for r in rc["rows"]], shape=None)
    disc = C["ListSampler"]([[sv, 1]], [prow(case["zs"])]).make_static()
    trunk = C["PolyTrunk"](case["trunk_in"], [pe_from_json(b) for b in case["feats"]])
    branch = C["LinBranch"](fspace, disc, [[F(v) for v in r] for r in case["W"]])
    net = tp.models.DeepONet(trunk, branch, mk_space(case["out"]), output_neurons=dim_of(case["out"]) * case["nk"])  # shared
    out = dict(errors=[], steps=[], construct_points=[], param_draws=0)
    conds = []
    for j_, sub in enumerate(case["subs"]):
        if only is not None and j_ != only:
            conds.append(None)
            out["construct_points"].append([])
            continue
        inner = C["ListSampler"](case["xspace"], [prow(s) for s in sub["xsets"]])
        sampler = inner.make_static() if sub["static"] else inner
        rec = Recorder(sampler)
        obs = Obs()
        user_dict = {d["name"]: build_fn(C, d, []) for d in sub["data"]}
        resid = build_fn(C, sub["resid"], obs.resid_args, record_out=obs.resid_out)
        kw = dict(data_functions=user_dict)
        if sub["param"]:
            pn, pv = sub["param"][0]
            kw["parameter"] = tp.models.Parameter([float(F(v)) for v in pv], mk_space([[pn, len(pv)]]))
        try:
            cond = tp.conditions.PIDeepONetCondition(net, fsets[sub.get("fs", 0) % len(fsets)], sampler, resid, **kw)
        except Exception as e:  # noqa
            out["errors"].append(("construct", classify_exc(e)))
            return out
        out["construct_points"].append(list(rec.calls))
        conds.append((cond, rec, obs))
    dcond = None
    if case.get("dsub") and only is None:
        ds = case["dsub"]
        t64 = lambda rows: torch.tensor([[[float(F(v)) for v in r] for r in blk] for blk in rows], dtype=torch.float64)
        loader = tp.utils.DeepONetDataLoader(t64(ds["branch"]), torch.tensor([[float(F(v)) for v in r] for r in ds["trunk"]], dtype=torch.float64),
                                             t64(ds["out"]), mk_space(case["fout"]), mk_space(case["xspace"]), mk_space(case["out"]),
                                             branch_batch_size=case["F"], trunk_batch_size=len(ds["trunk"]), shuffle_branch=False, shuffle_trunk=False)
        try:
            dcond = tp.conditions.DeepONetDataCondition(net, loader, ds["norm"], root=float(ds["root"]))
        except Exception as e:  # noqa
            out["errors"].append(("construct data condition", classify_exc(e)))
            return out
    if not do_startup(case, [c[0] for c in conds if c is not None], out):
        return out
    for k, j in case["steps"]:
        if j == "D":
            if dcond is not None:
                st = dict(k=k, j="D", loss=None, error=None, args=None, out=None, pp=None, points=[], batch=len(rec_p.calls))
                try:
                    st["loss"] = float(dcond.forward())
                except Exception as e:  # noqa
                    st["error"] = classify_exc(e)
                    out["errors"].append((f"data condition in round {k}", st["error"]))
                out["steps"].append(st)
            continue
        if conds[j] is None:
            continue
        cond, rec, obs = conds[j]
        b, n_obs = len(rec.calls), len(obs.resid_args)
        st = dict(k=k, j=j, loss=None, error=None, args=None, out=None, pp=None)
        try:
            st["loss"] = float(cond.forward(iteration=(case.get("keys") or list(range(case["calls"])))[k]))
        except Exception as e:  # noqa
            st["error"] = classify_exc(e)
            out["errors"].append((f"iteration {k} condition {j}", st["error"]))
        st["points"] = rec.calls[b:]
        st["pp"] = current_params(fsets[case["subs"][j].get("fs", 0) % len(fsets)])      # the input functions in force for THIS condition          # the input functions currently in the branch net
        if len(obs.resid_args) > n_obs:
            st["args"], st["out"] = obs.resid_args[-1], obs.resid_out[-1]
        st["batch"] = len(rec_p.calls)           # number of function batches drawn so far
        out["steps"].append(st)
    out["param_draws"] = len(rec_p.calls)
    out["ran_steps"] = [[k, j] for k, j in case["steps"] if (j == "D" and dcond is not None) or (j != "D" and conds[j] is not None)]
    return out


def lines_don(case, res):
    if res["errors"] and isinstance(res["errors"][0][0], str):   # construction / training start failed: nothing was evaluated
        return []
    lines = []
    for st in res["steps"]:
        if st["j"] == "D":
            lines.append(None)
            continue
        sub = case["subs"][st["j"]]
        net = don_net(case, don_fn(case, sub))
        p, pp = pick_points(st["points"], None, st["args"]), st["pp"]
        if p is None or pp is None:
            lines.append(None)
            continue
        pre = pre_tok(sub["static"], None, p["rows"])
        fso = "1 " + tok_space(case["fout"]) + " " + fn_tok(don_fn(case, sub)) if sub["use_f"] else "0"
        lines.append(" ".join(["don", tok_space(pp["space"]), tok_space(p["space"]), tok_table(pp["rows"]), tok_table(p["rows"]),
                               net_tok(net), fso, resid_ufun_tok(sub),
                               lst(sub["data"], data_tok), pre,
                               tok_named([(n, [F(v) for v in vs]) for n, vs in sub["param"]]), "0"]))
    return lines


def tile(rows, total):
    if len(rows) == total or len(rows) == 0:
        return rows
    if total % len(rows) == 0:
        return rows * (total // len(rows))
    return rows


def judge_don(rep, case, res, replies):
    rep.count(f"don:conditions-sharing-net-and-function-set={len(case['subs'])}")
    rep.count(f"don:iterations={case['calls']}")
    count_startup(rep, case)
    rep.count(f"don:functions={case['F']}")
    count_shapes(rep, [case["fn"]] + [f for sub in case["subs"] for f in [sub["resid"]] + sub["data"]])
    if res["errors"]:
        for where, what in res["errors"]:
            rep.fail(f"PIDeepONetCondition raised at {where}: {what}", case)
        return
    rep.count("don:calls=" + case.get("mode", "train"))
    rep.count("don:function-sets=" + case.get("fsmode", "one"))
    batch_of, want_draws = don_batches(case, res.get("ran_steps"))
    if case.get("fsmode", "one") != "one":
        # several function sets: the draw rule applies per set; here the by-name arguments (u, f for the functions in
        # force for THIS condition) and alone-vs-company decide
        batch_of = list(range(len(res["steps"])))
    elif res["param_draws"] != want_draws:
        rep.fail(f"the shared function set drew new functions {res['param_draws']} times; called with the iteration keys "
                 f"{[(case.get('keys') or list(range(case['calls'])))[k] for k, _ in res.get('ran_steps', case['steps'])]} it must draw "
                 f"{want_draws} times (once per change of the key)", case)
    # repeatability: same condition, static input sampler, same function batch in force => same loss
    seen_loss = {}
    for st, b in zip(res["steps"], batch_of):
        if st["j"] != "D" and case["subs"][st["j"]]["static"] and st["loss"] is not None:
            prev = seen_loss.setdefault((st["j"], b), st["loss"])
            if prev != st["loss"]:
                rep.fail(f"PIDeepONetCondition {st['j']} (static input sampler) returned {prev!r} and then {st['loss']!r} although no new "
                         f"input functions were due in between (iteration keys {case.get('keys')})", case)
    if case.get("dsub"):
        rep.count("don:with-DeepONetDataCondition-on-the-same-DeepONet")
    first_of_iter = {}
    for si, st in enumerate(res["steps"]):
        if st["j"] == "D":
            # exact oracle of the data condition: trunk features · (linear branch of ITS branch data) minus its targets
            ds = case["dsub"]
            feats = [pe_from_json(b) for b in case["feats"]]
            W = [[F(v) for v in r] for r in case["W"]]
            du, nk, dout = dim_of(case["out"]), case["nk"], dim_of(case["fout"])
            a = []
            for f_, blk in enumerate(ds["branch"]):
                flat = [F(v) for row in blk for v in row]
                for jx, xrow in enumerate(ds["trunk"]):
                    env = named_row(case["xspace"], [F(v) for v in xrow])
                    for c_ in range(du):
                        y = sum(pe_frac(feats[c_ * nk + k_], env) * sum(flat[i_] * W[i_][c_ * nk + k_] for i_ in range(len(flat))) for k_ in range(nk))
                        a.append(abs(y - F(ds["out"][f_][jx][c_])))
            doc = max(a) if ds["norm"] == "inf" else sum(v ** ds["norm"] for v in a) / len(a)
            docv = float(doc) ** (1.0 / ds["root"]) if ds["root"] != 1 else float(doc)
            if st["loss"] is None or not close(st["loss"], docv, 1e-9, 0.0):
                rep.fail(f"DeepONetDataCondition (round {st['k']}, on the DeepONet it shares with the physics conditions) returned {st['loss']!r}; "
                         f"the stated norm of model minus data is {docv!r}", case, detail=dict(step=si))
            continue
        sub = case["subs"][st["j"]]
        body = [pe_from_json(b) for b in don_net(case, don_fn(case, sub))["body"]]
        k = st["k"]
        first_of_iter.setdefault(k, st["j"])
        tag = f"iteration {k}, condition {st['j']}" + ("" if first_of_iter[k] == st["j"] else " (not the first of its iteration)")
        rep.count("don:" + ("static" if sub["static"] else "non-static") + (":uses-function-set-output" if sub["use_f"] else ""))
        p, pp = pick_points(st["points"], None, st["args"]), st["pp"]
        if p is None or pp is None:
            rep.fail(f"PIDeepONetCondition ({tag}) never drew a location set", case)
            continue
        nF, n = len(pp["rows"]), len(p["rows"])
        args, out, loss = st["args"], st["out"], st["loss"]
        if args is None:
            rep.fail(f"PIDeepONetCondition ({tag}) never called the residual", case)
            continue
        out = tile(out, nF * n)
        doc = documented_reduction("sq", "mean", out)        # mean over functions x locations of sum over components
        if not close(loss, float(doc), TOL["rel"], TOL["abs"]):
            rep.fail(f"PIDeepONetCondition ({tag}) returned {loss!r}; the documented mean over {nF} functions x {n} "
                     f"locations of the squared residual summed over {len(out[0])} components is {float(doc)!r}", case,
                     detail=dict(step=si, ratio=(loss / float(doc)) if doc else None))
        exp = {}
        envs = []
        for prow_ in pp["rows"]:
            for xrow in p["rows"]:
                e = named_row(p["space"], xrow)
                e.update(named_row(pp["space"], prow_))
                envs.append(e)
        for nm, d in p["space"]:
            exp[nm] = [e[nm] for e in envs]
        kk = 0
        for nm, d in case["out"]:
            exp[nm] = [[pe_frac(b, e) for b in body[kk:kk + d]] for e in envs]
            kk += d
        for d in sub["data"]:
            exp[d["name"]] = data_expected(d, envs)
        if sub["use_f"]:
            exp["f"] = [eval_fn_spec(don_fn(case, sub), e) for e in envs]
        for nm, vs in sub["param"]:
            exp[nm] = [[F(v) for v in vs] for _ in envs]
        for nm, vs in sub["resid"]["defaults"]:
            exp.setdefault(nm, [[F(v) for v in vs] for _ in envs])
        for name, got in args.items():
            want = exp.get(name)
            g = tile(expand(got, nF * n), nF * n)
            if want is None or not rows_close(g, want, 1e-12, 1e-12):
                what = ("the input functions currently held by the branch net, evaluated at the sampled locations" if name == "f"
                        else "its value for (function, location) in row-major order")
                rep.fail(f"PIDeepONetCondition ({tag}): argument '{name}' seen by the residual is not {what}", case,
                         detail=dict(step=si, name=name, got=[[str(v) for v in r] for r in g][:4],
                                     want=None if want is None else [[str(v) for v in r] for r in want][:4]))
        m = parse_reply(replies[si]) if si < len(replies) and replies[si] is not None else dict(error="no-line")
        if "error" in m:
            rep.disagree("don: model rejects, implementation returns a loss", dict(case=case, step=si), loss, m["error"])
            continue
        if not close(loss, float(m["loss"]), TOL["rel"], TOL["abs"]):
            rep.disagree("don loss: drivers/C04.lean `don` vs PIDeepONetCondition.forward()", dict(case=case, step=si), loss, str(m["loss"]))
        for i in range(nF * n):
            for jj, name in enumerate(sub["resid"]["params"]):
                got = tile(expand(args[name], nF * n), nF * n)[i]
                if not rows_close([got], [m["bound"][i][jj]], 1e-12, 1e-12):
                    rep.disagree(f"don argument binding '{name}' row {i}", dict(case=case, step=si), [str(v) for v in got], [str(v) for v in m["bound"][i][jj]])
                    return


# ------------------------------------------------------------------------------------------------

GEN = dict(sm=gen_sm, data=gen_data, per=gen_per, don=gen_don, int=gen_int, misc=gen_misc)
RUN = dict(sm=run_sm, data=run_data, per=run_per, don=run_don, int=run_int, misc=run_misc)
LINES = dict(sm=lines_sm, data=lines_data, per=lines_per, don=lines_don, int=lines_int, misc=lambda c, r: [])
JUDGE = dict(sm=judge_sm, data=judge_data, per=judge_per, don=judge_don, int=judge_int, misc=judge_misc)


def gen_cases(ctx):
    rng = ctx.rng
    cases = []
    for _ in range(ctx.scale(220, 2400)):
        cases.append(gen_sm(ctx, rng))
    for _ in range(ctx.scale(50, 550)):
        cases.append(gen_sm_tp(ctx, rng))
    for _ in range(ctx.scale(80, 900)):
        cases.append(gen_data(ctx, rng))
    for i_ in range(ctx.scale(80, 900)):
        cases.append(gen_per_single_point(ctx, rng) if i_ % 5 == 0 else gen_per(ctx, rng))
    for _ in range(ctx.scale(60, 700)):
        cases.append(gen_don(ctx, rng))
    for _ in range(ctx.scale(70, 800)):
        cases.append(gen_int(ctx, rng))
    for _ in range(ctx.scale(30, 350)):
        cases.append(gen_aw(ctx, rng))
    for _ in range(ctx.scale(40, 450)):
        cases.append(gen_misc(ctx, rng))
    return cases


def nontrivial(case):
    if case["kind"] == "sm":
        nrows = len(case["sets"][0]) if case["sets"] else case["tp"]["n"] * (case["tp"]["m"] if len(case["space"]) > 1 else 1)
        return nrows >= 2 and (len(case["space"]) >= 2 or bool(case["data"]) or bool(case["param"]))
    if case["kind"] == "data":
        return len(case["xs"]) >= 2
    if case["kind"] == "per":
        return case["n"] >= 2 or bool(case["data"])
    if case["kind"] == "int":
        return case["n"] >= 2 and case["m"] >= 2
    if case["kind"] == "don":
        return case["F"] >= 2 and any(sub["n"] >= 2 for sub in case["subs"])
    return True


def key_of(case):
    c = dict(case)
    for k in ("sets", "isets", "xs", "ys", "psets", "xsets", "weights"):
        c.pop(k, None)
    if "subs" in c:
        c["subs"] = [{k: v for k, v in sub.items() if k != "xsets"} for sub in c["subs"]]
    return c


def variants(case, rng):
    """neighbours of a case on which a correspondence broke: the same condition evaluated more often, after a
    training start, with the static flag flipped — the failing-input search is intensified on exactly this case"""
    out = []
    import copy
    for startup in (None, "hook", "fit"):
        for more in (0, 2):
            v = copy.deepcopy(case)
            if "calls" in v and v["kind"] != "don":
                v["calls"] = v["calls"] + more
            elif more:
                continue
            if v["kind"] == "don" and startup == "fit":
                continue
            v["startup"] = startup
            out.append(v)
            if v["kind"] in ("sm", "int") and v.get("interval") is None and v.get("cls") != "aw":
                w = copy.deepcopy(v)
                w["static"] = not w["static"]
                out.append(w)
    return out


def intensify(ctx, rep, run_fn, already_failed):
    """after the main pass: for every case with a broken correspondence but no property failure, run the oracles on
    its variants; failures found there become the failing input"""
    seen, todo = set(), []
    for d in rep.disagreements:
        c = d["input"]
        c = c["case"] if isinstance(c, dict) and "case" in c and "kind" not in c else c
        key = common.json.dumps(key_of(c), sort_keys=True, default=str) if isinstance(c, dict) and "kind" in c else None
        if key and key not in seen and len(todo) < 8:
            seen.add(key)
            todo.append(c)
    if not todo or already_failed:
        return
    sub = common.Report(ctx)
    vs = [v for c in todo for v in variants(c, ctx.rng) if c["kind"] in GEN]
    if vs:
        run_fn(ctx, sub, vs, _intensify=False)
        rep.failures += sub.failures
        for k, v in sub.known_hits.items():
            rep.known_hits.setdefault(k, v)
        rep.notes.append(f"correspondence broke on {len(todo)} case(s): oracles re-run on {len(vs)} variants, {len(sub.failures)} failing inputs found")


def run(ctx, rep, cases=None, _intensify=True):
    rep.rule = ("seeded grammar-directed conditions (classes, samplers static/non-static/finite resample interval, learnable "
                "parameters, data functions with defaults, permuted space orders, derivatives, custom error/reduce); "
                "non-trivial = at least 2 sampled rows and (>= 2 variables or a data function or a parameter); "
                "distinct = distinct condition structure (point values ignored)")
    cases = cases if cases is not None else gen_cases(ctx)
    results, lines, owner = [], [], []
    for ci, c in enumerate(cases):
        r = RUN[c["kind"]](c)
        results.append(r)
        ls = LINES[c["kind"]](c, r)
        for j, l in enumerate(ls):
            if l is not None:
                owner.append((ci, j))
                lines.append(l)
        r["_nlines"] = len(ls)
        r["_line_ok"] = [l is not None for l in ls]
    try:
        replies = common.run_driver("C04", lines)
    except common.DriverFailure:
        for c, r in zip(cases, results):
            JUDGE[c["kind"]](rep, c, r, [None] * max(1, r["_nlines"]))
        rep.disagreements.clear()
        raise
    per_case = {}
    for (ci, j), rp in zip(owner, replies):
        per_case.setdefault(ci, {})[j] = rp
    for ci, (c, r) in enumerate(zip(cases, results)):
        rp = [per_case.get(ci, {}).get(j) for j in range(max(1, r["_nlines"], c.get("calls", 1)))]
        rep.case(key_of(c), nontrivial(c), sample=dict(case=key_of(c), losses=r.get("losses"), model=rp[:2]), kind=c["kind"] + c.get("cls", ""))
        JUDGE[c["kind"]](rep, c, r, rp)
    if _intensify and rep.disagreements:
        intensify(ctx, rep, run, bool(rep.failures))


def replay(ctx, obj):
    rep = common.Report(ctx)
    inp = obj.get("failing_input") or obj.get("first")
    case = inp["input"]
    if "case" in case and "kind" not in case:
        case = case["case"]
    lean = common.lean_check("C04")
    run(ctx, rep, [case])
    return common.finish(ctx, rep, lean)
