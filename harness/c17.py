"""C17 — partially evaluating a domain is the same as supplying the parameters.

For a generated parameter-dependent expression D, a set of fixed variables sigma (values), the remaining
parameter rows rho and query points, the harness runs on the implementation
    E  = D(**sigma)          E2 = D(**sigma_a)(**sigma_b)   (repeated evaluation, sigma = sigma_a + sigma_b)
and compares
  * correspondence (model vs implementation): `E._contains(points, rho)` against the Lean model's
    `contains (D.peval sigma) pts rho` evaluated in exact rational arithmetic (must agree whenever the
    smallest comparison slack exceeds MARGIN); `necessary_variables` of D, E, E2 against `freeVars`
    (exact, as sets); the shape parameters of E at rho against `(D.peval sigma).ground rho` (exact up to
    float32 rounding); sliced products against `sliceContains` / `sliceFreeVars`;
  * property oracles (implementation vs implementation, independent of the model):
    membership, volume, bounding box of E at rho == those of D at rho + sigma; samples of E at rho
    are as many as those of D at rho + sigma and lie in D at rho + sigma (judged by the exact Lean
    denotation with margin); the declared variables are exactly the needed ones (evaluation with
    exactly the declared variables works, dropping any declared variable makes an observable raise);
    D itself is unchanged by the calls (purity)."""
from fractions import Fraction as Fr

import common
import geomgen
import c05
from geomgen import Gen, Node, PF, c, v, dy, env_tokens

MARGIN = Fr(1, 2000)
TOL = "1/100000000 1/100000 1/100000"   # torch.isclose defaults; BARY_ATOL of parallelogram.py
PTOL = "1/1000 1/100000"                # Point._contains: isclose(atol=0.001), default rtol
PARAMS = ["t", "D", "s"]
FTOL = 2e-5                             # relative tolerance for float32 observables (volume, boxes, samples)


def f32(x):
    import numpy as np
    return Fr(float(np.float32(float(x))))


# ---------------------------------------------------------------------------------------------
# generation

class Gen17(Gen):
    """adds parameter-dependent rotations (shear matrices [[1, a*p], [0, 1]] are invertible for every value,
    rotation centres that move with the parameters)"""

    def solid(self, depth, var="x"):
        rng = self.rng
        if depth <= 1 or rng.random() < 0.25:
            return self.prim(var)
        ops = ["union", "cut", "inter"]
        if self.allow_translate:
            ops.append("translate")
        if self.allow_rotate and geomgen.DIM[var] == 2:
            ops.append("rotate")
        op = rng.choice(ops)
        if op in ("union", "cut", "inter"):
            return Node(op, None, [], [self.solid(depth - 1, var), self.solid(depth - 1, var)])
        if op == "translate":
            n = geomgen.DIM[var]
            return Node("translate", var, [self.vec([dy(rng, -2, 2) for _ in range(n)])], [self.solid(depth - 1, var)])
        if self.params and rng.random() < 0.5:
            p = rng.choice(self.params)
            a = dy(rng, -1, 1, 4) or Fr(1, 4)
            m = PF([c(1), ("*", c(a), v(p)), c(0), c(1)])
        else:
            co, si = rng.choice([(Fr(3, 5), Fr(4, 5)), (Fr(0), Fr(1)), (Fr(5, 13), Fr(12, 13)), (Fr(-4, 5), Fr(-3, 5)), (Fr(1), Fr(0))])
            m = PF([c(co), c(-si), c(si), c(co)])
        ctr = self.vec([dy(rng, -1, 1), dy(rng, -1, 1)])
        return Node("rotate", var, [m, ctr], [self.solid(depth - 1, var)])


def pf_py(pf, scalar=False, matrix=False, dfl=None):
    """like geomgen.PF.py, but the generated function broadcasts its arguments against each other: after a
    partial evaluation the library calls it with the fixed values (one row) next to the remaining
    parameter rows (k rows).  dfl: variables that get a Python default value in the signature
    (`def f(t, k=tensor([[2.]]))`)"""
    vs = pf.vars()
    if not vs:
        return pf.py(scalar=scalar, matrix=matrix)
    import torch
    dfl = {k_: v_ for k_, v_ in (dfl or {}).items() if k_ in vs}
    vs = [x for x in vs if x not in dfl] + [x for x in vs if x in dfl]
    ns = {"torch": torch}
    sig = []
    for x in vs:
        if x in dfl:
            ns["_d_" + x] = torch.tensor([[float(a) for a in dfl[x]]], dtype=torch.float32)
            sig.append(f"{x}=_d_{x}")
        else:
            sig.append(x)
    comps = [geomgen.pt_py(t) if geomgen.pt_vars(t) else f"torch.full_like({vs[0]}[:, :1], {float(geomgen.pt_eval(t, {}))!r})" for t in pf.terms]
    src = f"def _f({', '.join(sig)}):\n    return torch.column_stack(torch.broadcast_tensors({', '.join(comps)}))\n"
    exec(src, ns)
    f = ns["_f"]
    f._src = src
    return f


def to_tp(node, tp, dfl=None):
    """geomgen.Node.to_tp with broadcasting parameter functions"""
    k = node.kind
    D = tp.domains
    if k == "interval":
        return D.Interval(node.space(tp), pf_py(node.pfs[0], scalar=True, dfl=dfl), pf_py(node.pfs[1], scalar=True, dfl=dfl))
    if k == "par":
        return D.Parallelogram(node.space(tp), *[pf_py(p, dfl=dfl) for p in node.pfs])
    if k == "tri":
        return D.Triangle(node.space(tp), *[pf_py(p, dfl=dfl) for p in node.pfs])
    if k == "circle":
        return D.Circle(node.space(tp), pf_py(node.pfs[0], dfl=dfl), pf_py(node.pfs[1], scalar=True, dfl=dfl))
    if k == "sphere":
        return D.Sphere(node.space(tp), pf_py(node.pfs[0], dfl=dfl), pf_py(node.pfs[1], scalar=True, dfl=dfl))
    if k in ("union", "cut", "inter", "prod"):
        a, b = to_tp(node.kids[0], tp, dfl), to_tp(node.kids[1], tp, dfl)
        if k == "union" and node.flags.get("disjoint"):
            from torchphysics.problem.domains.domainoperations.union import UnionDomain
            return UnionDomain(a, b, disjoint=True)
        if k == "cut" and node.flags.get("contained"):
            from torchphysics.problem.domains.domainoperations.cut import CutDomain
            return CutDomain(a, b, contained=True)
        return a + b if k == "union" else a - b if k == "cut" else a & b if k == "inter" else a * b
    if k == "translate":
        return D.Translate(to_tp(node.kids[0], tp, dfl), pf_py(node.pfs[0], dfl=dfl))
    if k == "rotate":
        return D.Rotate(to_tp(node.kids[0], tp, dfl), pf_py(node.pfs[0], matrix=True, dfl=dfl), pf_py(node.pfs[1], dfl=dfl))
    if k == "bdry":
        return to_tp(node.kids[0], tp, dfl).boundary
    if k == "bdryL":
        return to_tp(node.kids[0], tp, dfl).boundary_left
    if k == "bdryR":
        return to_tp(node.kids[0], tp, dfl).boundary_right
    raise ValueError(k)


def subst_term(t, sigma):
    k = t[0]
    if k == "c":
        return t
    if k == "v":
        return ("c", Fr(sigma[t[1]][t[2]])) if t[1] in sigma else t
    if k == "n":
        return ("n", subst_term(t[1], sigma))
    return (k, subst_term(t[1], sigma), subst_term(t[2], sigma))


def subst(node, sigma):
    """the expression one would write by hand: the fixed values substituted into the parameter terms"""
    return Node(node.kind, node.var, [PF([subst_term(t, sigma) for t in p.terms]) for p in node.pfs],
                [subst(k, sigma) for k in node.kids], node.flags)


def set_flags(node, rng):
    """`CutDomain(contained=True)` / `UnionDomain(disjoint=True)` change the volume formula (a - b instead of a)
    and must survive the evaluation"""
    if node.kind == "cut" and rng.random() < 0.4:
        node.flags = {"contained": True}
    if node.kind == "union" and rng.random() < 0.3:
        node.flags = {"disjoint": True}
    for k in node.kids:
        set_flags(k, rng)


def partner_interval(node):
    """the partner factor of a (Boolean combination of) product(s)"""
    return node.kids[1] if node.kind == "prod" else node.kids[0].kids[1]


def first_factor(node):
    return node.kids[0] if node.kind == "prod" else node.kids[0].kids[0]


# variable names of more than one character (the library must treat a name as one variable, not as characters)
LONG = {"t": "tau", "D": "mu", "s": "sig", "x": "pos", "y": "xi", "z": "q3"}
geomgen.DIM.update({LONG[k_]: geomgen.DIM[k_] for k_ in LONG})


def rename_term(t, mp):
    k = t[0]
    if k == "c":
        return t
    if k == "v":
        return ("v", mp.get(t[1], t[1]), t[2])
    if k == "n":
        return ("n", rename_term(t[1], mp))
    return (k, rename_term(t[1], mp), rename_term(t[2], mp))


def rename_node(node, mp):
    return Node(node.kind, mp.get(node.var, node.var) if node.var else node.var,
                [PF([rename_term(t, mp) for t in p_.terms]) for p_ in node.pfs], [rename_node(k_, mp) for k_ in node.kids], node.flags)


def rename_case(case, mp):
    r = lambda n_: mp.get(n_, n_)
    rd = lambda d_: {r(k_): v_ for k_, v_ in d_.items()}
    out = dict(case)
    out["dom"] = rename_node(geomgen.from_json(case["dom"]), mp).describe()
    out["params"] = [r(p_) for p_ in case["params"]]
    out["partner"] = r(case["partner"]) if case["partner"] else case["partner"]
    out["sigma"] = rd(case["sigma"])
    out["stage_b"] = [r(p_) for p_ in case["stage_b"]]
    out["prow"] = [rd(p_) for p_ in case["prow"]]
    out["rows"] = [(rd(pt), j) for pt, j in case["rows"]]
    out["free"] = [r(p_) for p_ in case["free"]]
    out["long_names"] = True
    return out


def parse_pt_str(t):
    return geomgen.parse_pt(t.split())


def frs(d):
    return {k: [str(a) for a in val] for k, val in d.items()}


def unfrs(d):
    return {k: [Fr(a) for a in val] for k, val in d.items()}


def make_case(ctx, idx):
    rng = ctx.rng
    mode = rng.choice(["solid2"] * 5 + ["solid1", "solid3", "prod", "prod", "bdry", "bdry", "side", "side", "slice", "slice"])
    npar = rng.choice([1, 2, 2, 3])
    if mode in ("prod", "slice"):
        npar = min(npar, 2)
    params = rng.sample(PARAMS, npar)
    depth = rng.choice([1, 2, 2, 3]) if ctx.quick else rng.choice([1, 2, 3, 3, 4])
    g = Gen17(rng, params=params, p_dep=0.6)
    partner = None
    if mode == "solid2":
        node = g.solid(depth, "x")
        if rng.random() < 0.3:
            # a parameter-dependent motion at the root
            if rng.random() < 0.5:
                node = Node("translate", "x", [g.vec([dy(rng, -2, 2), dy(rng, -2, 2)])], [node])
            else:
                p = rng.choice(params)
                m = PF([c(1), ("*", c(dy(rng, -1, 1, 4) or Fr(1, 4)), v(p)), c(0), c(1)])
                node = Node("rotate", "x", [m, g.vec([dy(rng, -1, 1), dy(rng, -1, 1)])], [node])
    elif mode == "solid1":
        g.allow_rotate = False
        node = g.solid(min(depth, 2), "y")
    elif mode == "solid3":
        node = g.solid(min(depth, 2), "z")
    elif mode in ("prod", "slice"):
        partner = [p for p in PARAMS if p not in params][0]
        b = Gen17(rng, params=params, p_dep=0.5).prim1(partner)
        # the first factor may depend on the partner's coordinate, also below translations / rotations
        # (handed down since /repo 414d4d6)
        ga = Gen17(rng, params=params + ([partner] if rng.random() < 0.7 else []), p_dep=0.6)
        a = ga.solid(min(depth, 2) if rng.random() < 0.6 else 3, "x")
        if rng.random() < 0.35:
            # forced: a shape that reads the partner's coordinate, below a motion (that may read it too)
            gm = Gen17(rng, params=params + [partner], p_dep=0.9)
            inner = gm.prim2("x")
            if rng.random() < 0.5:
                a = Node("translate", "x", [gm.vec([dy(rng, -2, 2), dy(rng, -2, 2)])], [inner])
            else:
                m = PF([c(1), ("*", c(dy(rng, -1, 1, 4) or Fr(1, 4)), v(rng.choice(params + [partner]))), c(0), c(1)])
                a = Node("rotate", "x", [m, gm.vec([dy(rng, -1, 1), dy(rng, -1, 1)])], [inner])
            if rng.random() < 0.4:
                a = Node(rng.choice(["union", "cut", "inter"]), None, [], [a, ga.prim2("x")])
        node = Node("prod", None, [], [a, b])
        if mode == "slice" and rng.random() < 0.4:
            # a Boolean combination of two products over the same partner: every product operand has to be sliced,
            # also one that depends on none of the fixed parameters
            a2 = Gen17(rng, params=([partner] if rng.random() < 0.6 else params + [partner]), p_dep=0.6,
                       allow_translate=False, allow_rotate=False).solid(1, "x")
            node = Node(rng.choice(["union", "cut", "inter"]), None, [], [node, Node("prod", None, [], [a2, b])])
    elif mode == "bdry":
        g.allow_rotate = rng.random() < 0.3
        g.allow_translate = rng.random() < 0.3
        inner = g.solid(min(depth, 2), rng.choice(["x", "x", "y", "z"]))
        node = Node("bdry", None, [], [inner])
    else:  # side: Interval.boundary_left / boundary_right
        node = Node(rng.choice(["bdryL", "bdryR"]), None, [], [g.prim1("y")])
    set_flags(node, rng)
    free = node.free_vars()
    # the fixed variables: a non-empty subset of the parameters (sometimes all, sometimes one the
    # expression does not use), split into two stages for the repeated evaluation
    fixed = [p for p in params if rng.random() < 0.6]
    if not fixed:
        fixed = [rng.choice(params)]
    if rng.random() < 0.15:
        extra = [p for p in PARAMS if p not in params and p != partner]
        if extra:
            fixed.append(extra[0])
    sigma = {p: [Fr(rng.randint(0, 16), 16)] for p in fixed}
    stage_b = [p for p in fixed if rng.random() < 0.5]
    rest = [p for p in params if p not in fixed]
    k = rng.choice([1, 2, 3]) if rest else 0
    prow = [{p: [Fr(rng.randint(0, 16), 16)] for p in rest} for _ in range(max(k, 1))]
    slice_at = None
    if mode == "slice":
        # fix the partner coordinate inside (or at an end of) the partner interval of every row
        los, his = [], []
        for pr in prow:
            env = dict(sigma, **pr)
            try:
                lo, hi = partner_interval(node).pfs[0].eval(env)[0], partner_interval(node).pfs[1].eval(env)[0]
            except KeyError:
                continue
            los.append(lo); his.append(hi)
        lo, hi = max(los), min(his)
        if lo > hi:
            lo = hi = los[0]
        w = rng.choice([lo, hi, (lo + hi) / 2, lo + (hi - lo) / 4])
        w = Fr(round(w * 64), 64)
        w = min(max(w, lo), hi)
        if rng.random() < 0.15:
            w = hi + 1          # outside the partner: only model vs implementation is compared
        slice_at = w
        sigma[partner] = [w]
    n = ctx.scale(20, 40)
    rows = []
    for i in range(n):
        pt = {}
        for var in node.vars():
            d = geomgen.DIM[var]
            pt[var] = [Fr(rng.randint(-5 * 32, 5 * 32), 32) for _ in range(d)]
        if mode == "slice":
            pt[partner] = [slice_at if rng.random() < 0.8 else slice_at + rng.choice([Fr(1, 16), Fr(-1, 8), Fr(1, 2)])]
        rows.append((pt, i % len(prow)))
    if len(node.vars()) == 1:
        var = node.vars()[0]
        extra = []
        for j, pr in enumerate(prow):
            pts = []
            c05.near_points(node, dict(sigma, **pr), rng, pts)
            extra += [({var: [f32(a) for a in p]}, j) for p in pts if len(p) == geomgen.DIM[var]]
        rng.shuffle(extra)
        rows += extra[: ctx.scale(24, 60)]
    elif mode in ("prod", "slice"):
        # near-edge points of the first factor, partner coordinate inside the partner interval
        extra = []
        for j, pr in enumerate(prow):
            env = dict(sigma, **pr)
            try:
                lo, hi = partner_interval(node).pfs[0].eval(env)[0], partner_interval(node).pfs[1].eval(env)[0]
            except KeyError:
                continue
            for _ in range(3):
                w = slice_at if mode == "slice" else lo + (hi - lo) * Fr(rng.randint(1, 7), 8)
                pts = []
                for ff in ([node.kids[0]] if node.kind == "prod" else [k_.kids[0] for k_ in node.kids]):
                    try:
                        c05.near_points(ff, dict(env, **{partner: [w]}), rng, pts)
                    except Exception:
                        pass
                rng.shuffle(pts)
                extra += [({"x": [f32(a) for a in p], partner: [f32(w)]}, j) for p in pts if len(p) == 2]
                if mode == "slice":
                    # the same points just off the fixed coordinate: a slice must reject them
                    for p in pts[:4]:
                        if len(p) == 2:
                            extra.append(({"x": [f32(a) for a in p], partner: [f32(w) + rng.choice([Fr(1, 16), Fr(-1, 16), Fr(1, 64)])]}, j))
        rng.shuffle(extra)
        rows += extra[: ctx.scale(24, 48)]
    case = dict(id=idx, mode=mode, dom=node.describe(), params=params, partner=partner,
                sigma=frs(sigma), stage_b=stage_b, prow=[frs(p) for p in prow], k=k,
                rows=[(frs(pt), j) for pt, j in rows], free=free,
                n_sample=rng.choice([3, 4, 7]))
    if rng.random() < 0.3:
        # every variable gets a name of several characters, or only some of them
        mp = dict(LONG) if rng.random() < 0.5 else {k_: LONG[k_] for k_ in LONG if rng.random() < 0.5}
        case = rename_case(case, mp)
    return case


# ---------------------------------------------------------------------------------------------
# implementation side

def _space(tp, names):
    sp = None
    for p in names:
        s = tp.spaces.R1(p)
        sp = s if sp is None else sp * s
    return sp


def mk_params(tp, torch, names, envs):
    """one row per env; Points.empty() when there is no variable"""
    names = list(names)
    if not names:
        return tp.spaces.Points.empty()
    return tp.spaces.Points(torch.tensor([[float(Fr(e[p][0])) for p in names] for e in envs], dtype=torch.float32), _space(tp, names))


def mk_points(tp, torch, node, pts):
    cols = []
    for pt in pts:
        r = []
        for var in node.vars():
            r += [float(Fr(a)) for a in pt[var]]
        cols.append(r)
    return tp.spaces.Points(torch.tensor(cols, dtype=torch.float32), node.space(tp))


def kwargs_of(torch, sigma, names):
    return {p: torch.tensor([[float(Fr(sigma[p][0]))]], dtype=torch.float32) for p in names}


def attempt(fn, *a, **k):
    try:
        return common.call_with_timeout(1.0, fn, *a, **k), None
    except common.CallTimeout as e:
        return None, "timeout: " + str(e)
    except Exception as e:  # noqa
        return None, f"{type(e).__name__}: {str(e)[:160]}"


def flat(t):
    return [float(x) for x in t.reshape(-1).tolist()]


def close_lists(a, b, tol=FTOL):
    if a is None or b is None:
        return a is b
    if len(a) != len(b):
        # one value / one box for all rows on one side, one per parameter row on the other
        if a and len(b) % len(a) == 0:
            a = a * (len(b) // len(a))
        elif b and len(a) % len(b) == 0:
            b = b * (len(a) // len(b))
        else:
            return False
    return all(abs(x - y) <= tol * (1 + max(abs(x), abs(y))) for x, y in zip(a, b))


PARAM_ATTRS = {"interval": ["lower_bound", "upper_bound"], "par": ["origin", "corner_1", "corner_2"],
               "tri": ["origin", "corner_1", "corner_2"], "circle": ["center", "radius"], "sphere": ["center", "radius"],
               "translate": ["translate_fn"], "rotate": ["rotation_fn", "rotate_around"]}


def ground_impl(node, obj, prm):
    """shape parameters of the implementation object at the parameter rows `prm`, in the model's traversal
    order; None if the object does not have the expected (internal) layout — then the comparison is skipped"""
    k = node.kind
    try:
        if k in ("interval", "par", "tri", "circle", "sphere"):
            return [flat(getattr(obj, a)(prm)) for a in PARAM_ATTRS[k]]
        if k in ("union", "cut", "inter", "prod"):
            a, b = ground_impl(node.kids[0], obj.domain_a, prm), ground_impl(node.kids[1], obj.domain_b, prm)
            return None if a is None or b is None else a + b
        if k in ("translate", "rotate"):
            d = ground_impl(node.kids[0], obj.domain, prm)
            return None if d is None else [flat(getattr(obj, a)(prm)) for a in PARAM_ATTRS[k]] + d
    except AssertionError:
        raise
    except Exception:
        return None
    return None


def run_impl(case, nonempty=True):
    """nonempty: every parameter row has a query point inside the set (exact evaluation) — samplers are only called then"""
    tp = common.use_repo()
    import torch
    node = geomgen.from_json(case["dom"])
    mode = case["mode"]
    sigma = case["sigma"]
    prow = case["prow"]
    rest = [p for p in case["params"] if p not in sigma]
    out = dict(errors={})
    D = to_tp(node, tp)
    out["nv0"] = sorted(D.necessary_variables)
    pts = mk_points(tp, torch, node, [pt for pt, _ in case["rows"]])
    row_envs = [prow[j] for _, j in case["rows"]]
    full_names = [p for p in list(sigma) + rest if p not in node.vars()]
    full_rows = mk_params(tp, torch, full_names, [dict(sigma, **e) for e in row_envs])
    rest_rows = mk_params(tp, torch, rest, row_envs)
    # --- the original at rho + sigma
    ref, err = attempt(D._contains, pts, full_rows)
    out["ref"] = None if ref is None else [bool(b) for b in ref.reshape(-1).tolist()]
    if err:
        out["errors"]["ref"] = err
    # D given only the remaining variables (raises when it depends on a fixed one) — must be the same after the calls
    _, err = attempt(D._contains, pts, rest_rows)
    out["bare_before"] = err is None
    # --- E = D(**sigma), E2 = D(**sigma_a)(**sigma_b)
    stage_b = case["stage_b"]
    stage_a = [p for p in sigma if p not in stage_b]
    E, err = attempt(lambda: D(**kwargs_of(torch, sigma, list(sigma))))
    if err:
        out["errors"]["call"] = err
        return out
    E2, err = attempt(lambda: D(**kwargs_of(torch, sigma, stage_a))(**kwargs_of(torch, sigma, stage_b)))
    if err:
        out["errors"]["call2"] = err
    out["nv1"] = sorted(E.necessary_variables) if E.necessary_variables is not None else None
    out["nv2"] = sorted(E2.necessary_variables) if E2 is not None else None
    got, err = attempt(E._contains, pts, rest_rows)
    out["E"] = None if got is None else [bool(b) for b in got.reshape(-1).tolist()]
    out["E_shape"] = None if got is None else list(got.shape)
    if err:
        out["errors"]["E"] = err
    if E2 is not None:
        got, err = attempt(E2._contains, pts, rest_rows)
        out["E2"] = None if got is None else [bool(b) for b in got.reshape(-1).tolist()]
        if err:
            out["errors"]["E2"] = err
    _, err = attempt(D._contains, pts, rest_rows)
    out["bare_after"] = err is None
    if mode == "slice":
        # the slice written by hand: every product becomes  A(with the values substituted) x Point(fixed coordinate)
        def by_hand(n):
            if n.kind == "prod":
                w = float(Fr(sigma[case["partner"]][0]))
                return to_tp(subst(n.kids[0], unfrs(sigma)), tp) * tp.domains.Point(tp.spaces.R1(case["partner"]), w)
            a_, b_ = by_hand(n.kids[0]), by_hand(n.kids[1])
            return a_ + b_ if n.kind == "union" else a_ - b_ if n.kind == "cut" else a_ & b_
        S, err = attempt(lambda: by_hand(node))
        if S is not None:
            out["nvS"] = sorted(S.necessary_variables)
            got, err = attempt(S._contains, pts, rest_rows)
            out["S"] = None if got is None else [bool(b) for b in got.reshape(-1).tolist()]
        return out
    # --- volume / bounding box / samples, with the distinct parameter rows;
    #     S = the same expression written by hand with the values substituted
    kfull = mk_params(tp, torch, full_names, [dict(sigma, **e) for e in prow])
    krest = mk_params(tp, torch, rest, prow)
    dependent_product = mode == "prod" and case["partner"] in node.kids[0].free_vars()
    S, err = attempt(lambda: to_tp(subst(node, unfrs(sigma)), tp))
    if err:
        out["errors"]["subst"] = err
    else:
        out["nvS"] = sorted(S.necessary_variables)
        got, err = attempt(S._contains, pts, rest_rows)
        out["S"] = None if got is None else [bool(b) for b in got.reshape(-1).tolist()]
    if not dependent_product:
        for name, fns in (("volume", dict(ref=lambda: D.volume(kfull), E=lambda: E.volume(krest), S=lambda: S.volume(krest))),
                          ("bbox", dict(ref=lambda: D.bounding_box(kfull), E=lambda: E.bounding_box(krest), S=lambda: S.bounding_box(krest)))):
            for who, fn in fns.items():
                a, ea = attempt(fn)
                out[f"{name}_{who}"] = None if a is None else flat(torch.as_tensor(a))
                if ea:
                    out["errors"][f"{name}_{who}"] = ea
    n = case["n_sample"]
    out["samples"] = {}
    if not dependent_product and mode != "prod" and nonempty and S is not None:
        for how in ("random", "grid"):
            def draw(dom, prm):
                torch.manual_seed(1000 + case["id"])
                return (dom.sample_random_uniform if how == "random" else dom.sample_grid)(n=n, params=prm)
            a, ea = attempt(draw, S, krest)
            b, eb = (None, "skipped: the hand-written equivalent does not return") if ea and ea.startswith("timeout") else attempt(draw, E, krest)
            rec = dict(err_ref=ea, err_E=eb)
            if a is not None:
                rec["n_ref"] = len(a)
            if b is not None:
                rec["n_E"] = len(b)
                rec["pts"] = b.as_tensor.detach().tolist()
                rec["finite"] = bool(torch.isfinite(b.as_tensor).all())
                rec["vars"] = list(b.space.keys())
            if a is not None and b is not None and len(a) == len(b):
                rec["same_seed_equal"] = bool(torch.allclose(a.as_tensor, b.as_tensor, rtol=1e-4, atol=1e-4))
            if a is not None and not rec.get("same_seed_equal"):
                rec["ref_pts"] = a.as_tensor.detach().tolist()
            out["samples"][how] = rec
    elif not nonempty:
        out["samples_skipped"] = "no query point inside for some parameter row"
    # --- shape parameters of E at rho (solid expressions only)
    if mode in ("solid1", "solid2", "solid3", "prod") and not dependent_product:
        try:
            g = ground_impl(node, E, krest)
        except AssertionError as e:
            g = None
            out["errors"]["ground"] = f"AssertionError: {str(e)[:120]}"
        out["ground"] = g
    # --- the declared variables are exactly the needed ones (for D(**sigma) and for D itself)
    def exactness(dom, decl, envs_rows, envs_k):
        probes = dict(contains=lambda prm: dom._contains(pts, prm), volume=lambda prm: dom.volume(prm), bbox=lambda prm: dom.bounding_box(prm))
        if dependent_product:
            probes.pop("volume"); probes.pop("bbox")
        exact = dict(enough=True, unneeded=[], own=sorted(set(decl) & set(node.vars())),
                     unknown=sorted(set(decl) - set(node.vars()) - set(node.free_vars()) - set(case["params"]) - set(sigma)))
        if exact["own"] or exact["unknown"] or not set(decl) <= set(envs_rows[0]):
            return exact
        _, err = attempt(probes["contains"], mk_params(tp, torch, decl, envs_rows))
        if err and not err.startswith("timeout"):
            exact["enough"] = False
            exact["enough_err"] = err
        for x in decl:
            less = [p for p in decl if p != x]
            raised = False
            for nm, fn in probes.items():
                _, err = attempt(fn, mk_params(tp, torch, less, envs_rows if nm == "contains" else envs_k))
                if err:        # (a timeout counts as "needed": never an alarm)
                    raised = True
                    break
            if not raised:
                exact["unneeded"].append(x)
        return exact
    out["exact"] = exactness(E, out["nv1"] or [], row_envs, prow)
    out["exact0"] = exactness(D, out["nv0"], [dict(sigma, **e) for e in row_envs], [dict(sigma, **e) for e in prow])
    # --- purity: the original is unchanged
    out["nv0_after"] = sorted(D.necessary_variables)
    ref2, _ = attempt(D._contains, pts, full_rows)
    out["ref_after"] = None if ref2 is None else [bool(b) for b in ref2.reshape(-1).tolist()]
    if not dependent_product:
        a, _ = attempt(lambda: D.volume(kfull))
        out["volume_ref_after"] = None if a is None else flat(torch.as_tensor(a))
    return out


# ---------------------------------------------------------------------------------------------
# model side

def rows_tokens(rows, prow):
    return common.lst(rows, lambda r: f"{env_tokens(unfrs(r[0]))} {env_tokens(unfrs(prow[r[1]]))}")


def case_lines(case):
    """driver requests of one case: [fv, ground per row-env..., all membership rows in one request, repeated evaluation]"""
    node = geomgen.from_json(case["dom"])
    dt = node.tokens()
    sigma = unfrs(case["sigma"])
    stage_b = case["stage_b"]
    s_a = {p: val for p, val in sigma.items() if p not in stage_b}
    s_b = {p: val for p, val in sigma.items() if p in stage_b}
    if case["mode"] == "slice":
        prods = [node] if node.kind == "prod" else node.kids
        return [f"slices {TOL} {PTOL} {p_.kids[0].tokens()} {p_.kids[1].tokens()} {env_tokens(sigma)} {rows_tokens(case['rows'], case['prow'])}"
                for p_ in prods]
    lines = [f"fv {dt} {env_tokens(s_a)} {env_tokens(s_b)}"]
    for pr in case["prow"]:
        lines.append(f"ground {dt} {env_tokens(sigma)} {env_tokens(unfrs(pr))}")
    lines.append(f"pevals {TOL} {dt} {env_tokens(sigma)} {rows_tokens(case['rows'], case['prow'])}")
    for pt, j in case["rows"][:6]:
        lines.append(f"peval2 {TOL} {dt} {env_tokens(s_a)} {env_tokens(s_b)} {env_tokens(unfrs(pt))} {env_tokens(unfrs(case['prow'][j]))}")
    return lines


def expand(case, raw):
    """replies in the one-line-per-row layout the judges read"""
    if case["mode"] == "slice":
        if len(raw) == 1:
            return raw[0].split(";")
        # union / cut / intersection of two sliced products: the membership rule of the Boolean node applied
        # to the two slice answers (and to the two answers of the original), the smaller margins, both variable sets
        op = geomgen.from_json(case["dom"]).kind
        comb = {"union": lambda x, y: x or y, "cut": lambda x, y: x and not y, "inter": lambda x, y: x and y}[op]
        out = []
        for ra, rb in zip(raw[0].split(";"), raw[1].split(";")):
            a_, b_ = ra.split(), rb.split()
            def both(i):
                if a_[i] == "none" or b_[i] == "none":
                    return "none"
                return "1" if comb(a_[i] == "1", b_[i] == "1") else "0"
            def mn(i):
                if a_[i] == "none" or b_[i] == "none":
                    return "none"
                return str(min(Fr(a_[i]), Fr(b_[i])))
            fv = sorted(set(vset(a_[3])) | set(vset(b_[3])))
            out.append(f"{both(0)} {both(1)} {mn(2)} {','.join(fv) if fv else '-'} {mn(4)}")
        return out
    k = len(case["prow"])
    return raw[:1 + k] + raw[1 + k].split(";") + raw[2 + k:]


def sample_lines(case, impl):
    """membership in D at rho + sigma of the samples of E (float32 values taken exactly) — asked only when the
    samples differ from those D draws with the same seed, and only with at most one parameter row (which
    sample belongs to which row is C02's subject); D's own samples are judged too, for comparison"""
    node = geomgen.from_json(case["dom"])
    dt = node.tokens()
    sigma = unfrs(case["sigma"])
    lines, meta = [], []
    if case["k"] > 1:
        return lines, meta
    for how, rec in (impl.get("samples") or {}).items():
        if "pts" not in rec or not rec.get("finite") or rec.get("same_seed_equal") or rec["n_E"] != case["n_sample"]:
            continue
        for who, plist in (("E", rec["pts"]), ("ref", rec.get("ref_pts") or [])):
            rows, ms = [], []
            for i, p in enumerate(plist):
                if any(x != x or abs(x) == float("inf") for x in p):
                    continue
                pt, pos = {}, 0
                for var in rec["vars"]:
                    d = geomgen.DIM[var]
                    pt[var] = [str(Fr(x)) for x in p[pos:pos + d]]
                    pos += d
                rows.append((pt, 0))
                ms.append((how, who, i, p))
            if rows:
                lines.append(f"pevals {TOL} {dt} {env_tokens(sigma)} {rows_tokens(rows, case['prow'])}")
                meta.append(ms)
    return lines, meta


def expand_samples(raw, meta):
    out, flat_meta = [], []
    for rl, ms in zip(raw, meta):
        out += rl.split(";")
        flat_meta += ms
    return out, flat_meta


def nonempty_certificate(case, replies):
    """every parameter row has a query point that the exact evaluation places inside D at rho + sigma"""
    if case["mode"] == "slice":
        return False
    mem = replies[1 + len(case["prow"]):1 + len(case["prow"]) + len(case["rows"])]
    hit = set()
    for (pt, j), rl in zip(case["rows"], mem):
        if rl.split()[1] == "1":
            hit.add(j)
    return len(hit) == len(case["prow"])


def vset(tok):
    return [] if tok == "-" else sorted(tok.split(","))


# ---------------------------------------------------------------------------------------------
# comparison

def short(case, **extra):
    d = dict(dom=case["dom"], expression=geomgen.from_json(case["dom"]).tokens(), mode=case["mode"], params=case["params"],
             sigma=case["sigma"], stage_b=case["stage_b"], prow=case["prow"], partner=case["partner"], id=case["id"],
             n_sample=case["n_sample"], k=case["k"])
    d.update(extra)
    return d


def judge(case, impl, replies, sreplies, smeta, rep):
    node = geomgen.from_json(case["dom"])
    mode = case["mode"]
    errors = impl["errors"]
    rows = case["rows"]
    sigma = case["sigma"]
    rest = [p for p in case["params"] if p not in sigma]
    call = f"D(**{ {p: float(Fr(val[0])) for p, val in sigma.items()} })"
    if "call" in errors and errors["call"].startswith("timeout"):
        rep.count("call-timeout(not judged)")
        return
    if "call" in errors:
        rep.fail(f"{call} raised {errors['call']}", short(case))
        return
    if "call2" in errors and not errors["call2"].startswith("timeout"):
        rep.fail(f"repeated evaluation D(**a)(**b) raised {errors['call2']} although {call} works", short(case))
    if mode == "slice":
        judge_slice(case, impl, replies, rep, call)
        return
    fv = replies[0].split()
    f0, f1, f2, c1 = vset(fv[0]), vset(fv[1]), vset(fv[2]), vset(fv[3])
    grounds = replies[1:1 + len(case["prow"])]
    mem = replies[1 + len(case["prow"]):1 + len(case["prow"]) + len(rows)]
    mem2 = replies[1 + len(case["prow"]) + len(rows):]
    # ---------------- necessary variables
    for name, got, want in (("D", impl["nv0"], f0), (call, impl.get("nv1"), f1), ("D(**a)(**b)", impl.get("nv2"), f2)):
        if got is None and name != call:
            continue
        if got != want:
            rep.disagree("drivers/C17.lean fv: necessary_variables differ from freeVars", short(case, of=name), got, want)
    if impl.get("nvS") is not None and impl.get("nv1") is not None and impl["nvS"] != impl["nv1"]:
        rep.fail(f"{call}.necessary_variables = {impl['nv1']} but the same expression written with the values declares {impl['nvS']}", short(case))
    if f1 != c1:
        rep.notes.append("model: freeVars of peval and pevalC differ")   # cannot happen (theorem pevalC_freeVars)
    # oracle: exactly the needed ones
    for who, ex, nv in ((call, impl.get("exact"), impl.get("nv1")), ("D", impl.get("exact0"), impl.get("nv0"))):
        if ex is None or nv is None:
            continue
        if ex.get("unknown"):
            rep.fail(f"{who} declares {ex['unknown']} as necessary variables, which are not variables of the expression at all "
                     f"(necessary_variables = {nv}; the parameter functions take {node.free_vars()})", short(case, of=who))
            continue
        if ex["own"]:
            rep.fail(f"{who} declares its own coordinate variable(s) {ex['own']} as necessary parameters (necessary_variables = {nv})", short(case, of=who))
            continue
        if not ex["enough"]:
            rep.fail(f"{who} declares necessary_variables = {nv} but its membership test given exactly these variables raises "
                     f"{ex.get('enough_err')}: a needed variable is not declared", short(case, of=who))
        for x in ex["unneeded"]:
            rep.fail(f"{who} declares the variable '{x}' as necessary, but membership test, volume and bounding box all work without it "
                     f"(it was fixed by the call or is not a free variable)", short(case, of=who, variable=x))
    if impl.get("nv1") is not None and set(impl["nv1"]) & set(sigma):
        rep.fail(f"{call} still declares the fixed variable(s) {sorted(set(impl['nv1']) & set(sigma))} as necessary", short(case))
    # ---------------- membership: model vs E, E vs original
    if "E" in errors and errors["E"].startswith("timeout"):
        rep.count("membership-timeout(not judged)")
    elif "E" in errors:
        if all(r.split()[0] == "none" for r in mem):
            rep.count("both-reject")
        elif "ref" not in errors:
            rep.fail(f"{call}._contains(points, remaining params) raised {errors['E']} while D._contains(points, params + values) works",
                     short(case, point=rows[0][0], params_row=case["prow"][rows[0][1]]))
        else:
            rep.disagree("drivers/C17.lean peval: implementation raises, model answers", short(case), errors["E"], mem[0])
    elif impl["E"] is not None:
        if impl["E_shape"] != [len(rows), 1]:
            rep.fail(f"{call}._contains returned shape {impl['E_shape']} for {len(rows)} rows", short(case))
        else:
            for i, ((pt, j), rl) in enumerate(zip(rows, mem)):
                c1_, c2_, c3_, mg = rl.split()
                if c1_ != c2_ or c1_ != c3_:
                    rep.disagree("model: peval / pevalC / direct evaluation differ (contradicts peval_contains)", short(case, point=pt), None, rl)
                    continue
                if c1_ == "none":
                    rep.disagree("drivers/C17.lean peval: model rejects an input the implementation accepts", short(case, point=pt), impl["E"][i], rl)
                    continue
                decided = mg != "none" and Fr(mg) > MARGIN
                rep.count("membership-decided-with-margin" if decided else "membership-within-margin(skipped)")
                if not decided:
                    continue
                want = c1_ == "1"
                if impl["E"][i] != want:
                    refv = None if impl["ref"] is None else impl["ref"][i]
                    rep.fail(f"{call}._contains answers {impl['E'][i]} at a point that is {'inside' if want else 'outside'} D evaluated at these values "
                             f"(exact evaluation of the denotation, smallest comparison slack {float(Fr(mg)):.3g}; D._contains with the values as "
                             f"parameters answers {refv})", short(case, point=pt, params_row=case["prow"][j]))
                    break
                if impl["ref"] is not None and impl["ref"][i] != impl["E"][i]:
                    rep.fail(f"{call}._contains = {impl['E'][i]} but D._contains with the values supplied as parameters = {impl['ref'][i]}",
                             short(case, point=pt, params_row=case["prow"][j]))
                    break
                if impl.get("S") is not None and impl["S"][i] != impl["E"][i]:
                    rep.fail(f"{call}._contains = {impl['E'][i]} but the same expression written with the values answers {impl['S'][i]}",
                             short(case, point=pt, params_row=case["prow"][j]))
                    break
                if impl.get("E2") is not None and impl["E2"][i] != impl["E"][i]:
                    rep.fail(f"repeated evaluation D(**a)(**b)._contains = {impl['E2'][i]} differs from {call}._contains = {impl['E'][i]}",
                             short(case, point=pt, params_row=case["prow"][j]))
                    break
            for rl in mem2:
                a_, b_, c_, _ = rl.split()
                if not (a_ == b_ == c_):
                    rep.disagree("model: repeated peval differs from direct evaluation (contradicts peval_peval)", short(case), None, rl)
    if "E2" in errors and "E" not in errors and not errors["E2"].startswith("timeout"):
        rep.fail(f"membership test of the repeated evaluation D(**a)(**b) raised {errors['E2']} while that of {call} works", short(case))
    # ---------------- volume, bounding box: E against the hand-written equivalent S and against D at rho + sigma
    for name in ("volume", "bbox"):
        what = "volume" if name == "volume" else "bounding_box"
        vE, eE = impl.get(name + "_E"), errors.get(name + "_E")
        for who, label in (("S", "the same expression written with the values"), ("ref", "D with the values as parameters")):
            vR, eR = impl.get(f"{name}_{who}"), errors.get(f"{name}_{who}")
            if vE is None and eE is None:
                continue
            if eE and eE.startswith("timeout"):
                rep.count(f"{name}-timeout(not judged)")
                break
            if eR and eE:
                rep.count(f"{name}-{who}-both-raise")
            elif eE:
                rep.fail(f"{call}.{what}(remaining params) raised {eE} while that of {label} works", short(case))
                break
            elif eR:
                rep.count(f"{name}-{who}-only-reference-raises")
            elif vR is not None:
                rep.count(f"{name}-{who}-compared")
                if not close_lists(vE, vR):
                    rep.fail(f"{call}.{what}(remaining params) = {vE} but {label} gives {vR}", short(case))
                    break
    # ---------------- shape parameters (correspondence with `ground`)
    g = impl.get("ground")
    if g is not None:
        k = max(1, case["k"])
        ok = True
        for ri, gl in enumerate(grounds):
            left = gl.split(" | ")[0].split()
            right = gl.split(" | ")[1].split()
            if left != right:
                rep.disagree("model: ground of peval differs from ground at the extended row (contradicts peval_ground)", short(case), None, gl)
            if len(left) != len(g):
                ok = False
                break
            for tok, vals in zip(left, g):
                if tok == "missing":
                    ok = False
                    break
                want = [float(Fr(x)) for x in tok.split(",")]
                m = len(want)
                got = vals[ri * m:(ri + 1) * m] if len(vals) == k * m else (vals if len(vals) == m else None)
                if got is None or not close_lists(got, want, 1e-5):
                    ok = False
                    rep.disagree("drivers/C17.lean ground: shape parameters of D(**sigma) at the remaining row differ",
                                 short(case, row=ri), vals, tok)
                    break
            if not ok:
                break
        rep.count("ground-compared" if ok else "ground-differs")
    elif "ground" in errors:
        rep.fail(f"a shape parameter of {call} cannot be evaluated with the remaining parameters: {errors['ground']}", short(case))
    # ---------------- samples
    for how, rec in (impl.get("samples") or {}).items():
        if rec.get("err_ref") and rec.get("err_E"):
            rep.count(f"sample-{how}-both-raise")
            continue
        if rec.get("err_E") and rec["err_E"].startswith(("timeout", "skipped")):
            rep.count(f"sample-{how}-timeout(not judged; termination is C01's subject)")
            continue
        if rec.get("err_E"):
            rep.fail(f"{call}.sample_{'random_uniform' if how == 'random' else 'grid'}(n={case['n_sample']}, remaining params) raised {rec['err_E']} "
                     f"while the sampler of the same expression written with the values works", short(case, how=how))
            continue
        if rec.get("err_ref"):
            rep.count(f"sample-{how}-only-reference-raises")
            continue
        expected = case["n_sample"] * max(1, case["k"])
        if rec["n_E"] != expected:
            if rec["n_ref"] == expected:
                rep.fail(f"{call} sampled {rec['n_E']} points ({how}, n={case['n_sample']}, {case['k']} remaining parameter rows), "
                         f"the same expression written with the values {rec['n_ref']}", short(case, how=how))
            else:
                rep.count(f"sample-{how}-both-wrong-count")      # row counts belong to C02
            continue
        if not rec.get("finite"):
            rep.count(f"sample-{how}-nan")     # NaN samples belong to C01
            continue
        rep.count(f"sample-{how}-same-seed-{'equal' if rec.get('same_seed_equal') else 'differs'}")
    outside = {}
    for (how, who, i, p), rl in zip(smeta, sreplies):
        _, c2_, _, mg = rl.split()
        if c2_ == "0" and mg != "none" and Fr(mg) > MARGIN:
            outside.setdefault((how, who), []).append((i, p, float(Fr(mg))))
        rep.count(f"sample-membership-{who}-" + ("inside" if c2_ == "1" else "outside-or-undecided"))
    for how in ("random", "grid"):
        if (how, "E") in outside and (how, "ref") not in outside:
            i, p, mg = outside[(how, "E")][0]
            rep.fail(f"{how} sample {p} of {call} (row {i}) lies outside D evaluated at these values (exact evaluation, slack {mg:.3g}), "
                     f"while all samples of the same expression written with the values lie inside", short(case, how=how, sample=p))
        elif (how, "E") in outside:
            rep.count(f"sample-{how}-outside-for-both(C01)")
    # ---------------- purity
    purity(case, impl, rep)
    if impl.get("nv0_after") is not None and impl["nv0_after"] != impl["nv0"]:
        rep.fail(f"calling D changed D.necessary_variables from {impl['nv0']} to {impl['nv0_after']}", short(case))
    if impl.get("ref") is not None and impl.get("ref_after") is not None and impl["ref"] != impl["ref_after"]:
        rep.fail("calling D changed the membership test of D itself (same points, same parameters, different answers)", short(case))
    if impl.get("volume_ref") is not None and impl.get("volume_ref_after") is not None and not close_lists(impl["volume_ref"], impl["volume_ref_after"], 1e-7):
        rep.fail(f"calling D changed D.volume from {impl['volume_ref']} to {impl['volume_ref_after']}", short(case))


def purity(case, impl, rep):
    if impl.get("bare_before") is False and impl.get("bare_after") is True:
        rep.fail("calling D changed D itself: before the call D._contains without the fixed variables raised (they are necessary), "
                 "after the call it answers — the values were written into the original's parameter functions", short(case))


def judge_slice(case, impl, replies, rep, call):
    errors = impl["errors"]
    rows = case["rows"]
    partner = case["partner"]
    w = Fr(case["sigma"][partner][0])
    fvs = vset(replies[0].split()[3])
    if impl.get("nvS") is not None and impl.get("nv1") is not None and impl["nvS"] != impl["nv1"]:
        rep.fail(f"{call}.necessary_variables = {impl['nv1']} but the slice written by hand declares {impl['nvS']}", short(case))
    if impl.get("nv1") != fvs:
        rep.disagree("drivers/C17.lean slice: necessary_variables of the sliced product differ", short(case), impl.get("nv1"), fvs)
    if impl.get("nv1") is not None and set(impl["nv1"]) & set(case["sigma"]):
        rep.fail(f"{call} still declares the fixed variable(s) {sorted(set(impl['nv1']) & set(case['sigma']))} as necessary", short(case))
    # is the fixed coordinate inside the partner interval (for every row)?  only then the slice is compared with the original
    node = geomgen.from_json(case["dom"])
    inside_partner = True
    for pr in case["prow"]:
        env = unfrs(dict(case["sigma"], **pr))
        try:
            lo, hi = partner_interval(node).pfs[0].eval(env)[0], partner_interval(node).pfs[1].eval(env)[0]
            inside_partner = inside_partner and lo <= w <= hi
        except KeyError:
            inside_partner = False
    rep.count("slice-inside-partner" if inside_partner else "slice-outside-partner")
    purity(case, impl, rep)
    if "E" in errors and errors["E"].startswith("timeout"):
        rep.count("membership-timeout(not judged)")
        return
    if "E" in errors:
        rep.fail(f"membership test of the sliced product {call} raised {errors['E']}", short(case, point=rows[0][0]))
        return
    for i, ((pt, j), rl) in enumerate(zip(rows, replies)):
        c1_, c2_, mg, _, mga = rl.split()
        on = Fr(pt[partner][0]) == w
        if c1_ == "none":
            rep.disagree("drivers/C17.lean slice: model rejects an input the implementation accepts", short(case, point=pt), impl["E"][i], rl)
            continue
        if not on:
            rep.count("slice-off-the-fixed-coordinate")
            if impl["E"][i]:
                rep.fail(f"{call} contains a point whose coordinate {partner} = {float(Fr(pt[partner][0]))} differs from the fixed value {float(w)}",
                         short(case, point=pt))
                break
            continue
        if not (mga != "none" and Fr(mga) > MARGIN):
            rep.count("slice-within-margin(skipped)")
            continue
        rep.count("slice-decided")
        if impl.get("S") is not None and impl["S"][i] != impl["E"][i]:
            rep.fail(f"{call} answers {impl['E'][i]} at a point on the fixed coordinate, the slice written by hand (every product = first factor "
                     f"with the values substituted x Point({partner} = {float(w)})) answers {impl['S'][i]}", short(case, point=pt))
            break
        if impl["E"][i] != (c1_ == "1"):
            rep.disagree("drivers/C17.lean slice: membership of the sliced product", short(case, point=pt), impl["E"][i], rl)
        if mg != "none" and Fr(mg) > MARGIN:
            rep.count("slice-compared-with-the-original")
            if (c2_ == "1") != impl["E"][i] and inside_partner:
                rep.fail(f"{call} answers {impl['E'][i]} at a point with {partner} = {float(w)} (a value inside the partner factor) that is "
                         f"{'inside' if c2_ == '1' else 'outside'} D evaluated at the remaining values", short(case, point=pt))
                break
        if impl.get("E2") is not None and impl["E2"][i] != impl["E"][i]:
            rep.fail(f"repeated evaluation of the sliced product answers {impl['E2'][i]}, single evaluation {impl['E'][i]}", short(case, point=pt))
            break


def run(ctx, rep, cases=None):
    rep.rule = ("parameter-dependent domain expressions generated from the public constructors (1-3 scalar parameters among t, D, s; "
                "affine shape parameters; Boolean, motion (incl. parameter-dependent shear/rotation centre), product, boundary and "
                "single-boundary-point nodes), a random non-empty subset of the parameters fixed by D(**values) (single and two-stage), "
                "0-3 remaining parameter rows; queries = random dyadic points + points at relative distance 0, ±1e-1..±1e-3 from the "
                "edges; non-trivial = the expression depends on a fixed variable; distinct = distinct (expression, fixed values, rows)")
    common.use_repo()
    import torch
    torch.set_num_threads(1)      # tiny tensors: intra-op threads only cost time when the machine is busy
    if cases is None:
        cases = [make_case(ctx, i) for i in range(ctx.scale(240, 3000))]
    spans, lines = [], []
    for cs in cases:
        ls = case_lines(cs)
        spans.append((len(lines), len(ls)))
        lines += ls
    replies = common.run_driver("C17", lines)
    impls, slines, sspans = [], [], []
    for cs, (a, n) in zip(cases, spans):
        im = run_impl(cs, nonempty=nonempty_certificate(cs, expand(cs, replies[a:a + n])))
        impls.append(im)
        sl, meta = sample_lines(cs, im)
        sspans.append((len(slines), len(sl), meta))
        slines += sl
    sreplies = common.run_driver("C17", slines)
    for cs, im, (a, n), (sa, m, meta) in zip(cases, impls, spans, sspans):
        node = geomgen.from_json(cs["dom"])
        rep.count("mode:" + cs["mode"])
        rep.count("depth:%d" % node.depth())
        for kd in set(node.kinds()):
            rep.count("node:" + kd)
        rep.count("fixed:%d-of-%d" % (len(cs["sigma"]), len(cs["params"])))
        rep.count("remaining-param-rows:%d" % cs["k"])
        if cs.get("long_names"):
            rep.count("multi-character-variable-names")
        if cs["stage_b"] and len(cs["stage_b"]) < len(cs["sigma"]):
            rep.count("two-stage-evaluation")
        if im.get("samples_skipped") and cs["mode"] not in ("slice", "prod"):
            rep.count("sampling-skipped(no non-emptiness certificate)")
        nontrivial = any(p in cs["free"] or p == cs["partner"] for p in cs["sigma"])
        rep.case(dict(dom=cs["dom"], sigma=cs["sigma"], prow=cs["prow"], rows=len(cs["rows"])), nontrivial,
                 sample=dict(expression=node.tokens(), fixed=cs["sigma"], remaining_rows=cs["prow"],
                             necessary_variables=dict(D=im.get("nv0"), called=im.get("nv1")),
                             first_query=cs["rows"][0], implementation=(im.get("E") or [im["errors"]])[0], model=expand(cs, replies[a:a + n])[len(cs["prow"]) + 1 if cs["mode"] != "slice" else 0]),
                 kind=cs["mode"])
        sr, sm = expand_samples(sreplies[sa:sa + m], meta)
        judge(cs, im, expand(cs, replies[a:a + n]), sr, sm, rep)
    user_volume_stream(ctx, rep)
    multi_slice_stream(ctx, rep)
    joint_slice_stream(ctx, rep)
    dtype_stream(ctx, rep)
    resupply_stream(ctx, rep)
    malformed_stream(ctx, rep)
    rebinding_stream(ctx, rep)
    opaque_stream(ctx, rep)


# ---------------------------------------------------------------------------------------------
# known findings

def user_volume_stream(ctx, rep):
    """a volume set with Domain.set_volume belongs to the domain: D(**values).volume(rest) == D.volume(rest + values)
    (repaired in /repo 98178e0; Lean: upeval_volume, old_user_volume_lost)"""
    tp = common.use_repo()
    import torch
    rng = ctx.rng
    cases, lines = [], []
    roots = ["interval", "par", "tri", "circle", "sphere", "union", "cut", "inter", "translate", "rotate", "prod",
             "bdry", "bdry-op", "side"]
    for i in range(ctx.scale(3, 20) * len(roots)):
        kind = roots[i % len(roots)]
        params = rng.sample(PARAMS, rng.choice([1, 2, 2]))
        g = Gen17(rng, params=params, p_dep=0.6)
        if kind in ("interval", "sphere"):
            node = g.prim1("y") if kind == "interval" else g.prim3("z")
        elif kind in ("par", "tri", "circle"):
            node = g.prim2("x")
            while node.kind != kind:
                node = g.prim2("x")
        elif kind in ("union", "cut", "inter"):
            node = Node(kind, None, [], [g.prim2("x"), g.prim2("x")])
            set_flags(node, rng)
        elif kind == "translate":
            node = Node("translate", "x", [g.vec([dy(rng, -2, 2), dy(rng, -2, 2)])], [g.prim2("x")])
        elif kind == "rotate":
            m = PF([c(1), ("*", c(Fr(1, 2)), v(rng.choice(params))), c(0), c(1)])
            node = Node("rotate", "x", [m, g.vec([dy(rng, -1, 1), dy(rng, -1, 1)])], [g.prim2("x")])
        elif kind == "prod":
            partner = [p for p in PARAMS if p not in params][0]
            node = Node("prod", None, [], [g.prim2("x"), Gen17(rng, params=params, p_dep=0.5).prim1(partner)])
        elif kind == "bdry":
            node = Node("bdry", None, [], [g.prim(rng.choice(["x", "y", "z"]))])
        elif kind == "bdry-op":
            node = Node("bdry", None, [], [Node(rng.choice(["union", "cut", "inter"]), None, [], [g.prim2("x"), g.prim2("x")])])
        else:
            node = Node(rng.choice(["bdryL", "bdryR"]), None, [], [g.prim1("y")])
        used = rng.sample(params, rng.randint(1, len(params)))
        term = c(dy(rng, 1, 4))
        for p in used:
            term = ("+", term, ("*", c(dy(rng, 1, 3, 4)), v(p)))
        vol = PF([term])
        fixed = [p for p in params if rng.random() < 0.6] or [rng.choice(params)]
        sigma = {p: [Fr(rng.randint(0, 16), 16)] for p in fixed}
        stage_b = [p for p in fixed if rng.random() < 0.5]
        rest = [p for p in params if p not in fixed]
        k = rng.choice([1, 2, 3]) if rest else 0
        prow = [{p: [Fr(rng.randint(0, 16), 16)] for p in rest} for _ in range(max(k, 1))]
        s_a = {p: val for p, val in sigma.items() if p not in stage_b}
        s_b = {p: val for p, val in sigma.items() if p in stage_b}
        cases.append(dict(kind=kind, node=node, vol=vol, params=params, sigma=sigma, stage_b=stage_b, rest=rest, prow=prow))
        lines.append(f"uvol {vol.tokens()} {env_tokens(s_a)} {env_tokens(s_b)} {common.lst(prow, env_tokens)}")
    replies = common.run_driver("C17", lines)
    for cs, rl in zip(cases, replies):
        node, sigma, prow, rest = cs["node"], cs["sigma"], cs["prow"], cs["rest"]
        desc = dict(stream="user-volume", expression=node.tokens(), dom=node.describe(), volume=cs["vol"].describe(), params=cs["params"],
                    sigma=frs(sigma), stage_b=cs["stage_b"], prow=[frs(p) for p in prow])
        rep.count("user-volume:" + cs["kind"])
        D = to_tp(node, tp)
        D.set_volume(pf_py(cs["vol"], scalar=True))
        kfull = mk_params(tp, torch, list(sigma) + rest, [frs(dict(sigma, **e)) for e in prow])
        krest = mk_params(tp, torch, rest, [frs(e) for e in prow])
        ref, e0 = attempt(lambda: flat(torch.as_tensor(D.volume(kfull))))
        E, e1 = attempt(lambda: D(**kwargs_of(torch, frs(sigma), list(sigma))))
        if e1 and e1.startswith("timeout"):
            continue
        if e1:
            rep.fail(f"D(**values) raised {e1} on a domain with a user-set volume", desc)
            continue
        stage_a = [p for p in sigma if p not in cs["stage_b"]]
        E2, e2 = attempt(lambda: D(**kwargs_of(torch, frs(sigma), stage_a))(**kwargs_of(torch, frs(sigma), cs["stage_b"])))
        got, e3 = attempt(lambda: flat(torch.as_tensor(E.volume(krest))))
        if e0:
            rep.count("user-volume:original-raises")
            continue
        if e3 and e3.startswith("timeout"):
            continue
        if e3:
            rep.fail(f"D(**values).volume(remaining params) raised {e3}; D.volume(params + values) = {ref} (user-set volume)", desc)
            continue
        model = [float(Fr(r.split()[0])) if r.split()[0] not in ("missing", "-") else None for r in rl.split(";")]
        if None not in model and not close_lists(got, model):
            rep.disagree("drivers/C17.lean uvol: user-set volume of D(**values)", desc, got, model)
        if not close_lists(got, ref):
            rep.fail(f"a volume was set with set_volume; D.volume(params + values) = {ref} but D(**values).volume(remaining params) = {got}", desc)
            continue
        if E2 is not None:
            got2, e4 = attempt(lambda: flat(torch.as_tensor(E2.volume(krest))))
            if (e4 and not e4.startswith("timeout")) or (not e4 and not close_lists(got2, ref)):
                rep.fail(f"user-set volume after the repeated evaluation D(**a)(**b): {got2 or e4}, D.volume(params + values) = {ref}", desc)
        a_after, _ = attempt(lambda: flat(torch.as_tensor(D.volume(kfull))))
        if a_after is not None and not close_lists(a_after, ref, 1e-7):
            rep.fail(f"calling D changed its user-set volume from {ref} to {a_after}", desc)


def multi_slice_stream(ctx, rep):
    """slices at a factor that lives in a space with several variables (a nested product of intervals, a disc
    times an interval): `(G x F)(**values)` with values for ALL variables of F, keywords in every order, values
    given as floats / lists / tensors.  The returned domain must be  G(values) x Point(F's space, values in the
    order of F's space): compared with that slice written by hand (oracle) and with `sliceContains` (model)."""
    tp = common.use_repo()
    import torch
    rng = ctx.rng
    cases, lines = [], []
    for i in range(ctx.scale(36, 320)):
        shape = rng.choice(["II", "II", "III", "CI", "IC"])
        scal = rng.sample(["t", "D", "s"], 3)
        if shape in ("II", "III"):
            fvars = scal[:2] if shape == "II" else scal
            par = [p_ for p_ in scal if p_ not in fvars][:1]
            gvar = rng.choice(["x", "x", "y", "z"])
        else:
            fvars = ["x", scal[0]] if shape == "CI" else [scal[0], "x"]
            par = [scal[1]]
            gvar = rng.choice(["y", "z"])
        gen0 = Gen17(rng, params=[], p_dep=0)
        leaves = [gen0.prim(v_) for v_ in fvars]                      # F: constant shapes, one per variable
        F = leaves[0]
        for lf in leaves[1:]:
            F = Node("prod", None, [], [F, lf]) if rng.random() < 0.5 or F.kind != "prod" else Node("prod", None, [], [F.kids[0], Node("prod", None, [], [F.kids[1], lf])])
        scalar_f = [v_ for v_ in fvars if geomgen.DIM[v_] == 1]
        f_first = rng.random() < 0.3
        gg = Gen17(rng, params=par + ([] if f_first else scalar_f), p_dep=0.6, allow_rotate=(gvar == "x"))
        G = gg.solid(rng.choice([1, 2]), gvar)
        node = Node("prod", None, [], [F, G] if f_first else [G, F])
        # values: inside the leaves (so that the slice can be compared with the original), sometimes outside
        sigma = {}
        for lf in leaves:
            if lf.kind == "interval":
                lo, hi = lf.pfs[0].eval({})[0], lf.pfs[1].eval({})[0]
                sigma[lf.var] = [lo + (hi - lo) * Fr(rng.randint(1, 7), 8)]
            else:
                ctr = lf.pfs[0].eval({}) if lf.kind in ("circle", "sphere") else [sum(p_.eval({})[j] for p_ in lf.pfs[1:]) / 2 for j in range(2)]
                sigma[lf.var] = [Fr(round(a * 32), 32) for a in ctr]
        fix_par = par and rng.random() < 0.5
        if fix_par:
            sigma[par[0]] = [Fr(rng.randint(0, 16), 16)]
        rest = [] if fix_par else par
        prow = [{p_: [Fr(rng.randint(0, 16), 16)] for p_ in rest} for _ in range(rng.choice([1, 2]) if rest else 1)]
        order = list(sigma)
        rng.shuffle(order)
        gdeps = set(G.free_vars())
        how = {}
        for v_ in order:
            how[v_] = "tensor" if v_ in gdeps else rng.choice(["tensor", "float", "list", "tensor0"] if geomgen.DIM[v_] == 1 else ["tensor", "list"])
        rows = []
        for r_ in range(ctx.scale(24, 36)):
            j = r_ % len(prow)
            env = dict(sigma, **prow[j])
            pt = {}
            try:
                near = []
                c05.near_points(G, env, rng, near)
            except Exception:
                near = []
            near = [q_ for q_ in near if len(q_) == geomgen.DIM[gvar]]
            pt[gvar] = [f32(a) for a in rng.choice(near)] if near and rng.random() < 0.7 else [Fr(rng.randint(-4 * 32, 4 * 32), 32) for _ in range(geomgen.DIM[gvar])]
            kind = rng.choice(["on", "on", "on", "swap", "off"])
            vals = {v_: list(sigma[v_]) for v_ in fvars}
            if kind == "swap" and len(scalar_f) >= 2:
                a_, b_ = rng.sample(scalar_f, 2)
                vals[a_], vals[b_] = vals[b_], vals[a_]
            elif kind == "swap":
                vals["x"] = [vals["x"][1], vals["x"][0]]
            elif kind == "off":
                v_ = rng.choice(fvars)
                vals[v_] = [vals[v_][0] + rng.choice([Fr(1, 16), Fr(-1, 16)])] + vals[v_][1:]
            pt.update(vals)
            rows.append((frs(pt), j))
        cs = dict(node=node, F=F, G=G, fvars=fvars, sigma=sigma, order=order, how=how, rest=rest, prow=[frs(p_) for p_ in prow], rows=rows,
                  f_first=f_first, shape=shape)
        cases.append(cs)
    multi_slice_judge(cases, rep)


def multi_slice_judge(cases, rep):
    tp = common.use_repo()
    import torch
    lines = [f"slices {TOL} {PTOL} {cs['node'].kids[0].tokens()} {cs['node'].kids[1].tokens()} {env_tokens(cs['sigma'])} {rows_tokens(cs['rows'], cs['prow'])}"
             for cs in cases]
    replies = common.run_driver("C17", lines)

    def value(v_, val, h):
        fl = [float(a) for a in val]
        if h == "float":
            return fl[0]
        if h == "list":
            return fl if len(fl) > 1 else fl[0:1]
        if h == "tensor0":
            return torch.tensor(fl[0])
        return torch.tensor([fl], dtype=torch.float32)

    for cs, rl in zip(cases, replies):
        node, sigma = cs["node"], cs["sigma"]
        rep.count("multi-slice:" + cs["shape"] + (":fixed-factor-first" if cs["f_first"] else ""))
        for h in cs["how"].values():
            rep.count("multi-slice-value:" + h)
        kw = {v_: value(v_, sigma[v_], cs["how"][v_]) for v_ in cs["order"]}
        desc = dict(stream="multi-slice", expression=node.tokens(), dom=node.describe(), keyword_order=cs["order"], given_as=cs["how"],
                    sigma=frs(sigma), prow=cs["prow"], fixed_factor_variables=cs["fvars"], rest=cs["rest"], f_first=cs["f_first"], shape=cs["shape"],
                    rows=cs["rows"][:12])
        call = "D(" + ", ".join(f"{v_}={[float(a) for a in sigma[v_]]}" for v_ in cs["order"]) + ")"
        D, e0 = attempt(lambda: to_tp(node, tp))
        if e0:
            rep.count("multi-slice:not-built")
            continue
        E, e1 = attempt(lambda: D(**kw))
        if e1:
            if not e1.startswith("timeout"):
                rep.fail(f"{call} raised {e1}", desc)
            continue
        # by hand: the kept factor with the values substituted x Point(space of F in ITS variable order, the values in that order)
        def hand():
            Gs = to_tp(subst(cs["G"], sigma), tp)
            flatvals = [float(a) for v_ in cs["F"].vars() for a in sigma[v_]]
            P = tp.domains.Point(cs["F"].space(tp), flatvals)
            return P * Gs if cs["f_first"] else Gs * P
        S, e2 = attempt(hand)
        if e2:
            rep.count("multi-slice:hand-written-not-built")
            continue
        if sorted(E.necessary_variables) != sorted(S.necessary_variables):
            rep.fail(f"{call}.necessary_variables = {sorted(E.necessary_variables)}, the slice written by hand declares {sorted(S.necessary_variables)}", desc)
        fv_model = vset(rl.split(";")[0].split()[3])
        if sorted(E.necessary_variables) != fv_model:
            rep.disagree("drivers/C17.lean slices: necessary_variables (multi-variable factor)", desc, sorted(E.necessary_variables), fv_model)
        pts = mk_points(tp, torch, node, [pt for pt, _ in cs["rows"]])
        prm = mk_params(tp, torch, cs["rest"], [cs["prow"][j] for _, j in cs["rows"]])
        got, e3 = attempt(E._contains, pts, prm)
        want, e4 = attempt(S._contains, pts, prm)
        if e3 and not e3.startswith("timeout"):
            rep.fail(f"{call}._contains raised {e3}" + ("" if e4 else " (the slice written by hand answers)"), desc)
        if e3 or e4:
            continue
        got = [bool(b) for b in got.reshape(-1).tolist()]
        want = [bool(b) for b in want.reshape(-1).tolist()]
        for (pt, j), g_, w_, r_ in zip(cs["rows"], got, want, rl.split(";")):
            c1_, _, _, _, mga = r_.split()
            if mga == "none" or Fr(mga) <= MARGIN:
                rep.count("multi-slice-within-margin(skipped)")
                continue
            rep.count("multi-slice-decided")
            if g_ != w_:
                rep.fail(f"{call} answers {g_} at the point {unfrs(pt) and {k_: [float(Fr(a)) for a in v_] for k_, v_ in pt.items()}}; the slice written by hand "
                         f"(kept factor with the values substituted x Point over {cs['F'].vars()} = {[float(a) for v_ in cs['F'].vars() for a in sigma[v_]]}) answers {w_}",
                         dict(desc, point=pt))
                break
            if c1_ != "none" and g_ != (c1_ == "1"):
                rep.disagree("drivers/C17.lean slices: membership (multi-variable factor)", dict(desc, point=pt), g_, r_)


def dtype_stream(ctx, rep):
    """float64 pipelines: the values of D(**values), the remaining parameter rows and the points are float64 tensors —
    values that float32 cannot represent (0.1, 1/3, ...) and large magnitudes (1e8 + 0.5: float32 spacing 8) — or a
    mix of float64 and float32.  D(**values) must behave like D evaluated at the rows `values` in the precision the
    user supplied: membership (where the exact evaluation is not a tie), volume, bounding box (1e-12 relative),
    their dtypes, same-seed samples (or membership of the samples in D at the values)."""
    tp = common.use_repo()
    import torch
    rng = ctx.rng
    cases = []
    SMALL = [0.1, 1 / 3, 0.7, 2.3, 0.3, 1e-3 + 1e-9]
    LARGE = [1e8 + 0.5, 3e7 + 0.25, -1e8 - 0.5, 16777217.0, 123456789.125]
    for i in range(ctx.scale(26, 400)):
        params = rng.sample(PARAMS, rng.choice([1, 2]))
        g = Gen17(rng, params=params, p_dep=0.85)
        kind = rng.choice(["interval", "circle", "solid1", "solid2", "solid2", "translate", "bdry", "side"])
        if kind == "interval":
            node = g.prim1("y")
        elif kind == "circle":
            node = g.prim2("x")
        elif kind == "solid1":
            g.allow_rotate = False
            node = g.solid(2, "y")
        elif kind == "solid2":
            g.allow_rotate = False
            node = g.solid(2, "x")
        elif kind == "translate":
            node = Node("translate", "x", [g.vec([dy(rng, -2, 2), dy(rng, -2, 2)])], [g.prim2("x")])
        elif kind == "bdry":
            node = Node("bdry", None, [], [g.prim(rng.choice(["x", "y"]))])
        else:
            node = Node(rng.choice(["bdryL", "bdryR"]), None, [], [g.prim1("y")])
        if not node.free_vars():
            continue
        large = rng.random() < 0.4
        fixed = [p_ for p_ in params if rng.random() < 0.7] or [params[0]]
        val = lambda: Fr(rng.choice(LARGE if large else SMALL))            # exact value of the float64 number
        sigma = {p_: [val()] for p_ in fixed}
        rest = [p_ for p_ in params if p_ not in fixed]
        prow = [{p_: [val()] for p_ in rest}]
        env = dict(sigma, **prow[0])
        # queries: near the edges of the leaves (exact rationals -> nearest float64), and random points around them
        near = []
        try:
            c05.near_points(node, env, rng, near)
        except Exception:
            near = []
        var = node.vars()[0]
        near = [[Fr(float(a)) for a in q_] for q_ in near if len(q_) == geomgen.DIM[var]]
        rows = [({var: q_}, 0) for q_ in near[:30]]
        for q_ in near[:10]:
            rows.append(({var: [a + Fr(rng.randint(-64, 64), 64) for a in q_]}, 0))
        if not rows:
            continue
        mixed = rng.choice(["all64", "all64", "points32", "rows32"])
        cases.append(dict(node=node, kind=kind, sigma=sigma, rest=rest, prow=prow, rows=rows, large=large, mixed=mixed, id=i))
    dtype_judge(cases, rep)


def dtype_judge(cases, rep):
    tp = common.use_repo()
    import torch
    lines = [f"pevals {TOL} {cs['node'].tokens()} {env_tokens(cs['sigma'])} {rows_tokens([(frs(pt), j) for pt, j in cs['rows']], [frs(p_) for p_ in cs['prow']])}"
             for cs in cases]
    replies = common.run_driver("C17", lines)
    f64 = torch.float64
    for cs, rl in zip(cases, replies):
        node, sigma, rest, prow = cs["node"], cs["sigma"], cs["rest"], cs["prow"]
        mag = max([abs(float(a)) for v_ in list(sigma.values()) + list(prow[0].values()) for a in v_] + [1.0])
        thr = Fr(1, 10 ** 12) * int(1 + mag)          # float64 rounding relative to shapes of size ~1
        rep.count("dtype-stream:" + cs["kind"] + (":large" if cs["large"] else ":small") + ":" + cs["mixed"])
        pdt = torch.float32 if cs["mixed"] == "points32" else f64
        rdt = torch.float32 if cs["mixed"] == "rows32" else f64
        var = node.vars()[0]
        # float32 points: only where float32 holds the coordinates exactly
        if pdt == torch.float32:
            rows = [(pt, j) for pt, j in cs["rows"] if all(Fr(float(torch.tensor(float(a), dtype=torch.float32))) == a for a in pt[var])]
        else:
            rows = cs["rows"]
        if not rows:
            continue
        keep = [i_ for i_, r_ in enumerate(cs["rows"]) if r_ in rows]
        desc = dict(stream="dtype", expression=node.tokens(), dom=node.describe(), values={k_: float(v_[0]) for k_, v_ in sigma.items()},
                    remaining_row={k_: float(v_[0]) for k_, v_ in prow[0].items()}, value_dtype="float64",
                    point_dtype=str(pdt), row_dtype=str(rdt), id=cs["id"],
                    case=dict(kind=cs["kind"], sigma=frs(sigma), rest=rest, prow=[frs(p_) for p_ in prow], large=cs["large"], mixed=cs["mixed"],
                              rows=[(frs(pt), j) for pt, j in cs["rows"]]))
        call = "D(" + ", ".join(f"{k_}=float64 {float(v_[0])!r}" for k_, v_ in sigma.items()) + ")"
        D = to_tp(node, tp)
        kw = {k_: torch.tensor([[float(v_[0])]], dtype=f64) for k_, v_ in sigma.items()}
        E, e0 = attempt(lambda: D(**kw))
        if e0:
            if not e0.startswith("timeout"):
                rep.fail(f"{call} raised {e0}", desc)
            continue

        def prm(names, envs, dt):
            names = list(names)
            if not names:
                return tp.spaces.Points.empty()
            return tp.spaces.Points(torch.tensor([[float(e_[n_][0]) for n_ in names] for e_ in envs], dtype=dt), _space(tp, names))
        n = len(rows)
        pts = tp.spaces.Points(torch.tensor([[float(a) for a in pt[var]] for pt, _ in rows], dtype=pdt), node.space(tp))
        full_names = list(sigma) + rest
        full = dict(sigma, **prow[0])
        # D at the values: the fixed values in float64 as the user gave them, the remaining row in its own dtype —
        # one Points object has one dtype, so a float32 remaining row is promoted exactly like points.join(params) does
        full_rows = prm(full_names, [full] * n, f64)
        rest_rows = prm(rest, [prow[0]] * n, rdt)
        ref, e1 = attempt(D._contains, pts, full_rows)
        got, e2 = attempt(E._contains, pts, rest_rows)
        if e1 and e2:
            rep.count("dtype-stream:membership-both-raise")
        elif e2 and not e2.startswith("timeout"):
            rep.fail(f"{call}._contains({pdt} points) raised {e2} while D._contains with the float64 values as parameters answers", desc)
        elif not e1 and not e2:
            ref = [bool(b) for b in ref.reshape(-1).tolist()]
            got = [bool(b) for b in got.reshape(-1).tolist()]
            rls = rl.split(";")
            for idx, (pt, _) in enumerate(rows):
                c1_, c2_, _, mg = rls[keep[idx]].split()
                if mg == "none" or Fr(mg) <= thr or cs["mixed"] == "rows32":
                    rep.count("dtype-stream:tie-or-mixed(skipped)")
                    continue
                rep.count("dtype-stream:membership-decided")
                # boundary tests of the library use tolerances relative to the coordinates and the dtype of the points
                # (/repo 20d0b69, 214537b, 5627105); the exact model has the constant ones: for boundary kinds it only
                # detects exact ties, the judgement is D(**values) against D at the same values
                third = cs["kind"] not in ("bdry", "side")
                if got[idx] != ref[idx] or (third and c1_ != "none" and got[idx] != (c1_ == "1")):
                    rep.fail(f"{call}._contains answers {got[idx]} at {var} = {[float(a) for a in pt[var]]} ({pdt}); D._contains with the same float64 "
                             f"values supplied as parameters answers {ref[idx]}; exact evaluation: {'inside' if c1_ == '1' else 'outside'} "
                             f"with slack {float(Fr(mg)):.3g}", dict(desc, point=frs(pt)))
                    break
        if cs["mixed"] == "rows32":
            continue            # float32 remaining rows are not the values the original sees in float64: only membership above
        k1 = prm(rest, prow, f64)
        kf = prm(full_names, [full], f64)
        for name, fE, fD in (("volume", lambda: E.volume(k1), lambda: D.volume(kf)), ("bounding_box", lambda: E.bounding_box(k1), lambda: D.bounding_box(kf))):
            a_, ea = attempt(fD)
            b_, eb = attempt(fE)
            if ea or eb:
                if eb and not ea and not eb.startswith("timeout"):
                    rep.fail(f"{call}.{name} raised {eb} while D.{name} at the float64 values works", desc)
                continue
            a_, b_ = torch.as_tensor(a_), torch.as_tensor(b_)
            rep.count("dtype-stream:" + name + "-compared")
            if not close_lists(flat(b_), flat(a_), 1e-12 * (1 + mag)):
                rep.fail(f"{call}.{name} = {flat(b_)} but D.{name} at the same float64 values = {flat(a_)} (float64 pipeline, tolerance 1e-12 relative)", desc)
            elif a_.dtype != b_.dtype:
                rep.fail(f"{call}.{name} has dtype {b_.dtype}, D.{name} at the same float64 values {a_.dtype}", desc)
        if cs["kind"] in ("bdry", "side"):
            continue
        for how in ("random", "grid"):
            def draw(dom, p_):
                torch.manual_seed(77 + cs["id"])
                return (dom.sample_random_uniform if how == "random" else dom.sample_grid)(n=5, params=p_)
            a_, ea = attempt(draw, D, kf)
            b_, eb = attempt(draw, E, k1)
            if ea or eb:
                if eb and not ea and not eb.startswith("timeout"):
                    rep.fail(f"{call}.sample_{how} raised {eb} while D's sampler at the float64 values works", desc)
                continue
            if len(a_) != len(b_) or not torch.isfinite(b_.as_tensor).all():
                continue
            if close_lists(flat(b_.as_tensor), flat(a_.as_tensor), 1e-12 * (1 + mag)):
                rep.count("dtype-stream:samples-identical")
                continue
            inside, ei = attempt(D._contains, b_, prm(full_names, [full] * len(b_), f64))
            inside_ref, _ = attempt(D._contains, a_, prm(full_names, [full] * len(a_), f64))
            if ei is None and inside_ref is not None and bool(inside_ref.all()) and not bool(inside.all()):
                bad = b_.as_tensor[(~inside.reshape(-1)).nonzero()[0]].flatten().tolist()
                rep.fail(f"{how} samples of {call} differ from those D draws at the same float64 values with the same seed, and e.g. {bad} lies "
                         f"outside D at these values (D's own samples are all inside)", dict(desc, how=how))
            else:
                rep.count("dtype-stream:samples-differ-but-inside")


def resupply_stream(ctx, rep):
    """object histories and re-supplied variables: a parent D whose parameter functions may carry Python defaults
    (`def f(t, k=2.0)`), a first evaluation E1 = D(**s1), a sibling D(**sx), then E2 = E1(**s2) where s2 supplies
    variables AGAIN that a default or s1 already fixed (completing the evaluation or not).  Oracles:
      * E1(**s2) behaves like E1 with s2 supplied as parameter rows (the property, applied to the domain E1):
        membership off the margin, volume (also a set_volume function), bounding box, necessary_variables;
      * E1 — the EARLIER copy — and the parent D answer after the later calls exactly what they answered before.
    Model: `((D.peval defaults).pevalC s1).pevalC s2` (drivers/C17.lean `resupply`)."""
    tp = common.use_repo()
    import torch
    rng = ctx.rng
    cases, lines = [], []
    for i in range(ctx.scale(40, 400)):
        params = rng.sample(PARAMS, rng.choice([2, 2, 3]))
        g = Gen17(rng, params=params, p_dep=0.8)
        kind = rng.choice(["solid2", "solid2", "solid1", "bdry", "side", "prim"])
        if kind == "solid2":
            node = g.solid(2, "x")
        elif kind == "solid1":
            g.allow_rotate = False
            node = g.solid(2, "y")
        elif kind == "bdry":
            g.allow_rotate = g.allow_translate = False
            node = Node("bdry", None, [], [g.solid(rng.choice([1, 2]), rng.choice(["x", "y"]))])
        elif kind == "side":
            node = Node(rng.choice(["bdryL", "bdryR"]), None, [], [g.prim1("y")])
        else:
            node = g.prim(rng.choice(["x", "y", "z"]))
        # products of two variables make functions that need both (a call can fix one and complete with the other)
        if kind in ("prim", "solid1", "side") and len(params) >= 2 and rng.random() < 0.6:
            tgt = node.kids[0] if kind == "side" else node
            if tgt.kind == "interval":
                lo = tgt.pfs[0].terms[0]
                tgt.pfs[1] = PF([("+", lo, ("+", c(dy(rng, 0.5, 2)), ("*", v(params[0]), v(params[1]))))])
        free = node.free_vars()
        if not free:
            continue
        val = lambda: [Fr(rng.randint(0, 16), 16)]
        dflt = {p_: val() for p_ in free if rng.random() < 0.3}                      # Python defaults
        cand1 = [p_ for p_ in free if p_ not in dflt]
        s1 = {p_: val() for p_ in cand1 if rng.random() < 0.5}
        if not s1 and cand1:
            s1 = {rng.choice(cand1): val()}
        sx = {p_: val() for p_ in s1}                                              # a sibling made from the same parent
        again = [p_ for p_ in list(s1) + list(dflt) if rng.random() < 0.6]           # supplied again, other values
        fresh = [p_ for p_ in free if p_ not in s1 and p_ not in dflt and rng.random() < 0.7]
        s2 = {p_: val() for p_ in again + fresh}
        if not s2:
            s2 = {rng.choice(list(s1) or list(dflt) or free): val()}
        rest = [p_ for p_ in free if p_ not in s1 and p_ not in s2 and p_ not in dflt]
        prow = [{p_: val() for p_ in rest}]
        env = dict(dflt)
        env.update(s1); env.update(s2); env.update(prow[0])
        rows = []
        var = node.vars()[0]
        near = []
        try:
            c05.near_points(node, env, rng, near)
        except Exception:
            near = []
        for q_ in near[:20]:
            if len(q_) == geomgen.DIM[var]:
                rows.append(({var: [f32(a) for a in q_]}, 0))
        for _ in range(10):
            rows.append(({var: [Fr(rng.randint(-5 * 32, 5 * 32), 32) for _ in range(geomgen.DIM[var])]}, 0))
        uvol = None
        if rng.random() < 0.35:
            used = rng.sample(free, rng.randint(1, len(free)))
            term = c(dy(rng, 1, 4))
            for p_ in used:
                term = ("+", term, ("*", c(dy(rng, 1, 3, 4)), v(p_)))
            if len(used) >= 2 and rng.random() < 0.5:
                term = ("+", term, ("*", v(used[0]), v(used[1])))
            uvol = PF([term])
        cs = dict(node=node, kind=kind, dflt=dflt, s1=s1, sx=sx, s2=s2, rest=rest, prow=prow, rows=rows, uvol=uvol, id=i)
        cases.append(cs)
    resupply_judge(cases, rep)


def resupply_judge(cases, rep):
    tp = common.use_repo()
    import torch
    lines = [f"resupply {TOL} {cs['node'].tokens()} {env_tokens(cs['dflt'])} {env_tokens(cs['s1'])} {env_tokens(cs['s2'])} "
             f"{rows_tokens([(frs(pt), j) for pt, j in cs['rows']], [frs(p_) for p_ in cs['prow']])}" for cs in cases]
    replies = common.run_driver("C17", lines)
    fl = lambda d_: {k_: float(v_[0]) for k_, v_ in d_.items()}
    for cs, rl in zip(cases, replies):
        node, dflt, s1, s2, rest, prow = cs["node"], cs["dflt"], cs["s1"], cs["s2"], cs["rest"], cs["prow"]
        re_ = sorted(set(s2) & (set(s1) | set(dflt)))
        rep.count("resupply:" + cs["kind"])
        rep.count("resupply:variables-supplied-again:%d" % len(re_))
        if dflt:
            rep.count("resupply:python-defaults")
        desc = dict(stream="resupply", expression=node.tokens(), dom=node.describe(), python_defaults=frs(dflt), first_call=frs(s1), sibling=frs(cs["sx"]),
                    second_call=frs(s2), supplied_again=re_, remaining=rest, prow=[frs(p_) for p_ in prow], kind=cs["kind"], id=cs["id"],
                    user_volume=cs["uvol"].describe() if cs["uvol"] else None, rows=[(frs(pt), j) for pt, j in cs["rows"]])
        text = f"D [python defaults {fl(dflt)}]; E1 = D(**{fl(s1)}); E2 = E1(**{fl(s2)})"
        D, e0 = attempt(lambda: to_tp(node, tp, dflt))
        if e0:
            rep.count("resupply:not-built")
            continue
        if cs["uvol"]:
            D.set_volume(pf_py(cs["uvol"], scalar=True, dfl=dflt))
        tens = lambda d_: {k_: torch.tensor([[float(v_[0])]], dtype=torch.float32) for k_, v_ in d_.items()}
        pts = mk_points(tp, torch, node, [frs(pt) for pt, _ in cs["rows"]])
        n = len(cs["rows"])
        E1, e1 = attempt(lambda: D(**tens(s1)))
        if e1:
            if not e1.startswith("timeout"):
                rep.fail(f"{text}: the first call raised {e1}", desc)
            continue
        # what E1 and the parent answer before anything else is derived from them
        namesA = list(s2) + rest                       # E1 gets the values of the second call (also the re-supplied ones) as rows
        envA = dict(s2); envA.update(prow[0])
        rowsA = mk_params(tp, torch, namesA, [frs(envA)] * n)
        k_A = mk_params(tp, torch, namesA, [frs(envA)])
        before, eb = attempt(E1._contains, pts, rowsA)
        vol_before, _ = attempt(lambda: flat(torch.as_tensor(E1.volume(k_A))))
        envP = dict(dflt); envP.update(s1); envP.update(envA)
        rowsP = mk_params(tp, torch, list(envP), [frs(envP)] * n)
        parent_before, _ = attempt(D._contains, pts, rowsP)
        # a sibling from the same parent, then the second call on the EARLIER copy
        _, _ = attempt(lambda: D(**tens(cs["sx"])))
        E2, e2 = attempt(lambda: E1(**tens(s2)))
        if e2:
            if not e2.startswith("timeout"):
                rep.fail(f"{text}: the second call raised {e2}", desc)
            continue
        rest_rows = mk_params(tp, torch, rest, [frs(prow[0])] * n)
        k_rest = mk_params(tp, torch, rest, [frs(prow[0])])
        got, eg = attempt(E2._contains, pts, rest_rows)
        rls = rl.split(";")
        nv2, nv1 = vset(rls[0].split()[3]), vset(rls[0].split()[4])
        if E2.necessary_variables is not None and sorted(E2.necessary_variables) != nv2:
            rep.disagree("drivers/C17.lean resupply: necessary_variables after the second call", desc, sorted(E2.necessary_variables), nv2)
        if set(E2.necessary_variables or []) & set(s2):
            rep.fail(f"{text}: E2 still declares {sorted(set(E2.necessary_variables) & set(s2))}, which the second call supplied", desc)
        if eb is None and eg and not eg.startswith("timeout"):
            rep.fail(f"{text}: E2._contains raised {eg} while E1 with the second call's values as parameter rows answers", desc)
        if eb is None and eg is None:
            b_ = [bool(x) for x in before.reshape(-1).tolist()]
            g_ = [bool(x) for x in got.reshape(-1).tolist()]
            for idx, (pt, _) in enumerate(cs["rows"]):
                c2_, c1_, mg = rls[idx].split()[:3]
                if mg == "none" or Fr(mg) <= MARGIN:
                    rep.count("resupply:within-margin(skipped)")
                    continue
                rep.count("resupply:decided")
                if g_[idx] != b_[idx]:
                    rep.fail(f"{text}: E2._contains answers {g_[idx]} at {fl(pt) if len(pt[node.vars()[0]]) == 1 else {k_: [float(a) for a in v_] for k_, v_ in pt.items()}}, "
                             f"but E1 with the values of the second call supplied as parameter rows answers {b_[idx]} "
                             f"(variables supplied again: {re_}; exact evaluation of the as-coded model: {'inside' if c1_ == '1' else 'outside'}, slack {float(Fr(mg)):.3g})",
                             dict(desc, point=frs(pt)))
                    break
                # single boundary points keep their side as a function with defaults (repair 988645a has to keep `.side.fun`,
                # an existing test asserts it), the interval's bound becomes a constant once complete: when a completed
                # variable is supplied again the two differ — outside the property (re-binding), the model is not compared there
                if cs["kind"] == "side" and re_:
                    rep.count("resupply:side-resupplied(model not compared)")
                elif c2_ != "none" and g_[idx] != (c2_ == "1"):
                    rep.disagree("drivers/C17.lean resupply: membership after the second call", dict(desc, point=frs(pt)), g_[idx], rls[idx])
        dependent = False
        for name, fE, fR in (("volume", lambda: E2.volume(k_rest), lambda: E1.volume(k_A)), ("bounding_box", lambda: E2.bounding_box(k_rest), lambda: E1.bounding_box(k_A))):
            a_, ea = attempt(lambda: flat(torch.as_tensor(fR())))
            b2, eb2 = attempt(lambda: flat(torch.as_tensor(fE())))
            if ea or eb2:
                if eb2 and not ea and not eb2.startswith("timeout"):
                    rep.fail(f"{text}: E2.{name} raised {eb2} while E1.{name} with the second call's values as parameter rows works", desc)
                continue
            rep.count("resupply:" + name + "-compared")
            if not close_lists(b2, a_):
                rep.fail(f"{text}: E2.{name}(remaining) = {b2} but E1.{name}(remaining + the values of the second call as rows) = {a_}"
                         + (" [user-set volume]" if cs["uvol"] and name == "volume" else "") + f" (variables supplied again: {re_})", desc)
        # histories: the earlier copy and the parent answer as before
        after, ea_ = attempt(E1._contains, pts, rowsA)
        if eb is None and ea_ is None and [bool(x) for x in after.reshape(-1).tolist()] != [bool(x) for x in before.reshape(-1).tolist()]:
            rep.fail(f"{text}: after the sibling D(**{fl(cs['sx'])}) and E2 were made, the EARLIER copy E1 answers differently than before (same points, same rows)", desc)
        vol_after, _ = attempt(lambda: flat(torch.as_tensor(E1.volume(k_A))))
        if vol_before is not None and vol_after is not None and not close_lists(vol_before, vol_after, 1e-7):
            rep.fail(f"{text}: the volume of the earlier copy E1 changed from {vol_before} to {vol_after} after later calls", desc)
        parent_after, _ = attempt(D._contains, pts, rowsP)
        if parent_before is not None and parent_after is not None and parent_before.reshape(-1).tolist() != parent_after.reshape(-1).tolist():
            rep.fail(f"{text}: the parent D answers differently after the calls (same points, same rows)", desc)


def leaf_nodes(n_):
    return [n_] if n_.is_prim() else [l_ for k_ in n_.kids for l_ in leaf_nodes(k_)]


def joint_slice_stream(ctx, rep):
    """ONE call that fixes the variables of SEVERAL factors of a (nested) product — all of them, or all but one —,
    compared with the sequential calls in other orders, with the slice written by hand (every completely fixed
    factor = Point), with the model `sliceRec` and, on the slice, with the original evaluated at those values:
    membership, necessary_variables, volume, and the fixed coordinates of the samples."""
    tp = common.use_repo()
    import torch
    rng = ctx.rng
    cases = []
    for i in range(ctx.scale(36, 360)):
        shape = rng.choice(["AB", "AB", "(AB)C", "A(BC)"])
        names = ["t", "s"] if shape != "AB" else [rng.choice(["t", "s"])]
        avar = rng.choice(["x", "x", "y", "z"])
        lv = [avar] + names                                   # variables of the leaves, left to right
        par = ["D"] if rng.random() < 0.6 else []
        leaves = []
        for j, v_ in enumerate(lv):
            deps = [w_ for w_ in lv[j + 1:] if geomgen.DIM[w_] == 1 and rng.random() < 0.7] + par
            gj = Gen17(rng, params=deps, p_dep=0.7)
            leaves.append(gj.prim(v_))
        if shape == "AB":
            node = Node("prod", None, [], leaves)
        elif shape == "(AB)C":
            node = Node("prod", None, [], [Node("prod", None, [], leaves[:2]), leaves[2]])
        else:
            node = Node("prod", None, [], [leaves[0], Node("prod", None, [], leaves[1:])])
        nfix = len(leaves) if rng.random() < 0.6 else len(leaves) - 1
        fixed_leaves = sorted(rng.sample(range(len(leaves)), max(2, nfix))) if len(leaves) > 2 else [0, 1]
        sigma = {}
        fix_par = bool(par) and rng.random() < 0.5
        if fix_par:
            sigma["D"] = [Fr(rng.randint(0, 16), 16)]
        prow = [{p_: [Fr(rng.randint(0, 16), 16)] for p_ in par if not fix_par}]
        # values right to left, inside the leaf as evaluated so far (sometimes outside)
        env = dict(sigma, **prow[0])
        inside = True
        for j in reversed(range(len(leaves))):
            lf = leaves[j]
            try:
                if lf.kind == "interval":
                    lo, hi = lf.pfs[0].eval(env)[0], lf.pfs[1].eval(env)[0]
                    val = [lo + (hi - lo) * Fr(rng.randint(1, 7), 8)]
                    if not lo < hi:
                        inside = False            # the partner's value makes this factor empty
                elif lf.kind in ("circle", "sphere"):
                    val = list(lf.pfs[0].eval(env))
                    if not lf.pfs[1].eval(env)[0] > 0:
                        inside = False
                else:
                    o, c1_, c2_ = [p_.eval(env) for p_ in lf.pfs]
                    val = [o[k_] + (c1_[k_] - o[k_]) / 3 + (c2_[k_] - o[k_]) / 3 for k_ in range(2)]
            except KeyError:
                val = [Fr(0)] * geomgen.DIM[lf.var]
            val = [Fr(round(a * 64), 64) for a in val]
            if lf.kind == "interval":
                try:
                    if not lf.pfs[0].eval(env)[0] <= val[0] <= lf.pfs[1].eval(env)[0]:
                        inside = False
                except KeyError:
                    inside = False
            if rng.random() < 0.1:
                val = [val[0] + 7] + val[1:]
                inside = False
            env[lf.var] = val
            if j in fixed_leaves:
                sigma[lf.var] = val
        fvars = [leaves[j].var for j in fixed_leaves]
        rows = []
        for r_ in range(ctx.scale(18, 30)):
            pt = {}
            kind = rng.choice(["on", "on", "on", "off", "off", "rand"])
            for j, lf in enumerate(leaves):
                d = geomgen.DIM[lf.var]
                if kind == "rand" or (j not in fixed_leaves and rng.random() < 0.5):
                    pt[lf.var] = [Fr(rng.randint(-3 * 32, 3 * 32), 32) for _ in range(d)]
                else:
                    pt[lf.var] = list(env[lf.var])
                    if j not in fixed_leaves:
                        pt[lf.var] = [a + Fr(rng.randint(-8, 8), 64) for a in pt[lf.var]]
            if kind == "off":
                w_ = rng.choice(fvars)
                pt[w_] = [pt[w_][0] + rng.choice([Fr(1, 16), Fr(-1, 16), Fr(1, 4)])] + pt[w_][1:]
            rows.append((pt, 0))
        order = list(sigma)
        rng.shuffle(order)
        cases.append(dict(node=node, shape=shape, leaves=[lf.var for lf in leaves], fvars=fvars, sigma=sigma, order=order, prow=prow, rows=rows,
                          inside=inside, rest=[p_ for p_ in par if not fix_par], id=i))
    joint_slice_judge(cases, rep, rng)


def joint_slice_judge(cases, rep, rng):
    tp = common.use_repo()
    import torch
    import itertools
    lines = [f"slicerec {TOL} {PTOL} {cs['node'].tokens()} {env_tokens(cs['sigma'])} "
             f"{rows_tokens([(frs(pt), j) for pt, j in cs['rows']], [frs(p_) for p_ in cs['prow']])}" for cs in cases]
    replies = common.run_driver("C17", lines)
    for cs, rl in zip(cases, replies):
        node, sigma, prow, rest, fvars = cs["node"], cs["sigma"], cs["prow"], cs["rest"], cs["fvars"]
        rep.count("joint-slice:" + cs["shape"] + (":all-factors" if len(fvars) == len(cs["leaves"]) else ":all-but-one"))
        fl = lambda d_: {k_: [float(a) for a in v_] for k_, v_ in d_.items()}
        call = "D(" + ", ".join(f"{k_}={[float(a) for a in sigma[k_]]}" for k_ in cs["order"]) + ")"
        desc = dict(stream="joint-slice", expression=node.tokens(), dom=node.describe(), shape=cs["shape"], leaves=cs["leaves"], fixed_factor_variables=fvars,
                    sigma=frs(sigma), keyword_order=cs["order"], prow=[frs(p_) for p_ in prow], remaining=rest, inside=cs["inside"], id=cs["id"],
                    rows=[(frs(pt), j) for pt, j in cs["rows"]])
        tens = lambda names: {k_: torch.tensor([[float(a) for a in sigma[k_]]], dtype=torch.float32) for k_ in names}
        D, e0 = attempt(lambda: to_tp(node, tp))
        if e0:
            rep.count("joint-slice:not-built")
            continue
        E, e1 = attempt(lambda: D(**tens(cs["order"])))
        if e1:
            if not e1.startswith("timeout"):
                rep.fail(f"{call} raised {e1}", desc)
            continue
        # the same values, one factor after the other, in other orders (a fixed parameter goes with the first call)
        perms = list(itertools.permutations(fvars))
        rng.shuffle(perms)
        seqs = []
        for perm in perms[:3]:
            def seq(perm=perm):
                cur = D
                for n_, w_ in enumerate(perm):
                    cur = cur(**tens([w_] + ([p_ for p_ in sigma if p_ not in fvars] if n_ == 0 else [])))
                return cur
            S_, es = attempt(seq)
            if es:
                if not es.startswith("timeout"):
                    rep.fail(f"the sequential evaluation in the order {list(perm)} raised {es} while the single call {call} works", desc)
                continue
            seqs.append((list(perm), S_))

        def hand(n_):
            if all(w_ in sigma for w_ in n_.vars()):
                return tp.domains.Point(n_.space(tp), [float(a) for w_ in n_.vars() for a in sigma[w_]])
            if n_.kind == "prod":
                return hand(n_.kids[0]) * hand(n_.kids[1])
            return to_tp(subst(n_, sigma), tp)
        H, eh = attempt(lambda: hand(node))
        refs = [(f"the sequential calls in the order {p_}", S_) for p_, S_ in seqs] + ([("the slice written by hand (every completely fixed factor = Point)", H)] if H is not None else [])
        pts = mk_points(tp, torch, node, [frs(pt) for pt, _ in cs["rows"]])
        n = len(cs["rows"])
        prm = mk_params(tp, torch, rest, [frs(prow[0])] * n)
        k1 = mk_params(tp, torch, rest, [frs(prow[0])])
        got, eg = attempt(E._contains, pts, prm)
        rls = rl.split(";")
        nvm = vset(rls[0].split()[3])
        if E.necessary_variables is not None and sorted(E.necessary_variables) != nvm:
            rep.disagree("drivers/C17.lean slicerec: necessary_variables", desc, sorted(E.necessary_variables), nvm)
        for label, R_ in refs:
            if sorted(R_.necessary_variables) != sorted(E.necessary_variables):
                rep.fail(f"{call}.necessary_variables = {sorted(E.necessary_variables)} but {label} give(s) {sorted(R_.necessary_variables)}", desc)
                break
        if eg:
            if not eg.startswith("timeout"):
                rep.fail(f"{call}._contains raised {eg}", desc)
            continue
        g_ = [bool(x) for x in got.reshape(-1).tolist()]
        ref_ans = []
        for label, R_ in refs:
            a_, ea = attempt(R_._contains, pts, prm)
            if ea is None:
                ref_ans.append((label, [bool(x) for x in a_.reshape(-1).tolist()]))
        failed = False
        for idx, (pt, _) in enumerate(cs["rows"]):
            c1_, c2_, mg, _, mgs = rls[idx].split()
            # decided: the kept factors are off their edges, the fixed coordinates are equal or clearly different
            if mgs != "none" and Fr(mgs) <= MARGIN:
                rep.count("joint-slice:within-margin(skipped)")
                continue
            rep.count("joint-slice:decided")
            where = {k_: [float(a) for a in v_] for k_, v_ in pt.items()}
            for label, ans in ref_ans:
                if ans[idx] != g_[idx]:
                    rep.fail(f"{call} (one call) answers {g_[idx]} at {where}, {label} answer(s) {ans[idx]}", dict(desc, point=frs(pt)))
                    failed = True
                    break
            if failed:
                break
            if c1_ != "none" and g_[idx] != (c1_ == "1"):
                rep.disagree("drivers/C17.lean slicerec: membership", dict(desc, point=frs(pt)), g_[idx], rls[idx])
            on = all(pt[w_] == sigma[w_] for w_ in fvars)
            # a fixed factor that depends on a KEPT coordinate is replaced by the point whatever that coordinate is
            # (by design: {x0} x B, not {(x0, t): x0 in A(t)}): there only "inside the original => inside the slice" holds
            kept = [w_ for w_ in cs["leaves"] if w_ not in fvars]
            row_dep = any(w_ in lf_.free_vars() for lf_ in leaf_nodes(node) if lf_.var in fvars for w_ in kept)
            if on and cs["inside"] and mg != "none" and Fr(mg) > MARGIN and c2_ != "none" and (c2_ == "1" or not row_dep):
                rep.count("joint-slice:compared-with-the-original")
                if g_[idx] != (c2_ == "1"):
                    rep.fail(f"{call} answers {g_[idx]} at the point {where} on the fixed coordinates (values inside their factors), which is "
                             f"{'inside' if c2_ == '1' else 'outside'} D evaluated at these values", dict(desc, point=frs(pt)))
                    failed = True
                    break
        if failed:
            continue
        # volume against the sequential evaluations
        vE, ev = attempt(lambda: flat(torch.as_tensor(E.volume(k1))))
        for label, R_ in refs[:len(seqs)]:
            vR, er = attempt(lambda: flat(torch.as_tensor(R_.volume(k1))))
            if ev is None and er is None:
                rep.count("joint-slice:volume-compared")
                if not close_lists(vE, vR):
                    rep.fail(f"{call}.volume = {vE} but {label} give(s) {vR}", desc)
                    break
        # samples carry the fixed values on every fixed coordinate
        for how in ("random",):
            torch.manual_seed(5 + cs["id"])
            smp, es = attempt(lambda: E.sample_random_uniform(n=4, params=k1))
            if es or smp is None:
                rep.count("joint-slice:sampler-raised")
                continue
            rep.count("joint-slice:samples-checked")
            coords = smp.coordinates
            for w_ in fvars:
                want = [float(a) for a in sigma[w_]]
                if w_ not in coords:
                    continue
                col = coords[w_].reshape(-1, len(want)).tolist()
                bad = [r_ for r_ in col if any(abs(x - y) > 1e-4 * (1 + abs(y)) for x, y in zip(r_, want))]
                if bad:
                    rep.fail(f"samples of {call} do not carry the fixed value {w_} = {want}: e.g. {bad[0]} ({len(bad)} of {len(col)} samples)", dict(desc, how=how))
                    break


def malformed_stream(ctx, rep):
    """expressions the constructors reject (a parameter depends on the node's own variable, the second factor
    of a product depends on the first, both directions, a translation vector depending on the own variable):
    rejected by the code iff `Dom.wf = false`; controls (dependent product, dependence on the partner below a
    motion node — accepted since /repo 414d4d6) must build and be `wf`.  Correspondence only — malformed inputs
    never feed the property oracles."""
    tp = common.use_repo()
    import torch
    rng = ctx.rng
    cases = []
    for i in range(ctx.scale(3, 12)):
        k = lambda lo=-2, hi=2: dy(rng, lo, hi)
        r = dy(rng, 0.5, 2)
        circ = lambda var, dep=None: Node("circle", var, [PF([c(k()), c(k())]), PF([("+", c(r), v(*dep)) if dep else c(r)])])
        itv = lambda var, dep=None: Node("interval", var, [PF([c(0)]), PF([("+", c(1), v(*dep)) if dep else c(1)])])
        cases += [
            ("own-variable:interval", itv("y", ("y", 0)), False),
            ("own-variable:circle", circ("x", ("x", 0)), False),
            ("product:second-depends-on-first", Node("prod", None, [], [circ("x"), itv("t", ("x", 1))]), False),
            ("product:both-directions", Node("prod", None, [], [circ("x", ("t", 0)), itv("t", ("x", 0))]), False),
            ("translate:vector-depends-on-own-variable", Node("translate", "x", [PF([v("x", 0), c(0)])], [circ("x")]), False),
            ("control:dependence-below-motion", Node("prod", None, [], [Node("translate", "x", [PF([c(k()), c(k())])], [circ("x", ("t", 0))]), itv("t")]), True),
            ("control:dependent-product", Node("prod", None, [], [circ("x", ("t", 0)), itv("t", ("D", 0))]), True),
        ]
    lines = [f"fv {n.tokens()} 0 0" for _, n, _ in cases]
    replies = common.run_driver("C17", lines)
    for (name, node, builds), rl in zip(cases, replies):
        wf = rl.split()[5] == "1"
        rep.count("malformed:" + name)
        D, err = attempt(lambda: to_tp(node, tp))
        if (err is None) != builds:
            rep.disagree("malformed stream: constructor acceptance", dict(stream="malformed", kind=name, expression=node.tokens()),
                         "built" if err is None else err, "expected to build" if builds else "expected to be rejected")
            continue
        if name.startswith("control"):
            if not wf:
                rep.disagree("malformed stream: Dom.wf rejects an accepted expression", dict(stream="malformed", kind=name, expression=node.tokens()), "built", "wf = false")
            continue
        if wf:
            rep.disagree("malformed stream: Dom.wf accepts an expression the code cannot use", dict(stream="malformed", kind=name, expression=node.tokens()), err, "wf = true")


def rebinding_stream(ctx, rep):
    """evidence only (never an alarm — the property does not say what re-binding a fixed variable means):
    does the implementation follow the as-coded model `pevalC` (value when complete, defaults otherwise)
    when a later parameter row binds a fixed variable again?"""
    tp = common.use_repo()
    import torch
    rng = ctx.rng
    cases, lines = [], []
    for i in range(ctx.scale(12, 60)):
        params = rng.sample(PARAMS, 2)
        g = Gen17(rng, params=params, p_dep=0.7, allow_rotate=False)
        node = g.solid(2, "x")
        fixed = params[0]
        sigma = {fixed: [Fr(rng.randint(0, 16), 16)]}
        rows = []
        for _ in range(40):
            pt = {"x": [Fr(rng.randint(-4 * 32, 4 * 32), 32) for _ in range(2)]}
            rows.append((frs(pt), 0))
        prow = [frs({p: [Fr(rng.randint(0, 16), 16)] for p in params})]     # binds the fixed variable again
        cases.append((node, sigma, rows, prow, params))
        lines.append(f"rebind {TOL} {node.tokens()} {env_tokens(sigma)} {rows_tokens(rows, prow)}")
    replies = common.run_driver("C17", lines)
    for (node, sigma, rows, prow, params), rl in zip(cases, replies):
        D = to_tp(node, tp)
        E, err = attempt(lambda: D(**kwargs_of(torch, frs(sigma), list(sigma))))
        if err:
            continue
        pts = mk_points(tp, torch, node, [pt for pt, _ in rows])
        got, err = attempt(E._contains, pts, mk_params(tp, torch, params, [prow[0]] * len(rows)))
        if err:
            rep.count("rebinding:raises")
            continue
        for b, r in zip(got.reshape(-1).tolist(), rl.split(";")):
            cC, mC, cP, mP = r.split()
            if cC == "none" or mC == "none" or Fr(mC) <= MARGIN or mP == "none" or Fr(mP) <= MARGIN:
                continue
            if cC == cP:
                rep.count("rebinding:branches-agree")
            else:
                rep.count("rebinding:implementation-follows-" + ("pevalC(as coded)" if bool(b) == (cC == "1") else "peval(row wins)"))


def opaque_stream(ctx, rep):
    """polygons / polyhedra are constants (`__call__` returns the object itself): expressions that combine them
    with parameter-dependent shapes — implementation-level oracles only"""
    tp = common.use_repo()
    import torch
    from torchphysics.problem.domains.domain2D.shapely_polygon import ShapelyPolygon
    from torchphysics.problem.domains.domain3D.trimesh_polyhedron import TrimeshPolyhedron
    rng = ctx.rng
    R1, R2, R3 = tp.spaces.R1, tp.spaces.R2, tp.spaces.R3
    for i in range(ctx.scale(6, 30)):
        a, b0, b1 = [Fr(rng.randint(-8, 8), 4) for _ in range(3)]
        r0 = Fr(rng.randint(2, 8), 4)
        tval = Fr(rng.randint(0, 16), 16)
        kind = rng.choice(["union", "cut", "inter", "product3d"])
        desc = dict(stream="opaque", kind=kind, a=str(a), centre=[str(b0), str(b1)], r0=str(r0), t=str(tval))
        try:
            if kind == "product3d":
                P = TrimeshPolyhedron(R3("z"), vertices=[[0, 0, 0], [1, 0, 0], [0, 1, 0], [0, 0, 1]], faces=[[0, 2, 1], [0, 1, 3], [0, 3, 2], [1, 2, 3]])
                I = tp.domains.Interval(R1("y"), float(a), lambda t: float(a) + 1 + t[:, :1])
                D = P * I
                pts = tp.spaces.Points(torch.tensor([[0.1, 0.1, 0.1, float(a) + 0.5], [0.1, 0.1, 0.1, float(a) + 1.75], [2.0, 0.1, 0.1, float(a) + 0.5]]), R3("z") * R1("y"))
            else:
                P = ShapelyPolygon(R2("x"), vertices=[[float(a), 0], [float(a) + 2, 0], [float(a) + 2, 1], [float(a) + 1, 1], [float(a) + 1, 2], [float(a), 2]])
                C = tp.domains.Circle(R2("x"), [float(b0), float(b1)], lambda t: float(r0) + t[:, :1])
                D = P + C if kind == "union" else P - C if kind == "cut" else P & C
                pts = tp.spaces.Points(torch.tensor([[float(Fr(rng.randint(-96, 96), 32)), float(Fr(rng.randint(-96, 96), 32))] for _ in range(24)]), R2("x"))
        except Exception as e:  # noqa
            rep.fail(f"an expression with a polygon / polyhedron leaf and a parameter-dependent partner cannot be built: {type(e).__name__}: {str(e)[:120]}", desc)
            continue
        rep.count("opaque-stream:" + kind)
        trow = tp.spaces.Points(torch.full((len(pts), 1), float(tval)), R1("t"))
        E, err = attempt(lambda: D(t=torch.tensor([[float(tval)]])))
        if err:
            rep.fail(f"D(t={float(tval)}) raised {err}", desc)
            continue
        if sorted(D.necessary_variables) != ["t"] or sorted(E.necessary_variables) != []:
            rep.fail(f"necessary_variables: D declares {sorted(D.necessary_variables)} (expected ['t']), D(t=..) declares {sorted(E.necessary_variables)} (expected [])", desc)
            continue
        ref, e1 = attempt(D._contains, pts, trow)
        got, e2 = attempt(E._contains, pts)
        if e1 or e2:
            if e2 and not e1:
                rep.fail(f"D(t=..)._contains raised {e2} while D._contains with t as parameter works", desc)
            continue
        if [bool(x) for x in ref.reshape(-1).tolist()] != [bool(x) for x in got.reshape(-1).tolist()]:
            rep.fail("membership of D(t=..) differs from D with t supplied as parameter (polygon / polyhedron expression)", desc)


def replay(ctx, obj):
    rep = common.Report(ctx)
    lean = common.lean_check("C17")
    inp = (obj.get("failing_input") or obj.get("first"))["input"]
    if inp.get("stream") == "user-volume":
        user_volume_stream(ctx, rep)
        return common.finish(ctx, rep, lean)
    if inp.get("stream") == "multi-slice":
        node = geomgen.from_json(inp["dom"])
        F, G = (node.kids[0], node.kids[1]) if inp["f_first"] else (node.kids[1], node.kids[0])
        rows = [tuple(r) for r in inp["rows"]]
        if "point" in inp:
            rows = [(inp["point"], 0)] + rows
        cs = dict(node=node, F=F, G=G, fvars=inp["fixed_factor_variables"], sigma=unfrs(inp["sigma"]), order=inp["keyword_order"],
                  how=inp["given_as"], rest=inp["rest"], prow=inp["prow"], rows=rows, f_first=inp["f_first"], shape=inp["shape"])
        rep.case(dict(dom=inp["dom"]), True)
        multi_slice_judge([cs], rep)
        return common.finish(ctx, rep, lean)
    if inp.get("stream") == "dtype":
        c_ = inp["case"]
        cs = dict(node=geomgen.from_json(inp["dom"]), kind=c_["kind"], sigma=unfrs(c_["sigma"]), rest=c_["rest"], prow=[unfrs(p_) for p_ in c_["prow"]],
                  rows=[(unfrs(pt), j) for pt, j in c_["rows"]], large=c_["large"], mixed=c_["mixed"], id=inp["id"])
        rep.case(dict(dom=inp["dom"]), True)
        dtype_judge([cs], rep)
        return common.finish(ctx, rep, lean)
    if inp.get("stream") == "joint-slice":
        cs = dict(node=geomgen.from_json(inp["dom"]), shape=inp["shape"], leaves=inp["leaves"], fvars=inp["fixed_factor_variables"],
                  sigma=unfrs(inp["sigma"]), order=inp["keyword_order"], prow=[unfrs(p_) for p_ in inp["prow"]],
                  rows=[(unfrs(pt), j) for pt, j in inp["rows"]], inside=inp["inside"], rest=inp["remaining"], id=inp["id"])
        rep.case(dict(dom=inp["dom"]), True)
        joint_slice_judge([cs], rep, ctx.rng)
        return common.finish(ctx, rep, lean)
    if inp.get("stream") == "resupply":
        cs = dict(node=geomgen.from_json(inp["dom"]), kind=inp["kind"], dflt=unfrs(inp["python_defaults"]), s1=unfrs(inp["first_call"]),
                  sx=unfrs(inp["sibling"]), s2=unfrs(inp["second_call"]), rest=inp["remaining"], prow=[unfrs(p_) for p_ in inp["prow"]],
                  rows=[(unfrs(pt), j) for pt, j in inp["rows"]], id=inp["id"],
                  uvol=PF([parse_pt_str(t_) for t_ in inp["user_volume"]]) if inp.get("user_volume") else None)
        rep.case(dict(dom=inp["dom"]), True)
        resupply_judge([cs], rep)
        return common.finish(ctx, rep, lean)
    if inp.get("stream") == "malformed":
        malformed_stream(ctx, rep)
        return common.finish(ctx, rep, lean)
    if inp.get("stream") == "opaque":
        opaque_stream(ctx, rep)
        return common.finish(ctx, rep, lean)
    node = geomgen.from_json(inp["dom"])
    rng = ctx.rng
    pts = []
    if "point" in inp:
        pts.append(inp["point"])
    for _ in range(24):
        pt = {}
        for var in node.vars():
            pt[var] = [str(Fr(rng.randint(-5 * 32, 5 * 32), 32)) for _ in range(geomgen.DIM[var])]
        if inp["mode"] == "slice":
            pt[inp["partner"]] = inp["sigma"][inp["partner"]]
        pts.append(pt)
    case = dict(id=inp.get("id", 0), mode=inp["mode"], dom=inp["dom"], params=inp["params"], partner=inp.get("partner"),
                sigma=inp["sigma"], stage_b=inp.get("stage_b", []), prow=inp["prow"], k=inp.get("k", len(inp["prow"])),
                rows=[(pt, i % len(inp["prow"])) for i, pt in enumerate(pts)], free=node.free_vars(), n_sample=inp.get("n_sample", 4))
    ls = case_lines(case)
    replies = expand(case, common.run_driver("C17", ls))
    im = run_impl(case, nonempty=nonempty_certificate(case, replies))
    sl, meta = sample_lines(case, im)
    sreplies, smeta = expand_samples(common.run_driver("C17", sl), meta)
    rep.case(dict(dom=case["dom"]), True)
    judge(case, im, replies, sreplies, smeta, rep)
    return common.finish(ctx, rep, lean)
