"""C14 — conditions are isolated from each other and repeatable.

A case is a HISTORY: user dicts of data functions (plain Python dicts, shared by several conditions; dict 0
stands for "no data_functions argument" = the constructor's default `{}`), 2-4 conditions (own sampler
each, static or not, any variable order), and an interleaved sequence of construct / evaluate
operations, every operation carrying the points its sampler would draw.
Oracle (the property itself, on the implementation): each condition's losses in company are bit-equal
to its losses when only its own operations are run (fresh objects); every user dict still has its keys and
holds the very same function objects; a static condition returns the same loss on every evaluation; the
constructors' default arguments are still empty.
Correspondence: the same history through the Lean world model (drivers/C14.lean `run new`, exact
rationals): every loss and the state of every user dict.
Periodic conditions (left/right data on their own side, static repeatability) and groups of PIDeepONet
conditions that share one DeepONet and one function set over several iterations (alone vs company) reuse
the C04 machinery."""
import inspect
import math
from fractions import Fraction

import common
from common import lst
import cond_common as cc
from cond_common import (pe_from_json, pe_to_json, scalar_vars, dim_of, tok_space, tok_table, tok_named, classes,
                         mk_space, close)
import c04
from c04 import js, prow, gen_fn, gen_rows, fn_tok, net_tok, build_fn

F = Fraction


def gen_history(ctx, rng, mutate=True):
    space = c04.gen_space(rng, ["x", "t", "y"], 1, 2)
    nd = rng.randint(1, 2)
    tn = rng.choice([1, 2, 3])          # number of rows of every stored table of this history (= points of their conditions)
    dicts = [[]]
    for _ in range(nd):
        # value kinds of a user dict: plain callables / UserFunction objects / mixed / a constant tensor; an explicitly
        # passed EMPTY dict is legal too
        names = rng.sample(["f", "g", "h"], rng.choice([0, 1, 1, 1, 2, 2]))
        vkind = rng.choice(["plain", "plain", "wrapped", "wrapped", "mixed"])
        d = []
        for n in names:
            fn = c04.gen_const(rng, n, rng.randint(1, 2)) if rng.random() < 0.1 else gen_fn(rng, n, space, rng.randint(1, 2))
            fn["wrap"] = vkind == "wrapped" or (vkind == "mixed" and rng.random() < 0.5)
            d.append(fn)
        # further legal kinds of entries: a plain number, a TABLE of precomputed values (tensor with one row per point),
        # a callable that returns a stored table (measured values on a fixed grid)
        for k_, fn in enumerate(d):
            r_ = rng.random()
            if r_ < 0.06:
                d[k_] = dict(name=fn["name"], form="number", params=[], defaults=[], kwonly=0, wrap=False,
                             body=[pe_to_json(("c", cc.dy(rng)))])
            elif r_ < 0.3:
                od = len(fn["body"])
                d[k_] = dict(name=fn["name"], form="table" if r_ < 0.18 else "stored", params=[space[0][0]], defaults=[], kwonly=0,
                             wrap=(r_ < 0.12), body=[["c", "0"]] * od, rows=gen_rows(rng, tn, od), tn=tn)
        dicts.append(d)
    if nd == 2 and dicts[1] and rng.random() < 0.5:
        # the SAME function object (plain callable or UserFunction object) sits in two different user dicts
        src = dicts[1][0]
        shared = dict(src, same_as=[1, 0])
        dicts[2] = [shared] + [f for f in dicts[2] if f["name"] != src["name"]]
    nc = rng.randint(2, 4)
    conds = []
    for cid in range(1, nc + 1):
        # most conditions share a user dict; some use the default argument
        dref = rng.choice([0] + [1] * 3 + list(range(1, nd + 1)) * 2)
        sp = space[:]
        rng.shuffle(sp)
        in_space = space[:]
        rng.shuffle(in_space)
        out_space = c04.gen_space(rng, ["u", "v"], 1, 1)
        net = {"in": in_space, "out": out_space,
               "body": [pe_to_json(cc.gen_pe(rng, scalar_vars(in_space), 2)) for _ in range(dim_of(out_space))]}
        param = []
        if rng.random() < 0.3:
            param = [["D", [js(cc.dy(rng))]]]
        avail = list(sp) + out_space + [[p[0], len(p[1])] for p in param] + [[d["name"], len(d["body"])] for d in dicts[dref]]
        resid = gen_fn(rng, "resid", avail, rng.randint(1, 2), deg=2)
        for d in dicts[dref]:
            # the shared data functions are what can interfere: make the residual use them
            if d["name"] not in resid["params"] and rng.random() < 0.8:
                resid["params"].insert(0, d["name"])
                resid["body"][0] = ["+", resid["body"][0], ["v", d["name"], 0]]
        if out_space[0][0] not in resid["params"]:
            resid["params"].insert(0, out_space[0][0])
        cls = rng.choice(["pinn", "pinn", "mean", "int"])
        tables = [d for d in dicts[dref] if d.get("form") in ("table", "stored")]
        c = dict(cid=cid, dref=dref, space=sp, net=net, param=param, resid=resid, cls=cls,
                 static=rng.random() < 0.6, n=tables[0]["tn"] if tables else rng.choice([1, 2, 3]), share={})
        if cls == "int":
            # IntegroPINNCondition whose residual does not read the `_integral` sets: the PINN loss on (n, 1, dim) tensors
            iv = rng.choice(sp)
            c.update(ivar=iv, irows=gen_rows(rng, rng.choice([1, 2]), iv[1]))
            if any(d.get("form") == "stored" for d in dicts[dref]):
                c["static"] = True        # a stored (n, d) table only fits the (n, 1, dim) layout after the pre-evaluation
        if conds and rng.random() < 0.4 and cls != "int" and not tables:
            # this condition is built from the very same OBJECTS as an earlier one: the model, the residual
            # function, possibly the (non-static) sampler object — everything but its own static flag / draws
            j = rng.choice(conds)
            c.update(dref=j["dref"], space=j["space"], net=j["net"], param=j["param"], resid=j["resid"], n=j["n"], cls=j["cls"] if j["cls"] != "int" else "pinn")
            c["share"] = dict(model=j["cid"], resid=j["cid"] if rng.random() < 0.7 else None)
            if not j["static"] and rng.random() < 0.5:
                c["static"] = False
                c["share"]["sampler"] = j["cid"]
        conds.append(c)
    # interleaving: constructions and evaluations of all conditions in random order (construct first per condition)
    pending = {c["cid"]: ["c"] + ["e"] * rng.randint(1, 3) for c in conds}
    ops = []
    while pending:
        cid = rng.choice(sorted(pending))
        kind = pending[cid].pop(0)
        if not pending[cid]:
            del pending[cid]
        c = conds[cid - 1]
        ops.append(dict(op=kind, cid=cid, fresh=gen_rows(rng, c["n"], dim_of(c["space"]))))
        built = [o["cid"] for o in ops if o["op"] == "c"]
        r = rng.random()
        if built and r < 0.08:
            # a training is started with some of the conditions built so far: the Solver's start-up hook moves
            # their static data to the device (op "s"); sometimes a real one-step fit follows (op "f": every
            # train / val condition is evaluated once on the points laid out for it here)
            part = rng.sample(built, rng.randint(1, len(built)))
            fit = r < 0.007
            nval = rng.randint(0, len(part) - 1) if fit else 0
            ops.append(dict(op="f" if fit else "s", cids=part, val=part[len(part) - nval:] if nval else [],
                            fresh={str(k): gen_rows(rng, conds[k - 1]["n"], dim_of(conds[k - 1]["space"])) for k in part}))
    h = dict(kind="history", space=space, dicts=dicts, conds=conds, ops=ops)
    if mutate:
        add_user_mutations(rng, h)
    return h


def add_user_mutations(rng, h):
    """the USER changes their own dicts during the history (op "u"): a dict is handed to the first condition(s) while
    still EMPTY (or with only some of its entries), then filled and handed to the next condition; later on entries are
    removed or replaced.  Conditions constructed before keep behaving as constructed (each as if constructed alone)."""
    import copy
    conds, ops = h["conds"], h["ops"]
    for i in range(1, len(h["dicts"])):
        full = h["dicts"][i]
        if not full or any(f.get("same_as") for d in h["dicts"] for f in d) or rng.random() < 0.4:
            continue
        order = [o["cid"] for o in ops if o["op"] == "c" and conds[o["cid"] - 1]["dref"] == i]
        if not order:
            continue
        n_early = rng.randint(1, len(order))
        early = order[:n_early]
        initial = [] if rng.random() < 0.65 else [f for f in full if rng.random() < 0.5]
        if len(initial) == len(full):
            initial = initial[:-1]
        have = {f["name"] for f in initial}
        later = [f for f in full if f["name"] not in have]
        for cid in early:
            c = conds[cid - 1]
            if any(k.get("share", {}).get("resid") == cid or k.get("share", {}).get("model") == cid for k in conds):
                c_sh = [k for k in conds if cid in k.get("share", {}).values()]
                for k in c_sh:
                    k["share"] = {}
            c["share"] = {}
            out_space = c["net"]["out"]
            avail = list(c["space"]) + out_space + [[p[0], len(p[1])] for p in c["param"]] + [[f["name"], len(f["body"])] for f in initial]
            resid = gen_fn(rng, "resid", avail, rng.randint(1, 2), deg=2)
            resid.pop("state", None)
            if out_space[0][0] not in resid["params"]:
                resid["params"].insert(0, out_space[0][0])
            one_dim = [f for f in later if len(f["body"]) == 1]
            if one_dim and rng.random() < 0.7:
                # an OPTIONAL argument of the residual with the name of an entry the user adds to the dict later on
                nm = rng.choice(one_dim)["name"]
                if nm not in resid["params"]:
                    resid["params"].append(nm)
                    resid["defaults"].append([nm, [js(cc.dy(rng, 1, 6, 2))]])
                    resid["body"][0] = ["+", resid["body"][0], ["v", nm, 0]]
            resid["kwonly"] = 0
            resid["wrap"] = False
            c["resid"] = resid
        h["dicts"][i] = copy.deepcopy(initial)
        # the user fills the dict right before it is handed to the first condition that needs the rest
        pos = next((k for k, o in enumerate(ops) if o["op"] == "c" and o["cid"] == order[n_early]), None) if n_early < len(order) else None
        if pos is None:
            last_c = max(k for k, o in enumerate(ops) if o["op"] == "c" and o.get("cid") in early)
            pos = rng.randint(last_c + 1, len(ops))
        ops.insert(pos, dict(op="u", dict=i, content=copy.deepcopy(full)))
        if rng.random() < 0.4:
            # later the user removes / replaces an entry; every condition on this dict has been constructed by then
            last_c = max(k for k, o in enumerate(ops) if o["op"] == "c" and conds[o["cid"] - 1]["dref"] == i)
            newc = copy.deepcopy(full)
            if rng.random() < 0.5 or newc[0].get("form") in ("table", "stored"):
                newc = newc[1:]
            else:
                rep_ = gen_fn(rng, newc[0]["name"], h["space"], len(newc[0]["body"]))
                rep_["wrap"] = newc[0].get("wrap", False)
                newc[0] = rep_
            ops.insert(rng.randint(last_c + 1, len(ops)), dict(op="u", dict=i, content=newc))


def gen_shared(ctx, rng):
    """histories in which several conditions use ONE sampler object (plain / static / static with a finite
    resample interval); by design of the library they then share its cached points"""
    h = gen_history(ctx, rng, mutate=False)
    space = h["space"]
    nS = rng.randint(1, 2)
    samplers = []
    for sid in range(nS):
        kind = rng.choice(["plain", "static", "static", "interval"])
        tns = [f["tn"] for d in h["dicts"] for f in d if f.get("form") in ("table", "stored")]
        samplers.append(dict(sid=sid, static=kind != "plain", interval=rng.choice([1, 2, 3]) if kind == "interval" else None,
                             n=tns[0] if tns else rng.choice([1, 2, 3])))       # stored tables have one row per point
    for c in h["conds"]:
        sid = 0 if rng.random() < 0.7 else rng.randrange(nS)
        c.update(sid=sid, space=space, n=samplers[sid]["n"], static=samplers[sid]["static"], share={})
        # the residual was generated for this condition's own variable order: names only, so any order is fine
    ops = []
    for o in h["ops"]:
        if o["op"] in ("s", "f"):
            continue
        c = h["conds"][o["cid"] - 1]
        ops.append(dict(op=o["op"], cid=o["cid"], fresh=gen_rows(rng, c["n"], dim_of(space))))
    h.update(kind="shared", samplers=samplers, ops=ops)
    return h


def run_shared(case, only=None, given=None):
    """company run (only=None), or condition `only` alone on a PRIVATE sampler that hands it the point sets
    `given` (one per operation of the condition, None = the operation drew nothing in company)"""
    C = classes()
    tp, torch = C["tp"], C["torch"]
    NextSampler = _next_sampler_cls()
    sink = []
    tables = []
    pydicts, originals = [], []
    for d in case["dicts"]:
        fns = {}
        for spec in d:
            if spec.get("same_as"):
                di, fi = spec["same_as"]
                fns[spec["name"]] = pydicts[di][case["dicts"][di][fi]["name"]]
            else:
                fns[spec["name"]] = build_entry(C, spec, sink, tables)
        pydicts.append(fns)
        originals.append(dict(fns))
    inners, outers, recs = {}, {}, {}

    def sampler_of(c):
        key = c["sid"] if only is None else ("private", c["cid"])
        if key not in outers:
            sp = case["samplers"][c["sid"]]
            inner = NextSampler(c["space"], sp["n"])
            if only is None:
                outer = inner.make_static(sp["interval"] if sp["interval"] is not None else math.inf) if sp["static"] else inner
            else:
                # alone: static exactly when the shared sampler never resamples (that is when data is pre-evaluated)
                outer = inner.make_static() if (sp["static"] and sp["interval"] is None) else inner
            inners[key], outers[key], recs[key] = inner, outer, cc.Recorder(outer)
        return key
    state, outs, used = {}, [], []
    k_given = 0
    for op in case["ops"]:
        if only is not None and op["cid"] != only:
            continue
        c = case["conds"][op["cid"] - 1]
        key = sampler_of(c)
        fresh = prow(op["fresh"])
        if given is not None:
            if given[k_given] is not None:
                fresh = given[k_given]
            k_given += 1
        inners[key].next_rows = fresh
        before = len(recs[key].calls)
        try:
            if op["op"] == "c":
                net = c["net"]
                model = C["PolyModel"](net["in"], net["out"], [pe_from_json(b) for b in net["body"]])
                resid = build_fn(C, c["resid"], sink)
                kw = {}
                if c["dref"] != 0:
                    kw["data_functions"] = pydicts[c["dref"]]
                if c["param"]:
                    pn, pv = c["param"][0]
                    kw["parameter"] = tp.models.Parameter([float(F(v)) for v in pv], mk_space([[pn, len(pv)]]))
                Cls = tp.conditions.PINNCondition if c["cls"] == "pinn" else tp.conditions.MeanCondition
                state[op["cid"]] = Cls(model, outers[key], resid, **kw)
                outs.append((op["cid"], "-"))
            else:
                outs.append((op["cid"], float(state[op["cid"]].forward())))
        except Exception as e:  # noqa
            outs.append((op["cid"], c04.classify_exc(e)))
        new = recs[key].calls[before:]
        used.append((op["cid"], new[0]["rows"] if new else None, [n_["rows"] for n_ in new]))
        del sink[:]
    report = [dict(keys=list(d.keys()), same_objects=all(d.get(k) is o[k] for k in o)) for d, o in zip(pydicts, originals)]
    return dict(outs=outs, used=used, dicts=report)


def line_shared(case):
    ops = [f"m {sp['sid']} {1 if sp['static'] else 0} {'inf' if sp['interval'] is None else sp['interval']}" for sp in case["samplers"]]
    for op in case["ops"]:
        c = case["conds"][op["cid"] - 1]
        if op["op"] == "c":
            r = c["resid"]
            resid = cc.tok_ufun(dict(params=r["params"], defaults=[(n, [F(v) for v in vs]) for n, vs in r["defaults"]],
                                     body=[pe_from_json(b) for b in r["body"]]))
            err, red = ("sq", "mean") if c["cls"] == "pinn" else ("id", "mean")
            ops.append(" ".join(["c", str(c["cid"]), str(c["dref"]), tok_space(c["space"]), net_tok(c["net"]), resid,
                                 tok_named([(n, [F(v) for v in vs]) for n, vs in c["param"]]), err, red, str(c["sid"]),
                                 tok_table(prow(op["fresh"]))]))
        else:
            ops.append(f"e {op['cid']} {tok_table(prow(op['fresh']))}")
    dicts = lst(case["dicts"], lambda d: lst(d, entry_tok))
    return f"runs {dicts} {lst(ops)}"


def judge_shared(rep, case, res, alone, reply):
    by_sid = {}
    for c in case["conds"]:
        by_sid.setdefault(c["sid"], []).append(c["cid"])
    for sp in case["samplers"]:
        kind = "plain" if not sp["static"] else "static" if sp["interval"] is None else "static-interval"
        if len(by_sid.get(sp["sid"], [])) >= 2:
            rep.count("shared-sampler-object:" + kind)
    for cid, o in res["outs"]:
        if isinstance(o, str) and o != "-":
            rep.fail(f"condition {cid} raised: {o}", case)
    # (1) one never-resampling static sampler: every condition on it sees the same points, every time
    for sp in case["samplers"]:
        if sp["static"] and sp["interval"] is None:
            sets = [u for (cid, u, _) in res["used"] if u is not None and case["conds"][cid - 1]["sid"] == sp["sid"]]
            if any(u != sets[0] for u in sets):
                rep.fail(f"conditions on the shared static sampler {sp['sid']} were handed different point sets", case)
    # (2) isolation GIVEN the points: alone, on a private sampler that hands out the same point sets, every condition
    #     returns bit-identical losses
    for c in case["conds"]:
        mine = [o for k, o in res["outs"] if k == c["cid"]]
        al = [o for k, o in alone[c["cid"]]["outs"]]
        if mine != al:
            rep.fail(f"condition {c['cid']} on shared sampler {c['sid']} returns {mine} in company but {al} when it is alone and its "
                     f"private sampler hands it the very same point sets", case, detail=dict(cid=c["cid"], company=mine, alone=al))
    for i, (d, spec) in enumerate(zip(res["dicts"], case["dicts"])):
        if d["keys"] != [f["name"] for f in spec] or not d["same_objects"]:
            rep.fail(f"user dict {i} was modified", case, detail=d)
    # (3) correspondence: outputs, dict state, and the model's own alone-replay
    if reply is None or reply.startswith("bad-op"):
        rep.disagree("shared-sampler history: model rejects", case, res["outs"], reply)
        return
    outs, tags, alone_m = reply.split(" | ")
    mo = outs.split()
    if len(mo) != len(res["outs"]):
        rep.disagree("shared-sampler history: number of outputs", case, res["outs"], reply)
        return
    for (cid, o), m in zip(res["outs"], mo):
        ok = (o == "-" and m == "-") or (isinstance(o, float) and not m.startswith("err") and m not in ("-", "none")
                                         and close(o, float(F(m)), 1e-9, 1e-12)) or (isinstance(o, str) and o == m)
        if not ok:
            rep.disagree("shared-sampler history outputs: drivers/C14.lean `runs` vs the real conditions", case, res["outs"], reply)
            return
    per = {}
    for cid, m in zip([c for c, _ in res["outs"]], mo):
        per.setdefault(cid, []).append(m)
    want_alone = " ".join(f"{cid}:{','.join(ms)}" for cid, ms in sorted(per.items(), key=lambda t: [c for c, _ in res["outs"]].index(t[0])))
    if alone_m.strip() != want_alone.strip():
        rep.disagree("shared-sampler history: the model's alone-replay differs from its company run (isolation_shared)", case, want_alone, alone_m)


# ---- the library's own sampler objects shared between conditions as FACTORS of different products / sums

BASE_KINDS = ["grid", "grid", "random", "expo", "lhs", "gauss", "density"]


def gen_factors(ctx, rng):
    pool = ["x", "t", "y"]
    nb = rng.randint(2, 4)
    bases = []
    for i in range(nb):
        var = pool[i] if i < 2 else rng.choice(pool)
        lb = cc.dy(rng, -4, 4, 2)
        kind = rng.choice(BASE_KINDS)
        bases.append(dict(id=i, var=var, kind=kind, n=rng.randint(1, 5), lb=js(lb), ub=js(lb + rng.randint(1, 4)),
                          density=js(F(rng.randint(1, 5), 2)), exponent=rng.choice([2, 3])))
    nc = rng.randint(2, 4)
    conds = []
    for cid in range(1, nc + 1):
        cls = rng.choice(["pinn", "pinn", "pinn", "per", "aw"])
        fixed = [b for b in bases if b["kind"] != "density"]
        if not fixed:
            cls = "pinn"       # a density sampler does not know its length before it sampled (documented): no len() users
        if cls == "per":
            # PeriodicCondition reads len(non_periodic_sampler) at construction
            b = rng.choice(fixed) if fixed else None
            if b is None:
                cls = "pinn"
            else:
                pv = rng.choice([v for v in pool if v != b["var"]])
                expr = ["b", b["id"]]
        if cls != "per":
            a = rng.choice(bases if cls == "pinn" else (fixed or bases))
            others = [b for b in (bases if cls == "pinn" else (fixed or bases)) if b["var"] != a["var"]]
            same = [b for b in (bases if cls == "pinn" else (fixed or bases)) if b["var"] == a["var"]]
            r = rng.random()
            if others and r < 0.6:
                o = rng.choice(others)
                expr = ["p", ["b", a["id"]], ["b", o["id"]]]
                if rng.random() < 0.3:
                    expr = ["p", ["s", ["b", a["id"]], ["b", rng.choice(same)["id"]]], ["b", o["id"]]]
            elif r < 0.8:
                expr = ["s", ["b", a["id"]], ["b", rng.choice(same)["id"]]]
            else:
                expr = ["b", a["id"]]
        space = []
        def walk(e):
            if e[0] == "b":
                if [bases[e[1]]["var"], 1] not in space:
                    space.append([bases[e[1]]["var"], 1])
            elif e[0] == "p":
                walk(e[1]); walk(e[2])
            else:
                walk(e[1])
        walk(expr)
        full = ([[pv, 1]] if cls == "per" else []) + space
        in_space = full[:]
        rng.shuffle(in_space)
        out_space = [["u", 1]]
        net = {"in": in_space, "out": out_space, "body": [pe_to_json(cc.gen_pe(rng, scalar_vars(in_space), 2))]}
        if cls == "per":
            resid = dict(name="resid", params=["u_left", "u_right", space[0][0]], defaults=[], form="def", kwonly=0,
                         body=[["+", ["-", ["v", "u_left", 0], ["v", "u_right", 0]], ["*", ["c", js(cc.dy(rng, 1, 4, 2))], ["v", space[0][0], 0]]]])
        else:
            resid = gen_fn(rng, "resid", space + out_space, rng.randint(1, 2), deg=2)
            if "u" not in resid["params"]:
                resid["params"].insert(0, "u")
                resid["kwonly"] = 0
        conds.append(dict(cid=cid, cls=cls, expr=expr, space=space, pv=pv if cls == "per" else None, net=net, resid=resid,
                          static=True if cls == "aw" else rng.random() < 0.4))
    pending = {c["cid"]: ["c"] + ["e"] * rng.randint(1, 3) for c in conds}
    ops = []
    while pending:
        cid = rng.choice(sorted(pending))
        kind = pending[cid].pop(0)
        if not pending[cid]:
            del pending[cid]
        ops.append(dict(op=kind, cid=cid, seed=rng.randint(0, 10 ** 6)))
    return dict(kind="factors", bases=bases, conds=conds, ops=ops)


def _mk_base(tp, b):
    dom = tp.domains.Interval(mk_space([[b["var"], 1]]), float(F(b["lb"])), float(F(b["ub"])))
    S = tp.samplers
    k = b["kind"]
    if k == "grid":
        return S.GridSampler(dom, n_points=b["n"])
    if k == "random":
        return S.RandomUniformSampler(dom, n_points=b["n"])
    if k == "expo":
        return S.ExponentialIntervalSampler(dom, b["n"], b["exponent"])
    if k == "lhs":
        return S.LHSSampler(dom, b["n"])
    if k == "gauss":
        import torch
        m = (float(F(b["lb"])) + float(F(b["ub"]))) / 2
        return S.GaussianSampler(dom, b["n"], mean=torch.tensor([m]), std=torch.tensor(0.5))
    return S.RandomUniformSampler(dom, density=float(F(b["density"])))


def _safe_len(obj):
    try:
        return int(len(obj))
    except Exception:  # noqa  (a density sampler does not know its length before it sampled)
        return None


def run_factors(case, only=None):
    C = classes()
    tp, torch = C["tp"], C["torch"]
    objs = [_mk_base(tp, b) for b in case["bases"]]
    own = []
    for b in case["bases"]:
        torch.manual_seed(0)
        own.append(len(_mk_base(tp, b).sample_points()))       # own points of an identical, untouched sampler
    decl = [dict(n_points=getattr(o, "n_points", None), density=getattr(o, "density", None)) for o in objs]

    def build(e):
        if e[0] == "b":
            return objs[e[1]]
        return build(e[1]) * build(e[2]) if e[0] == "p" else build(e[1]) + build(e[2])
    state, outs, lens, rows = {}, [], [], []
    sink = []
    for op in case["ops"]:
        if only is not None and op["cid"] != only:
            continue
        c = case["conds"][op["cid"] - 1]
        torch.manual_seed(op["seed"])
        nrows = None
        try:
            if op["op"] == "c":
                net = c["net"]
                model = C["PolyModel"](net["in"], net["out"], [pe_from_json(b) for b in net["body"]])
                resid = build_fn(C, c["resid"], sink)
                sampler = build(c["expr"])
                if c["static"]:
                    sampler = sampler.make_static()
                rec = cc.Recorder(sampler)
                if c["cls"] == "per":
                    a = F(case["bases"][c["expr"][1]]["lb"])
                    iv = tp.domains.Interval(mk_space([[c["pv"], 1]]), float(a), float(a) + 1.0)
                    cond = tp.conditions.PeriodicCondition(model, iv, resid, non_periodic_sampler=sampler)
                elif c["cls"] == "aw":
                    cond = tp.conditions.AdaptiveWeightsCondition(model, sampler, resid)
                else:
                    cond = tp.conditions.PINNCondition(model, sampler, resid)
                state[op["cid"]] = (cond, rec)
                outs.append((op["cid"], "-"))
                if rec.calls:
                    nrows = len(rec.calls[-1]["rows"])      # a constructor may already ask the sampler
            else:
                cond, rec = state[op["cid"]]
                before = len(rec.calls)
                outs.append((op["cid"], float(cond.forward())))
                if len(rec.calls) > before:
                    nrows = len(rec.calls[-1]["rows"])
        except Exception as e:  # noqa
            outs.append((op["cid"], c04.classify_exc(e)))
        rows.append(nrows)
        lens.append([_safe_len(o) for o in objs])
        del sink[:]
        if any(l is not None and l > 50 * max(1, w) for l, w in zip(lens[-1], own)):
            break       # a length that keeps growing makes every further sample bigger: the oracle below already has its failing input
    attrs_ok = all(getattr(o, "n_points", None) == d["n_points"] and getattr(o, "density", None) == d["density"] for o, d in zip(objs, decl))
    return dict(outs=outs, lens=lens, rows=rows, own=own, attrs_ok=attrs_ok)


def line_factors(case, res):
    """the expressions that were sampled at top level, in order (a static sampler samples once)"""
    def tok(e):
        return f"b {e[1]}" if e[0] == "b" else f"{e[0]} {tok(e[1])} {tok(e[2])}"
    es, which = [], []
    for k, (op, nrows) in enumerate(zip(case["ops"], res["rows"])):
        if nrows is not None:
            c = case["conds"][op["cid"] - 1]
            es.append(tok(c["expr"]))
            which.append(k)
    return f"lens {lst(res['own'])} {lst(es)}", which


def judge_factors(rep, case, res, alone, reply, which):
    rep.count("factors:bases=" + "+".join(sorted(b["kind"] for b in case["bases"])))
    for c in case["conds"]:
        rep.count(f"factors:{c['cls']}:" + {"b": "single", "p": "product", "s": "sum"}[c["expr"][0]] + (":static" if c["static"] else ""))
    used_by = {}
    for c in case["conds"]:
        for tok_ in json_bases(c["expr"]):
            used_by.setdefault(tok_, set()).add(c["cid"])
    if any(len(v) >= 2 for v in used_by.values()):
        rep.count("factors:base-sampler-object-in-several-conditions")
    order = [o["op"] + str(o["cid"]) for o in case["ops"]]
    for cid, o in res["outs"]:
        if isinstance(o, str) and o != "-":
            rep.fail(f"condition {cid} ({case['conds'][cid - 1]['cls']}) raised in the history {order}: {o}", case)
    # the user's sampler objects: len() is the object's own number of points, whatever products were sampled
    for k, ls in enumerate(res["lens"]):
        for b, l, own in zip(case["bases"], ls, res["own"]):
            if l is not None and l != own:
                rep.fail(f"after operation {k} ({order[k]}) len() of the user's {b['kind']} sampler {b['id']} is {l}; the sampler creates "
                         f"{own} points (it was used as a factor of {[c['expr'] for c in case['conds'] if b['id'] in json_bases(c['expr'])]})",
                         case, detail=dict(op=k, lens=ls, own=res["own"]))
                break
        else:
            continue
        break
    if not res["attrs_ok"]:
        rep.fail("n_points / density of a user sampler object changed", case)
    for c in case["conds"]:
        mine = [o for k, o in res["outs"] if k == c["cid"]]
        al = [o for k, o in alone[c["cid"]]["outs"]]
        if mine != al:
            rep.fail(f"condition {c['cid']} ({c['cls']}) returns {mine} in company (history {order}) but {al} when only its own operations are run",
                     case, detail=dict(cid=c["cid"], company=mine, alone=al))
    # correspondence: rows returned by every top-level sample and len() of every base object afterwards
    if reply is None or reply.startswith("bad-op"):
        rep.disagree("factors: model rejects", case, res["lens"], reply)
        return
    toks = reply.split()
    if len(toks) != len(which):
        rep.disagree("factors: number of samples", case, len(which), reply)
        return
    for k, t in zip(which, toks):
        r, ls = t.split(":")
        impl_ls = res["lens"][k]
        ok = int(r) == res["rows"][k] and all(a is None or a == int(b) for a, b in zip(impl_ls, ls.split(",")))
        if not ok:
            rep.disagree("factors: rows of the sample / len() of the base samplers: drivers/C14.lean `lens` vs the real samplers", case,
                         dict(op=k, rows=res["rows"][k], lens=impl_ls), t)
            return


def json_bases(e):
    return [e[1]] if e[0] == "b" else json_bases(e[1]) + json_bases(e[2])


def _next_sampler_cls():
    C = classes()
    if "NextSampler" not in C:
        tp, torch = C["tp"], C["torch"]

        class NextSampler(tp.samplers.PointSampler):
            """draws the point set the harness has laid out for the current operation"""

            def __init__(self, space, n):
                super().__init__(n_points=n)
                self.space_l, self.next_rows, self.draws = space, None, 0

            def sample_points(self, params=None, device="cpu", **kw):
                self.draws += 1
                rows = self.next_rows
                return tp.spaces.Points(torch.tensor([[float(v) for v in r] for r in rows], dtype=torch.float64).reshape(len(rows), dim_of(self.space_l)),
                                        mk_space(self.space_l))
        C["NextSampler"] = NextSampler
    return C["NextSampler"]


def fingerprint(v):
    """value-level fingerprint of a user object: tensors by shape, dtype and values; UserFunction objects by the
    identity of what they wrap and their argument / default lists; everything else by identity"""
    import torch
    if torch.is_tensor(v):
        return ("tensor", tuple(v.shape), str(v.dtype), v.detach().reshape(-1).tolist())
    if hasattr(v, "fun") and hasattr(v, "args") and hasattr(v, "defaults"):
        f = v.fun
        return ("UserFunction", fingerprint(f) if torch.is_tensor(f) else id(f), list(v.args) if not isinstance(v.args, dict) else sorted(v.args),
                sorted((k, str(x)) for k, x in dict(v.defaults).items()))
    if isinstance(v, (int, float)):
        return ("number", v)
    return ("object", id(v))


def build_entry(C, spec, sink, tables):
    """one entry of a user's data-function dict, of any legal kind"""
    torch = C["torch"]
    form = spec.get("form")
    if form == "number":
        return float(F(spec["body"][0][1]))
    if form in ("table", "stored"):
        T = torch.tensor([[float(F(v)) for v in r] for r in spec["rows"]], dtype=torch.float64)
        tables.append(T)
        if form == "table":
            return C["tp"].utils.UserFunction(T) if spec.get("wrap") else T
        return cc.mk_user_fn(spec["name"], spec["params"], [], lambda args, T=T: T)     # measured values on a fixed grid
    return build_fn(C, spec, sink)


def entry_tok(f):
    if f.get("form") in ("table", "stored"):
        return f"{f['name']} tensor {tok_table(prow(f['rows']))}"
    return f"{f['name']} {'wrapped' if f.get('wrap') else 'raw'} {fn_tok(f)}"


def entry_tag(f):
    return "tensor" if f.get("form") in ("table", "stored") else "wrapped" if f.get("wrap") else "raw"


def run_history(case, only=None):
    """run the history (or only the operations of condition `only`) on fresh objects"""
    C = classes()
    tp, torch = C["tp"], C["torch"]
    NextSampler = _next_sampler_cls()
    sink = []
    tables = []          # the user's stored tables (also those hidden behind a callable)
    pydicts, originals = [], []
    for d in case["dicts"]:
        fns = {}
        for spec in d:
            if spec.get("same_as"):
                di, fi = spec["same_as"]
                fns[spec["name"]] = pydicts[di][case["dicts"][di][fi]["name"]]      # the same object again
            else:
                fns[spec["name"]] = build_entry(C, spec, sink, tables)
        pydicts.append(fns)
        originals.append(dict(fns))
    prints = [{k: fingerprint(v) for k, v in d.items()} for d in pydicts]
    table_prints = [fingerprint(t) for t in tables]
    state = {}
    objs = {}            # cid -> (model, residual function, inner sampler) for object sharing between conditions
    outs = []
    aliased = []
    for op in case["ops"]:
        if op["op"] == "u":
            # the user's own action on their dict (in place: it is the very object the conditions were given)
            d = pydicts[op["dict"]]
            d.clear()
            for spec in op["content"]:
                d[spec["name"]] = build_entry(C, spec, sink, tables)
            originals[op["dict"]] = dict(d)
            prints[op["dict"]] = {k: fingerprint(v) for k, v in d.items()}
            table_prints[:] = [fingerprint(t) for t in tables]
            continue
        if op["op"] in ("s", "f"):
            part = [k for k in op["cids"] if only is None or k == only]
            if not part:
                continue
            try:
                for k in part:
                    state[k][1].next_rows = prow(op["fresh"][str(k)])
                cc.training_start([state[k][0] for k in part if k not in op["val"]],
                                  [state[k][0] for k in part if k in op["val"]], fit=op["op"] == "f")
                if op["op"] == "f":
                    outs += [(k, "~") for k in part]
            except Exception as e:  # noqa
                outs.append((part[0], c04.classify_exc(e)))
            del sink[:]
            continue
        if only is not None and op["cid"] != only:
            continue
        c = case["conds"][op["cid"] - 1]
        fresh = prow(op["fresh"])
        try:
            if op["op"] == "c":
                sh = {k: v for k, v in c.get("share", {}).items() if v in objs}     # (alone: nothing to share with)
                inner = objs[sh["sampler"]][2] if "sampler" in sh else NextSampler(c["space"], c["n"])
                inner.next_rows = fresh
                sampler = inner.make_static() if c["static"] else inner
                net = c["net"]
                model = objs[sh["model"]][0] if "model" in sh else C["PolyModel"](net["in"], net["out"], [pe_from_json(b) for b in net["body"]])
                resid = objs[sh["resid"]][1] if sh.get("resid") else build_fn(C, c["resid"], sink)
                objs[op["cid"]] = (model, resid, inner)
                kw = {}
                if c["dref"] != 0:
                    kw["data_functions"] = pydicts[c["dref"]]
                if c["param"]:
                    pn, pv = c["param"][0]
                    kw["parameter"] = tp.models.Parameter([float(F(v)) for v in pv], mk_space([[pn, len(pv)]]))
                if c["cls"] == "int":
                    isamp = C["ListSampler"]([c["ivar"]], [prow(c["irows"])]).make_static()
                    cond = tp.conditions.IntegroPINNCondition(model, sampler, resid, isamp, **kw)
                else:
                    Cls = tp.conditions.PINNCondition if c["cls"] == "pinn" else tp.conditions.MeanCondition
                    cond = Cls(model, sampler, resid, **kw)
                state[op["cid"]] = (cond, inner)
                outs.append((op["cid"], "-"))
                # a condition must not keep the caller's dict object itself, nor the constructors' shared default `{}`
                held = [v for v in vars(cond).values() if isinstance(v, dict)]
                if any(any(v is d_ for d_ in pydicts) for v in held):
                    aliased.append((op["cid"], "the user's dictionary object"))
                if "default_dicts" not in _BASELINE:
                    _BASELINE["default_dicts"] = [dflt for _, _, dflt in _default_args() if isinstance(dflt, dict)]
                if any(any(v is dflt for dflt in _BASELINE["default_dicts"]) for v in held):
                    aliased.append((op["cid"], "the shared default `{}` of the constructors"))
            else:
                cond, inner = state[op["cid"]]
                inner.next_rows = fresh
                outs.append((op["cid"], float(cond.forward())))
        except Exception as e:  # noqa
            outs.append((op["cid"], c04.classify_exc(e)))
        del sink[:]
    report = []
    for d, o, pr in zip(pydicts, originals, prints):
        changed = [k for k in o if k in d and fingerprint(d[k]) != pr[k]]
        report.append(dict(keys=list(d.keys()), same_objects=all(d.get(k) is o[k] for k in o),
                           types=[type(d[k]).__name__ for k in d], changed=changed,
                           detail={k: (str(pr[k])[:120], str(fingerprint(d[k]))[:120]) for k in changed}))
    stored_changed = [i for i, (t, pr) in enumerate(zip(tables, table_prints)) if fingerprint(t) != pr]
    return dict(outs=outs, dicts=report, stored_changed=stored_changed, aliased=aliased)


_IMMUTABLE = (type(None), bool, int, float, complex, str, bytes, tuple, frozenset, type)
_BASELINE = {}


def _summary(v, depth=0):
    """a value-level fingerprint of a default argument (content of containers, state of objects)"""
    import torch
    if isinstance(v, _IMMUTABLE) or inspect.isfunction(v) or inspect.isbuiltin(v) or inspect.ismethod(v):
        return "immutable"
    if isinstance(v, dict):
        return ("dict", sorted((str(k), type(x).__name__) for k, x in v.items()))
    if isinstance(v, (list, set)):
        return (type(v).__name__, len(v))
    if torch.is_tensor(v):
        return ("tensor", tuple(v.shape), v.detach().reshape(-1)[:8].tolist())
    if hasattr(v, "as_tensor"):
        try:
            return ("points", tuple(v.as_tensor.shape), v.as_tensor.detach().reshape(-1)[:8].tolist())
        except Exception:  # noqa
            pass
    if depth < 2 and hasattr(v, "__dict__"):
        return (type(v).__name__, sorted((k, str(_summary(x, depth + 1))) for k, x in vars(v).items() if not k.startswith("__")))
    return type(v).__name__


def _default_args():
    """every (class, parameter, default object) of the condition constructors that is not immutable"""
    C = classes()
    out = []
    mod = C["tp"].conditions
    for name in sorted(dir(mod)):
        cls = getattr(mod, name, None)
        if not inspect.isclass(cls):
            continue
        try:
            ps = inspect.signature(cls.__init__).parameters
        except (TypeError, ValueError):
            continue
        for pn, prm in ps.items():
            d = prm.default
            if d is inspect.Parameter.empty or _summary(d) == "immutable":
                continue          # None / numbers / strings / functions: clean by construction
            out.append((name, pn, d))
    return out


def defaults_baseline():
    if not _BASELINE:
        _BASELINE["taken"] = True
        for name, pn, d in _default_args():
            _BASELINE[(name, pn)] = _summary(d)


def defaults_clean():
    """only a MUTABLE default (dict / list / sampler / parameter object) that has acquired content or state since the
    harness started is a violation; `None` and immutable defaults are clean by construction"""
    bad = []
    for name, pn, d in _default_args():
        base = _BASELINE.get((name, pn))
        now = _summary(d)
        if base is not None and now != base:
            bad.append(f"{name}.__init__: the shared default argument `{pn}` changed: {str(base)[:120]} -> {str(now)[:120]}")
        elif isinstance(d, (dict, list, set)) and len(d) > 0 and base is None:
            bad.append(f"{name}.__init__: the shared default argument `{pn}` holds {len(d)} entries")
    return bad


def line_history(case, mode="new"):
    def cond_tok(c, fresh):
        r = c["resid"]
        resid = cc.tok_ufun(dict(params=r["params"], defaults=[(n, [F(v) for v in vs]) for n, vs in r["defaults"]],
                                 body=[pe_from_json(b) for b in r["body"]]))
        err, red = ("id", "mean") if c["cls"] == "mean" else ("sq", "mean")
        return " ".join(["c", str(c["cid"]), str(c["dref"]), tok_space(c["space"]), net_tok(c["net"]), resid,
                         tok_named([(n, [F(v) for v in vs]) for n, vs in c["param"]]), err, red,
                         "1" if c["static"] else "0", tok_table(prow(fresh))])
    ops = []
    for op in case["ops"]:
        if op["op"] == "u":
            ops.append(f"u {op['dict']} {lst(op['content'], entry_tok)}")
            continue
        if op["op"] == "s":
            continue            # moving static data to the device it is on changes nothing in the model
        if op["op"] == "f":
            ops += [f"e {k} {tok_table(prow(op['fresh'][str(k)]))}" for k in op["cids"]]
            continue
        c = case["conds"][op["cid"] - 1]
        ops.append(cond_tok(c, op["fresh"]) if op["op"] == "c" else f"e {op['cid']} {tok_table(prow(op['fresh']))}")
    dicts = lst(case["dicts"], lambda d: lst(d, entry_tok))
    return f"run {mode} {dicts} {lst(ops)}"


def judge_history(rep, case, res, alone, reply):
    rep.count(f"history:conditions={len(case['conds'])}")
    rep.count(f"history:ops={len(case['ops'])}")
    for o in case["ops"]:
        if o["op"] in ("s", "f"):
            rep.count("history:training-start-hook" if o["op"] == "s" else "history:one-step-fit" + ("+validation" if o["val"] else ""))
    shared = {}
    for c in case["conds"]:
        shared.setdefault(c["dref"], []).append(c)
    if any(k != 0 and len(v) >= 2 for k, v in shared.items()):
        rep.count("history:user-dict-shared")
        if any(k != 0 and sum(1 for c in v if c["static"]) >= 2 for k, v in shared.items()):
            rep.count("history:shared-by-two-static")
    if len(shared.get(0, [])) >= 2:
        rep.count("history:default-argument-shared")
    for c in case["conds"]:
        rep.count("history:class=" + c["cls"] + (":static" if c["static"] else ""))
    for i, d in enumerate(case["dicts"][1:], 1):
        kinds = sorted({f["form"] if f.get("form") in ("const", "number", "table", "stored") else "UserFunction" if f.get("wrap") else "plain" for f in d})
        rep.count("history:dict-values=" + ("+".join(kinds) if kinds else "empty"))
        if len(shared.get(i, [])) >= 2 and kinds == ["UserFunction"]:
            rep.count("history:all-UserFunction-dict-shared")
    if any(f.get("same_as") for d in case["dicts"] for f in d):
        rep.count("history:same-function-object-in-two-dicts")
    for c in case["conds"]:
        for k, v in c.get("share", {}).items():
            if v:
                rep.count(f"history:shared-{k}-object")
    c04.count_shapes(rep, [c["resid"] for c in case["conds"]] + [f for d in case["dicts"] for f in d])
    # ---- the property on the implementation: alone vs company, dicts untouched, static repeatable
    for c in case["conds"]:
        cid = c["cid"]
        mine = [o for k, o in res["outs"] if k == cid]
        al = [o for k, o in alone[cid]["outs"]]
        if mine != al:
            rep.fail(f"condition {cid} returns {mine} in company but {al} when only its own operations are run", case,
                     detail=dict(cid=cid, company=mine, alone=al))
        losses = [o for o in mine if isinstance(o, float)]
        if c["static"] and len(set(losses)) > 1:
            rep.fail(f"static condition {cid} returned different losses on repeated evaluation: {losses}", case)
        for o in mine:
            if isinstance(o, str) and o not in ("-", "~"):
                rep.fail(f"condition {cid} raised: {o}", case)
    final = [list(d) for d in case["dicts"]]
    for o in case["ops"]:
        if o["op"] == "u":
            final[o["dict"]] = o["content"]
            rep.count("history:user-changes-own-dict:" + ("filled-after-empty" if not case["dicts"][o["dict"]] else "entries-changed"))
    for cid, what in res.get("aliased", []):
        rep.fail(f"condition {cid} keeps {what} instead of a dict of its own: later changes of that object change the condition", case)
    for i, (d, spec) in enumerate(zip(res["dicts"], final)):
        if d["keys"] != [f["name"] for f in spec] or not d["same_objects"]:
            rep.fail(f"user dict {i} was modified: keys {d['keys']}, holds {d['types']} (the user's own function objects: {d['same_objects']})",
                     case, detail=d)
        elif d.get("changed"):
            rep.fail(f"the user's objects in dict {i} were changed in place (shape / dtype / values / wrapped function): {d['detail']}", case, detail=d)
    if res.get("stored_changed"):
        rep.fail(f"a table of values the user keeps (behind a data-function entry) was changed in place: tables {res['stored_changed']}", case)
    for b in defaults_clean():
        rep.fail(b, case)
    # ---- correspondence
    if reply is None or reply.startswith("bad-op"):
        rep.disagree("history: model rejects", case, res["outs"], reply)
        return
    outs, tags = reply.split(" | ")
    mo = outs.split()
    if len(mo) != len(res["outs"]):
        rep.disagree("history: number of outputs", case, res["outs"], reply)
        return
    for (cid, o), m in zip(res["outs"], mo):
        ok = (o == "~") or (o == "-" and m == "-") or (isinstance(o, float) and not m.startswith("err") and m not in ("-", "none")
                                         and close(o, float(F(m)), 1e-9, 1e-12)) or (isinstance(o, str) and o == m)
        if not ok:
            rep.disagree("history outputs: drivers/C14.lean `run new` vs the real conditions", case, res["outs"], reply)
            return
    want_tags = " ; ".join(" ".join(f"{f['name']}:{entry_tag(f)}" for f in d) for d in final)
    if tags.strip() != want_tags.strip():
        rep.disagree("history: model's user dicts changed", case, want_tags, tags)


# ---- periodic stream (C04 machinery): sides and static repeatability

def judge_periodic(rep, case, res, replies):
    c04.judge_per(rep, case, res, replies)
    if not res["errors"] and case["static"]:
        ls = [l for l in res["losses"] if l is not None]
        if len(set(ls)) > 1:
            rep.fail(f"periodic condition with a static sampler returned different losses on repeated evaluation: {ls}", case)


def judge_deeponet(rep, case, res, alone, replies):
    """several PIDeepONet conditions on ONE DeepONet and ONE function set, all evaluated every iteration"""
    c04.judge_don(rep, case, res, replies)
    if res["errors"]:
        return
    for j in range(len(case["subs"])):
        mine = [st["loss"] for st in res["steps"] if st["j"] == j]
        al = [st["loss"] for st in alone[j]["steps"] if st["j"] == j]
        if mine != al:
            rep.fail(f"DeepONet condition {j} returns {mine} over the iterations in company (shared DeepONet and function set, "
                     f"order of evaluation {case['steps']}) but {al} when it is the only condition", case,
                     detail=dict(condition=j, company=mine, alone=al))


def gen_cases(ctx):
    rng = ctx.rng
    cases = [gen_history(ctx, rng) for _ in range(ctx.scale(260, 2800))]
    for _ in range(ctx.scale(90, 1000)):
        cases.append(gen_shared(ctx, rng))
    for _ in range(ctx.scale(120, 1300)):
        cases.append(gen_factors(ctx, rng))
    for _ in range(ctx.scale(40, 450)):
        while True:
            d = c04.gen_don(ctx, rng)
            if len(d["subs"]) >= 2:
                break
        cases.append(d)
    for i_ in range(ctx.scale(60, 650)):
        if i_ % 4 == 0:
            cases.append(c04.gen_per_single_point(ctx, rng))       # fixed share of the single-point corner
            continue
        p = c04.gen_per(ctx, rng)
        p["calls"] = 2
        if p["bspace"] and rng.random() < 0.3:
            p["static"] = True
        cases.append(p)
    return cases


def key_of(case):
    c = dict(case)
    if c["kind"] == "factors":
        c["ops"] = [(o["op"], o["cid"]) for o in c["ops"]]
        return c
    if c["kind"] in ("history", "shared"):
        c["ops"] = [(o["op"], o.get("cid", o.get("cids", o.get("dict")))) for o in c["ops"]]
        return c
    return c04.key_of(c)


def variants14(case, rng):
    import copy
    if case["kind"] in ("per", "don"):
        return c04.variants(case, rng)
    out = []
    if case["kind"] in ("history", "shared", "factors"):
        # the same history with every condition evaluated twice more at the end
        v = copy.deepcopy(case)
        for c in v["conds"]:
            for _ in range(2):
                if case["kind"] == "factors":
                    v["ops"].append(dict(op="e", cid=c["cid"], seed=rng.randint(0, 10 ** 6)))
                else:
                    v["ops"].append(dict(op="e", cid=c["cid"], fresh=gen_rows(rng, c["n"], dim_of(c["space"]))))
        out.append(v)
        if case["kind"] == "history":
            w = copy.deepcopy(v)
            built = [c["cid"] for c in w["conds"]]
            w["ops"].insert(len(case["ops"]), dict(op="s", cids=built, val=[], fresh={str(k): gen_rows(rng, w["conds"][k - 1]["n"], dim_of(w["conds"][k - 1]["space"])) for k in built}))
            out.append(w)
    return out


def run(ctx, rep, cases=None, _intensify=True):
    rep.rule = ("seeded histories: 1-2 user dicts of data functions (+ the default argument), 2-4 PINN/mean conditions with own "
                "static or non-static samplers and permuted variable orders, interleaved construct/evaluate operations; plus "
                "periodic conditions (static and non-static) evaluated twice; 2-3 PIDeepONet conditions sharing one DeepONet "
                "and one function set over 2-3 iterations in changing order; non-trivial = a user dict (or the default) is "
                "shared by >= 2 conditions; distinct = distinct history structure (point values ignored)")
    cases = cases if cases is not None else gen_cases(ctx)
    defaults_baseline()
    rep.hist["default-arguments-watched"] = len([1 for k in _BASELINE if isinstance(k, tuple)])
    hist = [c for c in cases if c["kind"] == "history"]
    pers = [c for c in cases if c["kind"] == "per"]
    results = [(run_history(c), {k["cid"]: run_history(c, only=k["cid"]) for k in c["conds"]}) for c in hist]
    pres = [c04.run_per(c) for c in pers]
    dons = [c for c in cases if c["kind"] == "don"]
    dres = [(c04.run_don(c), [c04.run_don(c, only=j) for j in range(len(c["subs"]))]) for c in dons]
    plines, owner = [], []
    for i, (c, r) in enumerate(zip(pers, pres)):
        for j, l in enumerate(c04.lines_per(c, r)):
            if l is not None:
                owner.append((i, j))
                plines.append(l)
    for i, (c, (r, _)) in enumerate(zip(dons, dres)):
        for j, l in enumerate(c04.lines_don(c, r)):
            if l is not None:
                owner.append((("don", i), j))
                plines.append(l)
    shs = [c for c in cases if c["kind"] == "shared"]
    sres = []
    for c in shs:
        r = run_shared(c)
        al = {}
        for k in c["conds"]:
            given = [u for (cid, u, _) in r["used"] if cid == k["cid"]]
            al[k["cid"]] = run_shared(c, only=k["cid"], given=given)
        sres.append((r, al))
    facs = [c for c in cases if c["kind"] == "factors"]
    fres = [(run_factors(c), {k["cid"]: run_factors(c, only=k["cid"]) for k in c["conds"]}) for c in facs]
    flines = [line_factors(c, r) for c, (r, _) in zip(facs, fres)]
    try:
        freplies = common.run_driver("C14", [l for l, _ in flines])
        sreplies = common.run_driver("C14", [line_shared(c) for c in shs])
        replies = common.run_driver("C14", [line_history(c) for c in hist])
        preplies = common.run_driver("C14", plines, driver="C04")
    except common.DriverFailure:
        for c, (r, al) in zip(hist, results):
            judge_history(rep, c, r, al, None)
        rep.disagreements.clear()
        raise
    for c, (r, al), m in zip(hist, results, replies):
        shared = {}
        for k in c["conds"]:
            shared[k["dref"]] = shared.get(k["dref"], 0) + 1
        rep.case(key_of(c), max(shared.values()) >= 2,
                 sample=dict(conditions=[dict(cid=k["cid"], dict=k["dref"], static=k["static"], cls=k["cls"]) for k in c["conds"]],
                             ops=[(o["op"], o.get("cid", o.get("cids", o.get("dict")))) for o in c["ops"]], implementation=r["outs"], model=m), kind="history")
        judge_history(rep, c, r, al, m)
    for c, (r, al), m, (_, which) in zip(facs, fres, freplies, flines):
        rep.case(key_of(c), True, sample=dict(bases=[(b["kind"], b["var"], b["n"]) for b in c["bases"]],
                                              conditions=[(k["cls"], k["expr"], k["static"]) for k in c["conds"]],
                                              ops=[(o["op"], o["cid"]) for o in c["ops"]], implementation=r["outs"], lens=r["lens"][-1:], model=m),
                 kind="factors")
        judge_factors(rep, c, r, al, m, which)
    for c, (r, al), m in zip(shs, sres, sreplies):
        rep.case(key_of(c), True, sample=dict(samplers=c["samplers"], conditions=[dict(cid=k["cid"], sampler=k["sid"], dict=k["dref"]) for k in c["conds"]],
                                              ops=[(o["op"], o["cid"]) for o in c["ops"]], implementation=r["outs"], model=m), kind="shared")
        judge_shared(rep, c, r, al, m)
    per_case = {}
    for (i, j), rp in zip(owner, preplies):
        per_case.setdefault(i, {})[j] = rp
    for i, (c, r) in enumerate(zip(pers, pres)):
        rp = [per_case.get(i, {}).get(j) for j in range(c["calls"])]
        rep.case(key_of(c), True, sample=dict(case=key_of(c), losses=r.get("losses")), kind="periodic")
        judge_periodic(rep, c, r, rp)
    # the function-set rule of the Lean model (resample iff the iteration key changes) vs the draws observed
    def keytok(c, k):
        v = (c.get("keys") or list(range(c["calls"])))[k]
        return "none" if v is None else str(v)
    fs_replies = common.run_driver("C14", ["fs " + lst([keytok(c, k) for k, j_ in r.get("ran_steps", []) if j_ != "D"]) for c, (r, _) in zip(dons, dres)])
    for c, (r, _), m in zip(dons, dres, fs_replies):
        got = " ".join(str(st["batch"]) for st in r["steps"] if st["j"] != "D")
        if c.get("fsmode", "one") == "one" and not r["errors"] and got != m.strip():
            rep.disagree("function-set batches: drivers/C14.lean `fs` vs the draws of the shared function set", c, got, m)
    for i, (c, (r, al)) in enumerate(zip(dons, dres)):
        rp = [per_case.get(("don", i), {}).get(j) for j in range(len(c["steps"]))]
        rep.case(key_of(c), True, sample=dict(case=key_of(c), losses=[st["loss"] for st in r["steps"]]), kind="deeponet")
        judge_deeponet(rep, c, r, al, rp)
    if _intensify and rep.disagreements and not rep.failures:
        # a correspondence broke and no oracle objected: intensify the failing-input search on exactly these cases
        seen, todo = set(), []
        for d in rep.disagreements:
            c = d["input"]
            c = c["case"] if isinstance(c, dict) and "case" in c and "kind" not in c else c
            if isinstance(c, dict) and "kind" in c:
                k = common.json.dumps(key_of(c), sort_keys=True, default=str)
                if k not in seen and len(todo) < 8:
                    seen.add(k)
                    todo.append(c)
        vs = [v for c in todo for v in variants14(c, ctx.rng)]
        if vs:
            sub = common.Report(ctx)
            run(ctx, sub, vs, _intensify=False)
            rep.failures += sub.failures
            rep.notes.append(f"correspondence broke on {len(todo)} case(s): oracles re-run on {len(vs)} variants, {len(sub.failures)} failing inputs found")


def replay(ctx, obj):
    rep = common.Report(ctx)
    inp = obj.get("failing_input") or obj.get("first")
    case = inp["input"]
    if "case" in case and "kind" not in case:
        case = case["case"]
    lean = common.lean_check("C14")
    run(ctx, rep, [case])
    return common.finish(ctx, rep, lean)
