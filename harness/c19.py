"""C19 — checkpoints and saved weights restore training exactly.

For every generated set-up (the generators and builders of harness/c07.py) ONE uninterrupted run is made
with `TrainerStateCheckpoint` and `WeightSaveCallback` attached; a copying callback keeps every
checkpoint the library writes.  Then, for EVERY written checkpoint (exhaustive over interruption points):
fresh objects, `trainer.fit(ckpt_path=…)` to step N, learnable state and optimizer state compared
bit-for-bit with the uninterrupted run (property oracle), and — float64/SGD set-ups — with the Lean
model's `resume` (correspondence; the model also predicts the result in the known-finding cases).
The weight files are loaded into freshly built identical models and compared bit-for-bit with the
recorded states; the Lean model predicts which step the minimal-loss file holds."""
import hashlib
import math
import os
import shutil
import tempfile
from fractions import Fraction

import common
import c07
from c07 import build, cond_tensor_ids, first_tensor_diff, opt_tokens, spec_tokens, tensor_snapshot

TOL = c07.TOL


def call_period(c):
    """number of distinct point sets / batches a training condition cycles through (1 = call-invariant)"""
    if c["kind"] in ("pinn", "pinn2", "mean", "ritz", "single", "hpm_sampler", "integro", "periodic") and not c.get("lib_sampler") \
            and not c.get("lib_product"):
        sets = c.get("np_sets") if c["kind"] == "periodic" else c["sets"]
        if not sets:
            return 1
        if c.get("static"):
            return c["static_interval"] * len(sets) if c.get("static_interval") else 1
        return len(sets)
    if c["kind"] == "deeponet_data":
        # DeepONetDataset.__len__: one joint batch index, lcm of the two wrap-around periods
        return math.lcm(c["nf"] // math.gcd(c["nf"], c["bB"]), c["nt"] // math.gcd(c["nt"], c["bT"]))
    if c["kind"] in ("data", "hpm_data") and not c.get("full"):
        return math.ceil(len(c["x"]) / c["bs"])
    return 1


def state_clone(sd):
    return {k: v.detach().clone() for k, v in sd.items()}


def same_state(a, b):
    if a.keys() != b.keys():
        return False
    return all(a[k].shape == b[k].shape and bool(((a[k] == b[k]) | (a[k].isnan() & b[k].isnan())).all()) for k in a)


def ws_target(B, case):
    if case["ws_target"] == "solver":
        return B.solver
    return B.models[0] if case["ws_target"] == "model0" else B.models[-1]


def run_full(case, tmp, B=None, lib_cbs=None, trainer_kw=None, tag=""):
    """one uninterrupted fit with both library callbacks attached.  `lib_cbs` = callback OBJECTS of an earlier fit
    that are used again (None: new ones), `B` = objects of an earlier fit that are trained further"""
    import pytorch_lightning as pl
    B = B or build(case)
    tp, torch = B.tp, B.torch
    target = ws_target(B, case)
    obs = dict(written=[], states={}, start=None, end=None)
    ck = os.path.join(tmp, "state.ckpt")

    class Keep(pl.Callback):
        """keeps a copy of every checkpoint file the library writes (content hash changes)"""
        last = None

        def on_train_batch_end(self, trainer, pl_module, outputs, batch, batch_idx):
            if os.path.exists(ck):
                h = hashlib.sha1(open(ck, "rb").read()).hexdigest()
                if h != self.last:
                    self.last = h
                    k = trainer.global_step
                    shutil.copy(ck, os.path.join(tmp, f"state_{tag}{k}.ckpt"))
                    obs["written"].append((batch_idx, k))

    class Watch(pl.Callback):
        def on_train_start(self, trainer, pl_module):
            obs["start"] = state_clone(target.state_dict())

        def on_train_batch_start(self, trainer, pl_module, batch, batch_idx):
            obs["states"][batch_idx] = state_clone(target.state_dict())

        def on_train_end(self, trainer, pl_module):
            obs["end"] = state_clone(target.state_dict())

    if lib_cbs is None:
        lib_cbs = (tp.utils.TrainerStateCheckpoint(tmp, "state", check_interval=case["ck_interval"],
                                                   **({"weights_only": True} if case.get("ck_weights_only") else {})),
                   tp.utils.WeightSaveCallback(target, tmp, "w", check_interval=case["ws_interval"],
                                               save_initial_model=case["ws_init"], save_final_model=case["ws_final"]))
    obs["lib_cbs"] = lib_cbs
    cbs = [Watch(), lib_cbs[0], Keep(), lib_cbs[1]]
    B, rec = c07.run_impl(case, B=B, extra_callbacks=cbs, trainer_kw=trainer_kw)
    return B, rec, obs


def run_resumed(case, path, B=None, trainer_kw=None):
    return c07.run_impl(case, B=B, ckpt_path=path, trainer_kw=trainer_kw)


def convert(B, mode):
    """replace the parameter tensors of freshly built / already trained objects the way the case says
    (the trainer option precision='64-true' does it inside fit)"""
    if mode == "solver.double":
        B.solver.double()
    elif mode == "models.double":
        for m in B.models:
            m.double()
    return B


def file_hash(path):
    return hashlib.sha1(open(path, "rb").read()).hexdigest() if os.path.exists(path) else None


def gen_cases(ctx):
    rng = ctx.rng
    cases = []

    def dress(case):
        case["ck_interval"] = rng.choice([1, 1, 2, 3, 4])
        case["ws_interval"] = rng.choice([-1, 0, 1, 1, 2, 3])
        case["_ws_regime"] = rng.random()
        case["ck_weights_only"] = rng.random() < 0.12     # weights-only checkpoints: loaded, not resumed
        case["ws_init"] = rng.random() < 0.8
        case["ws_final"] = rng.random() < 0.8
        case["ws_target"] = rng.choice(["solver", "model0", "model_last"])
        case["N"] = max(case["N"], 2) if rng.random() < 0.85 else 1
        if case.get("val_every", 0) > case["N"]:
            case["val_every"] = 0
        r = case.pop("_ws_regime")
        if r < 0.45:      # short trainings relative to the check interval: N < I, N = I, N = I + 1, N << I
            case["ws_interval"] = max(1, case["N"] + rng.choice([-1, 0, 0, 1, 3, 10]))
        case["default_args"] = rng.random() < 0.5        # library default optimizer_args={} where the optimizer allows
        case["interleave"] = rng.random() < 0.3          # an unrelated fit in the same process before the resumes
        return case
    # the Lean witness of `resumeOld_not_exact`, replayed on the real code (fixed corpus case)
    cases.append(dress(dict(channel="rat", models=[dict(kind="poly", init=["1/2"])], params=[],
                            train=[dict(kind="probe", weight="1", model=0, c=["1"])], val=[], N=2, sanity=False, val_every=0,
                            opt=dict(kind="sgd", lr="1/4", momentum="0", dampening="0", wd="0", step_size=0, gamma="1", freq=1))))
    cases[-1].update(ck_interval=1, N=2)
    for _ in range(ctx.scale(5, 60)):
        cases.append(dress(gen_two_stage(rng)))
    for _ in range(ctx.scale(24, 300)):
        cases.append(dress(c07.tame(c07.gen_case_rat(rng))))
    for _ in range(ctx.scale(9, 120)):
        cases.append(dress(c07.tame(c07.probe_case(rng))))
    for _ in range(ctx.scale(13, 160)):
        cases.append(dress(c07.gen_case_torch(rng)))
    return cases


def gen_two_stage(rng):
    """stage 1 in single precision; then the parameter tensors are REPLACED (solver.double(), model.double(),
    Trainer(precision='64-true')) and the same objects are trained on with the SAME callback objects"""
    while True:
        case = c07.gen_case_rat(rng, Nmax=5)
        if all(call_period(c) == 1 for c in case["train"]) and not any(m["kind"] == "seq" for m in case["models"]):
            break
    case["channel"] = "torch"        # built in float32
    case["N"] = max(case["N"], 2)
    o2 = dict(case["opt"], lr=rng.choice(["1/16", "1/64", "1/128"]))
    case["stage2"] = dict(N=rng.randint(2, 5), opt=o2, convert=rng.choice(["solver.double", "models.double", "precision64"]),
                          reuse_solver=rng.random() < 0.5)
    return case


def run_two_stage(rep, case, tmp):
    tp = common.use_repo()
    st2 = case["stage2"]
    rep.count("two-stage"); rep.count("two-stage:convert=" + st2["convert"])
    rep.count("two-stage:" + ("same Solver object" if st2["reuse_solver"] else "new Solver, same conditions"))
    # ---- stage 1
    B, rec1, obs1 = run_full(case, tmp, tag="s1_")
    if "error" in rec1:
        rep.case(dict(case=case, stage=1), False)
        rep.fail(f"stage 1 of a two-stage training raised {rec1['error']}", case)
        return
    judge_files(rep, case, B, rec1, obs1, tmp, [], [], label="two-stage training, fit 1: ", full_case=case)
    # ---- parameter replacement, stage 2 with the same condition / model / callback objects
    kw = dict(precision="64-true") if st2["convert"] == "precision64" else None
    convert(B, st2["convert"])
    sc2 = dict(case, N=st2["N"], opt=st2["opt"], sanity=False, val_every=0)
    cls, args, lr, sched = c07.opt_values(tp, B.torch, st2["opt"])
    if st2["reuse_solver"]:
        B.solver.optimizer_setting.lr = lr
    else:
        B.solver = tp.solver.Solver(B.train, B.val, optimizer_setting=tp.solver.OptimizerSetting(cls, lr, optimizer_args=dict(args), **sched))
    min_before = file_hash(os.path.join(tmp, "w_min_loss.pt"))
    B, rec2, obs2 = run_full(sc2, tmp, B=B, lib_cbs=obs1["lib_cbs"], trainer_kw=kw, tag="s2_")
    if "error" in rec2:
        rep.case(dict(case=case, stage=2), False)
        rep.fail(f"fit 2 of a two-stage training ({st2['convert']}, same callback objects) raised {rec2['error']}", case)
        return
    conv = "solver.double" if st2["convert"] == "precision64" else st2["convert"]
    judge_files(rep, sc2, B, rec2, obs2, tmp, [], [], conv=conv, full_case=case,
                label=f"two-stage training, fit 2 after {st2['convert']} with the callback objects of fit 1: ",
                min_rewritten=file_hash(os.path.join(tmp, "w_min_loss.pt")) != min_before)
    # ---- every checkpoint written in fit 2 is resumed with freshly built, equally converted objects.
    # Not under precision='64-true': there the default dtype is float64 inside the training step, so freshly built static /
    # grid samplers cache float64 points where the objects that lived through fit 1 cached float32 ones — the two runs then
    # differ by rounding of the user's residual arithmetic, which has nothing to do with the checkpoint.
    if st2["convert"] == "precision64":
        rep.count("two-stage:resume-not-compared(precision64)")
        return
    for (b, k) in obs2["written"]:
        FB = convert(build(sc2), st2["convert"])
        if not st2["reuse_solver"]:
            pass                                            # build() already made a Solver with the stage-2 optimizer values
        _, rec3 = run_resumed(sc2, os.path.join(tmp, f"state_s2_{k}.ckpt"), B=FB, trainer_kw=kw)
        rep.case(dict(case=case, stage=2, k=k), k < st2["N"], kind="two-stage",
                 sample=dict(case=c07.describe(case), stage2=st2, interrupt_at=k))
        if "error" in rec3:
            rep.fail(f"two-stage training, fit 2: resuming the step-{k} checkpoint raised {rec3['error']}", dict(case, interrupt_at=k))
            continue
        d = first_tensor_diff([rec2["tens_final"]], [rec3["tens_final"]])
        if d is not None:
            rep.fail(f"two-stage training, fit 2 ({st2['convert']}): checkpoint written after step {k}, resumed with freshly built objects and "
                     f"trained on to step {st2['N']}: learnable tensor {d[1]}: uninterrupted {d[2]}, resumed {d[3]}", dict(case, interrupt_at=k))


def resume_request(case, k):
    B = build(case)
    return " ".join(["resume", "0", str(case["N"]), str(k), "1" if case.get("sanity") else "0", str(case.get("val_every", 0))]
                    + opt_tokens(case) + spec_tokens(case, B))


def files_request(case):
    B = build(case)
    return " ".join(["files", str(case["N"]), str(max(case["ws_interval"], 0))] + opt_tokens(case) + spec_tokens(case, B))


def parse_resume(reply):
    parts = [p.strip() for p in reply.split(" | ")]
    res = [Fraction(t) for t in parts[0].split()]
    i = parts.index([p for p in parts if p.startswith("full")][0])
    full = [Fraction(t) for t in parts[i].split()[1:]]
    info = dict(lr=Fraction(parts[1].split()[1]), full_lr=Fraction(parts[i + 1].split()[1]),
                bufs=parts[2].split()[1:], full_bufs=parts[i + 2].split()[1:],
                reg=[int(t) for t in parts[-1].split()[1:]])
    return res, full, info


def run(ctx, rep, cases=None):
    rep.rule = ("set-ups as for C07 (1-4 training conditions of all kinds, SGD/momentum/Adam, StepLR, inverse-problem parameters, "
                "validation), N<=8, check intervals 1-4; every checkpoint the library writes is resumed (exhaustive over "
                "interruption points); a case is one (set-up, interruption step) pair or one weight-file check; non-trivial if "
                "k<N and the learnable state still moves after step k")
    cases = cases if cases is not None else gen_cases(ctx)
    tmp_root = tempfile.mkdtemp(prefix="c19_")
    lines, todo = [], []
    try:
        for ci, case in enumerate(cases):
            tmp = os.path.join(tmp_root, str(ci)); os.makedirs(tmp)
            if "stage2" in case:
                case["ck_weights_only"] = False
                run_two_stage(rep, case, tmp)
                continue
            B, rec, obs = run_full(case, tmp)
            N = case["N"]
            rep.count("channel:" + case["channel"]); rep.count("opt:" + case["opt"]["kind"])
            rep.count(f"ck_interval={case['ck_interval']}"); rep.count(f"ws_interval={case['ws_interval']}")
            rep.count("ws_target:" + case["ws_target"])
            J_, N_ = case["ws_interval"], case["N"]
            rep.count("ws-regime:" + ("no-checks(interval<=0)" if J_ <= 0 else "N=1" if N_ == 1 else "N<interval" if N_ < J_ else
                                      "N=interval" if N_ == J_ else "N=interval+1" if N_ == J_ + 1 else "N>interval+1"))
            for c in case["train"]:
                if c.get("model") is not None and case["models"][c["model"]]["kind"] in ("poly2", "fcn2"):
                    declared = case["models"][c["model"]].get("order", "xt")
                    rep.count("two-variable-model:" + ("points-reordered" if declared != c.get("order", "xt") else "declared-order"))
            if "error" in rec:
                rep.case(dict(case=case), False)
                rep.fail(f"trainer.fit with TrainerStateCheckpoint/WeightSaveCallback raised {rec['error']}", case)
                continue
            # ---- which steps are written: model `ckptWritten` (exact)
            want = [(b, b + 1) for b in range(N) if b % case["ck_interval"] == 0]
            if obs["written"] != want:
                rep.disagree("checkpoint schedule: model `ckptWritten` (batch_idx % interval == 0) vs files actually written",
                             case, obs["written"], want)
            periods = [call_period(c) for c in case["train"]]
            if case.get("interleave"):
                # several fits / resumes in one process: an unrelated solver with default optimizer_args and another
                # learning rate is trained between the interrupted run and its resumption
                other = dict(channel="rat", models=[dict(kind="poly", init=["1/4", "1/2"])], params=[], val=[], N=2, sanity=False, val_every=0,
                             train=[dict(kind="pinn", weight="1", model=0, res="lin", sets=[["1/2", "-1/4"]], static=False, c=["1/4", "1/2", "0"])],
                             opt=dict(kind="sgd", lr="1/512", momentum="0", dampening="0", wd="0", step_size=1, gamma="1/2", freq=1), default_args=True)
                c07.run_impl(other)
                rep.count("interleaved-fit")
            if case.get("ck_weights_only"):
                rep.count("ck:weights_only")
                for (b, k) in obs["written"]:
                    FB = build(case)
                    ckpt = B.torch.load(os.path.join(tmp, f"state_{k}.ckpt"), weights_only=False)
                    rep.case(dict(case=case, k=k, weights_only=True), True, kind="weights-only")
                    try:
                        FB.solver.load_state_dict(ckpt["state_dict"])
                    except Exception as e:
                        rep.fail(f"weights-only checkpoint of step {k} does not load into a freshly built Solver: {type(e).__name__}: {str(e)[:160]}", dict(case, interrupt_at=k))
                        continue
                    d = first_tensor_diff([rec["tens"][k]], [tensor_snapshot(FB)])
                    if d is not None:
                        rep.fail(f"weights-only checkpoint written after step {k} does not hold the learnable state of that step: {d[1]}: "
                                 f"run {d[2]}, file {d[3]}", dict(case, interrupt_at=k))
                judge_files(rep, case, B, rec, obs, tmp, lines, todo)
                continue
            for (b, k) in obs["written"]:
                B2, rec2 = run_resumed(case, os.path.join(tmp, f"state_{k}.ckpt"))
                sub = dict(case, interrupt_at=k)
                moves = k < N and any(not bool((a[1] == z[1]).all()) for a, z in zip(rec["tens"][k], rec["tens"][N]))
                rep.case(dict(case=case, k=k), moves,
                         sample=dict(case=c07.describe(case), interrupt_at=k, N=N,
                                     resumed_equals_uninterrupted="error" not in rec2 and first_tensor_diff([rec["tens_final"]], [rec2["tens_final"]]) is None),
                         kind=case["channel"])
                rep.count("k<N" if k < N else "k=N")
                if "error" in rec2:
                    rep.fail(f"resuming the step-{k} checkpoint raised {rec2['error']}", sub)
                    continue
                bad = []
                d = first_tensor_diff([rec["tens_final"]], [rec2["tens_final"]])
                if d is not None:
                    bad.append(f"learnable tensor {d[1]}: uninterrupted {d[2]}, resumed {d[3]}")
                else:
                    for name, so in rec["opt"].items():
                        ro = rec2["opt"].get(name, {})
                        for key, v in so.items():
                            w = ro.get(key)
                            ok = w is not None and (bool(((v == w) | (v.isnan() & w.isnan())).all()) if B.torch.is_tensor(v) else v == w)
                            if not ok:
                                bad.append(f"optimizer state '{key}' of {name}: uninterrupted {v}, resumed {w}")
                    if [float(x) for x in rec["lr"]] != [float(x) for x in rec2["lr"]]:
                        bad.append(f"learning rate: uninterrupted {rec['lr']}, resumed {rec2['lr']}")
                if bad:
                    finding = None
                    if any(p > 1 and k % p != 0 for p in periods):
                        finding = "condition_position_not_checkpointed"
                        rep.count("finding:position")
                    rep.fail(f"checkpoint written after step {k}, resumed with freshly built objects and trained on to step {N}: " + bad[0],
                             sub, detail=bad[:4], finding=finding)
                if case["channel"] == "rat":
                    lines.append(resume_request(case, k)); todo.append(("resume", case, k, rec, rec2, B2))
            # ---- resume with the SAME Solver / condition / callback objects (theorem resume_same_objects): interrupt a
            # second, identically built set-up at a written step K, then fit the same objects on to N from the checkpoint.
            # Sampler / iterator positions live on in the objects, so this must be exact for EVERY condition kind.
            ks = [k for (b, k) in obs["written"] if k < N]
            if ks:
                K = case["same_K"] if case.get("same_K") in ks else ctx.rng.choice(ks)
                case["same_K"] = K          # part of the reported input, so that a replay interrupts at the same step
                tmp2 = os.path.join(tmp, "same"); os.makedirs(tmp2)
                BK, recK, obsK = run_full(dict(case, N=K, val_every=case.get("val_every", 0) if case.get("val_every", 0) <= K else 0), tmp2)
                sub = dict(case, interrupt_at=K, same_objects=True)
                rep.case(dict(case=case, k=K, same_objects=True), True, kind="same-objects",
                         sample=dict(case=c07.describe(case), interrupt_at=K, N=N, same_objects=True))
                rep.count("resume:same-objects")
                if "error" in recK:
                    rep.fail(f"fit to step {K} raised {recK['error']}", sub)
                else:
                    if "same_cbs" not in case:
                        case["same_cbs"] = ctx.rng.random() < 0.5      # the library callbacks of the interrupted fit attached again
                    extra = [obsK["lib_cbs"][0], obsK["lib_cbs"][1]] if case["same_cbs"] else []
                    _, recS = c07.run_impl(case, B=BK, ckpt_path=os.path.join(tmp2, "state.ckpt"), extra_callbacks=extra)
                    if "error" in recS:
                        rep.fail(f"resuming the step-{K} checkpoint with the same Solver object raised {recS['error']}", sub)
                    else:
                        bad = []
                        d = first_tensor_diff([rec["tens_final"]], [recS["tens_final"]])
                        if d is not None:
                            bad.append(f"learnable tensor {d[1]}: uninterrupted {d[2]}, resumed {d[3]}")
                        elif [float(x) for x in rec["lr"]] != [float(x) for x in recS["lr"]]:
                            bad.append(f"learning rate: uninterrupted {rec['lr']}, resumed {recS['lr']}")
                        else:
                            for name, so in rec["opt"].items():
                                for key, v in so.items():
                                    w = recS["opt"].get(name, {}).get(key)
                                    ok = w is not None and (bool(((v == w) | (v.isnan() & w.isnan())).all()) if B.torch.is_tensor(v) else v == w)
                                    if not ok:
                                        bad.append(f"optimizer state '{key}' of {name}: uninterrupted {v}, resumed {w}")
                        if bad:
                            rep.fail(f"trained to step {K} (checkpoint written), then the SAME Solver, condition and model objects fitted on to step {N} "
                                     f"from that checkpoint: " + bad[0], sub, detail=bad[:4])
            # ---- weight files
            judge_files(rep, case, B, rec, obs, tmp, lines, todo)
        failure = None
        try:
            replies = common.run_driver("C19", lines, driver="C07")
        except common.DriverFailure as e:
            replies, failure = [None] * len(lines), e
        for reply, item in zip(replies, todo):
            if reply is None:
                continue
            if item[0] == "resume":
                _, case, k, rec, rec2, B2 = item
                if "error" in rec2:
                    continue
                if reply.startswith(("err", "bad")):
                    rep.disagree("drivers/C07.lean `resume` rejected a set-up the implementation trains", dict(case, interrupt_at=k), "ok", reply)
                    continue
                res, full, info = parse_resume(reply)
                reg = info["reg"]
                scale = max([1.0] + [abs(float(v)) for v in res + full])
                if scale > c07.BLOWUP:
                    rep.count("diverging(not compared)")
                    continue
                for i, v, vf in zip(reg, res, full):
                    got, gotf = rec2["traj_final"][i], rec["traj_final"][i]
                    if not abs(got - float(v)) <= TOL * scale:
                        rep.disagree("Lean `resume` (exact) vs trainer.fit(ckpt_path=…) (float64)", dict(case, interrupt_at=k),
                                     dict(tensor=B2.names[i], value=got), dict(value=float(v)))
                        break
                    if not abs(gotf - float(vf)) <= TOL * scale:
                        rep.disagree("Lean `solverRun` (exact) vs uninterrupted trainer.fit (float64)", dict(case, interrupt_at=k),
                                     dict(tensor=B2.names[i], value=gotf), dict(value=float(vf)))
                        break
            else:
                judge_min_model(rep, reply, *item[1:])
        if failure is not None:
            raise failure
    finally:
        shutil.rmtree(tmp_root, ignore_errors=True)


def judge_files(rep, case, B, rec, obs, tmp, lines, todo, conv=None, label="", min_rewritten=True, full_case=None):
    """conv: conversion applied to the freshly built objects before loading (second stage of a two-stage case);
    full_case: what is reported as failing input"""
    torch = B.torch
    rcase = full_case or case
    N = case["N"]
    J = case["ws_interval"]
    paths = {k: os.path.join(tmp, f"w_{k}.pt") for k in ("init", "min_loss", "final")}
    present = {k: os.path.exists(p) for k, p in paths.items()}
    rep.case(dict(case=case, files=True), N >= 2 and J > 0, kind="files",
             sample=dict(case=c07.describe(case), ws_interval=J, files=present))
    if present["init"] != case["ws_init"] or present["final"] != case["ws_final"]:
        rep.disagree("which weight files exist: model `wsRun` vs files written", case, present,
                     dict(init=case["ws_init"], final=case["ws_final"]))
    loaded = {}
    for k, p in paths.items():
        if not present[k]:
            continue
        if k == "min_loss" and not min_rewritten:
            continue
        FB = build(case)
        if conv:
            convert(FB, conv)
        fresh = ws_target(FB, case)
        try:
            raw = torch.load(p)
            fresh.load_state_dict(raw)
        except Exception as e:
            rep.fail(f"{label}the {k} weight file does not load into a freshly built identical model: {type(e).__name__}: {str(e)[:200]}", rcase)
            continue
        loaded[k] = state_clone(fresh.state_dict())
        want = obs["end"] if k != "init" else obs["start"]
        bad = [kk for kk in raw if kk in want and raw[kk].dtype != want[kk].dtype]
        if bad:
            rep.fail(f"{label}the {k} weight file stores {bad[0]} as {raw[bad[0]].dtype}, the model it was written from holds {want[bad[0]].dtype}", rcase)
    if "init" in loaded and not same_state(loaded["init"], obs["start"]):
        rep.fail(label + "the initial weight file does not reproduce the model before training", rcase,
                 detail=dict(file={k: v.tolist() for k, v in loaded["init"].items()}, before={k: v.tolist() for k, v in obs["start"].items()}))
    if "final" in loaded and not same_state(loaded["final"], obs["end"]):
        rep.fail(label + "the final weight file does not reproduce the model after training", rcase,
                 detail=dict(file={k: v.tolist() for k, v in loaded["final"].items()}, after={k: v.tolist() for k, v in obs["end"].items()}))
    checked = [b for b in range(1, N) if J > 0 and (b - 1) % J == 0]
    held = None
    if "min_loss" in loaded:
        # PROPERTY oracle, independent of the model's batch schedule: the callback can only have compared a loss at the
        # start of an iteration b >= 1 (a loss has been logged then); the file must hold the weights recorded at the
        # start of such an iteration — not the model after the last step, which no check ever saw — and, among the
        # iterations of its own phase (b' = b mod check_interval: "every check_interval iterations"), one with the
        # smallest loss seen.
        starts = {b: st for b, st in obs["states"].items() if b >= 1}
        held = [b for b in sorted(starts) if same_state(loaded["min_loss"], starts[b])]
        lg = rec["logged"]
        if not held:
            after = same_state(loaded["min_loss"], obs["end"])
            rep.fail(label + f"the minimal-loss weight file (check_interval {J}, {N} steps) holds the weights of none of the iterations at whose "
                     f"start a loss can have been compared (iteration starts 1..{N - 1})"
                     + ("; it holds the model AFTER the last step, a state the callback never checked" if after else ""), rcase,
                     detail=dict(file={k: v.tolist() for k, v in loaded["min_loss"].items()}, N=N, check_interval=J))
        elif J > 0 and all(x is not None and x == x for x in lg):
            def minimal(b):
                return all(lg[b - 1] <= lg[b2 - 1] for b2 in starts if b2 % J == b % J and 0 < b2 <= len(lg))
            if not any(minimal(b) for b in held if 0 < b <= len(lg)):
                b = held[0]
                rep.fail(label + f"the minimal-loss weight file holds the weights of iteration start {held}, where the loss seen was {lg[b - 1]!r}; at "
                         f"another check of the same phase a smaller loss was seen (losses by iteration start: "
                         f"{ {b2: lg[b2 - 1] for b2 in sorted(starts) if b2 % J == b % J and 0 < b2 <= len(lg)} })", rcase)
        if held and not [b for b in held if b in checked]:
            rep.disagree("minimal-loss file: model checks batches with (b-1) % interval == 0", case, held, checked)
    if case["channel"] == "rat" and not conv and not label:
        lines.append(files_request(case)); todo.append(("files", case, rec, present, held, checked))


def judge_min_model(rep, reply, case, rec, present, held, checked):
    if reply.startswith(("err", "bad")):
        rep.disagree("drivers/C07.lean `files` rejected a set-up the implementation trains", case, "ok", reply)
        return
    parts = dict((p.split(" ", 1) + [""])[:2] for p in reply.split(" | "))
    m = parts["min"].strip()
    mb = None if m == "none" else int(m.split(":")[0])
    rep.count("minfile:" + ("none" if mb is None else "written"))
    if (mb is not None) != present["min_loss"]:
        rep.disagree("minimal-loss file exists: model `wsRun` vs implementation", case, present["min_loss"], mb)
        return
    if mb is None:
        return
    if mb not in (held or []):
        # float32 logged losses can order two nearly equal losses differently from the exact run
        lg = rec["logged"]
        near = held and any(abs(lg[mb - 1] - lg[b - 1]) <= 1e-6 * max(1.0, abs(lg[mb - 1])) for b in held if 0 < b <= len(lg))
        if near:
            rep.count("minfile:near-tie(skipped)")
        else:
            rep.disagree("which step the minimal-loss file holds: model `wsRun` vs implementation", case, held, mb)


def search_only(ctx, rep):
    pass


def replay(ctx, obj):
    rep = common.Report(ctx)
    inp = obj.get("failing_input") or obj.get("first")
    case = dict(inp["input"])
    case.pop("interrupt_at", None); case.pop("same_objects", None)
    lean = common.lean_check("C19")
    run(ctx, rep, [case])
    return common.finish(ctx, rep, lean)
