"""Shared by harness/c04.py and harness/c14.py: polynomial programs (PE) in three semantics
(line-protocol tokens for the Lean driver, exact Fractions for the Python oracles, torch for the
implementation run), probe models / samplers built from the repo's own base classes, recording."""
from fractions import Fraction

import common
from common import q, lst

# ------------------------------------------------------------------------------------------------
# PE trees: ('c', Fraction) | ('v', name, comp) | ('+', a, b) | ('-', a, b) | ('*', a, b) | ('n', a)


def dy(rng, lo=-8, hi=8, den=4):
    """dyadic rational m/den"""
    return Fraction(rng.randint(lo, hi), den)


def gen_pe(rng, svars, deg=2, terms=3):
    """random polynomial of total degree <= deg over the scalar variables `svars` [(name, comp)]:
    a sum of monomials with dyadic coefficients (never the zero polynomial syntactically)"""
    def mono():
        e = ('c', dy(rng, -6, 6, 2) or Fraction(1))
        k = rng.randint(0, deg) if svars else 0
        for _ in range(k):
            n, i = rng.choice(svars)
            e = ('*', e, ('v', n, i))
        return e
    e = mono()
    for _ in range(rng.randint(0, terms - 1)):
        op = rng.choice('+-')
        e = (op, e, mono())
    if rng.random() < 0.1:
        e = ('n', e)
    return e


def pe_tok(e):
    t = e[0]
    if t == 'c':
        return f"c {q(e[1])}"
    if t == 'v':
        return f"v {e[1]} {e[2]}"
    if t == 'n':
        return f"n {pe_tok(e[1])}"
    return f"{t} {pe_tok(e[1])} {pe_tok(e[2])}"


def pe_vars(e):
    t = e[0]
    if t == 'c':
        return set()
    if t == 'v':
        return {(e[1], e[2])}
    if t == 'n':
        return pe_vars(e[1])
    return pe_vars(e[1]) | pe_vars(e[2])


def pe_frac(e, env):
    """exact evaluation; env: name -> list of Fractions"""
    t = e[0]
    if t == 'c':
        return e[1]
    if t == 'v':
        return env[e[1]][e[2]]
    if t == 'n':
        return -pe_frac(e[1], env)
    a, b = pe_frac(e[1], env), pe_frac(e[2], env)
    return a + b if t == '+' else a - b if t == '-' else a * b


def pe_torch(e, env, like):
    """vectorised evaluation; env: name -> tensor (..., d); `like` gives dtype/shape for constants"""
    t = e[0]
    if t == 'c':
        return like * 0 + float(e[1])
    if t == 'v':
        return env[e[1]][..., e[2]]
    if t == 'n':
        return -pe_torch(e[1], env, like)
    a, b = pe_torch(e[1], env, like), pe_torch(e[2], env, like)
    return a + b if t == '+' else a - b if t == '-' else a * b


def pe_D(e, x, j):
    """symbolic partial derivative w.r.t. x[j] (the oracle's own implementation)"""
    t = e[0]
    if t == 'c':
        return ('c', Fraction(0))
    if t == 'v':
        return ('c', Fraction(1 if (e[1], e[2]) == (x, j) else 0))
    if t == 'n':
        return ('n', pe_D(e[1], x, j))
    if t in '+-':
        return (t, pe_D(e[1], x, j), pe_D(e[2], x, j))
    return ('+', ('*', pe_D(e[1], x, j), e[2]), ('*', e[1], pe_D(e[2], x, j)))


def pe_subst(e, name, consts):
    """replace name[i] by the constant consts[i]"""
    t = e[0]
    if t == 'c':
        return e
    if t == 'v':
        return ('c', consts[e[2]]) if e[1] == name else e
    if t == 'n':
        return ('n', pe_subst(e[1], name, consts))
    return (t, pe_subst(e[1], name, consts), pe_subst(e[2], name, consts))


def pe_sum(es):
    out = es[0]
    for e in es[1:]:
        out = ('+', out, e)
    return out


def pe_from_json(e):
    if e[0] == 'c':
        return ('c', Fraction(e[1]))
    if e[0] == 'v':
        return ('v', e[1], int(e[2]))
    return tuple([e[0]] + [pe_from_json(a) for a in e[1:]])


def pe_to_json(e):
    if e[0] == 'c':
        return ['c', str(e[1])]
    if e[0] == 'v':
        return ['v', e[1], e[2]]
    return [e[0]] + [pe_to_json(a) for a in e[1:]]


def scalar_vars(space):
    """space: list of [name, dim]"""
    return [(n, i) for n, d in space for i in range(d)]


def dim_of(space):
    return sum(d for _, d in space)


# ------------------------------------------------------------------------------------------------
# token helpers

def tok_space(space):
    return lst(space, lambda p: f"{p[0]} {p[1]}")


def tok_vec(v):
    return lst(v, q)


def tok_table(rows):
    return lst(rows, tok_vec)


def tok_named(d):
    """d: list of (name, [Fractions])"""
    return lst(d, lambda p: f"{p[0]} {tok_vec(p[1])}")


def tok_ufun(f):
    """f: dict(params=[names], defaults=[(name, [Fraction])], body=[PE])"""
    return f"{lst(f['params'])} {tok_named(f.get('defaults', []))} {lst(f['body'], pe_tok)}"


def tok_net(net):
    return f"{tok_space(net['in'])} {tok_space(net['out'])} {lst(net['body'], pe_tok)}"


def der_name(o, i, i2=None):
    return f"d.{o}.{i}" if i2 is None else f"dd.{o}.{i}.{i2}"


# ------------------------------------------------------------------------------------------------
# torch side: probe model, samplers, recording  (created lazily: they subclass the repo's classes)

_CLS = {}


def classes():
    if _CLS:
        return _CLS
    tp = common.use_repo()
    import torch

    class PolyModel(tp.models.Model):
        """a torchphysics Model whose outputs are polynomial programs of the NAMED inputs"""

        def __init__(self, in_space, out_space, body):
            super().__init__(mk_space(in_space), mk_space(out_space))
            self.in_l, self.out_l, self.body = in_space, out_space, body
            self.unused_weight = torch.nn.Parameter(torch.zeros(1))   # so that an optimizer can be built for a fit
            self.seen = []            # what the model was evaluated on (space, rows), one record per call

        def forward(self, points):
            self.seen.append(points_record(points))
            points = self._fix_points_order(points)
            t = points.as_tensor
            env, k = {}, 0
            for n, d in self.in_l:
                env[n] = t[..., k:k + d]
                k += d
            like = t[..., 0]
            out = torch.stack([pe_torch(e, env, like) for e in self.body], dim=-1)
            return tp.spaces.Points(out, self.output_space)

    class ListSampler(tp.samplers.PointSampler):
        """emits prepared float64 point sets, one per call (cycling): stands for any non-static sampler"""

        def __init__(self, space, sets):
            super().__init__(n_points=len(sets[0]))
            self.space_l, self.sets, self.k = space, sets, 0

        def sample_points(self, params=None, device="cpu", **kw):
            rows = self.sets[self.k % len(self.sets)]
            self.k += 1
            return tp.spaces.Points(torch.tensor([[float(v) for v in r] for r in rows], dtype=torch.float64).reshape(len(rows), dim_of(self.space_l)),
                                    mk_space(self.space_l))

    class PolyTrunk(tp.models.TrunkNet):
        """trunk net of a DeepONet with polynomial features of the NAMED trunk inputs"""

        def __init__(self, in_space, feats):
            super().__init__(mk_space(in_space))
            self.in_l, self.feats = in_space, feats

        def forward(self, points):
            points = self._fix_points_order(points)
            t = points.as_tensor
            env, k = {}, 0
            for n, d in self.in_l:
                env[n] = t[..., k:k + d]
                k += d
            out = torch.stack([pe_torch(e, env, t[..., 0]) for e in self.feats], dim=-1)
            return self._reshape_multidimensional_output(out)

    class LinBranch(tp.models.BranchNet):
        """branch net of a DeepONet: a fixed linear map of the discretised input function"""

        def __init__(self, function_space, disc_sampler, W):
            super().__init__(function_space, disc_sampler)
            self.W = torch.tensor([[float(v) for v in r] for r in W], dtype=torch.float64)

        def forward(self, discrete_function_batch, device="cpu"):
            t = discrete_function_batch.as_tensor.reshape(-1, self.input_dim).to(torch.float64)
            self.current_out = self._reshape_multidimensional_output(t @ self.W)

    _CLS.update(PolyModel=PolyModel, ListSampler=ListSampler, PolyTrunk=PolyTrunk, LinBranch=LinBranch, tp=tp, torch=torch)
    return _CLS


def training_start(train, val=(), fit=False):
    """what happens to conditions when a training is started: a Solver holding them runs its start-up hook
    (`Solver.on_train_start` → every condition's `_move_static_data(device)`), optionally followed by a real
    one-step `trainer.fit` (learning rate 0: nothing is learned; train conditions are evaluated once in the
    training step, val conditions once in the validation pass)"""
    C = classes()
    tp, torch = C["tp"], C["torch"]
    import logging
    import pytorch_lightning as pl
    logging.getLogger("pytorch_lightning").setLevel(logging.ERROR)
    logging.getLogger("lightning.pytorch").setLevel(logging.ERROR)
    solver = tp.solver.Solver(list(train), list(val), optimizer_setting=tp.solver.OptimizerSetting(torch.optim.SGD, lr=0.0))
    def mk_trainer():
        return pl.Trainer(accelerator="cpu", max_steps=1, logger=False, enable_checkpointing=False, enable_progress_bar=False,
                          enable_model_summary=False, num_sanity_val_steps=0)
    if fit:
        mk_trainer().fit(solver)
    else:
        # the hook only needs a trainer to be attached (device, global_step = 0): one idle trainer serves all
        if "idle_trainer" not in C:
            C["idle_trainer"] = mk_trainer()
        solver.trainer = C["idle_trainer"]
        solver.on_train_start()


def mk_space(space):
    tp = common.use_repo()
    s = None
    for n, d in space:
        one = {1: tp.spaces.R1, 2: tp.spaces.R2, 3: tp.spaces.R3}[d](n)
        s = one if s is None else s * one
    return s if s is not None else tp.spaces.Space({})


class Recorder:
    """records what `sampler.sample_points` returns (instance-level wrapper: the sampler object and its
    class stay what they are, `isinstance(sampler, StaticSampler)` is unaffected)"""

    def __init__(self, sampler):
        self.calls = []
        orig = sampler.sample_points

        def wrapped(*a, **k):
            pts = orig(*a, **k)
            self.calls.append(points_record(pts))
            return pts
        sampler.sample_points = wrapped


def points_record(pts):
    """(space as [[name, dim]], rows as exact Fractions) of a Points object (any batch shape, flattened)"""
    space = [[n, int(pts.space[n])] for n in pts.space]
    t = pts.as_tensor.detach()
    d = t.shape[-1]
    flat = t.reshape(-1, d) if d > 0 else t.reshape(0, 0)
    return dict(space=space, rows=[[Fraction(float(v)) for v in r] for r in flat.tolist()], shape=list(t.shape))


def tensor_rows(t):
    """tensor (..., d) or python number -> list of rows of Fractions"""
    import torch
    if not torch.is_tensor(t):
        return [[Fraction(float(t))]]
    t = t.detach()
    if t.dim() == 0:
        return [[Fraction(float(t))]]
    if t.dim() == 1:
        t = t.reshape(-1, 1)
    return [[Fraction(float(v)) for v in r] for r in t.reshape(-1, t.shape[-1]).tolist()]


def mk_user_fn(name, params, defaults, impl, form="def", kwonly=0):
    """a Python callable with the NAMED signature `params` (defaults at the tail) calling impl(dict).
    form: 'def' plain function | 'lambda' | 'method' bound method | 'object' instance with __call__;
    kwonly = number of trailing parameters declared keyword-only (`def f(a, *, b, c)`; only without defaults)"""
    dn = [n for n, _ in defaults]
    items = [p if p not in dn else f"{p}=_d_{p}" for p in params]
    if kwonly and not defaults and 0 < kwonly < len(items):
        items.insert(len(items) - kwonly, "*")
    sig = ", ".join(items)
    call = ", ".join(f"{p}={p}" for p in params)
    ns = {"_impl": impl}
    for n, v in defaults:
        ns[f"_d_{n}"] = v
    if form == "lambda":
        exec(f"{name} = lambda {sig}: _impl(dict({call}))\n", ns)
        return ns[name]
    if form in ("method", "object"):
        meth = "__call__" if form == "object" else name
        exec(f"class _Holder:\n    def {meth}(self, {sig}):\n        return _impl(dict({call}))\n", ns)
        h = ns["_Holder"]()
        return h if form == "object" else getattr(h, name)
    exec(f"def {name}({sig}):\n    return _impl(dict({call}))\n", ns)
    return ns[name]


def close(a, b, rel, abs_=0.0):
    return abs(a - b) <= abs_ + rel * max(abs(a), abs(b))


def rows_close(A, B, rel, abs_=0.0):
    """A, B lists of rows of numbers"""
    if len(A) != len(B):
        return False
    for ra, rb in zip(A, B):
        if len(ra) != len(rb):
            return False
        for x, y in zip(ra, rb):
            if not close(float(x), float(y), rel, abs_):
                return False
    return True
