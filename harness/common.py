"""Shared machinery of the /verif checks: Lean build + axiom audit, driver I/O, evidence,
replays, known findings.  Run with /venv/bin/python; the implementation under test is imported from
$VERIF_REPO/src (default /repo/src), i.e. the current working tree."""
import fractions
import hashlib
import json
import os
import random
import re
import subprocess
import sys
import time

VERIF = os.path.dirname(os.path.dirname(os.path.abspath(__file__)))
LEAN = os.path.join(VERIF, "lean")
REPO = os.environ.get("VERIF_REPO", "/repo")
ALLOWED_AXIOMS = {"propext", "Classical.choice", "Quot.sound"}
FORBIDDEN = re.compile(r"\bsorry\b|\badmit\b|^axiom |native_decide|bv_decide|implemented_by|\bunsafe |maxHeartbeats 0")


class HarnessTrouble(Exception):
    """something is wrong with the machinery itself (exit 2, never a violation)"""


def use_repo():
    """make `import torchphysics` resolve to the working tree under test"""
    src = os.path.join(REPO, "src")
    if sys.path[0] != src:
        sys.path.insert(0, src)
    import warnings
    warnings.filterwarnings("ignore")
    import torchphysics  # noqa
    if not os.path.abspath(torchphysics.__file__).startswith(os.path.abspath(src)):
        raise HarnessTrouble(f"torchphysics imported from {torchphysics.__file__}, expected {src}")
    return torchphysics


class Ctx:
    def __init__(self, prop, tier, seed):
        self.prop, self.tier, self.seed = prop, tier, seed
        self.rng = random.Random(f"{prop}:{seed}")
        self.t0 = time.time()
        self.quick = tier == "quick"

    def scale(self, quick, thorough):
        return quick if self.quick else thorough


# ----------------------------------------------------------------------------------------------
# Lean side

def _run(cmd, cwd=LEAN, input=None, timeout=3600):
    return subprocess.run(cmd, cwd=cwd, input=input, capture_output=True, text=True, timeout=timeout)


def load_obligations(prop):
    with open(os.path.join(LEAN, "obligations", f"{prop}.json")) as f:
        return json.load(f)


def strip_comments(src):
    # nested block comments
    out, i, depth = [], 0, 0
    while i < len(src):
        if src.startswith("/-", i):
            depth += 1; i += 2
        elif depth and src.startswith("-/", i):
            depth -= 1; i += 2
        elif depth:
            if src[i] == "\n":
                out.append("\n")
            i += 1
        else:
            out.append(src[i]); i += 1
    return re.sub(r"--.*", "", "".join(out))


def lean_files_of(ob):
    files = []
    for m in ob["modules"] + ob.get("support_modules", []):
        files.append(os.path.join(LEAN, m.replace(".", "/") + ".lean"))
    return files


def lean_check(prop, leanchecker=False):
    """build the modules of `prop`, audit the axioms of every listed theorem.
    returns dict(ok, obligations, discharged, axioms, problems)"""
    ob = load_obligations(prop)
    problems = []
    targets = ob["modules"]
    r = _run(["lake", "build"] + targets)
    if r.returncode != 0:
        tail = (r.stdout + r.stderr)[-3000:]
        return dict(ok=False, obligations=len(ob["theorems"]), discharged=0, axioms=[],
                    problems=[f"lake build failed for {targets}: {tail}"], broken="lake build " + " ".join(targets))
    # forbidden tokens outside comments
    for f in lean_files_of(ob):
        src = strip_comments(open(f).read())
        for ln, line in enumerate(src.split("\n"), 1):
            if FORBIDDEN.search(line):
                problems.append(f"forbidden token in {os.path.relpath(f, LEAN)}:{ln}: {line.strip()[:80]}")
    # every theorem declared in the Props modules must be listed (nothing dropped silently)
    declared = set()
    for m in ob["modules"]:
        src = strip_comments(open(os.path.join(LEAN, m.replace(".", "/") + ".lean")).read())
        declared |= set(re.findall(r"^\s*(?:private\s+)?theorem\s+([^\s:({\[]+)", src, re.M))
    listed_short = {t.split(".")[-1] for t in ob["theorems"]}
    aux = set(ob.get("aux_lemmas", []))
    for d in sorted(declared - listed_short - aux):
        problems.append(f"theorem {d} is declared in Props but neither listed as an obligation nor as aux lemma")
    # axiom audit
    audit = "\n".join(f"import {m}" for m in ob["modules"]) + "\n" + "\n".join(
        f"#print axioms {t}" for t in ob["theorems"]) + "\n"
    path = os.path.join(LEAN, ".lake", f"audit_{prop}.lean")
    os.makedirs(os.path.dirname(path), exist_ok=True)
    with open(path, "w") as f:
        f.write(audit)
    r = _run(["lake", "env", "lean", path])
    out = r.stdout + r.stderr
    axioms_used, discharged = set(), 0
    text = out.replace("\n  ", " ").replace("\n ", " ")
    for t in ob["theorems"]:
        m = re.search(r"'" + re.escape(t) + r"' (does not depend on any axioms|depends on axioms: \[([^\]]*)\])", text)
        if not m:
            problems.append(f"theorem {t} not found by the audit")
            continue
        axs = set(a.strip() for a in (m.group(2) or "").split(",") if a.strip())
        axioms_used |= axs
        if axs - ALLOWED_AXIOMS:
            problems.append(f"theorem {t} depends on non-standard axioms {sorted(axs - ALLOWED_AXIOMS)}")
        else:
            discharged += 1
    if r.returncode != 0 and not problems:
        problems.append("audit file failed: " + out[-1500:])
    if leanchecker and not problems:
        r = _run(["lake", "env", "leanchecker"] + ob["modules"], timeout=7200)
        if r.returncode != 0:
            problems.append("leanchecker rejected: " + (r.stdout + r.stderr)[-1500:])
    res = dict(ok=not problems, obligations=len(ob["theorems"]), discharged=discharged,
               axioms=sorted(axioms_used), problems=problems,
               unproved_statements=ob.get("unproved_statements", []))
    if problems:
        res["broken"] = problems[0]
    return res


def run_driver(prop, lines, timeout=1800, driver=None):
    """pipe request lines through the Lean driver, one reply per request"""
    if not lines:
        return []
    drv = os.path.join("drivers", (driver or prop) + ".lean")
    data = "\n".join(lines) + "\n"
    r = _run(["lake", "env", "lean", "--run", drv], input=data, timeout=timeout)
    if r.returncode != 0:
        raise DriverFailure(f"driver {drv} failed: {(r.stdout + r.stderr)[-2000:]}")
    out = r.stdout.split("\n")
    if out and out[-1] == "":
        out.pop()
    if len(out) != len(lines):
        raise DriverFailure(f"driver {drv}: {len(lines)} requests, {len(out)} replies; tail: {out[-3:]}")
    return out


class DriverFailure(Exception):
    pass


# ----------------------------------------------------------------------------------------------
# number transport

def q(x):
    """exact rational token for an int / Fraction / float (every float is a dyadic rational)"""
    if isinstance(x, bool):
        return "1" if x else "0"
    if isinstance(x, int):
        return str(x)
    fr = fractions.Fraction(x)
    return str(fr.numerator) if fr.denominator == 1 else f"{fr.numerator}/{fr.denominator}"


def unq(tok):
    return fractions.Fraction(tok)


def fbits(x):
    import struct
    return str(struct.unpack("<Q", struct.pack("<d", float(x)))[0])


def unfbits(tok):
    import struct
    return struct.unpack("<d", struct.pack("<Q", int(tok)))[0]


def lst(items, f=str):
    items = list(items)
    return " ".join([str(len(items))] + [f(i) for i in items])


# ----------------------------------------------------------------------------------------------
# findings / replays / evidence

def load_findings(prop):
    out = []
    paths = [os.path.join(VERIF, "known_findings.json")]
    d = os.path.join(VERIF, "known_findings.d")
    if os.path.isdir(d):
        paths += [os.path.join(d, fn) for fn in sorted(os.listdir(d)) if fn.endswith(".json")]
    for path in paths:
        if not os.path.exists(path):
            continue
        with open(path) as f:
            data = json.load(f)
        out += [e for e in data.get("findings", []) if e["property"] == prop and e.get("status") == "open"]
    return out


def write_replay(prop, obj):
    d = os.path.join(VERIF, "replays", prop)
    os.makedirs(d, exist_ok=True)
    blob = json.dumps(obj, sort_keys=True, default=str, indent=1)
    name = hashlib.sha1(blob.encode()).hexdigest()[:12] + ".json"
    path = os.path.join(d, name)
    with open(path, "w") as f:
        f.write(blob)
    return os.path.relpath(path, VERIF)


class Report:
    """collects what a run covered; decides the exit status"""

    def __init__(self, ctx):
        self.ctx = ctx
        self.evaluations = 0
        self.keys = set()
        self.samples = []
        self.hist = {}
        self.disagreements = []   # correspondence differences (dict)
        self.failures = []        # property failures with a concrete input (dict)
        self.known_hits = {}      # finding key -> example
        self.traces_validated = 0
        self.notes = []
        self.rule = ""
        self._per_kind = {}

    def case(self, key, nontrivial=True, sample=None, kind=""):
        """one explored case; `kind` groups samples (at most 2 written out per kind, preferring non-trivial ones)"""
        self.evaluations += 1
        if nontrivial:
            self.keys.add(key if isinstance(key, str) else json.dumps(key, sort_keys=True, default=str))
        if sample is not None:
            k = self._per_kind.setdefault(kind, [])
            if len(k) < 2 and nontrivial and len(self.samples) < 12:
                k.append(1)
                self.samples.append(sample)

    def count(self, name, k=1):
        self.hist[name] = self.hist.get(name, 0) + k

    def disagree(self, what, case, impl, model):
        self.disagreements.append(dict(correspondence=what, input=case, implementation=impl, model=model))

    def fail(self, what, case, detail=None, finding=None):
        """a concrete input on which the property itself fails on the implementation.
        finding = key of a known finding this failure is an instance of (or None)"""
        if finding is not None:
            self.known_hits.setdefault(finding, dict(what=what, input=case, detail=detail))
        else:
            self.failures.append(dict(property_failure=what, input=case, detail=detail))


def finish(ctx, rep, lean, level_note_axioms=True):
    """write evidence, print KNOWN-FINDING / VIOLATION lines, return exit code"""
    prop = ctx.prop
    findings = {e["key"]: e for e in load_findings(prop)}
    exit_code = 0
    lines = []
    violations = 0
    # known findings: only those listed in the committed file are excused
    for key, ex in list(rep.known_hits.items()):
        if key in findings:
            lines.append(f"KNOWN-FINDING: property={prop} {findings[key]['what']}")
        else:
            rep.failures.append(dict(property_failure=ex["what"], input=ex["input"], detail=ex["detail"],
                                     note=f"classified as '{key}' but not listed in known_findings.json"))
    replay_base = dict(property=prop, tier=ctx.tier, seed=ctx.seed,
                       replay_cmd=f"./check {prop} --replay <this file>")
    if rep.failures:
        violations = len(rep.failures)
        obj = dict(replay_base, kind="failing-input", failing_input=rep.failures[0],
                   further_failures=rep.failures[1:6], disagreements=rep.disagreements[:3])
        path = write_replay(prop, obj)
        lines.append(f"VIOLATION property={prop} replay={path}")
        exit_code = 1
    elif not lean["ok"]:
        violations = 1
        obj = dict(replay_base, kind="proof-obligation-broken", theorem_or_build=lean.get("broken"),
                   problems=lean["problems"][:10],
                   note="the failing-input search on the implementation found no input that violates the property")
        path = write_replay(prop, obj)
        lines.append(f"VIOLATION property={prop} replay={path} no-failing-input-found")
        exit_code = 1
    elif rep.disagreements:
        violations = len(rep.disagreements)
        obj = dict(replay_base, kind="correspondence-broken", correspondence=rep.disagreements[0]["correspondence"],
                   first=rep.disagreements[0], further=rep.disagreements[1:6],
                   note="model and implementation differ; the property oracles found no input on which the property itself fails")
        path = write_replay(prop, obj)
        lines.append(f"VIOLATION property={prop} replay={path} no-failing-input-found")
        exit_code = 1
    ev = dict(
        property_id=prop, tier=ctx.tier, seed=ctx.seed, level="proof",
        coverage=dict(
            obligations=lean["obligations"], discharged=lean["discharged"],
            checker_cmd=f"cd lean && lake build {' '.join(load_obligations(prop)['modules'])} && lake env lean .lake/audit_{prop}.lean  (#print axioms per theorem)"
                        + ("; lake env leanchecker" if ctx.tier == "thorough" else ""),
            trusted_base=["Lean 4.33 kernel", "Mathlib v4.33 (compiled)", "axioms used: " + ", ".join(lean["axioms"] or ["none"]),
                          "hand-written model tied to the code by the correspondence harness (harness/" + prop.lower() + ".py, drivers/" + prop + ".lean)"],
            evaluations=rep.evaluations, distinct_nontrivial=len(rep.keys), rule=rep.rule,
            samples=rep.samples or ["(no correspondence cases in this run)"],
            traces_validated_against_impl=rep.traces_validated or rep.evaluations,
            disagreements_checked=len(rep.disagreements),
            input_distribution=rep.hist,
            unproved_statements=lean.get("unproved_statements", []),
            lean_problems=lean["problems"][:5],
            known_findings_reproduced=sorted(k for k in rep.known_hits if k in findings),
            known_findings_not_reproduced=sorted(k for k in findings if k not in rep.known_hits),
            notes=rep.notes,
        ),
        assumptions=load_obligations(prop).get("assumptions", []),
        wall_s=round(time.time() - ctx.t0, 2),
        violations=violations,
    )
    if os.path.abspath(REPO) != "/repo":
        # a run against a scratch tree (mutation testing): evidence/ only ever describes /repo itself
        with open(os.path.join("/tmp", f"evidence_{prop}_{os.path.basename(os.path.abspath(REPO))}.json"), "w") as f:
            json.dump(ev, f, indent=1, default=str)
    elif not getattr(ctx, "is_replay", False):     # a replay explores one input: it must not replace the run's evidence
        os.makedirs(os.path.join(VERIF, "evidence"), exist_ok=True)
        with open(os.path.join(VERIF, "evidence", f"{prop}.json"), "w") as f:
            json.dump(ev, f, indent=1, default=str)
    for l in lines:
        print(l)
    print(f"[{prop}] tier={ctx.tier} seed={ctx.seed} obligations={lean['obligations']} discharged={lean['discharged']} "
          f"cases={rep.evaluations} distinct={len(rep.keys)} disagreements={len(rep.disagreements)} "
          f"failures={len(rep.failures)} known={sorted(rep.known_hits)} wall={ev['wall_s']}s exit={exit_code}")
    return exit_code


class CallTimeout(Exception):
    pass


def call_with_timeout(seconds, fn, *a, **k):
    """run fn(*a, **k) in the main thread; raise CallTimeout if it does not return within `seconds`
    (used for library calls that may loop forever, e.g. rejection sampling)"""
    import signal

    def handler(signum, frame):
        raise CallTimeout(f"call did not return within {seconds}s")
    old = signal.signal(signal.SIGALRM, handler)
    signal.setitimer(signal.ITIMER_REAL, seconds)
    try:
        return fn(*a, **k)
    finally:
        signal.setitimer(signal.ITIMER_REAL, 0)
        signal.signal(signal.SIGALRM, old)
