"""C13 — user functions receive their arguments by name.

Correspondence: seeded histories of  wrap / re-wrap / call / partially_evaluate / set_default /
remove_default / deepcopy  over generated signatures are executed on the real `UserFunction` /
`DomainUserFunction` (probe functions record what they receive) and on the Lean model
(lean/TPV/Model/UserFun.lean via lean/drivers/C13.lean).  After every operation the reply of the
operation and a digest of every wrapper and every user-supplied dict are compared exactly.

Property oracles (independent of the model, run on every operation of every history):
  wrap      a freshly wrapped function requires exactly the parameters Python says have no default and
            carries exactly the declared defaults
  call      the function is invoked once with exactly its declared parameters, each bound to the value
            stored under that name (else the wrapper's default for it); a missing required name raises
            before the function is invoked; the function's value is returned
  partial   all required bound -> function value (same bindings as the call); otherwise a NEW wrapper
            that, given the remaining names, receives what one full evaluation receives
  frames    call / partially_evaluate / wrap / re-wrap / deepcopy leave every pre-existing wrapper, user
            dict, mapping / Points passed in, the user's function and the constructor's own default
            arguments unchanged
  copy      set_default on a deep copy / on a partial-evaluation result does not reach its source
"""
import copy
import itertools
import json
import re

import common

NAMES = ["x", "y", "z", "t", "u", "v", "D", "k", "a", "b", "args", "key", "fun", "inp", "params", "out"]
CONST0 = 1000.5


# ------------------------------------------------------------------------------------------------
# values: opaque identifiers, transported as ints (mapping of plain objects), tensors or Points columns

# Tensor values are identified by CONTENT (dtype, shape, bytes): a value the harness created is registered
# under its identifier, any other tensor that shows up (a stale copy, a converted or narrowed value ...) gets
# a fresh identifier >= 100000.  "bound to the value stored under that name" therefore means: same dtype,
# same shape, bit-identical entries.
REG = {}
NEXT = [100000]
DESC = {}


def tkey(t):
    a = t.detach().cpu().contiguous()
    return (str(a.dtype), tuple(a.shape), a.numpy().tobytes())


def register(t, i):
    REG[tkey(t)] = int(i)
    return t


# degenerate values have reserved identifiers (the model treats them like any other value): falsy objects that a
# truth test, an `or`, a `is not None` filter or `len()` would treat differently from ordinary values
SPECIAL = {-1: "None", -3: "False", -4: "''", -5: "tensor with zero rows"}


def mkval(i, mode):
    if i == -1:
        return None
    if i == -3:
        return False
    if i == -4:
        return ""
    import torch
    if i == -5:
        return register(torch.zeros(0, 1), -5)
    if mode == "int":
        return int(i)        # 0 is the falsy number
    return register(torch.full((1, 1), float(i)), i)


def vid(v):
    """identifier of a value (None if it is neither an int nor a tensor)"""
    try:
        import torch
        if isinstance(v, torch.Tensor):
            k = tkey(v)
            if k not in REG:
                REG[k] = NEXT[0]
                NEXT[0] += 1
            i = REG[k]
            if i >= 100000:
                DESC[i] = f"{str(v.dtype).replace('torch.', '')}{list(v.shape)}[{v.flatten()[0].item()!r}..]" if v.numel() else "empty"
            return i
        if v is None:
            return -1
        if v is False:
            return -3
        if isinstance(v, str) and v == "":
            return -4
        if isinstance(v, bool) or not isinstance(v, int):
            return None
        return int(v)
    except Exception:
        return None


def desc(i):
    """readable form of an identifier in failure messages"""
    if i in SPECIAL:
        return f"{i}<{SPECIAL[i]}>"
    return f"{i}<{DESC[i]}>" if i in DESC else str(i)


def showval(v):
    i = vid(v)
    return str(i) if i is not None else f"<{type(v).__name__}>"


def stored_slices(points, dims):
    """what a Points object stores under every name NOW, cut out of the raw tensor by hand from the declared
    dimensions (independent of Points.coordinates)"""
    t = points.as_tensor
    out, start = {}, 0
    for name, dim in dims:
        out[name] = t[..., start:start + dim]
        start += dim
    return out


def showdict(d):
    return "{" + ",".join(f"{k}={showval(d[k])}" for k in sorted(d)) + "}"


class State:
    """the implementation side of one history"""

    def __init__(self, case):
        self.tp = common.use_repo()
        from torchphysics.utils import user_fun
        self.mod = user_fun
        self.cls = getattr(user_fun, case["cls"])
        self.mode = case["mode"]
        self.ws, self.ud = [], []
        self.sig = {}        # fn -> (names, dflts) as declared in the probe's `def` (ground truth)
        self.probe = {}      # fn -> function object
        self.hits = []       # (fn, bindings, token) per invocation of a probe
        self.origin = {}     # wrapper index -> ("wf"|"we"|"wc"|"rw"|"pe"|"dc", source index or None)
        self.tok = itertools.count(5000)
        self.pe_info = {}    # wrapper index -> what a partial evaluation bound (sigma) over the source's defaults then
        self.carriers = []   # Points objects that live through the history: dict(obj=Points, dims=[(name, dim)])
        self.consts = {}     # fn -> the constant object as created
        self.constkey = {}   # content key of a tensor constant -> fn
        REG.clear(); DESC.clear(); NEXT[0] = 100000

    # -- probes ------------------------------------------------------------------------------
    def _hit(self, fn, kw):
        t = next(self.tok)
        if self.mode == "int":
            token = ("token", t)
        else:
            import torch
            # a third of the user functions answer with a plain list (DomainUserFunction turns it into a tensor)
            token = [float(t)] if t % 3 == 0 else torch.full((1,), float(t))
        self.hits.append((fn, kw, token))
        return token

    def make_probe(self, fn, names, dflts, how="def", inner=None):
        """how: "def" plain function | "method" bound method | "object" instance with __call__ | "lambda" |
        "closure" (function made by a factory, no __wrapped__) | "wraps-same" / "wraps-diff" (decorated with
        functools.wraps; the decorated function has the same / another signature `inner`) | "partial"
        (functools.partial that binds a leading positional parameter).
        The declared parameters are always those of the callable that is handed in and invoked."""
        import functools
        n, m = len(names), len(dflts)
        dvals = [mkval(v, self.mode) for v in dflts]
        params = [names[i] if i < n - m else f"{names[i]}=_D[{i - (n - m)}]" for i in range(n)]
        body = ", ".join(f"{p}={p}" for p in names)
        env = {"_D": dvals, "_hit": self._hit}
        kwnames, kwd = [], {}
        if how == "kwonly":
            kwnames, kwd = list(inner[0]), dict((a, b) for a, b in inner[1])
            env["_K"] = {k: mkval(v, self.mode) for k, v in kwd.items()}
            params = params + ["*"] + [f"{k}=_K['{k}']" if k in kwd else k for k in kwnames]
            body = ", ".join(f"{p}={p}" for p in list(names) + kwnames)
        if how in ("def", "closure", "kwonly"):
            src = f"def probe_{fn}({', '.join(params)}):\n    return _hit({fn}, dict({body}))\n"
            if how == "closure":
                src = f"def _make():\n    _fn = {fn}\n" + "".join("    " + l + "\n" for l in src.replace(f"_hit({fn},", "_hit(_fn,").splitlines()) \
                      + f"    return probe_{fn}\nprobe_{fn} = _make()\n"
            exec(src, env)
            f = plain = env[f"probe_{fn}"]
        elif how == "lambda":
            f = plain = eval(f"lambda {', '.join(params)}: _hit({fn}, dict({body}))", env)
            f.__name__ = f"probe_{fn}"
        elif how in ("wraps-same", "wraps-diff"):
            inames, idef = (names, m) if how == "wraps-same" or inner is None else inner
            iparams = [inames[i] if i < len(inames) - idef else f"{inames[i]}=None" for i in range(len(inames))]
            src = (f"def probe_{fn}({', '.join(iparams)}):\n    return None\n"
                   f"def outer_{fn}({', '.join(params)}):\n    return _hit({fn}, dict({body}))\n")
            exec(src, env)
            plain = env[f"outer_{fn}"]
            f = functools.wraps(env[f"probe_{fn}"])(plain)       # __name__ = probe_<fn>, __wrapped__ = inner
        elif how == "partial":
            src = f"def probe_{fn}({', '.join(['_bound'] + params)}):\n    return _hit({fn}, dict({body}))\n"
            exec(src, env)
            plain = env[f"probe_{fn}"]
            f = functools.partial(plain, 0)
        else:
            meth = f"probe_{fn}" if how == "method" else "__call__"
            src = (f"class Holder_{fn}:\n    __name__ = 'probe_{fn}'\n"
                   f"    def {meth}({', '.join(['self'] + params)}):\n        return _hit({fn}, dict({body}))\n")
            exec(src, env)
            holder = env[f"Holder_{fn}"]()
            plain = getattr(type(holder), meth)
            f = getattr(holder, meth) if how == "method" else holder
        self.sig[fn] = (list(names) + kwnames, list(dflts), kwnames, kwd)
        self.probe[fn] = plain
        return f

    def make_const(self, fn, kind="float"):
        import torch
        if kind == "t32":
            c = torch.tensor([[CONST0 + fn, CONST0 + fn]])
        elif kind == "t64":
            c = torch.tensor([[CONST0 + fn + 1.0 / 3.0]], dtype=torch.float64)     # not representable in float32
        elif kind == "list":
            c = [CONST0 + fn, CONST0 + fn]
        else:
            c = CONST0 + fn
        self.consts[fn] = c
        if kind in ("t32", "t64"):
            self.constkey[tkey(c)] = fn
        return c

    def fnid(self, x):
        try:
            if callable(x):
                name = x.__name__ if hasattr(x, "__name__") else x.func.__name__      # functools.partial
                return int(name.split("_")[1])
            import torch
            if isinstance(x, torch.Tensor) and tkey(x) in self.constkey:
                return self.constkey[tkey(x)]
            val = float(x.flatten()[0]) if isinstance(x, torch.Tensor) else float(x[0] if isinstance(x, list) else x)
            r = val - CONST0
            return int(r) if r.is_integer() else f"<{val}>"
        except Exception:
            return f"<{type(x).__name__}>"

    # -- canonical text ------------------------------------------------------------------------
    def show_wrapper(self, i, w):
        try:
            params = list(w.args)
            own = {k: v for k, v in w.defaults.items() if k in params}    # defaults of declared names (others are never used)
            return (f"W{i}={self.fnid(w.fun)}:{'c' if callable(w.fun) else 'k'}:[{','.join(params)}]:"
                    f"{showdict(own)}:[{','.join(w.necessary_args)}]:[{','.join(w.optional_args)}]")
        except Exception as e:
            return f"W{i}=broken<{type(e).__name__}>"

    def digest(self):
        return "|".join([self.show_wrapper(i, w) for i, w in enumerate(self.ws)]
                        + [f"U{j}={showdict(d)}" for j, d in enumerate(self.ud)])

    # -- snapshots for the frame oracle -----------------------------------------------------------
    def snapshot(self, extra_env=None):
        snap = {}
        for i, w in enumerate(self.ws):
            try:
                snap[f"wrapper {i}"] = (id(w.fun) if callable(w.fun) else self.fnid(w.fun), list(w.args),
                                        [(k, showval(v)) for k, v in w.defaults.items()], sorted(w.__dict__))
            except Exception as e:
                snap[f"wrapper {i}"] = f"broken<{type(e).__name__}>"
        for j, d in enumerate(self.ud):
            snap[f"user dict {j}"] = [(k, showval(v)) for k, v in d.items()]
        for fn, f in self.probe.items():
            snap[f"user function {fn}"] = (tuple(showval(v) for v in (f.__defaults__ or ())), repr(f.__kwdefaults__),
                                           id(f.__code__), sorted(f.__dict__))
        for c in (self.mod.UserFunction, self.mod.DomainUserFunction):
            for meth in ("__init__", "__call__"):
                snap[f"default arguments of {c.__name__}.{meth}"] = repr(getattr(c, meth).__defaults__)
        if extra_env is not None:
            snap["mapping passed in"] = env_snapshot(extra_env)
        return snap


def env_snapshot(env):
    import collections
    import collections.abc
    if isinstance(env, collections.ChainMap):
        return ("ChainMap", [[(k, showval(v), id(v)) for k, v in m.items()] for m in env.maps])
    if isinstance(env, collections.abc.Mapping):
        return (type(env).__name__, [(k, showval(v), id(v)) for k, v in env.items()])
    return (list(env.space.keys()), str(env.as_tensor.dtype), env.as_tensor.tolist())   # Points


MAP_KINDS = ["odict", "proxy", "chain", "defaultdict", "missing", "getter", "omitted"]


def build_mapping(st, pairs, kind, fb):
    """the KIND of mapping handed to a call.  fb = identifier of what m[k] answers for an absent key"""
    import collections
    import types
    plain = {name: mkval(v, st.mode) for name, v in pairs}
    if kind == "odict":
        return collections.OrderedDict(plain)
    if kind == "proxy":
        return types.MappingProxyType(plain)
    if kind == "chain":
        items = list(plain.items())
        return collections.ChainMap(dict(items[::2]), dict(items[1::2]))
    fallback = mkval(fb, st.mode) if fb else (0 if st.mode == "int" else register(__import__("torch").zeros(1, 1), 0))
    if kind == "defaultdict":
        return collections.defaultdict((lambda: fallback), plain)

    class Lenient(dict):            # a parameter table that answers unknown names itself, without storing them
        def __missing__(self, key):
            return fallback

    class Getter(dict):             # overridden observers that agree with dict (get has a fallback, [] has none)
        def __contains__(self, key):
            return dict.__contains__(self, key)

        def get(self, key, default=None):
            return dict.get(self, key, fallback)

    if kind == "missing":
        return Lenient(plain)
    if kind == "getter":
        return Getter(plain)
    raise common.HarnessTrouble(f"unknown mapping kind {kind}")


def build_env(st, pairs, as_points):
    if as_points and pairs:
        import torch
        tp = st.tp
        dims = {name: 1 + (i % 2) for i, (name, _) in enumerate(pairs)}
        cols = []
        for name, v in pairs:
            cols += [float(v)] * dims[name]
        pts = tp.spaces.Points(torch.tensor([cols]), tp.spaces.Space(dims))
        for (name, v), t in zip(pairs, stored_slices(pts, list(dims.items())).values()):
            register(t, v)
        return pts, list(dims.items())
    return {name: mkval(v, st.mode) for name, v in pairs}, None


# ------------------------------------------------------------------------------------------------
# executing one history on the implementation (optionally generating it on the way)

def execute(case, gen=None):
    """returns (impl_lines, problems).  problems = property failures found by the oracles"""
    st = State(case)
    lines, problems = [], []
    ops = case["ops"]
    base = st.snapshot()
    pristine = {k: v for k, v in base.items() if k.startswith("default arguments")}
    i = 0
    while True:
        if gen is not None:
            op = gen.next_op(st, i)
            if op is None:
                break
            ops.append(op)
        elif i >= len(ops):
            break
        op = ops[i]
        out = run_op(st, op, i, problems)
        if out is not None:          # `np` / `pt` act on the user's own Points objects only: no model counterpart
            lines.append(out + " # " + st.digest())
        i += 1
    # the constructor's own default containers (shared by every later construction in the process)
    after = st.snapshot()
    for k, v in pristine.items():
        if after.get(k) != v:
            problems.append(f"{k} changed from {v} to {after.get(k)}: every wrapper constructed afterwards "
                            f"(in the whole process) starts from the polluted object")
            for c in (st.mod.UserFunction, st.mod.DomainUserFunction):   # keep later histories independent
                for d in (c.__init__.__defaults__ or ()):
                    if isinstance(d, dict):
                        d.clear()
    return lines, problems


def declared(st, w):
    """ground truth about the wrapped function: its parameters in order, or None for constants"""
    if not callable(w.fun):
        return None
    fn = st.fnid(w.fun)
    return st.sig.get(fn, (None, None))[0]


def expected_bindings(st, w, env, defaults_before):
    """the property, evaluated directly: returns ("reject", name) or ("bind", {param: value-id})"""
    P = declared(st, w)
    out = {}
    for p in P:
        if p in env:
            out[p] = vid(env[p])
        elif p in defaults_before:
            out[p] = vid(defaults_before[p])
        else:
            return ("reject", p)
    return ("bind", out)


def run_op(st, op, idx, problems):
    kind = op[0]
    mutator = kind in ("sd", "rd")
    before = st.snapshot()
    hits0 = len(st.hits)
    out = None
    env_obj = None
    where = f"op {idx} {json.dumps(op)}"
    try:
        if kind == "np":
            import torch
            _, dims, dtype, data = op
            width = sum(b for _, b in dims)
            pts = st.tp.spaces.Points(torch.tensor(data, dtype=getattr(torch, dtype)).reshape(len(data), width),
                                      st.tp.spaces.Space(dict((a, b) for a, b in dims)))
            dl = [(a, b) for a, b in dims]
            st.carriers.append(dict(obj=pts, dims=dl, aliased=False,
                                    shadow={n: t.clone() for n, t in stored_slices(pts, dl).items()}))
            return None
        if kind == "pt":
            carrier_transform(st, op)
            return None
        if kind == "nd":
            st.ud.append({k: mkval(v, st.mode) for k, v in op[1]})
            out = f"U{len(st.ud) - 1}"
            before[f"user dict {len(st.ud) - 1}"] = [(k, showval(v)) for k, v in st.ud[-1].items()]
        elif kind == "wf":
            _, fn, names, dflts = op[:4]
            f = st.make_probe(fn, names, dflts, op[4] if len(op) > 4 else "def", op[5] if len(op) > 5 else None)
            before[f"user function {fn}"] = st.snapshot()[f"user function {fn}"]
            w = st.cls(f)
            st.ws.append(w); st.origin[len(st.ws) - 1] = ("wf", None)
            out = f"w{len(st.ws) - 1}"
            if hasattr(f, "__name__") and w.__name__() != f.__name__:
                problems.append(f"{where}: wrapper.__name__() is {w.__name__()!r}, the function is called {f.__name__!r}")
            # oracle: required names / declared defaults of a freshly wrapped function
            n, m = len(names), len(dflts)
            want_req, want_def = names[:n - m], {names[n - m + j]: dflts[j] for j in range(m)}
            want_opt = names[n - m:]
            if len(op) > 5 and op[4] == "kwonly":
                kwnames, kwd = op[5][0], dict((a, b) for a, b in op[5][1])
                want_req = want_req + [k for k in kwnames if k not in kwd]
                want_opt = want_opt + [k for k in kwnames if k in kwd]
                want_def.update(kwd)
            try:
                got_req, got_opt = list(w.necessary_args), list(w.optional_args)
                got_def = {k: vid(v) for k, v in w.defaults.items()}
            except Exception as e:
                got_req = got_opt = got_def = f"<{type(e).__name__}: {e}>"
            if got_req != want_req or got_def != want_def or got_opt != want_opt:
                problems.append(f"{where}: def probe(...) with required {want_req} and defaults {want_def} wrapped: "
                                f"necessary_args={got_req} optional_args={got_opt} defaults={got_def}; "
                                f"Python declares required={want_req} defaults={want_def}")
        elif kind == "wc":
            w = st.cls(st.make_const(op[1], op[2] if len(op) > 2 else "float"))
            st.ws.append(w); st.origin[len(st.ws) - 1] = ("wc", None)
            out = f"w{len(st.ws) - 1}"
        elif kind == "we":
            _, fn, names, j = op
            f = st.make_probe(fn, names, [])
            before[f"user function {fn}"] = st.snapshot()[f"user function {fn}"]
            w = st.cls(f, args=list(names)) if j < 0 else st.cls(f, defaults=st.ud[j], args=list(names))
            st.ws.append(w); st.origin[len(st.ws) - 1] = ("we", None)
            out = f"w{len(st.ws) - 1}"
        elif kind == "rw":
            src = st.ws[op[1]]
            if len(op) > 2 and op[2] == "copy":
                w = copy.copy(src)
            elif len(op) > 2 and op[2] == "cross":       # a UserFunction re-wrapped as DomainUserFunction and vice versa
                w = (st.mod.UserFunction if isinstance(src, st.mod.DomainUserFunction) else st.mod.DomainUserFunction)(src)
            else:
                w = st.cls(src)
            st.ws.append(w); st.origin[len(st.ws) - 1] = ("rw", op[1])
            if op[1] in st.pe_info:
                st.pe_info[len(st.ws) - 1] = st.pe_info[op[1]]
            out = f"w{len(st.ws) - 1}"
        elif kind == "dc":
            src = st.ws[op[1]]
            w = copy.deepcopy(src)
            st.ws.append(w); st.origin[len(st.ws) - 1] = ("dc", op[1])
            if op[1] in st.pe_info:
                st.pe_info[len(st.ws) - 1] = st.pe_info[op[1]]
            out = f"w{len(st.ws) - 1}"
            if w is src or getattr(w, "defaults", None) is src.defaults:
                problems.append(f"{where}: deepcopy returned an object that shares state with its source")
        elif kind in ("ca", "pe"):
            w = st.ws[op[1]]
            pairs = op[2]
            as_points = kind == "ca" and len(op) > 3 and op[3] == "points"
            if kind == "ca" and len(op) > 4 and op[3] == "carrier":
                # a Points object with a history: what it stores NOW is cut out by hand; the identifiers of
                # these values are what the model is told the environment contains
                car = st.carriers[op[4]]
                env_obj = car["obj"]
                # ground truth = the shadow: what the object stores under every name according to its derivation
                # history (creation, conversions, assignments, selections, joins ...), kept by the harness by name
                env_map = dict(car["shadow"])
                op[2] = pairs = [[name, vid(t)] for name, t in env_map.items()]
                raw = stored_slices(env_obj, car["dims"])
                if [(n, vid(t)) for n, t in raw.items()] != [(n, vid(t)) for n, t in env_map.items()]:
                    derived_note = " [the raw tensor of this Points object does not hold, in the order of its space, what its history says]"
                else:
                    derived_note = ""
                where = where + derived_note
            elif kind == "ca" and len(op) > 4 and op[3] == "map":
                if op[4] == "omitted":
                    env_obj = {}
                elif op[4] == "emptypoints":
                    env_obj = st.tp.spaces.Points.empty()
                else:
                    env_obj = build_mapping(st, pairs, op[4], op[5] if len(op) > 5 else 0)
                env_map = {} if op[4] == "emptypoints" else env_obj
            else:
                env_obj, dims = build_env(st, pairs, as_points)
                env_map = stored_slices(env_obj, dims) if dims is not None else env_obj
            defaults_before = dict(w.defaults)
            env_before = env_snapshot(env_obj)
            exc = None
            try:
                if kind == "pe":
                    res = w.partially_evaluate(**env_obj)
                elif len(op) > 4 and op[3] == "map" and op[4] == "omitted":
                    res = w()                                   # the default of the `args` parameter
                elif isinstance(w, st.mod.DomainUserFunction) and isinstance(env_obj, dict) and len(pairs) % 2 == 1:
                    res = w(env_obj, device="cpu")
                else:
                    res = w(env_obj)
            except Exception as e:
                exc, res = e, None
            new_hits = st.hits[hits0:]
            if env_snapshot(env_obj) != env_before:
                problems.append(f"{where}: the mapping/Points passed in was changed: {env_before} -> {env_snapshot(env_obj)}")
            out = judge_eval(st, w, kind, op, env_map, defaults_before, exc, res, new_hits, problems, where)
            if kind == "ca" and len(op) > 4 and op[3] == "map":
                out += " M" + showdict({} if op[4] == "emptypoints" else dict(env_obj.items()))      # the user's mapping after the call
        elif kind == "cv":
            out = run_vectorized(st, op, hits0, problems, where)
        elif kind == "sd":
            for i, x in enumerate(st.ws):       # by contract the defaults change: the record of partial evaluations ends
                if getattr(x, "defaults", None) is st.ws[op[1]].defaults:
                    st.pe_info.pop(i, None)
            w = st.ws[op[1]]
            kw = {k: mkval(v, st.mode) for k, v in op[2]}
            defaults_before = dict(w.defaults)
            w.set_default(**kw)
            out = "u"
            P = declared(st, w) if callable(w.fun) else []
            for k, v in op[2]:
                if k in P and (k not in w.defaults or vid(w.defaults[k]) != v):
                    problems.append(f"{where}: set_default({k}={desc(v)}) on a wrapper with parameter {k!r} left defaults[{k!r}]="
                                    f"{showval(w.defaults[k]) if k in w.defaults else '<unbound>'}")
            for k, v in defaults_before.items():
                if k not in dict(op[2]) and (k not in w.defaults or vid(w.defaults[k]) != vid(v)):
                    problems.append(f"{where}: set_default changed the default of {k!r}, which it was not given")
        elif kind == "rd":
            for i, x in enumerate(st.ws):
                if getattr(x, "defaults", None) is st.ws[op[1]].defaults:
                    st.pe_info.pop(i, None)
            w = st.ws[op[1]]
            try:
                if len(op) > 3 and op[3] == "kw":
                    w.remove_default(**{k: None for k in op[2]})
                else:
                    w.remove_default(*op[2])
                out = "u"
            except KeyError:
                out = "e:keyerror"
        else:
            raise common.HarnessTrouble(f"unknown op {op}")
    except common.HarnessTrouble:
        raise
    except Exception as e:   # an operation that must succeed raised
        out = f"e:raised:{type(e).__name__}"
        if kind in ("wf", "wc", "we", "rw", "dc", "sd"):
            problems.append(f"{where}: raised {type(e).__name__}: {e}")
    # frames
    after = st.snapshot()
    if not mutator:
        for k, v in before.items():
            if after.get(k) != v:
                problems.append(f"{where}: {kind} changed pre-existing {k}: {v} -> {after.get(k)}")
    else:
        # a deep copy / partial-evaluation result and its source are independent objects
        r = op[1]
        for i, (how, src) in st.origin.items():
            pairs = []
            if how in ("dc", "pe") and i == r:
                pairs.append(src)
            if how in ("dc", "pe") and src == r:
                pairs.append(i)
            for other in pairs:
                k = f"wrapper {other}"
                if before.get(k) != after.get(k):
                    problems.append(f"{where}: {kind} on wrapper {r} changed wrapper {other}, its "
                                    f"{'source' if other == src else 'deep copy / partial evaluation'}: {before.get(k)} -> {after.get(k)}")
        for k, v in before.items():
            if k.startswith("user function") and after.get(k) != v:
                problems.append(f"{where}: {kind} changed {k}")
    return out


def carrier_transform(st, op):
    """the user works with own Points objects between two calls; the harness keeps, by NAME, what each object must
    store according to this history (`shadow`)"""
    import torch
    _, k, what = op[:3]
    car = st.carriers[k]
    pts = car["obj"]
    sh = car["shadow"]
    if what in ("to32", "to64"):
        dt = torch.float32 if what == "to32" else torch.float64
        pts.to(dt)
        car["shadow"] = {n: t.to(dt) for n, t in sh.items()}
    elif what == "read":
        repr(pts)
        pts.coordinates
    elif what == "reqgrad":
        pts.requires_grad = True
    elif what == "setitem":
        row = st.tp.spaces.Points(torch.tensor([op[3]], dtype=pts.as_tensor.dtype), pts.space)
        pts[0:1] = row
        start = 0
        for n, d in car["dims"]:
            sh[n] = sh[n].clone()
            sh[n][0:1] = row.as_tensor[:, start:start + d]
            start += d
    elif what == "setcols":
        # assignment through a variable list in another order than the storage order
        names = op[3]
        dims = dict(car["dims"])
        width = sum(dims[n] for n in names)
        vals = torch.tensor([op[4][:width]], dtype=pts.as_tensor.dtype)
        pts[0:1, list(names)] = st.tp.spaces.Points(vals, st.tp.spaces.Space({n: dims[n] for n in names}))
        start = 0
        for n in names:
            sh[n] = sh[n].clone()
            sh[n][0:1] = vals[:, start:start + dims[n]]
            start += dims[n]
    elif what == "slice":
        a, b = op[3]
        car["aliased"] = True       # a row slice is a view of the parent's tensor
        st.carriers.append(dict(obj=pts[a:b], dims=list(car["dims"]), aliased=True,
                                shadow={n: t[a:b].clone() for n, t in sh.items()}))
    elif what == "select":
        # variables picked by a list / tuple, in the REQUESTED order
        names = op[3]
        key = tuple(names) if len(op) > 4 and op[4] == "tuple" else list(names)
        dims = dict(car["dims"])
        st.carriers.append(dict(obj=pts[:, key], dims=[(n, dims[n]) for n in names], aliased=False,
                                shadow={n: sh[n].clone() for n in names}))
    elif what == "join":
        other = st.carriers[op[3]]
        st.carriers.append(dict(obj=pts.join(other["obj"]), dims=list(car["dims"]) + list(other["dims"]), aliased=False,
                                shadow={**{n: t.clone() for n, t in sh.items()}, **{n: t.clone() for n, t in other["shadow"].items()}}))
    elif what == "repeat":
        st.carriers.append(dict(obj=pts.repeat(op[3]), dims=list(car["dims"]), aliased=False,
                                shadow={n: t.repeat(op[3], 1) for n, t in sh.items()}))
    elif what == "fromcoords":
        # Points.from_coordinates(dict) in another order of the names
        names = op[3]
        st.carriers.append(dict(obj=st.tp.spaces.Points.from_coordinates({n: sh[n].clone() for n in names}),
                                dims=[(n, dict(car["dims"])[n]) for n in names], aliased=False,
                                shadow={n: sh[n].clone() for n in names}))
    else:
        raise common.HarnessTrouble(f"unknown carrier transformation {op}")


def batched_value(v, n):
    import torch
    return torch.tensor([[float(v * 1000 + i)] for i in range(n)])


def show_arg(t):
    """canonical text of what one invocation received for one parameter (driver: showArg)"""
    try:
        f = t.flatten()
        x = int(f[0].item())
        if t.dim() == 1:                                  # one row of an (L, 1) value
            return f"r{x if x >= 1000 else x * 1000}"
        return f"w{x // 1000 if x >= 1000 else x}x{t.shape[0]}"
    except Exception:
        return f"<{type(t).__name__}>"


def run_vectorized(st, op, hits0, problems, where):
    """u(env, vectorize=True): apply_to_batch.  Oracle: as many invocations as the longest value has rows,
    invocation i receives, under each declared name, row i of a value of that length and the whole value
    otherwise; the list of the function values comes back"""
    w = st.ws[op[1]]
    lens = dict((a, b) for a, b in op[3])
    env = {k: batched_value(v, lens[v]) for k, v in op[2]}
    defaults_before = dict(w.defaults)
    env_before = env_snapshot(env)
    exc = None
    try:
        res = w(env, vectorize=True)
    except Exception as e:
        exc, res = e, None
    new_hits = st.hits[hits0:]
    if env_snapshot(env) != env_before:
        problems.append(f"{where}: the mapping passed in was changed")
    P = declared(st, w)
    # the property, evaluated directly
    vals, missing = {}, None
    for p in P:
        if p in env:
            vals[p] = env[p]
        elif p in defaults_before:
            vals[p] = defaults_before[p]
        else:
            missing = p
            break
    if exc is not None:
        if isinstance(exc, AssertionError) or (missing is not None and not new_hits):
            out = "e:missing"
        elif isinstance(exc, ValueError) and not P:
            out = "e:valueerror"        # max() of an empty sequence: a function without parameters (as coded)
        else:
            out = f"e:raised:{type(exc).__name__}"
        if missing is None and P:
            problems.append(f"{where}: every required name is present but the vectorized call raised {type(exc).__name__}: {exc}")
        if new_hits and missing is not None:
            problems.append(f"{where}: required name {missing!r} is missing but the user function was invoked")
        return out
    if missing is not None:
        problems.append(f"{where}: required name {missing!r} is neither supplied nor a default but the vectorized call returned")
    text = "|".join(",".join(f"{p}={show_arg(kw[p])}" for p in kw) for _, kw, _ in new_hits)
    out = f"b{st.fnid(w.fun)}/{len(new_hits)}[{text}]"
    if missing is None:
        B = max(len(v) for v in vals.values())
        want = "|".join(",".join(f"{p}={show_arg(vals[p][i] if len(vals[p]) == B else vals[p])}" for p in P) for i in range(B))
        if len(new_hits) != B or text != want or any(list(kw) != P for _, kw, _ in new_hits):
            problems.append(f"{where}: vectorized call over {B} rows: invocations received [{text}], row-wise by name they must receive [{want}]")
        if not (isinstance(res, list) and len(res) == len(new_hits) and all(a is h[2] for a, h in zip(res, new_hits))):
            problems.append(f"{where}: the vectorized call did not return the list of the function values")
    return out


def judge_eval(st, w, kind, op, env, defaults_before, exc, res, new_hits, problems, where):
    """canonical reply of a call / partial evaluation + the call/partial oracles"""
    if not callable(w.fun):
        if exc is not None:
            problems.append(f"{where}: constant wrapper raised {type(exc).__name__}: {exc}")
            return f"e:raised:{type(exc).__name__}"
        # the value of a constant wrapper is the wrapped constant (a tensor keeps dtype and entries; DomainUserFunction
        # hands a plain number out as a float32 tensor)
        import torch
        c = w.fun
        if kind == "pe" or not isinstance(w, st.mod.DomainUserFunction):
            ok = res is c
        elif isinstance(c, torch.Tensor):
            ok = isinstance(res, torch.Tensor) and res.dtype == c.dtype and res.shape == c.shape and torch.equal(res, c)
        elif isinstance(c, list):
            ok = isinstance(res, torch.Tensor) and res.dtype == torch.float32 and res.tolist() == [float(x) for x in c]
        else:
            ok = isinstance(res, torch.Tensor) and res.dtype == torch.float32 and res.numel() == 1 and float(res) == float(c)
        if not ok:
            problems.append(f"{where}: the constant wrapper of {c!r} handed out {res!r}: not the wrapped constant (same dtype, same entries)")
        return f"k{st.fnid(res)}"
    P = declared(st, w)
    want = expected_bindings(st, w, env, defaults_before)
    if exc is not None:
        # "rejected" = any exception before the function is invoked while a required name really is missing
        rejected = isinstance(exc, AssertionError) or (want[0] == "reject" and not new_hits)
        out = "e:missing" if rejected else ("e:typeerror" if isinstance(exc, TypeError) else f"e:raised:{type(exc).__name__}")
        if new_hits:
            problems.append(f"{where}: raised {type(exc).__name__} after the user function had been invoked")
        if want[0] == "bind":
            problems.append(f"{where}: every required name is present (env {sorted(env)}, defaults {sorted(defaults_before)}) "
                            f"but the evaluation raised {type(exc).__name__}: {exc}")
        return out
    if isinstance(res, (st.mod.UserFunction, st.mod.DomainUserFunction)) and kind == "pe":
        st.ws.append(res); st.origin[len(st.ws) - 1] = ("pe", op[1])
        out = f"w{len(st.ws) - 1}"
        if new_hits:
            problems.append(f"{where}: partial evaluation returned a wrapper but invoked the user function")
        if want[0] == "bind":
            problems.append(f"{where}: every required name is bound ({sorted(env)} + defaults {sorted(defaults_before)}) "
                            f"but partially_evaluate returned a wrapper instead of the function value")
        if res is w:
            problems.append(f"{where}: partially_evaluate returned the wrapper itself, not a new one")
        # what one full evaluation would use: the supplied value of every declared name in sigma (also of a name that
        # already had a default), else what the source wrapper had at that moment
        src_info = st.pe_info.get(op[1])
        bound = dict(src_info["bound"]) if src_info else {k: vid(v) for k, v in defaults_before.items()}
        bound.update({k: vid(v) for k, v in env.items() if k in P})
        st.pe_info[len(st.ws) - 1] = dict(bound=bound, sigma=sorted(k for k in env if k in P), source=op[1])
        for k in P:
            if k in env and (k not in res.defaults or vid(res.defaults[k]) != vid(env[k])):
                problems.append(f"{where}: partially_evaluate was given {k}={desc(vid(env[k]))} but the returned wrapper keeps "
                                f"{k}={showval(res.defaults.get(k)) if k in res.defaults else '<unbound>'}: given the remaining names it "
                                f"cannot yield the value of one full evaluation with {k}={desc(vid(env[k]))}")
        return out
    if len(new_hits) != 1:
        problems.append(f"{where}: the user function was invoked {len(new_hits)} times, result {type(res).__name__}")
        return f"e:hits{len(new_hits)}"
    fn, kw, token = new_hits[0]
    got = {k: vid(v) for k, v in kw.items()}
    out = f"v{fn}/{len(kw)}(" + ",".join(f"{p}={showval(kw[p])}" for p in kw) + ")"
    if want[0] == "reject":
        problems.append(f"{where}: required name {want[1]!r} is neither supplied ({sorted(env)}) nor a default "
                        f"({sorted(defaults_before)}) but the function was invoked with {got}")
    elif kind == "ca" and op[1] in st.pe_info and want[0] == "bind" and \
            {p: (vid(env[p]) if p in env else st.pe_info[op[1]]["bound"].get(p)) for p in P} != got:
        info = st.pe_info[op[1]]
        full = {p: (vid(env[p]) if p in env else info["bound"].get(p)) for p in P}
        problems.append(f"{where}: wrapper {op[1]} came from partially_evaluate (names bound on the way: {info['sigma']}); called with "
                        f"{dict((k, desc(vid(v))) for k, v in env.items())} the function received {dict((k, desc(v)) for k, v in got.items())}, "
                        f"one full evaluation with all names together receives {dict((k, desc(v) if v is not None else None) for k, v in full.items())}")
    elif got != want[1] or list(kw) != P:
        problems.append(f"{where}: the function received {dict((k, desc(v)) for k, v in got.items())}; by name it must receive "
                        f"{dict((k, desc(v)) for k, v in want[1].items())} (supplied {dict((k, desc(vid(v))) for k, v in env.items())}, "
                        f"defaults {dict((k, vid(v)) for k, v in defaults_before.items())})")
    # the function's value is what comes back
    ok = False
    try:
        if st.mode == "int" or kind == "pe" or not isinstance(w, st.mod.DomainUserFunction):
            ok = res is token
        else:
            ok = tuple(res.shape) == (1, 1) and float(res[0, 0]) == float(token[0])
    except Exception:
        ok = False
    if not ok:
        problems.append(f"{where}: the value returned is not the value the user function returned")
    return out


# ------------------------------------------------------------------------------------------------
# generator (online: sees the implementation's current wrappers, every choice from ctx.rng)

class Gen:
    def __init__(self, rng, length, mode, pool):
        self.rng, self.length, self.mode, self.pool = rng, length, mode, pool
        self.fn = itertools.count(0)
        self.val = itertools.count(1)
        self.pending = []
        self.car_for = []     # carrier index -> wrapper it was built for

    def v(self, special=True):
        """a fresh identifier; 9 % of the values are degenerate (None, False, '', 0, a tensor with zero rows)"""
        if special and self.rng.random() < 0.09:
            return self.rng.choice([-1, -1, -1, -3, -4, -5, 0])
        return next(self.val)

    def plain(self, pairs, keep=()):
        """replace degenerate values where the route cannot carry them (columns of a fresh Points, batched values,
        the entry a DomainUserFunction reads the device from)"""
        return [[k, (v if v > 0 or v in keep else next(self.val))] for k, v in pairs]

    def signature(self):
        rng = self.rng
        n = min(len(self.pool), rng.choice([0, 1, 1, 2, 2, 3, 3, 4, 5, 6]))
        names = rng.sample(self.pool, n)
        m = rng.randint(0, n)
        return names, [self.v() for _ in range(m)]

    def tensor_first(self, st, w, pairs):
        """DomainUserFunction.__call__ reads `.device` of the first entry: that one has to be a tensor"""
        if isinstance(w, st.mod.DomainUserFunction) or st.cls.__name__ == "DomainUserFunction":
            return self.plain(pairs, keep=(-5, 0) if self.mode != "int" else ())
        return pairs

    def with_mapping(self, op):
        """hand the environment over as some other kind of mapping than a plain dict (45 %)"""
        rng = self.rng
        if rng.random() < 0.55:
            return op
        kind = rng.choice(["odict", "proxy", "chain", "defaultdict", "defaultdict", "defaultdict", "missing", "missing", "getter"]
                          + (["omitted", "emptypoints"] if not op[2] else []))
        fb = rng.choice([0, self.v(), self.v()]) if kind in ("defaultdict", "missing", "getter") else 0
        return op[:3] + ["map", kind, fb]

    def env_for(self, w, cover=0.85, extras=True):
        """mostly a superset of the required names, shuffled; sometimes one required name is missing"""
        rng = self.rng
        try:
            req, opt = list(w.necessary_args), list(w.optional_args)
        except Exception:
            req, opt = [], []
        names = list(req)
        if names and rng.random() > cover:
            names.remove(rng.choice(names))
        names += [p for p in opt if rng.random() < 0.4]
        if extras:
            others = [p for p in self.pool if p not in req and p not in opt]
            names += rng.sample(others, min(len(others), rng.choice([0, 0, 1, 2])))
        rng.shuffle(names)
        return [[p, self.v()] for p in names]

    def next_op(self, st, i):
        rng = self.rng
        if self.pending:
            return self.pending.pop(0)
        if i >= self.length:
            return None
        nw = len(st.ws)
        if nw == 0 or (i < 2 and rng.random() < 0.5):
            kinds = ["wf"] * 6 + ["wc", "we", "nd"]
        else:
            kinds = ["wf"] * 2 + ["wc", "we", "nd", "rw", "dc", "dc"] + ["ca"] * 6 + ["pe"] * 5 + ["sd"] * 3 + ["rd"]
            if self.mode == "tensor" and st.cls.__name__ == "UserFunction":
                kinds += ["cv"] * 3
            if self.mode != "int" and any(callable(w.fun) for w in st.ws):
                kinds += ["np"] * 2
                if st.carriers:
                    kinds += ["pt"] * 5 + ["cc"] * 3
        kind = rng.choice(kinds)
        # vectorize=True takes len() of every value: only wrappers whose defaults are sized, ordinary values
        vec_ok = [i for i, x in enumerate(st.ws) if callable(x.fun) and not isinstance(x, st.mod.DomainUserFunction)
                  and all((vid(v) or 0) > 0 for v in x.defaults.values())]
        if kind == "cv" and not vec_ok:
            kind = "ca"
        if kind == "wf":
            names, dflts = self.signature()
            how = rng.choice(["def"] * 5 + ["method", "object", "lambda", "closure", "wraps-same", "wraps-diff", "wraps-diff", "partial", "kwonly", "kwonly"])
            op = ["wf", next(self.fn), names, dflts] + ([how] if how != "def" else [])
            if how == "kwonly":
                free = [p for p in self.pool if p not in names]
                if not free:
                    return op[:4]
                kw = rng.sample(free, min(len(free), rng.choice([1, 1, 2, 3])))
                op.append([kw, [[k, self.v()] for k in kw if rng.random() < 0.5]])
            if how == "wraps-diff":
                # the decorated (inner) function declares something else than the decorator's wrapper (outer)
                style = rng.choice(["other", "fewer", "more", "defaults"])
                if style == "fewer" and names:
                    inner = [names[:-1], min(len(dflts), max(0, len(names) - 1))]
                elif style == "more":
                    extra = [p for p in self.pool if p not in names]
                    inner = [names + extra[:1], len(dflts) + (1 if extra and dflts else 0)]
                elif style == "defaults" and names:
                    inner = [names, rng.choice([k for k in range(len(names) + 1) if k != len(dflts)])]
                else:
                    n2 = min(len(self.pool), rng.choice([1, 2, 3]))
                    inner = [rng.sample(self.pool, n2), rng.randint(0, n2)]
                op.append(inner)
            return op
        if kind == "wc":
            ck = rng.choice(["float", "float", "t32", "t64", "list"])
            return ["wc", next(self.fn)] + ([ck] if ck != "float" else [])
        if kind == "np":
            cand = [i for i, w in enumerate(st.ws) if callable(w.fun)]
            r = cand[-1] if rng.random() < 0.6 else rng.choice(cand)
            names = [p for p, _ in self.env_for(st.ws[r], cover=0.93)]
            if not names:
                names = rng.sample(self.pool, 1)
            dims = [[p, rng.choice([1, 1, 2])] for p in names]
            width = sum(d for _, d in dims)
            rows = rng.choice([1, 2, 3, 0])
            data = [[1000.0 * rng.choice([1, 1, 0.001]) + rng.random() / 3.0 for _ in range(width)] for _ in range(rows)]
            self.car_for.append(r)
            k = len(st.carriers)
            self.pending = [["ca", r, [], "carrier", k]]
            u = rng.random()
            if u < 0.45:      # use it, convert / look at it, use it again
                self.pending += [["pt", k, rng.choice(["to32", "to32", "to64", "read"])], ["ca", r, [], "carrier", k]]
            elif u < 0.8 and len(dims) > 1:     # derive another Points object from it: the variables in another order
                sel = [p for p, _ in dims]
                rng.shuffle(sel)
                if sel == [p for p, _ in dims]:
                    sel.reverse()
                self.pending += [["pt", k, rng.choice(["select", "select", "fromcoords"]), sel], ["ca", r, [], "carrier", k + 1]]
                self.car_for.append(r)
                if rng.random() < 0.4:
                    self.pending += [["pt", k + 1, rng.choice(["repeat", "to32", "slice"])], ["ca", r, [], "carrier", k + 1]]
                    self.pending[-2] += [[2] if self.pending[-2][2] == "repeat" else [[0, 1]] if self.pending[-2][2] == "slice" else []][0]
                    if self.pending[-2][2] in ("repeat", "slice"):
                        self.pending[-1][4] = k + 2
                        self.car_for.append(r)
            return ["np", dims, rng.choice(["float64", "float64", "float32"]), data]
        if kind in ("pt", "cc"):
            k = len(st.carriers) - 1 if rng.random() < 0.6 else rng.randrange(len(st.carriers))
            while len(self.car_for) < len(st.carriers):
                self.car_for.append(self.car_for[-1] if self.car_for else 0)
            r = self.car_for[k] if rng.random() < 0.75 else rng.randrange(nw)
            call = ["ca", r, [], "carrier", k]
            if kind == "cc":
                return call
            pts = st.carriers[k]["obj"]
            car = st.carriers[k]
            names_k = [n for n, _ in car["dims"]]
            whats = ["to32", "to32", "to64", "to64", "read", "slice", "select", "select", "select", "repeat", "fromcoords"]
            if not pts.requires_grad and not car.get("aliased"):
                whats += ["reqgrad"] + (["setitem", "setitem", "setcols"] if len(pts) >= 1 else [])
            others = [j for j, c in enumerate(st.carriers) if j != k and len(c["obj"]) == len(pts)
                      and c["obj"].as_tensor.dtype == pts.as_tensor.dtype and not set(n for n, _ in c["dims"]) & set(names_k)]
            if others:
                whats += ["join", "join"]
            what = rng.choice(whats)
            op = ["pt", k, what]
            if what in ("select", "fromcoords", "setcols"):
                # mostly everything the target wrapper needs, in ANOTHER order than the storage order
                sel = list(names_k) if rng.random() < 0.6 else rng.sample(names_k, rng.randint(1, len(names_k)))
                rng.shuffle(sel)
                if len(sel) > 1 and sel == [n for n in names_k if n in sel]:
                    sel.reverse()
                op.append(sel)
                if what == "select" and rng.random() < 0.3:
                    op.append("tuple")
                if what == "setcols":
                    op.append([3.0 + rng.random() / 7.0 for _ in range(pts.as_tensor.shape[-1])])
            if what == "join":
                op.append(rng.choice(others))
            if what == "repeat":
                op.append(rng.choice([2, 3]))
            if what in ("select", "join", "repeat", "fromcoords"):
                self.car_for.append(self.car_for[k])
                call = ["ca", r, [], "carrier", len(st.carriers)]
            if what == "setitem":
                op.append([7.0 + rng.random() / 7.0 for _ in range(pts.as_tensor.shape[-1])])
            if what == "slice":
                a = rng.randrange(len(pts) + 1)
                op.append([a, rng.randint(min(a + (0 if rng.random() < 0.25 else 1), len(pts)), len(pts))])      # may be empty
                self.car_for.append(self.car_for[k])
                call = ["ca", r, [], "carrier", len(st.carriers)]
            if rng.random() < 0.75:
                self.pending = [call]
            return op
        if kind == "nd":
            ks = rng.sample(self.pool, rng.choice([0, 1, 2]))
            return ["nd", [[k, self.v()] for k in ks]]
        if kind == "we":
            names, _ = self.signature()
            j = rng.randrange(len(st.ud)) if (st.ud and rng.random() < 0.6) else -1
            return ["we", next(self.fn), names, j]
        r = rng.randrange(nw) if rng.random() < 0.5 else nw - 1 - min(nw - 1, rng.choice([0, 0, 1, 2]))
        w = st.ws[r]
        if kind == "cv" and r not in vec_ok:
            r = rng.choice(vec_ok)
            w = st.ws[r]
        if kind == "rw":
            return ["rw", r, rng.choice(["wrap", "wrap", "copy"] + (["cross"] if self.mode != "int" else []))]
        if kind == "dc":
            return ["dc", r]
        if kind == "ca":
            env = self.env_for(w)
            if self.mode == "points" and env and rng.random() < 0.6:
                return ["ca", r, self.plain(env), "points"]
            return self.with_mapping(["ca", r, self.tensor_first(st, w, env)])
        if kind == "cv":
            env = self.plain(self.env_for(w, cover=0.9))
            B = rng.choice([1, 2, 3, 5])
            lens = [[v, rng.choice([B, B, 1, rng.randint(1, B)])] for _, v in env]
            try:
                lens += [[vid(v), 1] for v in w.defaults.values() if vid(v) is not None and vid(v) > 0]
            except Exception:
                pass
            return ["cv", r, env, lens]
        if kind == "pe":
            # bind a strict part of the required names most of the time, so that a wrapper comes back
            try:
                req = list(w.necessary_args)
            except Exception:
                req = []
            if req and rng.random() < 0.65:
                k = rng.randint(0, len(req) - 1)
                bound = rng.sample(req, k)
                try:
                    bound += [p for p in w.optional_args if rng.random() < 0.3]
                except Exception:
                    pass
                oth = [p for p in self.pool if p not in w.args]
                bound += rng.sample(oth, min(len(oth), rng.choice([0, 0, 1])))
                rng.shuffle(bound)
                sigma = [[p, self.v()] for p in bound]
                # follow-up: the new wrapper on the remaining names vs one full evaluation
                rest = [p for p in req if p not in bound]
                rho = [[p, self.v()] for p in rest]
                try:
                    rho += [[p, self.v()] for p in w.optional_args if rng.random() < 0.3]
                except Exception:
                    pass
                rng.shuffle(rho)
                merged = rho + [kv for kv in sigma if kv[0] not in dict(rho)]
                rng.shuffle(merged)
                rho, merged = self.tensor_first(st, w, rho), self.tensor_first(st, w, merged)
                self.pending = [self.with_mapping(["ca", "new", rho]), self.with_mapping(["ca", r, merged])]
                return ["pe", r, sigma]
            return ["pe", r, self.env_for(w, cover=0.8)]
        if kind == "sd":
            try:
                cand = list(w.args)
            except Exception:
                cand = []
            oth = [p for p in self.pool if p not in cand]
            ks = [p for p in cand if rng.random() < 0.5] + rng.sample(oth, min(len(oth), rng.choice([0, 0, 1])))
            rng.shuffle(ks)
            return ["sd", r, [[k, self.v()] for k in ks]]
        if kind == "rd":
            try:
                cand = list(w.optional_args)
            except Exception:
                cand = []
            ks = rng.sample(cand, min(len(cand), rng.choice([1, 1, 2]))) if cand else []
            if rng.random() < 0.25:
                ks.append(rng.choice(self.pool))
            ks = list(dict.fromkeys(ks))
            return ["rd", r, ks] + (["kw"] if rng.random() < 0.4 else [])
        return None


# ------------------------------------------------------------------------------------------------

def op_line(op):
    k = op[0]
    d = lambda pairs: common.lst(pairs, lambda kv: f"{kv[0]} {kv[1]}")
    if k == "nd":
        return f"nd {d(op[1])}"
    if k == "wf":
        if len(op) > 4 and op[4] in ("wraps-same", "wraps-diff"):
            inames, idef = (op[2], len(op[3])) if op[4] == "wraps-same" or len(op) < 6 else op[5]
            return f"wd {op[1]} {common.lst(op[2])} {common.lst(op[3])} {common.lst(inames)} {common.lst([0] * idef)}"
        if len(op) > 5 and op[4] == "kwonly":
            return f"wk {op[1]} {common.lst(op[2])} {common.lst(op[3])} {common.lst(op[5][0])} {d(op[5][1])}"
        return f"wf {op[1]} {common.lst(op[2])} {common.lst(op[3])}"
    if k == "wc":
        return f"wc {op[1]}"
    if k == "we":
        return f"we {op[1]} {common.lst(op[2])} {op[3]}"
    if k == "rw":
        return f"sc {op[1]}" if len(op) > 2 and op[2] == "copy" else f"rw {op[1]}"      # copy.copy(u) vs UserFunction(u)
    if k == "dc":
        return f"dc {op[1]}"
    if k == "ca" and len(op) > 4 and op[3] == "map":
        kind, fb = op[4], (op[5] if len(op) > 5 else 0)
        if kind in ("omitted", "emptypoints"):
            return f"cm {op[1]} 0 -1 0"
        if kind in ("defaultdict", "missing"):
            return f"cm {op[1]} {d(op[2])} {fb} {1 if kind == 'defaultdict' else 0}"
        return f"cm {op[1]} {d(op[2])} -1 0"
    if k in ("ca", "pe", "sd"):
        return f"{k} {op[1]} {d(op[2])}"       # a call with a carrier: op[2] was filled in when it was executed
    if k == "cv":
        return f"cv {op[1]} {d(op[2])} {d(op[3])}"
    if k == "rd":
        return f"rd {op[1]} {common.lst(op[2])}"
    raise common.HarnessTrouble(f"unknown op {op}")


def model_ops(case):
    return [op for op in case["ops"] if op[0] not in ("np", "pt")]


def model_line(case, policy="share"):
    ops = model_ops(case)
    return f"{'run' if policy == 'share' else 'runcopy'} {len(ops)} " + " ".join(op_line(op) for op in ops)


def policy_sensitive(case):
    """the two constructor policies (alias / copy the containers) can only differ after a re-wrap or an explicit defaults="""
    return any((op[0] == "rw" and not (len(op) > 2 and op[2] == "copy")) or (op[0] == "we" and op[3] >= 0) for op in case["ops"])


CORPUS = [
    # degenerate values on every binding route: None / False / '' / 0 / zero rows through a call, a declared default,
    # set_default, a complete and an incomplete partial evaluation (also nested), a user dict
    dict(cls="UserFunction", mode="int", ops=[
        ["wf", 0, ["a", "b", "c"], [-1]], ["ca", 0, [["a", -1], ["b", 0]]], ["pe", 0, [["a", -1]]], ["ca", 1, [["b", -3]]],
        ["ca", 0, [["a", -1], ["b", -3]]], ["pe", 1, [["c", -1]]], ["ca", 2, [["b", 1]]], ["sd", 0, [["b", -1]]], ["ca", 0, [["a", 2]]],
        ["wf", 1, ["x", "k"], [7]], ["pe", 1, [["k", -1]]], ["ca", 4, [["x", 3]]], ["sd", 3, [["k", -4], ["x", 0]]], ["ca", 3, []],
        ["nd", [["x", -1]]], ["we", 2, ["x", "y"], 0], ["ca", 5, [["y", -1]]], ["pe", 3, [["x", -1], ["k", -1]]]]),
    # a Points object with variables but ZERO rows is still a Points object with these names
    dict(cls="UserFunction", mode="tensor", ops=[
        ["wf", 0, ["x", "t", "k"], [5]], ["np", [["t", 1], ["x", 2]], "float64", []], ["ca", 0, [], "carrier", 0],
        ["np", [["k", 1], ["t", 1], ["x", 1]], "float32", []], ["ca", 0, [], "carrier", 1],
        ["np", [["x", 1], ["t", 1]], "float64", [[0.5, 0.25], [0.75, 0.125]]], ["pt", 2, "slice", [1, 1]], ["ca", 0, [], "carrier", 3],
        ["ca", 0, [], "map", "emptypoints"], ["ca", 0, [["x", -5], ["t", -5]]], ["wf", 1, ["k"], [6]], ["ca", 1, [], "map", "emptypoints"]]),
    dict(cls="DomainUserFunction", mode="points", ops=[
        ["wf", 0, ["x", "t"], [-1]], ["np", [["t", 1], ["x", 2]], "float32", []], ["ca", 0, [], "carrier", 0], ["pe", 0, [["t", -1]]],
        ["np", [["x", 2]], "float32", []], ["ca", 0, [], "carrier", 1], ["ca", 0, [], "map", "emptypoints"]]),
    # Points arguments with a derivation history: variables selected in another order than they are stored, joins, repeats
    dict(cls="UserFunction", mode="tensor", ops=[
        ["wf", 0, ["t", "x", "k"], [5]], ["np", [["x", 2], ["t", 1], ["k", 1]], "float64", [[0.25, 0.5, 1 / 3, 0.75], [1.25, 1.5, 2 / 3, 1.75]]],
        ["pt", 0, "select", ["t", "x"]], ["ca", 0, [], "carrier", 1], ["pt", 0, "select", ["k", "t", "x"], "tuple"], ["ca", 0, [], "carrier", 2],
        ["pt", 0, "setcols", ["t", "x"], [3.5, 3.25, 3.125, 0]], ["ca", 0, [], "carrier", 0], ["pt", 1, "repeat", 2], ["ca", 0, [], "carrier", 3],
        ["np", [["q", 1]], "float64", [[9.5], [8.5]]], ["pt", 1, "join", 4], ["ca", 0, [], "carrier", 5], ["pt", 0, "fromcoords", ["k", "x", "t"]],
        ["ca", 0, [], "carrier", 6], ["pt", 2, "slice", [1, 2]], ["ca", 0, [], "carrier", 7]]),
    # several partial evaluations from one parent; a supplied value for a name that already has a default must win
    dict(cls="UserFunction", mode="int", ops=[
        ["wf", 0, ["x", "y", "scale"], [2]], ["pe", 0, [["x", 3], ["scale", 4]]], ["ca", 1, [["y", 5]]], ["ca", 0, [["x", 3], ["y", 5], ["scale", 4]]],
        ["pe", 0, [["x", 6]]], ["ca", 1, [["y", 7]]], ["ca", 2, [["y", 7]]], ["ca", 0, [["x", 8], ["y", 9]]],
        ["wf", 1, ["t", "a", "b"], []], ["pe", 3, [["t", 1]]], ["pe", 4, [["t", 2], ["a", 3]]], ["ca", 5, [["b", 4]]], ["ca", 4, [["a", 5], ["b", 6]]]]),
    # the KIND of mapping: a defaultdict / a dict subclass with __missing__ answers absent names itself; the wrapper
    # must ask `in` first, bind its own defaults and leave the container alone
    dict(cls="UserFunction", mode="int", ops=[["wf", 0, ["a", "b", "c"], [1, 2]], ["ca", 0, [["a", 5]], "map", "defaultdict", 0],
                                              ["ca", 0, [["c", 6], ["a", 7]], "map", "missing", 9], ["pe", 0, [["b", 8]]],
                                              ["ca", 0, [], "map", "defaultdict", 3], ["wf", 1, ["a"], [4]], ["ca", 1, [], "map", "omitted"],
                                              ["ca", 0, [["a", 5], ["q", 1]], "map", "chain"], ["ca", 0, [["a", 5]], "map", "proxy"],
                                              ["ca", 0, [["b", 2], ["a", 5]], "map", "odict"], ["ca", 0, [["a", 5]], "map", "getter", 10]]),
    dict(cls="DomainUserFunction", mode="tensor", ops=[["wf", 0, ["t", "k", "shift"], [2, 10]], ["pe", 0, [["k", 3]]],
                                                       ["ca", 1, [["t", 4]], "map", "defaultdict", 0], ["ca", 0, [["t", 4], ["k", 3]], "map", "missing", 5],
                                                       ["rw", 0, "cross"], ["ca", 2, [["t", 6]]], ["wc", 1, "list"], ["ca", 3, []], ["rd", 0, ["k"], "kw"]]),
    # keyword-only parameters: positional defaults belong to the last POSITIONAL names, kw-only defaults to their own names
    dict(cls="UserFunction", mode="int", ops=[["wf", 0, ["x", "y"], [1], "kwonly", [["z", "w"], [["z", 3]]]], ["ca", 0, [["w", 7], ["x", 5]]],
                                              ["ca", 0, [["x", 5]]], ["pe", 0, [["w", 8]]], ["ca", 1, [["x", 9], ["z", 10]]]]),
    # a Points object with a history: read, converted with .to(), written to, sliced between the calls
    dict(cls="UserFunction", mode="tensor", ops=[
        ["wf", 0, ["t", "x", "k"], [5]],
        ["np", [["x", 2], ["t", 1], ["k", 1]], "float64", [[1000.1531276477092, 1000.2, 1000.3, 0.4], [1.1, 1.2, 1000.0000001, 1.4]]],
        ["ca", 0, [], "carrier", 0], ["pt", 0, "to32"], ["ca", 0, [], "carrier", 0], ["pt", 0, "to64"], ["ca", 0, [], "carrier", 0],
        ["pt", 0, "setitem", [7.25, 7.5, 7.125, 1 / 3]], ["ca", 0, [], "carrier", 0], ["pt", 0, "slice", [1, 2]], ["ca", 0, [], "carrier", 1],
        ["pt", 1, "reqgrad"], ["pt", 1, "read"], ["pt", 1, "to32"], ["ca", 0, [], "carrier", 1]]),
    dict(cls="DomainUserFunction", mode="points", ops=[
        ["wf", 0, ["x", "t"], []], ["np", [["t", 1], ["q", 1], ["x", 2]], "float64", [[0.1, 0.2, 1 / 3, 2 / 3]]],
        ["pt", 0, "read"], ["pt", 0, "to32"], ["ca", 0, [], "carrier", 0], ["pe", 0, [["t", 1]]], ["ca", 1, [], "carrier", 0]]),
    # decorated functions: the parameters are those of the callable that is handed in (and invoked), not of __wrapped__
    dict(cls="UserFunction", mode="int", ops=[
        ["wf", 0, ["x", "t", "scale"], [3], "wraps-diff", [["x", "t"], 0]], ["ca", 0, [["scale", 1], ["t", 2], ["x", 4]]], ["ca", 0, [["x", 5], ["t", 6]]],
        ["wf", 1, ["x", "t"], [7], "wraps-diff", [["x", "t"], 0]], ["ca", 1, [["x", 8]]], ["pe", 1, [["x", 9]]],
        ["wf", 2, ["x"], [], "wraps-diff", [["x", "t"], 0]], ["ca", 2, [["t", 10], ["x", 11]]],
        ["wf", 3, ["time", "pos"], [], "wraps-diff", [["x", "t"], 0]], ["ca", 3, [["pos", 12], ["time", 13]]],
        ["wf", 4, ["a", "b"], [14], "wraps-same"], ["ca", 4, [["a", 15]]], ["wf", 5, ["a", "b"], [16], "partial"], ["ca", 5, [["a", 17]]], ["ca", 5, []],
        ["wf", 6, ["a", "b"], [18], "lambda"], ["ca", 6, [["b", 19], ["a", 20]]], ["wf", 7, ["a"], [], "closure"], ["ca", 7, [["a", 21]]]]),
    # constants are handed out as they are (a float64 tensor stays float64)
    dict(cls="DomainUserFunction", mode="tensor", ops=[["wc", 0, "t64"], ["ca", 0, []], ["wc", 1, "t32"], ["ca", 1, [["x", 1]]], ["wc", 2], ["ca", 2, []],
                                                       ["pe", 0, [["x", 2]]], ["dc", 0], ["ca", 3, []]]),
    dict(cls="UserFunction", mode="int", ops=[["wc", 0, "t64"], ["ca", 0, []], ["pe", 0, []], ["dc", 0], ["ca", 1, []]]),
    # vectorize=True: row i of every batch-length value goes to invocation i, other values are passed whole
    dict(cls="UserFunction", mode="tensor", ops=[["wf", 0, ["a", "b", "c"], [11]], ["cv", 0, [["b", 6], ["a", 5]], [[5, 3], [6, 1], [11, 1]]],
                                                 ["cv", 0, [["a", 7], ["c", 8], ["b", 9]], [[7, 2], [8, 2], [9, 2]]], ["cv", 0, [["a", 5]], [[5, 2]]],
                                                 ["wf", 1, [], []], ["cv", 1, [], []]]),
    # bound methods and callable objects: the bound first parameter is not an argument of the call
    dict(cls="UserFunction", mode="int", ops=[["wf", 0, ["a", "b"], [2], "method"], ["ca", 0, [["a", 1]]], ["wf", 1, ["a", "b"], [5], "object"],
                                              ["ca", 1, [["b", 3], ["a", 4]]], ["pe", 0, [["b", 6]]], ["ca", 2, [["a", 7]]]]),
    # shared `defaults={}` of the constructor (pinned snapshot): explicit args, set_default, then any wrap
    dict(cls="UserFunction", mode="int", ops=[["we", 0, ["x"], -1], ["sd", 0, [["x", 1]]], ["wf", 1, ["y"], []], ["ca", 1, [["y", 2]]]]),
    dict(cls="DomainUserFunction", mode="tensor", ops=[["we", 0, ["x"], -1], ["sd", 0, [["x", 1]]], ["wc", 1], ["wf", 2, ["y", "z"], [3]], ["ca", 2, [["y", 2]]]]),
    # defaults align at the tail; binding is by name, not by position
    dict(cls="UserFunction", mode="int", ops=[["wf", 0, ["a", "b", "c", "d"], [1, 2]], ["ca", 0, [["d", 9], ["b", 8], ["zz", 7], ["a", 6]]],
                                              ["ca", 0, [["b", 5]]], ["pe", 0, [["b", 4]]], ["ca", 1, [["a", 3]]], ["ca", 0, [["a", 3], ["b", 4]]],
                                              ["sd", 1, [["a", 10]]], ["ca", 0, [["b", 1]]]]),
    # re-wrapping shares the defaults dict, a deep copy does not
    dict(cls="UserFunction", mode="int", ops=[["wf", 0, ["x", "y"], [1]], ["rw", 0, "wrap"], ["dc", 0], ["sd", 1, [["x", 2]]], ["sd", 2, [["x", 3]]],
                                              ["ca", 0, []], ["ca", 2, []], ["rd", 0, ["y", "q"]]]),
    # user-supplied defaults dict
    dict(cls="UserFunction", mode="int", ops=[["nd", [["b", 1]]], ["we", 0, ["a", "b"], 0], ["ca", 0, [["a", 2]]], ["pe", 0, [["q", 3]]],
                                              ["sd", 1, [["a", 4]]], ["pe", 0, [["a", 5]]]]),
]


def gen_cases(ctx):
    rng = ctx.rng
    n = ctx.scale(2500, 30000)
    for c in CORPUS:
        yield json.loads(json.dumps(c)), None
    for _ in range(n):
        mode = rng.choice(["int", "int", "tensor", "points"])
        cls = "UserFunction" if mode == "int" else rng.choice(["UserFunction", "DomainUserFunction"])
        pool = rng.sample(NAMES, rng.choice([6, 8, 11]))
        length = rng.choice([3, 5, 8, 10, 12])
        yield dict(cls=cls, mode=mode, ops=[]), Gen(rng, length, mode, pool)


def nontrivial(case, lines):
    has_sig = any(op[0] == "wf" and len(op[2]) >= 2 for op in case["ops"])
    invoked = any(l.startswith("v") for l in lines)
    return has_sig and invoked


def classify(rep, case, lines):
    for op in case["ops"]:
        if op[0] == "pt":
            rep.count("Points carrier:" + op[2])
    for op, l in zip(model_ops(case), lines):
        rep.count("op:" + op[0])
        out = l.split(" # ")[0]
        tag = out[0] if out[0] in "wvkuUb" else out
        if op[0] in ("ca", "pe", "cv"):
            rep.count(f"{op[0]}->" + {"w": "wrapper", "v": "value", "k": "constant", "b": "batch"}.get(tag, tag))
        if op[0] == "cv" and tag == "b":
            rep.count("vectorized batch size " + out.split("/")[1].split("[")[0])
        if op[0] == "ca" and len(op) > 3:
            rep.count("call with Points" + (" that has a history" if op[3] == "carrier" else ""))
        if op[0] == "ca" and len(op) > 4 and op[3] == "map":
            rep.count("mapping kind:" + op[4])
        if op[0] == "rd" and len(op) > 3:
            rep.count("remove_default(**kwargs)")
        if op[0] == "rw" and len(op) > 2:
            rep.count("re-wrap:" + op[2])
        if op[0] == "wc":
            rep.count("constant kind:" + (op[2] if len(op) > 2 else "float"))
        if op[0] == "wf":
            rep.count(f"signature n={len(op[2])} defaults={len(op[3])}")
            rep.count("callable kind:" + (op[4] if len(op) > 4 else "def"))
        if op[0] == "rd" and out != "u":
            rep.count("remove_default KeyError")
    rep.count(f"class:{case['cls']}")
    rep.count(f"values:{case['mode']}")
    rep.count(f"history length {len(case['ops'])}")


def run(ctx, rep, cases=None):
    rep.rule = ("seeded histories (length <= 12, plus follow-up calls) over generated signatures (0-6 positional-or-keyword parameters, every "
                "default-suffix length, names in any order), environments that are shuffled supersets (15 % lack one required name), "
                "values = unique identifiers as ints / tensors / Points columns; non-trivial = a wrapped function with >= 2 parameters "
                "and at least one invocation of a user function; distinct = distinct histories")
    todo = list(cases) if cases is not None else None
    stream = ((c, None) for c in todo) if todo is not None else gen_cases(ctx)
    done, impl, probs = [], [], []
    for case, gen in stream:
        if gen is not None:
            gen = Resolver(gen)
        lines, problems = execute(case, gen)
        done.append(case); impl.append(lines); probs.append(problems)
    try:
        replies = common.run_driver("C13", [model_line(c) for c in done])
        sens = [i for i, c in enumerate(done) if policy_sensitive(c)]
        copies = dict(zip(sens, common.run_driver("C13", [model_line(done[i], "copy") for i in sens])))
    except common.DriverFailure:
        for c, p in zip(done, probs):
            for msg in p:
                rep.fail(msg, c)
        raise
    # The statement promises nothing about set_default reaching (or not reaching) a re-wrap / a user's defaults= dict:
    # the constructor may alias these containers (TPV.UserFun.step) or copy them (stepCopy).  ONE policy has to
    # explain the whole run: every history is compared with the model of the policy that the histories which can
    # tell the two apart agree on (ties -> the aliasing one).
    votes = {"share": 0, "copy": 0}
    for i in sens:
        a, b = replies[i].split(" ; "), copies[i].split(" ; ")
        if a != b:
            if impl[i] == a:
                votes["share"] += 1
            elif impl[i] == b:
                votes["copy"] += 1
    policy = "copy" if votes["copy"] > votes["share"] else "share"
    rep.count("constructor policy: histories that fit only the aliasing model", votes["share"])
    rep.count("constructor policy: histories that fit only the copying model", votes["copy"])
    rep.notes.append(f"constructor container policy used for the correspondence: {policy} (votes {votes})")
    for i, (case, lines, problems) in enumerate(zip(done, impl, probs)):
        reply = copies[i] if (policy == "copy" and i in copies) else replies[i]
        model = reply.split(" ; ") if model_ops(case) else []
        rep.case(case["ops"], nontrivial(case, lines),
                 sample=dict(case=case, implementation=lines[-1] if lines else "", model=model[-1] if model else ""),
                 kind=case["cls"] + case["mode"])
        classify(rep, case, lines)
        if lines != model:
            k = next((i for i, (a, b) in enumerate(zip(lines, model)) if a != b), min(len(lines), len(model)))
            rep.disagree(f"history of wrapper operations: drivers/C13.lean `{'run' if policy == 'share' else 'runcopy'}` (TPV.UserFun.stepP .{policy}) vs torchphysics.utils.user_fun",
                         dict(case, first_difference_at_model_op=k),
                         lines[k] if k < len(lines) else "<no line>", model[k] if k < len(model) else "<no line>")
        for msg in problems:
            rep.fail(msg, shrink(case, msg) if len(rep.failures) < 5 else case)


def op_index(msg):
    m = re.match(r"op (\d+) ", msg)
    return int(m.group(1)) if m else None


def shrink(case, msg):
    """structural shrinking: cut the history after the failing operation, then drop earlier operations
    that create nothing (calls, set/remove_default on other wrappers ...) while the same oracle still fails"""
    k = op_index(msg)
    if k is None:
        return case
    head = msg.split(":")[1][:40] if ":" in msg else msg[:40]

    def still_fails(ops):
        c = dict(cls=case["cls"], mode=case["mode"], ops=ops)
        try:
            _, probs = execute(json.loads(json.dumps(c)))
        except Exception:
            return False
        return any(op_index(p) == len(ops) - 1 for p in probs)

    ops = case["ops"][:k + 1]
    if not still_fails(ops):
        return case
    i = len(ops) - 2
    while i >= 0:
        if ops[i][0] in ("ca", "cv", "sd", "rd", "pt"):      # removing them does not renumber wrappers, dicts or carriers
            cand = ops[:i] + ops[i + 1:]
            if still_fails(cand):
                ops = cand
        i -= 1
    return dict(cls=case["cls"], mode=case["mode"], ops=ops, shrunk_from=len(case["ops"]))


class Resolver:
    """turns the generator's follow-up `["ca", "new", env]` into the index of the wrapper the preceding
    partial evaluation returned (dropped if it returned a value)"""

    def __init__(self, gen):
        self.gen = gen

    def next_op(self, st, i):
        while True:
            op = self.gen.next_op(st, i)
            if op is None:
                return None
            if op[0] == "ca" and op[1] == "new":
                last = len(st.ws) - 1
                if last >= 0 and st.origin.get(last, ("", None))[0] == "pe" and not getattr(st, "_pe_checked", set()) & {last}:
                    st._pe_checked = getattr(st, "_pe_checked", set()) | {last}
                    return ["ca", last, op[2]]
                self.gen.pending = []      # the partial evaluation did not return a wrapper: no follow-up
                continue
            return op


def replay(ctx, obj):
    rep = common.Report(ctx)
    inp = obj.get("failing_input") or obj.get("first")
    case = inp["input"]
    case = dict(cls=case["cls"], mode=case["mode"], ops=case["ops"])
    lean = common.lean_check("C13")
    run(ctx, rep, [case])
    return common.finish(ctx, rep, lean)
