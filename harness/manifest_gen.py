#!/usr/bin/env python3
"""regenerates MANIFEST.json from harness/registry.json (one entry per property)"""
import json, os
HERE = os.path.dirname(os.path.abspath(__file__))
VERIF = os.path.dirname(HERE)
reg = {}
for fn in sorted(os.listdir(os.path.join(HERE, "registry.d"))):
    if fn.endswith(".json"):
        reg[fn[:-5]] = json.load(open(os.path.join(HERE, "registry.d", fn)))
props = [json.loads(l) for l in open(os.path.join(VERIF, "properties.jsonl"))]
checks, na = [], []
for p in props:
    pid = p["id"]
    e = reg.get(pid)
    if e and e.get("claimed"):
        checks.append(dict(
            property_id=pid,
            quick_cmd=f"./check {pid} --tier quick",
            thorough_cmd=f"./check {pid} --tier thorough",
            evidence_file=f"evidence/{pid}.json",
            replay_cmd_template=f"./check {pid} --replay {{path}}",
            engine="lean4-model+correspondence",
            level_claimed=dict(category="proof", text=e["level_text"], design_ref=e.get("design_ref", "DESIGN.md §6 " + pid)),
            level_note=e["level_note"],
            technique=e.get("technique", "Lean 4 theorems about a hand-written executable model + differential correspondence check against the implementation"),
        ))
    else:
        na.append(dict(property_id=pid, reason=(e or {}).get("reason", "machinery for this property is not built yet (see DESIGN.md build order); not claimed")))
man = dict(
    version=1,
    setup_cmd="cd lean && lake build",
    hooks=dict(guard="TORCHPHYSICS_VERIF", enable="no hooks: every observation point is a public return value; the harness observes internals with recording subclasses and unittest.mock patches inside its own process",
               baseline_off_cmd="cd /repo && /venv/bin/python -m pytest -ra -q -p no:cacheprovider --timeout=900 --continue-on-collection-errors",
               source_commits=[], add_only=True),
    engines=[dict(name="lean4-model+correspondence", path="check", serves_properties=[c["property_id"] for c in checks],
                  kind_free_text="Lean 4 package lean/TPV (models, theorems, axiom audit) + Python correspondence harness harness/*.py driving lean/drivers/*.lean over a line protocol")],
    checks=checks,
    notes="All checks: ./check <id> --tier quick|thorough; VERIF_SEED honoured; exit 2 = harness trouble. Open findings and the fix: commits made in /repo are listed per property in known_findings.d/Cxx.json (findings / fixed).",
    not_applicable=na,
)
json.dump(man, open(os.path.join(VERIF, "MANIFEST.json"), "w"), indent=1)
print("claimed:", [c["property_id"] for c in checks])
