"""C02 — samplers return exactly n points per parameter row, paired in order.

Correspondence: sampler expressions over *tagging domains* (the location of a domain encodes the values of
the parameters it was evaluated at) are run on the real code and on the Lean model (drivers/C02.lean);
both outputs are brought to the same canonical text: per row and per variable the leaf that made the
point, its grid/data index where that is deterministic, whether the point was made for the row it is
joined with, and the index of the external parameter row the row carries.  Compared exactly.
Property oracles (independent of the model) are applied to every implementation output."""
import contextlib
import io
import json
import math
import signal

import common

# coefficients of the tagging scheme (see design_notes/C02.md): external parameter columns hold distinct
# integers 1..8; a leaf depending on them sits at  base + 1024*t + 8192*D (+ 128*s for a partner variable s
# with small values); one node spans less than SPAN, so points made for different rows are > SPAN apart
COEF = {"t": 1024.0, "D": 8192.0}
PARTNER_COEF = 128.0
MOTION_COEF = {"t": 64.0, "D": 8.0}
MOTION_COEF_B = {"t": 4.0, "D": 32.0}   # shift of the second factor of a translated ProductDomain
SPAN = 2.0
TOL = 0.05
PRIMS = ("I", "C", "P", "T", "S")   # Interval, Circle, Parallelogram, Triangle, Sphere
PRIM_DIM = {"I": 1, "C": 2, "P": 2, "T": 2, "S": 3}
CALL_BUDGET_S = 20
MAX_FAILING_CASES = 25   # a run stops exploring once this many cases violate the property


class CallTimeout(Exception):
    pass


def _alarm(*_):
    raise CallTimeout()


# ------------------------------------------------------------------------------------------
# expression specs (plain dicts, JSON-able) -> line for the driver

def dom_line(d):
    k = d["k"]
    if k in PRIMS:
        return f"{'P' if k == 'I' else 'Q'} {d['v']} {d['id']} {common.lst(d['deps'])}"
    if k in ("U", "-", "&"):
        return f"B {dom_line(d['a'])} {dom_line(d['b'])}"
    if k == "X":
        return f"X {dom_line(d['a'])} {dom_line(d['b'])}"
    if k in ("Tr", "Ro"):
        return f"M {dom_line(d['d'])} {d['id']} {common.lst(d['deps'])}"
    raise ValueError(k)


def smp_line(s):
    k = s["k"]
    if k == "leaf":
        kind = "u" if s["kind"] in ("at", "ar") else s["kind"]   # an adaptive sampler hands out rows of its inner uniform sampler
        return f"L {kind} {dom_line(s['d'])} {'none' if s['n'] is None else s['n']} {1 if s['filt'] else 0}"
    if k == "data":
        return f"D {s['v']} {s['id']} {s['m']}"
    if k in ("*", "+", "&"):
        return f"{k} {smp_line(s['a'])} {smp_line(s['b'])}"
    if k == "T":
        return f"T {smp_line(s['s'])}"
    raise ValueError(k)


def case_line(case):
    return f"sample {case['k']} {common.lst(case['pvars'])} {smp_line(case['s'])}"


# ------------------------------------------------------------------------------------------
# building the real objects

def _fn_src(expr, deps):
    return f"lambda {', '.join(deps)}: {expr}"


def lb_expr(d, torch_mode=True):
    """source of the lower end of a tagging primitive as an expression in its deps"""
    terms = [repr(float(d["base"] + d["off"]))]
    for w in d["deps"]:
        terms.append(f"{d['coef'][w]!r}*{w}")
    return " + ".join(terms)


def lb_value(d, env):
    return d["base"] + d["off"] + sum(d["coef"][w] * env[w] for w in d["deps"])


def build_dom(tp, torch, d):
    k = d["k"]
    sp = tp.spaces
    if k == "I":
        X = sp.R1(d["v"])
        if d["deps"]:
            lo = eval(_fn_src(lb_expr(d), d["deps"]))
            hi = eval(_fn_src(lb_expr(d) + f" + {float(d['len'])!r}", d["deps"]))
        else:
            lo, hi = float(d["base"] + d["off"]), float(d["base"] + d["off"] + d["len"])
        dom = tp.domains.Interval(X, lo, hi)
    elif k == "C":
        Y = sp.R2(d["v"])
        r = d["len"] / 2.0
        if d["deps"]:
            w0 = d["deps"][0]
            c = eval(_fn_src(f"torch.cat([{lb_expr(d)} + {r!r}, 0.0*{w0}], dim=1)", d["deps"]), {"torch": torch})
        else:
            c = [float(d["base"] + d["off"] + r), 0.0]
        dom = tp.domains.Circle(Y, c, r)
    elif k in ("P", "T"):
        # axis-parallel rectangle / right triangle with the corners (lb,0), (lb+len,0), (lb,h): any aspect ratio h/len
        Y = sp.R2(d["v"])
        ln, h = float(d["len"]), float(d["h"])
        if d["deps"]:
            w0 = d["deps"][0]
            mk = lambda dx, dy: eval(_fn_src(f"torch.cat([{lb_expr(d)} + {dx!r}, 0.0*{w0} + {dy!r}], dim=1)", d["deps"]), {"torch": torch})
            corners = [mk(0.0, 0.0), mk(ln, 0.0), mk(0.0, h)]
        else:
            lb0 = float(d["base"] + d["off"])
            corners = [[lb0, 0.0], [lb0 + ln, 0.0], [lb0, h]]
        dom = (tp.domains.Parallelogram if k == "P" else tp.domains.Triangle)(Y, *corners)
    elif k == "S":
        Z = sp.R3(d["v"])
        r = d["len"] / 2.0
        if d["deps"]:
            w0 = d["deps"][0]
            c = eval(_fn_src(f"torch.cat([{lb_expr(d)} + {r!r}, 0.0*{w0}, 0.0*{w0}], dim=1)", d["deps"]), {"torch": torch})
        else:
            c = [float(d["base"] + d["off"] + r), 0.0, 0.0]
        dom = tp.domains.Sphere(Z, c, r)
    elif k in ("U", "-", "&"):
        a, b = build_dom(tp, torch, d["a"]), build_dom(tp, torch, d["b"])
        dom = a + b if k == "U" else (a - b if k == "-" else a & b)
    elif k == "X":
        dom = build_dom(tp, torch, d["a"]) * build_dom(tp, torch, d["b"])
    elif k == "Tr" and d["d"]["k"] == "X":
        # Translate of a (dependent) ProductDomain: one shift component per variable of the product
        inner = build_dom(tp, torch, d["d"])
        comps = [" + ".join(f"{d['coefv'][v][w]!r}*{w}" for w in d["deps"]) for v in dvars(d["d"])]
        f = eval(_fn_src(f"torch.cat([{', '.join(comps)}], dim=1)", d["deps"]), {"torch": torch})
        dom = tp.domains.Translate(inner, f)
    elif k == "Tr":
        inner = build_dom(tp, torch, d["d"])
        dim = PRIM_DIM[first_prim(d)["k"]]
        sh = " + ".join(f"{d['coef'][w]!r}*{w}" for w in d["deps"])
        if dim == 1:
            f = eval(_fn_src(sh, d["deps"]))
        else:
            zeros = ", ".join([f"0.0*{d['deps'][0]}"] * (dim - 1))
            f = eval(_fn_src(f"torch.cat([{sh}, {zeros}], dim=1)", d["deps"]), {"torch": torch})
        dom = tp.domains.Translate(inner, f)
    elif k == "Ro":
        inner = build_dom(tp, torch, d["d"])
        ang = eval(_fn_src(f"{math.pi!r}*{d['deps'][0]}", d["deps"]))
        dom = tp.domains.Rotate.from_angles(inner, ang)
    else:
        raise ValueError(k)
    if d.get("bd"):
        dom = dom.boundary
    return dom


def first_prim(d):
    while d["k"] not in PRIMS:
        d = d["a"] if "a" in d else d["d"]
    return d


def build_smp(tp, torch, s):
    k = s["k"]
    if k == "leaf":
        dom = build_dom(tp, torch, s["d"])
        filt = None
        if s["filt"]:
            v = first_prim(s["d"])["v"]
            filt = eval(f"lambda {v}: ({v}[:, :1]*4 - torch.floor({v}[:, :1]*4)) < {s.get('fp', 0.75)!r}", {"torch": torch})
        kind, n = s["kind"], s["n"]      # n = None: neither n_points nor a density (malformed stream)
        if kind == "at":
            return tp.samplers.AdaptiveThresholdRejectionSampler(dom, 0.4, n_points=n, filter_fn=filt)
        if kind == "ar":
            return tp.samplers.AdaptiveRandomRejectionSampler(dom, n_points=n, filter_fn=filt)
        if kind == "u":
            return tp.samplers.RandomUniformSampler(dom, n_points=n, filter_fn=filt)
        if kind == "g":
            return tp.samplers.GridSampler(dom, n_points=n, filter_fn=filt)
        if kind == "n":
            p = first_prim(s["d"])
            c = p["base"] + p["off"] + p["len"] / 2.0
            mean = [c] if p["k"] == "I" else [c, 0.0]
            form = s.get("mean_form", "list")
            mean = c if (form == "number" and p["k"] == "I") else (torch.tensor(mean) if form == "tensor" else mean)
            return tp.samplers.GaussianSampler(dom, n, mean=mean, std=p["len"])
        if kind == "l":
            return tp.samplers.LHSSampler(dom, n)
        if kind == "e":
            return tp.samplers.ExponentialIntervalSampler(dom, n, s.get("ex", 2.0))
        raise ValueError(kind)
    if k == "data":
        dt = torch.float64 if s.get("dt") == "float64" else torch.float32
        return tp.samplers.DataSampler({s["v"]: torch.tensor([[datum_value(s, j)] for j in range(s["m"])], dtype=dt).reshape(-1, 1)})
    if k == "*":
        return build_smp(tp, torch, s["a"]) * build_smp(tp, torch, s["b"])
    if k == "+":
        return build_smp(tp, torch, s["a"]) + build_smp(tp, torch, s["b"])
    if k == "&":
        return build_smp(tp, torch, s["a"]).append(build_smp(tp, torch, s["b"]))
    if k == "T":
        inner = build_smp(tp, torch, s["s"])
        return inner.make_static(s["r"]) if s.get("r") else inner.make_static()
    raise ValueError(k)


def datum_value(s, j):
    """stored datum j of a data leaf; float64 data are no float32 numbers"""
    return 0.5 + j + (2.0 ** -30 if s.get("dt") == "float64" else 0.0)


def build_params(tp, torch, case):
    if case["k"] == 0:
        return tp.spaces.Points.empty()
    sp = None
    for v in case["pvars"]:
        sp = tp.spaces.R1(v) if sp is None else sp * tp.spaces.R1(v)
    # float64 batches hold values that are no float32 numbers (i + 0.1): "carried unchanged" is then only possible
    # when the result keeps the precision
    dt = torch.float64 if case.get("pdtype") == "float64" else torch.float32
    return tp.spaces.Points(torch.tensor(case["pvals"], dtype=dt), sp)


# ------------------------------------------------------------------------------------------
# what the property promises, computed directly from the expression (independent of the Lean model)

def leaves_of(s):
    if s["k"] in ("leaf", "data"):
        return [s]
    if s["k"] == "T":
        return leaves_of(s["s"])
    return leaves_of(s["a"]) + leaves_of(s["b"])


def svars(s):
    k = s["k"]
    if k == "leaf":
        return dvars(s["d"])
    if k == "data":
        return [s["v"]]
    if k == "T":
        return svars(s["s"])
    if k == "+":
        return svars(s["a"])
    return svars(s["a"]) + svars(s["b"])


def dvars(d):
    if d["k"] in PRIMS:
        return [d["v"]]
    if d["k"] == "X":
        return dvars(d["a"]) + dvars(d["b"])
    return dvars(d["a"]) if "a" in d else dvars(d["d"])


def slen(s):
    k = s["k"]
    if k == "leaf":
        return s["n"]
    if k == "data":
        return s["m"]
    if k == "T":
        return slen(s["s"])
    if k == "*":
        return slen(s["a"]) * slen(s["b"])
    if k == "+":
        return slen(s["a"]) + slen(s["b"])
    return slen(s["a"])


def j_observable(s):
    """the index of a point is deterministic: plain grid on an interval, or stored data"""
    if s["k"] == "data":
        return True
    if s["kind"] == "e":   # the square root amplifies float32 rounding near the lower end: only at small magnitudes
        return s["d"]["k"] == "I" and not s["d"]["deps"]
    return s["kind"] == "g" and not s["filt"] and s["d"]["k"] == "I" and not s["d"].get("bd")


def promised(s, rows_in):
    """rows the property promises for `s` called with the parameter rows `rows_in`
    (each a tuple(cells..., pidx)); a cell = (var, leaf id, j or None)"""
    k = s["k"]
    if k in ("leaf", "data"):
        n = slen(s)
        out = []
        for r in (rows_in or [()]):
            for j in range(n):
                cells = []
                if k == "data":
                    cells.append((s["v"], "D%d" % s["id"], j))
                else:
                    for v, lid in dom_leaf_ids(s["d"]):
                        cells.append((v, "L%d" % lid, j if j_observable(s) else None))
                out.append(tuple(cells) + tuple(r))
        return out
    if k == "T":
        return promised(s["s"], rows_in)
    if k == "*":
        rb = promised(s["b"], rows_in)
        return None if rb is None else promised(s["a"], rb)
    if k == "+":
        ra, rb = promised(s["a"], rows_in), promised(s["b"], rows_in)
        return None if ra is None or rb is None else ra + rb
    if k == "&":
        ra, rb = promised(s["a"], rows_in), promised(s["b"], rows_in)
        if ra is None or rb is None or len(ra) != len(rb):
            return None
        nb = len(svars(s["b"]))
        na = len(svars(s["a"]))
        return [a[:na] + b[:nb] + a[na:] for a, b in zip(ra, rb)]
    raise ValueError(k)


def dom_leaf_ids(d):
    if d["k"] in PRIMS:
        return [(d["v"], d["id"])]
    if d["k"] == "X":
        return dom_leaf_ids(d["a"]) + dom_leaf_ids(d["b"])
    return dom_leaf_ids(d["a"]) if "a" in d else dom_leaf_ids(d["d"])


# ------------------------------------------------------------------------------------------
# decoding an implementation output

def node_extent(d, env):
    """[lo, hi] of the x-extent of a (non-product) domain node evaluated at env, before motions"""
    if d["k"] in PRIMS:
        lo = lb_value(d, env)
        return lo, lo + d["len"]
    if d["k"] in ("U", "-", "&"):
        a, b = node_extent(d["a"], env), node_extent(d["b"], env)
        return min(a[0], b[0]), max(a[1], b[1])
    raise ValueError(d["k"])


def cell_verdict(d, value, env):
    """is the point `value` (list of floats of one variable) a point of node d evaluated at env?
    returns (own: bool, moves: [(id, own)])  -- coarse on purpose: rows differ by > SPAN"""
    moves = []
    x = value[0]
    y = value[1] if len(value) > 1 else 0.0
    core = d
    while core["k"] in ("Tr", "Ro"):
        if core["k"] == "Tr":
            x -= sum(core["coef"][w] * env[w] for w in core["deps"])
        else:
            th = math.pi * env[core["deps"][0]]
            x, y = math.cos(th) * x + math.sin(th) * y, -math.sin(th) * x + math.cos(th) * y
        moves.append(core["id"])
        core = core["d"]
    lo, hi = node_extent(core, env)
    mag = max(1.0, abs(lo), abs(value[0]))
    tol = TOL + 4e-7 * mag * 8
    fp_ = first_prim(core)
    if fp_["k"] in ("P", "T"):
        h = fp_["h"]
        own = (lo - tol <= x <= hi + tol) and -tol - 1e-6 * h <= y <= h * (1 + 1e-6) + tol
    else:
        own = (lo - tol <= x <= hi + tol) and all(abs(c) <= (hi - lo) + tol for c in [y] + list(value[2:]))
    return own, moves, x - lo


def pre_env(node, env):
    """values of the row with the variables of a translated ProductDomain moved back (pre-image)"""
    if "pre" not in node:
        return env
    e = dict(env)
    for v, cm in node["pre"]:
        if v in e:
            e[v] = env[v] - sum(cm[w] * env[w] for w in node["deps"])
    return e


def decode(case, out_vars, dims, tensor, params_rows):
    """canonical rows of an implementation output"""
    s = case["s"]
    pvars = case["pvars"] if case["k"] else []
    by_var = {}
    for lf in leaves_of(s):
        if lf["k"] == "data":
            by_var.setdefault(lf["v"], []).append(("data", lf, None))
        else:
            for node in dom_factors(lf["d"]):
                by_var.setdefault(first_prim(node)["v"], []).append(("leaf", lf, node))
    rows = []
    for r in tensor:
        env, col = {}, 0
        vals = {}
        for v, dm in zip(out_vars, dims):
            vals[v] = r[col:col + dm]
            col += dm
            env[v] = vals[v][0]
        cells = []
        for v in out_vars:
            if v in pvars:
                continue
            cands = by_var.get(v, [])
            txt = None
            for kind, lf, node in cands:
                if kind == "data":
                    j = vals[v][0] - 0.5
                    jj = round(j)
                    if abs(j - jj) < 1e-3 and 0 <= jj < lf["m"]:
                        # stored data are handed out unchanged, bit for bit
                        txt = f"{v}:D{lf['id']}#{jj}" + ("" if vals[v][0] == datum_value(lf, jj) else ":changed")
                        break
                    continue
                own, moves, rel = cell_verdict(node, vals[v], pre_env(node, env))
                if own:
                    txt = cell_text(v, lf, node, True, moves, rel)
                    if lf["filt"] and first_prim(node)["v"] == first_prim(lf["d"])["v"]:
                        fr = vals[v][0] * 4 - math.floor(vals[v][0] * 4)
                        if not fr < lf.get("fp", 0.75) + 1e-6:
                            txt += ":rejected-by-filter"
                    break
            if txt is None:
                if cands and cands[0][0] == "leaf":
                    kind, lf, node = cands[0]
                    # made for another parameter row? then the leaf can still be identified
                    for kind2, lf2, node2 in cands:
                        if kind2 != "leaf":
                            continue
                        for prow in params_rows:
                            env2 = dict(env, **dict(zip(pvars, prow)))
                            if cell_verdict(node2, vals[v], pre_env(node2, env2))[0]:
                                kind, lf, node = kind2, lf2, node2
                                break
                        else:
                            continue
                        break
                    _, moves, rel = cell_verdict(node, vals[v], pre_env(node, env))
                    txt = cell_text(v, lf, node, False, moves, None)
                else:
                    txt = f"{v}:?"
            cells.append(txt)
        if pvars:
            pv = tuple(vals[v][0] for v in pvars if v in vals)
            idx = params_rows.index(pv) if pv in params_rows else "?"
            cells.append(f"@{idx}")
        rows.append(" ".join(cells))
    return rows


def dom_factors(d):
    """the non-product nodes of a domain, one per variable"""
    if d["k"] == "X":
        return dom_factors(d["a"]) + dom_factors(d["b"])
    if d["k"] == "Tr" and d["d"]["k"] == "X":
        # every factor is moved by its own component; the first factor was evaluated at the UNMOVED partner point
        pre = [(v, d["coefv"][v]) for v in dvars(d["d"])]
        return [dict(k="Tr", d=f, id=d["id"], deps=d["deps"], coef=d["coefv"][first_prim(f)["v"]], pre=pre)
                for f in dom_factors(d["d"])]
    return [d]


def cell_text(v, lf, node, own, moves, rel):
    p = first_prim(node)
    j = "_"
    if own and j_observable(lf) and rel is not None:
        n = lf["n"]
        u = min(max(rel / p["len"], 0.0), 1.0)
        if lf["kind"] == "e":   # exponent 2: points = x**2 ; exponent 1/2: points = 1 - x**2
            g = math.sqrt(u) if lf.get("ex", 2.0) > 1 else math.sqrt(max(0.0, 1.0 - u))
        else:
            g = u
        jf = g * (n + 1) - 1
        j = str(round(jf)) if abs(jf - round(jf)) < 0.3 else "?"
    flag = "own" if own else "other"
    t = f"{v}:L{p['id']}#{j}:{flag}"
    for m in reversed(moves):
        t += f":M{m}:{flag}"
    return t


def mask_model_rows(case, text):
    """bring the driver's reply to the observable form: indices of random points are not observable"""
    obs = {}
    for lf in leaves_of(case["s"]):
        if lf["k"] == "leaf":
            for v, lid in dom_leaf_ids(lf["d"]):
                obs[(v, lid)] = j_observable(lf)
    rows = []
    for row in text.split(" | "):
        cells = []
        for c in row.split(" "):
            if ":L" in c:
                head, rest = c.split("#", 1)
                v, l = head.split(":L")
                j, tail = rest.split(":", 1)
                if not obs.get((v, int(l)), False):
                    j = "_"
                c = f"{head}#{j}:{tail}"
            cells.append(c)
        rows.append(" ".join(cells))
    return rows


# ------------------------------------------------------------------------------------------
# running one case on the implementation

def static_intervals(s):
    """resample intervals of all static nodes (None = never resample)"""
    if s["k"] in ("leaf", "data"):
        return []
    if s["k"] == "T":
        return [s.get("r")] + static_intervals(s["s"])
    return static_intervals(s["a"]) + static_intervals(s["b"])


def n_calls(case):
    """length of the call history: 2 calls, or 3r+1 when a static node resamples every r calls"""
    rs = [r for r in static_intervals(case["s"]) if r]
    return max([4 if is_adaptive(case) else 2] + [3 * r + 1 for r in rs])


def is_adaptive(case):
    return case["s"]["k"] == "leaf" and case["s"]["kind"] in ("at", "ar")


def run_impl(case):
    tp = common.use_repo()
    import torch
    torch.manual_seed(case.get("tseed", 0))
    res = dict(problems=[], calls=[], lens=[])
    old = signal.signal(signal.SIGALRM, _alarm)
    signal.alarm(CALL_BUDGET_S)
    pts_all = []
    try:
        with contextlib.redirect_stdout(io.StringIO()) as so:
            smp = build_smp(tp, torch, case["s"])
            params = build_params(tp, torch, case)
            try:
                res["len_before"] = int(len(smp))
            except Exception as e:  # noqa
                res["len_before"] = f"raises {type(e).__name__}"
            for c in range(n_calls(case)):
                res["failed_call"] = c + 1
                if is_adaptive(case):
                    # driven like a condition does: the (non-monotone) loss of the previous points, from call 2 on
                    loss = None if c == 0 else torch.rand(len(pts_all[-1]))
                    pts_all.append(smp.sample_points(loss, params=params))
                else:
                    pts_all.append(smp.sample_points(params))
                res["lens"].append(int(len(smp)))
            res.pop("failed_call")
        if so.getvalue().strip():
            res["stdout"] = so.getvalue()[:200]
    except CallTimeout:
        res["error"] = f"call {res.get('failed_call')} of sample_points did not return within {CALL_BUDGET_S} s"
        return res
    except Exception as e:  # noqa
        res["error"] = f"call {res.get('failed_call')}: {type(e).__name__}: {str(e)[:160]}"
        return res
    finally:
        signal.alarm(0)
        signal.signal(signal.SIGALRM, old)
    for c, p in enumerate(pts_all):
        t = p.as_tensor
        if t.dim() != 2:
            res["error"] = f"call {c + 1}: sample_points returned a tensor of shape {tuple(t.shape)}"
            return res
        out_vars = list(p.space.keys())
        dims = [p.space[v] for v in out_vars]
        res["calls"].append((out_vars, dims, t.tolist()))
        res.setdefault("dtypes", []).append(str(t.dtype))
    res["vars"], res["dims"], res["rows_raw"] = res["calls"][0]
    res["same_as_previous"] = [None] + [
        bool(a.as_tensor.shape == b.as_tensor.shape and (a.as_tensor == b.as_tensor).all())
        for a, b in zip(pts_all, pts_all[1:])]
    return res


def giveup_plausible(case):
    """can 20 rejection rounds of one parameter row stay empty? (the filters accept the fraction fp of every tagging domain,
    which are unions of whole periods of the filter)"""
    for lf in leaves_of(case["s"]):
        if lf["k"] == "leaf" and lf["filt"] and (1.0 - lf.get("fp", 0.75)) ** (20 * lf["n"]) >= 1e-9:
            return True
    return False


def wants_float64(case):
    return (case["k"] > 0 and case.get("pdtype") == "float64") or any(
        lf["k"] == "data" and lf.get("dt") == "float64" for lf in leaves_of(case["s"]))


def oracles(case, res):
    """direct evaluation of the property on the implementation's output; returns a list of failures"""
    fails = []
    s, k = case["s"], case["k"]
    prows = [tuple(float(x) for x in r) for r in case["pvals"]] if k else []
    want = promised(s, [(("@", i),) for i in range(k)] if k else [])
    if want is None:
        return fails  # append of unequal samples is outside the contract (the code raises)
    if "error" in res:
        if "could not find a single" in res["error"]:
            if giveup_plausible(case):
                return fails    # documented outcome of a filter that accepted nothing in 20 rounds
            return [f"sample_points with {case['k']} parameter rows gave up ({res['error'][:90]}) although, with the acceptance "
                    "rate of its filters and its n, 20 rounds of one row without a single accepted proposal have probability < 1e-9 "
                    "(rounds of other parameter rows must not count)"]
        return [f"sample_points with {case['k']} parameter rows failed: {res['error']}"]
    per_param = slen(s)
    exp_vars = svars(s) + (case["pvars"] if k else [])
    for cno, (vars_, dims, raw) in enumerate(res["calls"], 1):
        tag = f"call {cno} of {len(res['calls'])}: "
        if len(raw) != per_param * max(1, k):
            fails.append(f"{tag}{len(raw)} rows returned, the sampler was asked for {per_param} points for each of "
                         f"{k} parameter rows ({per_param * max(1, k)} rows)")
            continue
        if vars_ != exp_vars:
            fails.append(f"{tag}space of the result is {vars_}, expected {exp_vars}")
            continue
        if wants_float64(case) and res["dtypes"][cno - 1] != "torch.float64":
            fails.append(f"{tag}the result has dtype {res['dtypes'][cno - 1]} although float64 parameter rows / data went in: "
                         "their values cannot be carried unchanged")
            continue
        dec = decode(case, vars_, dims, raw, prows)
        for r, (row, w) in enumerate(zip(dec, want)):
            cells = row.split(" ")
            if k:
                i = r // per_param if s["k"] != "+" else None
                if cells[-1] == "@?":
                    fails.append(f"{tag}row {r} carries parameter values that are no row of the given parameters")
                    break
                if cells[-1] != f"@{w[-1][1]}":
                    fails.append(f"{tag}row {r} carries parameter row {cells[-1][1:]}, expected row {w[-1][1]}"
                                 + (f" (rows {i}*{per_param}..)" if i is not None else ""))
                    break
                cells = cells[:-1]
            rej = [c for c in cells if c.endswith(":rejected-by-filter")]
            if rej:
                fails.append(f"{tag}row {r}: point {rej[0]} does not pass the filter_fn of its sampler")
                break
            chg = [c for c in cells if c.endswith(":changed")]
            if chg:
                fails.append(f"{tag}row {r}: stored datum {chg[0]} of the data sampler was changed")
                break
            bad = [c for c in cells if "other" in c or c.endswith(":?")]
            if bad:
                fails.append(f"{tag}row {r}: point {bad[0]} was not made for the parameter/partner row it is paired with")
                break
            wj = [(v, lid, j) for (v, lid, j) in w[:len(cells)]]
            for c, (v, lid, j) in zip(cells, wj):
                if j is None:
                    continue
                got = c.split("#")[1].split(":")[0]
                head = c.split("#")[0]
                exp_head = f"{v}:{lid}"
                if head != exp_head or got != str(j):
                    fails.append(f"{tag}row {r}: expected point {j} of the grid/data of {exp_head}, found {c} "
                                 f"(a product pairs every partner point with the complete sample)")
                    break
            else:
                continue
            break
    # length book-keeping
    if isinstance(res.get("len_before"), int) and res["len_before"] != per_param:
        fails.append(f"len(sampler) = {res['len_before']} before the first call, a parameter-free call returns {per_param} rows")
    if k == 0:
        for cno, (ln, call) in enumerate(zip(res["lens"], res["calls"]), 1):
            if ln != len(call[2]):
                fails.append(f"len(sampler) = {ln} after parameter-free call {cno} that returned {len(call[2])} rows")
                break
    if s["k"] == "T":
        # a static sampler hands out the saved points again, except in the calls in which it resamples
        # (calls 1, r+1, 2r+1, ... for resample_interval r)
        r = s.get("r")
        for cno, same in enumerate(res["same_as_previous"], 1):
            resamples = r is not None and (cno - 1) % r == 0
            if same is False and not resamples:
                fails.append(f"static sampler (resample_interval {r}) returned different points in call {cno}")
                break
    return fails


# ------------------------------------------------------------------------------------------
# generator

SAMPLED = ["x", "u", "s", "w", "z", "y", "v", "q"]


class Gen:
    def __init__(self, rng):
        self.rng = rng
        self.nid = 0
        self.n_choices = [1, 1, 2, 2, 3, 4, 5, 6, 9, 17, 24]

    def new_id(self):
        self.nid += 1
        return self.nid

    def prim(self, v, avail, small, kind="I", dep_p=0.6):
        rng = self.rng
        deps = [w for w in avail if rng.random() < dep_p]
        coef = {w: (COEF[w] if w in COEF else PARTNER_COEF) for w in deps}
        return dict(k=kind, v=v, id=self.new_id(), deps=deps, coef=coef, base=float(4 * rng.randint(0, 5)), off=0.0,
                    len=1.0)

    def dom(self, v, avail, allow_prod_with=None, kind="u"):
        """a domain in variable v; avail: dict var -> True if usable as dependency"""
        rng = self.rng
        names = [w for w in avail]
        c = rng.random()
        two_d = kind in ("u", "l", "g") and rng.random() < 0.22
        pk = rng.choice(["C", "C", "P", "P", "T", "S"]) if two_d else "I"
        p = self.prim(v, names, None, pk)
        if pk in ("P", "T"):
            # aspect ratios h/len from 1e-3 to 1e6 (thin in either direction)
            p["len"] = rng.choice([1.0, 1.0, 0.25, 0.001])
            p["h"] = rng.choice([1.0, 1.0, 4.0, 40.0, 1000.0, 1.0e6, 0.02, 0.001]) * (p["len"] if rng.random() < 0.5 else 1.0)
            if p["len"] < 0.25:
                # a width of 1e-3 is only a float32 number near the origin: such shapes do not depend on parameters
                # (at 1024*t the corners would collapse: a degenerate shape, not a library defect)
                p["deps"], p["coef"] = [], {}
        if kind in ("e",):
            return p
        if kind == "n":  # Gaussian proposals must hit the domain: parameter-free interval
            p["deps"], p["coef"] = [], {}
            return p
        d = p
        if c < 0.25 and not two_d:
            q = dict(p, off=rng.choice([0.25, 0.5]), len=rng.choice([0.5, 1.0]))
            op = rng.choice(["U", "-", "&"])
            if op == "-":
                q = dict(q, off=0.25, len=0.5)
            d = dict(k=op, a=p, b=q)
            if kind == "u" and rng.random() < 0.3:
                d["bd"] = True
        elif c < 0.35 and kind == "u" and not two_d and rng.random() < 0.5:
            p["bd"] = True
        ext = [w for w in names if w in COEF]
        if ext and rng.random() < 0.3 and kind in ("u", "g", "l") and not d.get("bd"):
            mdeps = [w for w in ext if rng.random() < 0.7] or ext[:1]
            if two_d and pk == "C" and rng.random() < 0.5:
                d = dict(k="Ro", d=d, id=self.new_id(), deps=mdeps[:1], coef={})
            else:
                # the motion uses its own scale so that motion and inner tag stay apart
                d = dict(k="Tr", d=d, id=self.new_id(), deps=mdeps, coef={w: MOTION_COEF[w] for w in mdeps})
        return d

    def leaf(self, vpool, avail, n=None):
        rng = self.rng
        kind = rng.choice(["u", "u", "u", "g", "g", "l", "n", "e"])
        v = vpool.pop(0)
        d = self.dom(v, avail, kind=kind)
        filt = kind in ("u", "g") and rng.random() < 0.25 and first_prim(d)["k"] == "I" and not has_bd(d)
        if kind == "u" and rng.random() < 0.15 and len(vpool) >= 1 and d["k"] == "I" and not d.get("bd"):
            # product domain: v depends on a fresh partner variable w sampled in a small interval
            w = vpool.pop(0)
            bdom = dict(k="I", v=w, id=self.new_id(), deps=[x for x in avail if x in COEF and rng.random() < 0.4], coef={},
                        base=0.0, off=0.0, len=1.0)
            bdom["coef"] = {x: COEF[x] for x in bdom["deps"]}
            small_b = not bdom["deps"]
            if small_b and rng.random() < 0.7:
                d["deps"] = d["deps"] + [w]
                d["coef"] = dict(d["coef"], **{w: PARTNER_COEF})
            d = dict(k="X", a=d, b=bdom)
            filt = False
            ext = [x for x in avail if x in COEF]
            if ext and rng.random() < 0.35:
                mdeps = [x for x in ext if rng.random() < 0.7] or ext[:1]
                d = dict(k="Tr", d=d, id=self.new_id(), deps=mdeps, coef={},
                         coefv={v: {x: MOTION_COEF[x] for x in mdeps}, w: {x: MOTION_COEF_B[x] for x in mdeps}})
        n = n or rng.choice(self.n_choices)
        if filt:
            n = min(n, 6)
        lf = dict(k="leaf", kind=kind, d=d, n=n, filt=filt)
        if kind == "e" and rng.random() < 0.5:
            lf["ex"] = 0.5
        if kind == "n":
            lf["mean_form"] = rng.choice(["list", "number", "tensor"])
        if filt and rng.random() < 0.3:
            lf["fp"] = 0.3
        return lf

    def maybe_static(self, node, p=0.15):
        """static nodes (also with a finite resample interval) at every position of the expression"""
        if self.rng.random() < p:
            return dict(k="T", s=node, r=self.rng.choice([None, None, 1, 2, 2, 3]))
        return node

    def smp(self, depth, vpool, avail, changing=False):
        return self.maybe_static(self._smp(depth, vpool, avail, changing))

    def _smp(self, depth, vpool, avail, changing=False):
        """changing: the expression is (part of) the first factor of a product, i.e. it is handed other
        parameter rows in every call"""
        rng = self.rng
        c = rng.random()
        if depth == 0 or c < 0.30 or len(vpool) < 2:
            if rng.random() < 0.12 and vpool:
                return dict(k="data", v=vpool.pop(0), id=self.new_id(), m=rng.choice([1, 2, 3, 5]))
            return self.leaf(vpool, avail)
        if c < 0.62:
            b = self.smp(depth - 1, vpool, avail, changing)
            av = dict(avail)
            for lf in leaves_of(b):
                # a partner variable may be used as a dependency when its values are small
                if lf["k"] == "leaf" and lf["d"]["k"] == "I" and not lf["d"]["deps"] and lf["d"]["base"] <= 4 and not lf["d"].get("bd"):
                    av[lf["d"]["v"]] = True
            a = self.smp(depth - 1, vpool, av, True)
            return dict(k="*", a=a, b=b)
        if c < 0.78:
            a = self.leaf(vpool, avail)
            b = json.loads(json.dumps(a))
            b["kind"] = rng.choice(["u", "g"]) if a["kind"] not in ("n", "e") else a["kind"]
            if b["kind"] == "g" and (has_kind(b["d"], "X") or has_bd(b["d"])):
                b["kind"] = a["kind"]
            b["filt"] = False if b["kind"] != a["kind"] else a["filt"]
            b["n"] = rng.choice([1, 2, 3, 5])
            shift_ids(b["d"], self, 3.0)
            return dict(k="+", a=self.maybe_static(a), b=self.maybe_static(b))
        if c < 0.94:
            n = rng.choice([1, 2, 3, 5])
            a = self.leaf(vpool, avail, n=n)
            if not vpool:
                return a
            b = self.leaf(vpool, avail, n=n if rng.random() < 0.93 else n + 1) if rng.random() < 0.8 else \
                dict(k="data", v=vpool.pop(0), id=self.new_id(), m=n)
            # a static operand hands out its saved rows (with the parameter rows saved with them): column-stacking
            # them with a fresh sample is only meaningful when every call gets the same parameter rows
            p = 0.0 if changing else 0.15
            return dict(k="&", a=self.maybe_static(a, p), b=self.maybe_static(b, p))
        return dict(k="T", s=self.smp(depth - 1, vpool, avail, changing), r=rng.choice([None, 1, 2, 3]))


def has_bd(d):
    if d.get("bd"):
        return True
    return any(has_bd(d[x]) for x in ("a", "b", "d") if x in d)


def has_kind(d, k):
    if d["k"] == k:
        return True
    return any(has_kind(d[x], k) for x in ("a", "b", "d") if x in d)


def shift_ids(d, gen, dbase):
    """a sibling of a domain for `+`: same variables and dependencies, new ids, shifted by dbase"""
    if d["k"] in PRIMS:
        d["id"] = gen.new_id()
        d["base"] = d["base"] + dbase
        return
    if d["k"] in ("U", "-", "&"):
        shift_ids(d["a"], gen, dbase)
        d["b"]["id"] = d["a"]["id"]
        d["b"]["base"] = d["a"]["base"]
        return
    if d["k"] == "X":
        shift_ids(d["a"], gen, dbase)
        shift_ids(d["b"], gen, dbase)
        return
    d["id"] = gen.new_id()
    shift_ids(d["d"], gen, dbase)


def fix_bool_ids(d):
    if d["k"] in ("U", "-", "&"):
        d["b"]["id"] = d["a"]["id"]
    for x in ("a", "b", "d"):
        if x in d:
            fix_bool_ids(d[x])


def all_doms(s):
    return [lf["d"] for lf in leaves_of(s) if lf["k"] == "leaf"]


def needs_ext(s):
    out = set()

    def walk(d):
        for w in d.get("deps", []):
            if w in COEF:
                out.add(w)
        for x in ("a", "b", "d"):
            if x in d:
                walk(d[x])
    for d in all_doms(s):
        walk(d)
    return out


def gen_case(rng, idx):
    g = Gen(rng)
    k = rng.choice([0, 0, 1, 1, 2, 2, 3, 3, 5, 7, 7, 20, 33])
    pvars = [] if k == 0 else rng.choice([["t"], ["t"], ["t", "D"], ["D"]])
    if k > 8:
        pvars = ["t"]          # distinct values 1..40 keep the tags inside float32 resolution
        g.n_choices = [1, 1, 2, 3]
    avail = {w: True for w in pvars}
    vpool = list(SAMPLED)
    rng.shuffle(vpool)
    try:
        s = g.smp(rng.choice([0, 1, 1, 2, 2, 2, 3, 3]), vpool, avail)
    except IndexError:      # the expression needs more variable names than the pool has: draw another one
        return None
    for d in all_doms(s):
        fix_bool_ids(d)
    pvals, pdtype = [], "float32"
    if k:
        pdtype = rng.choice(["float32", "float32", "float64"])
        frac = 0.1 if pdtype == "float64" else 0.0
        cols = [rng.sample(range(1, 9 if k <= 8 else 41), k) for _ in pvars]
        pvals = [[float(c[i]) + frac for c in cols] for i in range(k)]
    for lf in leaves_of(s):
        if lf["k"] == "data" and rng.random() < 0.35:
            lf["dt"] = "float64"
    return dict(kind="sample", k=k, pvars=pvars, pvals=pvals, pdtype=pdtype, s=s, tseed=rng.randint(0, 10 ** 6))


def gen_special(rng):
    """the least exercised corners: adaptive rejection samplers (driven with losses), very selective filters
    (hundreds of rejection rounds), grid fill-up under a selective filter"""
    g = Gen(rng)
    what = rng.choice(["adaptive", "adaptive", "adaptive-filter", "low-acceptance", "low-acceptance", "grid-fill-up"])
    k = rng.choice([0, 1, 2, 2, 3, 5])
    pvars = [] if k == 0 else rng.choice([["t"], ["t", "D"], ["D"]])
    vpool = list(SAMPLED)
    rng.shuffle(vpool)
    if what.startswith("adaptive"):
        lf = dict(k="leaf", kind=rng.choice(["at", "ar"]), d=g.dom(vpool[0], {w: True for w in pvars}, kind="u"),
                  n=rng.choice([1, 2, 3, 5, 6, 9]), filt=False)
        if what == "adaptive-filter" and first_prim(lf["d"])["k"] == "I" and not has_bd(lf["d"]):
            lf["filt"] = True
            lf["n"] = min(lf["n"], 6)
    else:
        kind = "g" if what == "grid-fill-up" else rng.choice(["u", "u", "at"])
        fp = rng.choice([0.02, 0.004])
        n = rng.choice([20, 60]) if fp == 0.02 else rng.choice([100, 250])
        if kind == "g":
            n = min(n, 60)
        k = rng.choice([0, 1, 2]) if n * 2 <= 400 else rng.choice([0, 1])
        pvars = [] if k == 0 else ["t"]
        d = simple_leaf(g, vpool[0], "u", (), n)["d"]     # parameter-free: small magnitudes, the filter band is resolved
        d["base"] = float(4 * rng.randint(0, 5))
        lf = dict(k="leaf", kind=kind, d=d, n=n, filt=True, fp=fp)
    pvals, pdtype = [], "float32"
    if k:
        pdtype = rng.choice(["float32", "float64"])
        frac = 0.1 if pdtype == "float64" else 0.0
        cols = [rng.sample(range(1, 9), k) for _ in pvars]
        pvals = [[float(c[i]) + frac for c in cols] for i in range(k)]
    return dict(kind="sample", special=what, k=k, pvars=pvars, pvals=pvals, pdtype=pdtype, s=lf, tseed=rng.randint(0, 10 ** 6))


def gen_cross(rng):
    """feature interactions: every leaf kind x filter x MANY parameter rows (>= 20: explicit rows, or the first factor of a
    product with a grid / data / random partner of >= 20 points) x small n x kind of domain node"""
    g = Gen(rng)
    g.n_choices = [1, 1, 2, 3]
    kind = rng.choice(["u", "u", "u", "g", "g", "n", "l", "e", "at", "ar"])
    source = "explicit" if kind in ("at", "ar") else rng.choice(["explicit", "grid-partner", "data-partner", "random-partner"])
    k = rng.choice([20, 26, 33]) if source == "explicit" else rng.choice([0, 1, 2])
    pvars = ["t"] if k else []
    vpool = list(SAMPLED)
    rng.shuffle(vpool)
    avail = {w: True for w in pvars}
    partner = None
    if source != "explicit":
        m = rng.choice([20, 24, 31])
        w = vpool.pop(0)
        if source == "data-partner":
            partner = dict(k="data", v=w, id=g.new_id(), m=m)
        else:
            partner = simple_leaf(g, w, "g" if source == "grid-partner" else "u", (), m)
            avail[w] = True
    v = vpool.pop(0)
    d = g.dom(v, avail, kind="u" if kind in ("at", "ar") else kind)
    filt = kind in ("u", "g", "at", "ar") and rng.random() < 0.6 and first_prim(d)["k"] == "I" and not has_bd(d)
    if kind == "g" and has_bd(d):
        kind = "u"
    lf = dict(k="leaf", kind=kind, d=d, n=rng.choice([1, 1, 2, 3]), filt=filt)
    if filt:
        lf["fp"] = rng.choice([0.75, 0.3])
    if kind == "e" and rng.random() < 0.5:
        lf["ex"] = 0.5
    s = lf if partner is None else dict(k="*", a=g.maybe_static(lf, 0.1), b=partner)
    fix_bool_ids(d)
    pvals, pdtype = [], "float32"
    if k:
        pdtype = rng.choice(["float32", "float64"])
        frac = 0.1 if pdtype == "float64" else 0.0
        vals = rng.sample(range(1, 41), k)
        pvals = [[float(x) + frac] for x in vals]
    return dict(kind="sample", special="cross:" + source, k=k, pvars=pvars, pvals=pvals, pdtype=pdtype, s=s,
                tseed=rng.randint(0, 10 ** 6))


def gen_shape(rng):
    """size / shape extremes: every primitive (interval, circle, parallelogram, triangle, sphere) with aspect ratios up to
    1e6 in either direction, crossed with very small n (1, 2, 3, 5), for grid / uniform / LHS samplers, alone and inside
    every composition (product with a partner, append, sum, static with a finite interval), with and without parameter rows"""
    g = Gen(rng)
    kind = rng.choice(["g", "g", "g", "u", "l"])
    k = rng.choice([0, 0, 1, 3])
    pvars = ["t"] if k else []
    pk = rng.choice(["P", "P", "P", "T", "T", "C", "S", "I"])
    vpool = list(SAMPLED)
    rng.shuffle(vpool)
    v = vpool.pop(0)
    p = g.prim(v, pvars, None, pk)
    if pk in ("P", "T"):
        ratio = rng.choice([1.0, 2.0, 4.0, 7.0, 40.0, 1000.0, 1.0e6])
        if rng.random() < 0.5:
            p["len"], p["h"] = 1.0, ratio              # tall
        else:
            p["len"], p["h"] = 1.0, 1.0 / ratio        # flat
        if rng.random() < 0.25:
            p["len"], p["h"], p["deps"], p["coef"] = 0.001, 0.001 * ratio, [], {}
    n = rng.choice([1, 1, 2, 2, 3, 5])
    lf = dict(k="leaf", kind=kind, d=p, n=n, filt=False)
    comp = rng.choice(["alone", "alone", "product", "product", "append", "sum", "static"])
    s = lf
    if comp == "product":
        s = dict(k="*", a=lf, b=simple_leaf(g, vpool.pop(0), rng.choice(["g", "u"]), (), rng.choice([1, 3])))
    elif comp == "append":
        s = dict(k="&", a=lf, b=dict(k="data", v=vpool.pop(0), id=g.new_id(), m=n))
    elif comp == "sum":
        b = json.loads(json.dumps(lf)); b["n"] = rng.choice([1, 2, 3]); shift_ids(b["d"], g, 3.0)
        s = dict(k="+", a=lf, b=b)
    elif comp == "static":
        s = dict(k="T", s=lf, r=rng.choice([None, 2]))
    pvals, pdtype = [], "float32"
    if k:
        pdtype = rng.choice(["float32", "float64"])
        frac = 0.1 if pdtype == "float64" else 0.0
        pvals = [[float(x) + frac] for x in rng.sample(range(1, 9), k)]
    return dict(kind="sample", special="shape:" + comp, k=k, pvars=pvars, pvals=pvals, pdtype=pdtype, s=s,
                tseed=rng.randint(0, 10 ** 6))


def rows_handed(s, kin):
    """[(leaf, number of parameter rows it is called with)]"""
    if s["k"] in ("leaf", "data"):
        return [(s, kin)]
    if s["k"] == "T":
        return rows_handed(s["s"], kin)
    if s["k"] == "*":
        return rows_handed(s["b"], kin) + rows_handed(s["a"], slen(s["b"]) * max(1, kin))
    return rows_handed(s["a"], kin) + rows_handed(s["b"], kin)


def total_rows(case):
    return slen(case["s"]) * max(1, case["k"])


def gen_cases(ctx):
    rng = ctx.rng
    cases, i = [], 0
    want = ctx.scale(560, 5600)
    while len(cases) < want:
        i += 1
        c = gen_case(rng, i)
        if c is None or total_rows(c) > 400:
            continue
        cases.append(c)
    special = []
    while len(special) < ctx.scale(70, 700):
        c = gen_special(rng)
        if total_rows(c) <= 520:
            special.append(c)
    while len(special) < ctx.scale(70, 700) + ctx.scale(90, 900):
        c = gen_cross(rng)
        if total_rows(c) <= 400:
            special.append(c)
    shape = [gen_shape(rng) for _ in range(ctx.scale(70, 700))]
    return cases + special + shape + finding_probes(rng)


# ------------------------------------------------------------------------------------------
# malformed stream: inputs the code rejects (or treats specially); only accept/reject and the row count are
# compared with the model, the property oracles are never applied to them

def simple_leaf(g, v, kind="u", deps=(), n=2, filt=False):
    d = dict(k="I", v=v, id=g.new_id(), deps=list(deps), coef={w: COEF[w] for w in deps}, base=0.0, off=0.0, len=1.0)
    return dict(k="leaf", kind=kind, d=d, n=n, filt=filt)


def gen_malformed(rng):
    g = Gen(rng)
    what = rng.choice(["n0", "n0-gauss", "no-count", "missing-param", "overlap", "sum-spaces", "grid-on-product",
                       "exp-on-circle", "append-unequal", "append-overlap", "product-overlap", "empty-data"])
    k = rng.choice([0, 1, 2, 3])
    pvars = [] if k == 0 else rng.choice([["t"], ["t", "D"], ["D"]])
    kind = rng.choice(["u", "g", "l", "e"])
    filt = kind in ("u", "g") and rng.random() < 0.3
    deps = [w for w in pvars if rng.random() < 0.5]
    if what == "n0":
        s = simple_leaf(g, "x", kind, deps, 0, filt)
    elif what == "n0-gauss":
        s = simple_leaf(g, "x", "n", (), 0)
    elif what == "no-count":
        s = simple_leaf(g, "x", rng.choice(["u", "g"]), deps, None)
    elif what == "missing-param":
        need = rng.choice(["t", "D"])
        pvars = [w for w in pvars if w != need]
        k = k if pvars else 0
        s = simple_leaf(g, "x", kind, [need] + [w for w in deps if w != need], rng.choice([1, 3]), filt)
        s["d"]["coef"] = {w: COEF[w] for w in s["d"]["deps"]}
        if rng.random() < 0.5:
            s = dict(k="*", a=s, b=simple_leaf(g, "u", "g", (), 2))
    elif what == "overlap":
        k, pvars = max(k, 1), ["t"]
        s = simple_leaf(g, "t", kind, (), 2, filt)
    elif what == "sum-spaces":
        s = dict(k="+", a=simple_leaf(g, "x", "u", deps, 2), b=simple_leaf(g, "u", "g", deps, 3))
    elif what == "grid-on-product":
        a, b = simple_leaf(g, "x", "u", deps, 2), simple_leaf(g, "u", "u", (), 2)
        s = dict(k="leaf", kind="g", d=dict(k="X", a=a["d"], b=b["d"]), n=3, filt=False)
    elif what == "exp-on-circle":
        s = simple_leaf(g, "x", "e", deps, 3)
        s["d"]["k"] = "C"
    elif what == "append-unequal":
        s = dict(k="&", a=simple_leaf(g, "x", "u", deps, 2), b=simple_leaf(g, "u", "g", deps, 3))
    elif what == "append-overlap":
        s = dict(k="&", a=simple_leaf(g, "x", "u", deps, 2), b=simple_leaf(g, "x", "g", deps, 2))
    elif what == "product-overlap":
        s = dict(k="*", a=simple_leaf(g, "x", "u", deps, 2), b=simple_leaf(g, "x", "g", (), 2))
    else:
        s = dict(k="data", v="u", id=g.new_id(), m=0)
    pvals = []
    if k:
        cols = [rng.sample(range(1, 9), k) for _ in pvars]
        pvals = [[float(c[i]) for c in cols] for i in range(k)]
    return dict(kind="malformed", what=what, k=k, pvars=pvars, pvals=pvals, s=s, tseed=rng.randint(0, 10 ** 6))


def judge_malformed(rep, case, res, reply):
    rep.count("malformed:" + case["what"])
    impl = "reject" if "error" in res else f"accept rows={[len(c[2]) for c in res['calls']]}"
    if reply.startswith("ok "):
        n = int(reply.split("rows=")[1].split(" ")[0])
        model = f"accept rows={[n] * len(res.get('calls', [0, 0]))}"
    elif reply.startswith("err:"):
        model = "reject"
    else:
        model = reply
    rep.count("malformed-outcome:" + impl.split(" ")[0])
    if impl != model:
        rep.disagree("malformed stream: drivers/C02.lean accept/reject vs the real sampler expression",
                     dict(case=case, text=case["what"] + ": " + describe(case)), impl + " " + res.get("error", ""), reply[:300])



# ------------------------------------------------------------------------------------------
# small public-API corners of the anchored files that are no sampler expressions: EmptySampler, iteration protocol,
# set_length / len of density samplers, DataSampler from a Points object and with extra batch axes.
# Oracle only (direct evaluation of the property's statements), no model.

def api_check(name, seed):
    tp = common.use_repo()
    import torch
    import random as _random
    rng = _random.Random(f"api:{name}:{seed}")
    torch.manual_seed(rng.randint(0, 10 ** 6))
    S, D, sp = tp.samplers, tp.domains, tp.spaces
    Points = sp.Points
    X, T, U = sp.R1("x"), sp.R1("t"), sp.R1("u")
    n, k = rng.choice([1, 2, 3, 5]), rng.choice([1, 2, 3])
    tvals = [float(v) + 0.1 for v in rng.sample(range(1, 9), k)]
    P = Points(torch.tensor(tvals, dtype=torch.float64).reshape(-1, 1), T)
    tag = D.Interval(X, lambda t: 1024.0 * t, lambda t: 1024.0 * t + 1)
    fails = []

    def rows_ok(p, per, what, params=P, own=True):
        t = p.as_tensor
        kk = len(params)
        if t.dim() != 2 or t.shape[0] != per * max(1, kk):
            fails.append(f"{what}: shape {tuple(t.shape)}, expected {per * max(1, kk)} rows")
            return
        if kk:
            want = torch.repeat_interleave(params.as_tensor, per, dim=0)
            if t.dtype != want.dtype or not torch.equal(t[:, -want.shape[1]:], want):
                fails.append(f"{what}: rows i*{per}..(i+1)*{per}-1 do not carry parameter row i unchanged")
            elif own and not bool(((t[:, 0] >= 1024.0 * t[:, -1] - 0.05) & (t[:, 0] <= 1024.0 * t[:, -1] + 1.05)).all()):
                fails.append(f"{what}: a point was not made for the parameter row it is joined with")

    if name == "empty":
        e = S.PointSampler.empty()
        if len(e) != 0 or not e.sample_points().isempty or not e.sample_points(P).isempty:
            fails.append("PointSampler.empty(): len != 0 or a non-empty sample")
        a = S.RandomUniformSampler(tag, n)
        for smp, what in ((a + e, "a + empty"), (e + a, "empty + a")):
            if len(smp) != n:
                fails.append(f"len({what}) = {len(smp)}, a has {n} points")
            for _ in range(2):
                rows_ok(smp.sample_points(P), n, what)
    elif name == "iteration":
        a = S.GridSampler(D.Interval(X, 0, 1), n)
        it = iter(a)
        for _ in range(2):
            p = next(it)
            if len(p) != n or len(a) != n:
                fails.append(f"next(iter(sampler)) returned {len(p)} rows, len(sampler) = {len(a)}, n = {n}")
        st = (S.RandomUniformSampler(D.Interval(X, 0, 1), n) * S.GridSampler(D.Interval(U, 0, 1), 2)).make_static()
        p1, p2 = next(st), next(st)
        if len(p1) != 2 * n or not torch.equal(p1.as_tensor, p2.as_tensor) or len(st) != 2 * n:
            fails.append(f"next(static product): {len(p1)} rows / different points / len = {len(st)}, expected {2 * n}")
    elif name == "density-len":
        d = rng.choice([3.7, 10.0])
        for cls in (S.RandomUniformSampler, S.GridSampler):
            a = cls(D.Interval(X, 0, 2), density=d)
            try:
                len(a)
                fails.append(f"{cls.__name__}(density): len known before the first call")
            except ValueError:
                pass
            p = a.sample_points()
            if len(a) != len(p):
                fails.append(f"{cls.__name__}(density={d}): len(sampler) = {len(a)} after a parameter-free call that returned {len(p)} rows")
            per = len(p)
            rows_ok(a.sample_points(P), per, f"{cls.__name__}(density={d}) with {k} parameter rows", own=False)
            b = cls(tag, density=d)        # parameter-dependent domain: one loop pass per row
            q = b.sample_points(P)
            if len(q) % k != 0:
                fails.append(f"{cls.__name__}(density) on a parameter-dependent domain: {len(q)} rows for {k} rows of equal volume")
            else:
                rows_ok(q, len(q) // k, f"{cls.__name__}(density={d}) on a parameter-dependent domain")
        a = S.RandomUniformSampler(D.Interval(X, 0, 2), density=d)
        a.set_length(17)
        if len(a) != 17:
            fails.append("set_length(17) is not reported by len(sampler)")
    elif name == "data-points-object":
        m = rng.choice([1, 2, 4])
        vals = torch.arange(m, dtype=torch.float64).reshape(-1, 1) + 0.1
        for src in (Points(vals.clone(), U), {"u": vals.clone()}):
            ds = S.DataSampler(src)
            if len(ds) != m or not torch.equal(ds.sample_points().as_tensor, vals):
                fails.append("DataSampler: len or the stored points differ from the given data")
            p = ds.sample_points(P)
            t = p.as_tensor
            if list(p.space.keys()) != ["u", "t"] or t.shape != (m * k, 2) or t.dtype != torch.float64:
                fails.append(f"DataSampler with parameters: space {list(p.space.keys())} shape {tuple(t.shape)} dtype {t.dtype}")
            elif not torch.equal(t[:, :1], vals.repeat(k, 1)) or not torch.equal(t[:, 1:], torch.repeat_interleave(P.as_tensor, m, dim=0)):
                fails.append("DataSampler with parameters: row i*m+j does not carry datum j and parameter row i unchanged")
    elif name == "data-extra-axis":
        m, qn = rng.choice([1, 2, 3]), rng.choice([2, 3])
        pdim = rng.choice([1, 2])
        vals = torch.arange(m * qn, dtype=torch.float32).reshape(m, qn, 1) + 0.5
        PP = Points(torch.tensor([[float(i + 1) + 10 * c for c in range(pdim)] for i in range(k)]), sp.Rn("t", pdim))
        ds = S.DataSampler({"u": vals})
        t = ds.sample_points(PP).as_tensor
        if tuple(t.shape) != (m * k, qn, 1 + pdim):
            fails.append(f"DataSampler with an extra batch axis ({m},{qn},1) and {k} parameter rows of dim {pdim}: shape {tuple(t.shape)}")
        else:
            for i in range(k):
                blk = t[i * m:(i + 1) * m]
                if not torch.equal(blk[..., :1], vals) or not bool((blk[..., 1:] == PP.as_tensor[i]).all()):
                    fails.append(f"DataSampler with an extra batch axis: block {i} does not carry the data and parameter row {i}")
                    break
    else:
        raise ValueError(name)
    return fails


API_CHECKS = ["empty", "iteration", "density-len", "data-points-object", "data-extra-axis"]


def run_api(ctx, rep, only=None):
    for name in API_CHECKS:
        for rnd in range(ctx.scale(4, 40)):
            case = dict(kind="api", name=name, seed=f"{ctx.seed}:{rnd}")
            if only is not None and (only["name"], only["seed"]) != (name, case["seed"]):
                continue
            rep.count("api:" + name)
            rep.case(case, False)
            try:
                fails = api_check(name, case["seed"])
            except Exception as e:  # noqa
                fails = [f"raised {type(e).__name__}: {str(e)[:160]}"]
            for f in fails:
                rep.fail(f"{name}: {f}", dict(case=case, text=f"api check {name} seed {case['seed']}"))


def describe(case):
    def ds(d):
        if d["k"] in PRIMS:
            return f"{d['k']}[{d['v']}|{','.join(d['deps'])}]" + (".bd" if d.get("bd") else "")
        if d["k"] in ("Tr", "Ro"):
            return f"{d['k']}({ds(d['d'])}|{','.join(d['deps'])})"
        return f"({ds(d['a'])}{d['k']}{ds(d['b'])})" + (".bd" if d.get("bd") else "")

    def ss(s):
        if s["k"] == "leaf":
            return f"{s['kind']}{('f' + (str(s['fp']) if 'fp' in s else '')) if s['filt'] else ''}({ds(s['d'])},{s['n']})"
        if s["k"] == "data":
            return f"data{'64' if s.get('dt') == 'float64' else ''}({s['v']},{s['m']})"
        if s["k"] == "T":
            return f"static{s.get('r') or ''}({ss(s['s'])})"
        return f"({ss(s['a'])} {s['k']} {ss(s['b'])})"
    return f"k={case['k']} params={case['pvars']}{'(float64)' if case.get('pdtype') == 'float64' and case['k'] else ''} {ss(case['s'])}"


def histogram(rep, case):
    s = case["s"]
    rep.count(f"k={case['k']}")
    if case.get("special"):
        rep.count("special:" + case["special"])
    if case["k"]:
        rep.count("parameter dtype " + case.get("pdtype", "float32"))
    if any(lf["k"] == "data" and lf.get("dt") == "float64" for lf in leaves_of(s)):
        rep.count("float64 data sampler")

    def walk(x, depth):
        rep.count("node:" + (x["k"] if x["k"] != "leaf" else "leaf-" + x["kind"] + ("+filter" if x["filt"] else "")))
        if x["k"] == "leaf" and x["kind"] == "e":
            rep.count(f"exponent {x.get('ex', 2.0)}")
        if x["k"] == "leaf" and x["kind"] == "n":
            rep.count("gaussian mean as " + x.get("mean_form", "list"))
        if x["k"] == "leaf" and x["filt"]:
            rep.count(f"filter acceptance {x.get('fp', 0.75)}")
        if x["k"] == "leaf":
            rep.count(f"n={x['n']}")
            dwalk(x["d"])
            if case["k"] + 1 < x["n"] and (has_kind(x["d"], "Tr") or has_kind(x["d"], "Ro")):
                rep.count("moving domain with n > k+1")
            return depth
        if x["k"] == "data":
            return depth
        if x["k"] == "T":
            rep.count(f"static interval={x.get('r') or 'inf'}")
            return walk(x["s"], depth + 1)
        return max(walk(x["a"], depth + 1), walk(x["b"], depth + 1))

    def dwalk(d):
        if d["k"] in ("P", "T"):
            r = max(d["h"] / d["len"], d["len"] / d["h"])
            rep.count(f"{d['k']} aspect ratio " + ("<=4" if r <= 4 else "<=100" if r <= 100 else "<=1e4" if r <= 1e4 else ">1e4"))
        rep.count("dom:" + d["k"] + (".boundary" if d.get("bd") else "") + ("(ProductDomain)" if d["k"] == "Tr" and d["d"]["k"] == "X" else ""))
        if any(w not in COEF for w in d.get("deps", [])):
            rep.count("dependency on a partner variable")
        for x in ("a", "b", "d"):
            if x in d:
                dwalk(d[x])
    for lf, kin in rows_handed(s, case["k"]):
        b = "0" if kin == 0 else "1" if kin == 1 else "2-7" if kin < 8 else "8-19" if kin < 20 else ">=20"
        name = "data" if lf["k"] == "data" else lf["kind"] + ("+filter" if lf["filt"] else "")
        rep.count(f"rows handed to leaf {name}: {b}")
    dp = walk(s, 0)
    rep.count(f"depth={dp}")
    if s["k"] == "*" and case["k"] > 0:
        rep.count("product with external parameters")

    def static_first_factor(x):
        if x["k"] == "*" and x["a"]["k"] == "T" and x["a"].get("r"):
            return True
        return any(static_first_factor(x[key]) for key in ("a", "b", "s") if key in x and isinstance(x[key], dict) and "k" in x[key]
                   and x[key]["k"] in ("*", "+", "&", "T"))
    if static_first_factor(s):
        rep.count("product whose first factor is static with a finite resample interval")


def dom_free(d):
    if d["k"] in PRIMS:
        return set(d["deps"])
    if d["k"] == "X":
        return (dom_free(d["a"]) - set(dvars(d["b"]))) | dom_free(d["b"])
    if d["k"] in ("Tr", "Ro"):
        return set(d["deps"]) | dom_free(d["d"])
    return dom_free(d["a"]) | dom_free(d["b"])


def free_deps(s):
    """variables a sampler expression needs from outside"""
    if s["k"] == "leaf":
        return dom_free(s["d"])
    if s["k"] == "data":
        return set()
    if s["k"] == "T":
        return free_deps(s["s"])
    if s["k"] == "*":
        return (free_deps(s["a"]) - set(svars(s["b"]))) | free_deps(s["b"])
    return free_deps(s["a"]) | free_deps(s["b"])


def variants(s):
    """expressions with one reduction somewhere: a node replaced by a child, a leaf asked for fewer points"""
    out = []
    if s["k"] == "leaf":
        if s["n"] > 1:
            out.append(dict(s, n=max(1, s["n"] // 2)))
        return out
    if s["k"] == "data":
        return out
    if s["k"] == "T":
        out.append(s["s"])
        out += [dict(s, s=v) for v in variants(s["s"])]
        return out
    out += [s["a"], s["b"]]
    if s["k"] != "+":       # the operands of a sum must keep the same space; n of append operands must stay equal
        out += [dict(s, a=v) for v in variants(s["a"]) if s["k"] == "*" or v.get("k") != "leaf" or v.get("n") == s["a"].get("n")]
        out += [dict(s, b=v) for v in variants(s["b"]) if s["k"] == "*" or v.get("k") != "leaf" or v.get("n") == s["b"].get("n")]
    return out


def shrink(case, budget=60):
    """structural shrinking: sub-expressions and fewer parameter rows, while a property oracle still fails"""
    best, best_fails = case, None
    progress = True
    while progress and budget > 0:
        progress = False
        s = best["s"]
        cands = [dict(best, s=v) for v in variants(s)]
        if best["k"] > 1:
            cands.append(dict(best, k=best["k"] - 1, pvals=best["pvals"][:-1]))
        for c in cands:
            if not free_deps(c["s"]) <= set(c["pvars"] if c["k"] else []):
                continue
            budget -= 1
            f = oracles(c, run_impl(c))
            if f:
                best, best_fails, progress = c, f, True
                break
    return best, best_fails


def strip_static(s):
    while s["k"] == "T":
        s = s["s"]
    return s


def append_of_sums_layout(case):
    """matcher of the known finding: an append whose operands are sums with different splits, >= 2 parameter rows"""
    def walk(s):
        if s["k"] in ("leaf", "data"):
            return False
        if s["k"] == "T":
            return walk(s["s"])
        if s["k"] == "&":
            a, b = strip_static(s["a"]), strip_static(s["b"])
            if a["k"] == "+" and b["k"] == "+" and (slen(a["a"]), slen(a["b"])) != (slen(b["a"]), slen(b["b"])):
                return True
        return walk(s["a"]) or walk(s["b"])
    return case["k"] >= 2 and walk(case["s"])


def finding_probes(rng):
    """fixed-shape inputs of the known finding (so that every run says whether it still reproduces)"""
    out = []
    for (n1, n2, m1, m2) in ((1, 2, 2, 1), (3, 1, 2, 2)):
        g = Gen(rng)
        a1 = simple_leaf(g, "x", "u", ["t"], n1)
        a2 = json.loads(json.dumps(a1)); a2["n"] = n2; shift_ids(a2["d"], g, 3.0)
        b1 = simple_leaf(g, "u", "u", ["t"], m1)
        b2 = json.loads(json.dumps(b1)); b2["n"] = m2; shift_ids(b2["d"], g, 3.0)
        k = rng.choice([2, 3])
        vals = rng.sample(range(1, 9), k)
        out.append(dict(kind="sample", k=k, pvars=["t"], pvals=[[float(v)] for v in vals],
                        s=dict(k="&", a=dict(k="+", a=a1, b=a2), b=dict(k="+", a=b1, b=b2)), tseed=rng.randint(0, 10 ** 6)))
    return out


def judge(rep, case, res, reply):
    fails = oracles(case, res)
    if fails and append_of_sums_layout(case) and all("was not made for" in f for f in fails):
        rep.fail(fails[0], dict(case=case, text=describe(case)), finding="append_of_sums_layout")
        fails = []
    if fails and rep.hist.get("shrunk", 0) < 3:
        rep.count("shrunk")
        small, sf = shrink(case)
        if sf:
            rep.fail(sf[0], dict(case=small, text=describe(small), shrunk_from=describe(case)))
    for f in fails:
        rep.fail(f, dict(case=case, text=describe(case)))
    # correspondence, call by call (the model's answer is the same for every call of the history)
    if reply.startswith("ok "):
        head, _, body = reply.partition(" | ")
        model = head + " | " + " | ".join(mask_model_rows(case, body)) if body else head
    else:
        model = "err" if reply.startswith("err:") else reply
        rep.count("model-" + reply.split(" ")[0])
    if "error" in res and "could not find a single" in res["error"] and giveup_plausible(case):
        # the documented give-up of a filter loop (20 rounds without a valid point) = the model's `err:no-valid` for an
        # oracle that rejects everything; nothing to compare
        rep.count("filter loop gave up (documented RuntimeError)")
        return fails
    if "error" in res:
        impls = ["err"]
        rep.count("impl-error")
    else:
        prows = [tuple(float(x) for x in r) for r in case["pvals"]] if case["k"] else []
        impls = []
        for vars_, dims, raw in res["calls"]:
            dec = decode(case, vars_, dims, raw, prows)
            impls.append(f"ok len={res['len_before']} vars={','.join(vars_)} rows={len(dec)} | " + " | ".join(dec))
        rep.count(f"calls={len(impls)}")
    for cno, impl in enumerate(impls, 1):
        if impl != model:
            rep.disagree("sampler rows: drivers/C02.lean `sample` vs sample_points of the real sampler expression "
                         f"(call {cno} of {len(impls)})",
                         dict(case=case, text=describe(case)), impl[:1500], (reply if model == "err" else model)[:1500])
            break
    return fails


def run(ctx, rep, cases=None):
    rep.rule = ("seeded sampler expressions (depth <= 3) over tagging domains; a case is non-trivial if it has >= 1 parameter "
                "row or is a composition, and asks for >= 2 points somewhere; distinct = distinct (expression, n, k) texts")
    if cases is None:
        run_api(ctx, rep)
        cases = gen_cases(ctx) + [gen_malformed(ctx.rng) for _ in range(ctx.scale(150, 1500))]
    results, failing = [], 0
    for c in cases:
        r = run_impl(c)
        results.append(r)
        if c.get("kind") != "malformed" and not append_of_sums_layout(c) and oracles(c, r):
            failing += 1
            if failing >= MAX_FAILING_CASES:
                rep.notes.append(f"stopped after {len(results)} of {len(cases)} cases: {failing} cases violate the property")
                break
    cases = cases[:len(results)]
    lines = [case_line(c) for c in cases]
    try:
        replies = common.run_driver("C02", lines)
    except common.DriverFailure:
        for c, r in zip(cases, results):
            if c.get("kind") == "malformed":
                continue
            for f in oracles(c, r):
                rep.fail(f, dict(case=c, text=describe(c)))
        raise
    for c, r, m in zip(cases, results, replies):
        if c.get("kind") == "malformed":
            rep.case("malformed " + c["what"] + " " + describe(c), False)
            judge_malformed(rep, c, r, m)
            continue
        nontrivial = (c["k"] >= 1 or c["s"]["k"] not in ("leaf", "data")) and any(slen(l) >= 2 for l in leaves_of(c["s"]))
        rep.case(describe(c), nontrivial, sample=dict(case=describe(c), model=m[:300],
                                                      implementation_rows=len(r.get("rows_raw", []))), kind=c["s"]["k"])
        histogram(rep, c)
        judge(rep, c, r, m)


def search_only(ctx, rep):
    for c in gen_cases(ctx):
        r = run_impl(c)
        for f in oracles(c, r):
            rep.fail(f, dict(case=c, text=describe(c)))


def replay(ctx, obj):
    rep = common.Report(ctx)
    inp = obj.get("failing_input") or obj.get("first")
    case = inp["input"]["case"]
    lean = common.lean_check("C02")
    if case.get("kind") == "api":
        ctx.seed = int(str(case["seed"]).split(":")[0])
        run_api(ctx, rep, only=case)
    else:
        run(ctx, rep, [case])
    return common.finish(ctx, rep, lean)
