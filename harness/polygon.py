"""Polygon — correspondence between the Lean polygon model (lean/TPV/Model/Polygon.lean, theorems in
lean/TPV/Props/Polygon.lean, driver lean/drivers/Polygon.lean) and the real `ShapelyPolygon`
(src/torchphysics/problem/domains/domain2D/shapely_polygon.py).

Not a registered property: `run_stream(ctx, rep)` is an additional correspondence stream for `./check C05`
(hook: see design_notes/Polygon.md), and the `poly_*_exact` functions are the exact polygon evaluators other
harnesses can import instead of writing their own oracles.

What is compared, on generated polygons with dyadic vertices (convex hulls, star-shaped, L-shapes, staircases, with
one or two holes, both orientations, any start vertex; queries are float64 tensors holding dyadic numbers, so model
and implementation see exactly the same inputs):
  * `_contains`            vs `polyContains`   — exact; demanded whenever the edge slack (`polyMargin`) exceeds MARGIN;
                                                  points exactly on an edge: the model says "not contained" (Shapely's
                                                  `contains` is the open interior) — a difference there is reported as a
                                                  correspondence difference, not as a failing input
  * `volume()`             vs `polyArea`       — float32 result vs exact rational, relative tolerance REL
  * `boundary.volume()`    vs `polyBdryLen`    — float32 vs the model in double precision, relative tolerance REL
  * `bounding_box()`       vs `polyBBox`       — exact (dyadic vertices are float32-exact)
  * `boundary._contains`   vs `polyBdryContains` — points exactly on an edge must be accepted, points farther than
                                                  2·tol from every edge rejected, points closer than tol/2 accepted
  * `outline()`            vs `polyOutline`    — exact up to the start vertex of each ring (direction must agree)
  * the model's location   vs an independent exact winding-number oracle written here (model self-check)
"""
import math
import random
from fractions import Fraction as Fr

import common

MARGIN = Fr(1, 2 ** 30)       # edge slack above which `_contains` must agree (GEOS uses exact orientation predicates on
                              # exact inputs, so any positive slack would do; the margin keeps other float paths safe)
REL = 1e-5                    # float32 results (`torch.tensor(python float)`) vs exact
TOL = Fr(1.0e-06)             # base of `ShapelyBoundary.tol` (exact value of the double); the class uses
                              # tol = 1e-6 * max(1, largest |coordinate| of the polygon's bounds)  (see `bdry_tol`)


def bdry_tol(vertices, holes=()):
    """`ShapelyBoundary.tol` of the polygon, exactly: the rounding error of a float32 point grows with its coordinates"""
    big = max(abs(Fr(c)) for ring in [vertices] + list(holes or []) for v in ring for c in v)
    return TOL * max(Fr(1), Fr(float(big)))


# ----------------------------------------------------------------------------------------------------------
# exact evaluation through the Lean driver (importable by other harnesses)

def _ring_tokens(r):
    return common.lst([f"{common.q(Fr(v[0]))} {common.q(Fr(v[1]))}" for v in r])


def poly_tokens(vertices, holes=()):
    """driver encoding of a polygon: rings without the repeated closing vertex"""
    def strip(r):
        r = [(Fr(a), Fr(b)) for a, b in r]
        return r[:-1] if len(r) > 3 and r[0] == r[-1] else r
    holes = [strip(h) for h in (holes or [])]
    return " ".join([_ring_tokens(strip(vertices)), str(len(holes))] + [_ring_tokens(h) for h in holes])


def _pts_tokens(points):
    return common.lst([f"{common.q(Fr(p[0]))} {common.q(Fr(p[1]))}" for p in points])


def _opt(tok):
    return None if tok == "none" else Fr(tok)


def poly_contains_exact_many(queries):
    """queries: list of (vertices, holes, points).  One driver call for all of them.
    Returns, per query, a list of (inside: bool, margin: Fraction, dist2: Fraction) per point — `inside` is the
    open interior (what `ShapelyPolygon._contains` answers), `margin` the smallest edge slack (0 exactly on an edge),
    `dist2` the squared distance to the nearest edge.  A malformed polygon gives None."""
    lines = [f"contains {poly_tokens(v, h)} {_pts_tokens(ps)}" for v, h, ps in queries]
    out = []
    for (v, h, ps), rl in zip(queries, common.run_driver("Polygon", lines)):
        if rl.startswith("err") or rl.startswith("bad-op"):
            out.append(None)
            continue
        t = rl.split()
        out.append([(t[3 * i] == "1", _opt(t[3 * i + 1]), _opt(t[3 * i + 2])) for i in range(len(ps))])
    return out


def poly_contains_exact(vertices, holes, point):
    """(inside, margin) for one point (use `poly_contains_exact_many` for batches: the driver start costs ~0.5 s)"""
    r = poly_contains_exact_many([(vertices, holes, [point])])[0]
    if r is None:
        raise ValueError("malformed polygon (a ring with fewer than 3 vertices)")
    return r[0][0], r[0][1]


def poly_locate_exact_many(queries):
    """per query a list of 'i' | 'b' | 'e' (interior / on an edge / exterior)"""
    lines = [f"loc {poly_tokens(v, h)} {_pts_tokens(ps)}" for v, h, ps in queries]
    return [None if rl.startswith(("err", "bad-op")) else rl.split() for rl in common.run_driver("Polygon", lines)]


def poly_bdry_exact_many(queries, tol=TOL):
    """per query a list of (accepted by the boundary test with tolerance tol, dist2)"""
    lines = [f"bdry {common.q(Fr(tol))} {poly_tokens(v, h)} {_pts_tokens(ps)}" for v, h, ps in queries]
    out = []
    for (v, h, ps), rl in zip(queries, common.run_driver("Polygon", lines)):
        if rl.startswith(("err", "bad-op")):
            out.append(None)
            continue
        t = rl.split()
        out.append([(t[2 * i] == "1", _opt(t[2 * i + 1])) for i in range(len(ps))])
    return out


def poly_measures_exact_many(polys):
    """polys: list of (vertices, holes) → list of dict(area=Fraction, bbox=(xmin,xmax,ymin,ymax), length=float,
    outline=[closed rings of Fractions]) (None for a malformed polygon)"""
    lines = []
    for v, h in polys:
        pt = poly_tokens(v, h)
        lines += [f"area {pt}", f"bbox {pt}", f"len {pt}", f"outline {pt}"]
    rs = common.run_driver("Polygon", lines)
    out = []
    for i in range(len(polys)):
        a, b, l, o = rs[4 * i:4 * i + 4]
        if a.startswith(("err", "bad-op")):
            out.append(None)
            continue
        rings = []
        for rt in o.split(" | "):
            t = rt.split()
            rings.append([(Fr(t[2 * j]), Fr(t[2 * j + 1])) for j in range(len(t) // 2)])
        out.append(dict(area=Fr(a), bbox=tuple(Fr(x) for x in b.split()), length=common.unfbits(l), outline=rings))
    return out


def _all_exact(queries, tol=None):
    """everything the stream needs in ONE driver call: (contains, locations, boundary test, measures) per query;
    the boundary tolerance is the class's own (`bdry_tol`) unless one is given"""
    lines = []
    for v, h, ps in queries:
        pt = poly_tokens(v, h)
        lines += [f"all {common.q(Fr(tol) if tol is not None else bdry_tol(v, h))} {pt} {_pts_tokens(ps)}", f"area {pt}", f"bbox {pt}", f"len {pt}", f"outline {pt}"]
    rs = common.run_driver("Polygon", lines)
    cont, locs, bdry, meas = [], [], [], []
    for i, (v, h, ps) in enumerate(queries):
        al, a, b, l, o = rs[5 * i:5 * i + 5]
        if al.startswith(("err", "bad-op")) or a.startswith(("err", "bad-op")):
            cont.append(None); locs.append(None); bdry.append(None); meas.append(None)
            continue
        t = al.split()
        locs.append([t[4 * j] for j in range(len(ps))])
        cont.append([(t[4 * j] == "i", _opt(t[4 * j + 1]), _opt(t[4 * j + 2])) for j in range(len(ps))])
        bdry.append([(t[4 * j + 3] == "1", _opt(t[4 * j + 2])) for j in range(len(ps))])
        rings = []
        for rt in o.split(" | "):
            tk = rt.split()
            rings.append([(Fr(tk[2 * j]), Fr(tk[2 * j + 1])) for j in range(len(tk) // 2)])
        meas.append(dict(area=Fr(a), bbox=tuple(Fr(x) for x in b.split()), length=common.unfbits(l), outline=rings))
    return cont, locs, bdry, meas


# ----------------------------------------------------------------------------------------------------------
# independent exact oracle (non-zero winding number; equals the even-odd rule for simple rings)

def _orient(a, b, p):
    return (b[0] - a[0]) * (p[1] - a[1]) - (b[1] - a[1]) * (p[0] - a[0])


def _on_seg(a, b, p):
    return (_orient(a, b, p) == 0 and min(a[0], b[0]) <= p[0] <= max(a[0], b[0]) and min(a[1], b[1]) <= p[1] <= max(a[1], b[1]))


def _winding(ring, p):
    w = 0
    for a, b in zip(ring, ring[1:] + ring[:1]):
        if a[1] <= p[1]:
            if b[1] > p[1] and _orient(a, b, p) > 0:
                w += 1
        elif b[1] <= p[1] and _orient(a, b, p) < 0:
            w -= 1
    return w


def py_locate(outer, holes, p):
    rings = [outer] + list(holes)
    if any(_on_seg(a, b, p) for r in rings for a, b in zip(r, r[1:] + r[:1])):
        return "b"
    if _winding(outer, p) == 0:
        return "e"
    return "e" if any(_winding(h, p) != 0 for h in holes) else "i"


def _seg_dist2(a, b, p):
    dx, dy = b[0] - a[0], b[1] - a[1]
    l2 = dx * dx + dy * dy
    t = Fr(0) if l2 == 0 else max(Fr(0), min(Fr(1), ((p[0] - a[0]) * dx + (p[1] - a[1]) * dy) / l2))
    qx, qy = a[0] + t * dx, a[1] + t * dy
    return (p[0] - qx) ** 2 + (p[1] - qy) ** 2


def py_bdry_dist2(outer, holes, p):
    return min(_seg_dist2(a, b, p) for r in [outer] + list(holes) for a, b in zip(r, r[1:] + r[:1]))


def _shoelace2(r):
    return sum(a[0] * b[1] - b[0] * a[1] for a, b in zip(r, r[1:] + r[:1]))


# ----------------------------------------------------------------------------------------------------------
# generators (vertices: multiples of 1/8)

DIRS = sorted({(dx, dy) for dx in range(-2, 3) for dy in range(-2, 3) if (dx, dy) != (0, 0) and math.gcd(dx, dy) == 1},
              key=lambda d: math.atan2(d[1], d[0]))


def _cross(u, v):
    return u[0] * v[1] - u[1] * v[0]


def gen_star(rng, c, smin, smax, m):
    """star-shaped simple ring around c: vertices c + s·d at strictly increasing lattice directions d, consecutive
    directions less than 180 degrees apart; s in [smin, smax] (multiples of 1/8)"""
    while True:
        idx = sorted(rng.sample(range(len(DIRS)), m))
        ds = [DIRS[i] for i in idx]
        if all(_cross(u, v) > 0 for u, v in zip(ds, ds[1:] + ds[:1])):
            break
    out = []
    for d in ds:
        s = Fr(rng.randint(int(smin * 8), int(smax * 8)), 8)
        out.append((c[0] + s * d[0], c[1] + s * d[1]))
    return out


def gen_convex(rng, c):
    """convex hull of random dyadic points around c (Andrew's monotone chain, exact)"""
    while True:
        pts = sorted({(c[0] + Fr(rng.randint(-24, 24), 8), c[1] + Fr(rng.randint(-24, 24), 8)) for _ in range(rng.randint(4, 12))})
        if len(pts) < 3:
            continue
        lo, up = [], []
        for p in pts:
            while len(lo) >= 2 and _orient(lo[-2], lo[-1], p) <= 0:
                lo.pop()
            lo.append(p)
        for p in reversed(pts):
            while len(up) >= 2 and _orient(up[-2], up[-1], p) <= 0:
                up.pop()
            up.append(p)
        hull = lo[:-1] + up[:-1]
        if len(hull) >= 3 and _shoelace2(hull) >= 8:
            return hull


def gen_lshape(rng, c):
    xs = sorted(rng.sample(range(-24, 25), 3))
    ys = sorted(rng.sample(range(-24, 25), 3))
    x0, x1, x2 = [c[0] + Fr(v, 8) for v in xs]
    y0, y1, y2 = [c[1] + Fr(v, 8) for v in ys]
    return [(x0, y0), (x2, y0), (x2, y1), (x1, y1), (x1, y2), (x0, y2)], (x0, x1, y0, y1)


def gen_stairs(rng, c):
    """rectilinear staircase: k steps going up and to the left from the bottom right corner"""
    k = rng.randint(2, 4)
    xs = sorted(rng.sample(range(1, 33), k))
    ys = sorted(rng.sample(range(1, 33), k))
    x = [c[0] + Fr(v, 8) for v in xs]
    y = [c[1] + Fr(v, 8) for v in ys]
    ring = [(c[0], c[1]), (x[-1], c[1])]
    for i in range(k):
        ring.append((x[k - 1 - i], y[i]))
        if i + 1 < k:
            ring.append((x[k - 2 - i], y[i]))
    ring.append((c[0], y[-1]))
    return ring, (c[0], x[0], c[1], y[-1])     # the block [c.x, x_0] x [c.y, y_max] lies inside


def _inradius2(ring, c):
    """squared distance from c to the nearest edge (exact)"""
    return min(_seg_dist2(a, b, c) for a, b in zip(ring, ring[1:] + ring[:1]))


def _small_star(rng, c, r2):
    """star-shaped hole around c inside the disc of squared radius r2/4 (a star ring scaled down by a power of two)"""
    h0 = gen_star(rng, c, 1, 3, rng.randint(3, 6))
    k = 2
    while k <= 256:
        h = [(c[0] + (v[0] - c[0]) / k, c[1] + (v[1] - c[1]) / k) for v in h0]
        if all((v[0] - c[0]) ** 2 + (v[1] - c[1]) ** 2 < r2 / 4 for v in h):
            return h
        k *= 2
    return None


def _rect(x0, x1, y0, y1):
    return [(x0, y0), (x1, y0), (x1, y1), (x0, y1)]


def _shuffle_ring(rng, r):
    k = rng.randrange(len(r))
    r = r[k:] + r[:k]
    return r[::-1] if rng.random() < 0.5 else r


def make_case(rng, idx):
    kind = rng.choice(["convex", "star", "star", "lshape", "stairs", "star+hole", "convex+hole", "lshape+hole", "lshape+hole", "rect+2holes"])
    c = (Fr(rng.randint(-16, 16), 8), Fr(rng.randint(-16, 16), 8))
    holes, marks = [], []
    if kind.startswith("convex"):
        outer = gen_convex(rng, c)
        c = (sum(v[0] for v in outer) / len(outer), sum(v[1] for v in outer) / len(outer))
        c = (Fr(round(c[0] * 8), 8), Fr(round(c[1] * 8), 8))
        if py_locate(outer, [], c) != "i":
            kind = "convex"
    elif kind.startswith("star"):
        outer = gen_star(rng, c, 1, 3, rng.randint(3, 9))
    elif kind.startswith("lshape"):
        outer, blk = gen_lshape(rng, c)
    elif kind == "stairs":
        outer, blk = gen_stairs(rng, c)
    else:
        w, h = Fr(rng.randint(24, 48), 8), Fr(rng.randint(24, 48), 8)
        outer = _rect(c[0], c[0] + w, c[1], c[1] + h)
        # two disjoint rectangular holes: left and right third
        for (fx0, fx1) in ((Fr(1, 8), Fr(3, 8)), (Fr(5, 8), Fr(7, 8))):
            hx0, hx1 = c[0] + Fr(round(w * fx0 * 8), 8), c[0] + Fr(round(w * fx1 * 8), 8)
            hy0, hy1 = c[1] + Fr(round(h * Fr(rng.randint(1, 3), 8) * 8), 8), c[1] + Fr(round(h * Fr(rng.randint(5, 7), 8) * 8), 8)
            holes.append(_rect(hx0, hx1, hy0, hy1))
            marks.append(((hx0 + hx1) / 2, (hy0 + hy1) / 2))
    if kind in ("star+hole", "convex+hole"):
        hl = _small_star(rng, c, _inradius2(outer, c))
        if hl is None:
            kind = kind.split("+")[0]
        else:
            holes.append(hl)
            marks.append(c)
    if kind == "lshape+hole":
        x0, x1, y0, y1 = blk
        if x1 - x0 >= Fr(1, 2) and y1 - y0 >= Fr(1, 2):
            hx0, hx1 = x0 + (x1 - x0) / 4, x0 + 3 * (x1 - x0) / 4
            hy0, hy1 = y0 + (y1 - y0) / 4, y0 + (y1 - y0) / 2
            holes.append(_rect(hx0, hx1, hy0, hy1))
            marks.append(((hx0 + hx1) / 2, (hy0 + hy1) / 2))
        else:
            kind = "lshape"
    outer = _shuffle_ring(rng, outer)
    holes = [_shuffle_ring(rng, h) for h in holes]
    rings = [outer] + holes
    xs = [v[0] for v in outer]
    ys = [v[1] for v in outer]
    pts = []
    for _ in range(20):
        pts.append((Fr(rng.randint(int(min(xs) * 16) - 16, int(max(xs) * 16) + 16), 16),
                    Fr(rng.randint(int(min(ys) * 16) - 16, int(max(ys) * 16) + 16), 16)))
    pts += marks
    edges = [(a, b) for r in rings for a, b in zip(r, r[1:] + r[:1])]
    for a, b in rng.sample(edges, min(len(edges), 6)):
        for t in (Fr(0), Fr(1, 2), Fr(rng.randint(1, 7), 8)):
            e = (a[0] + t * (b[0] - a[0]), a[1] + t * (b[1] - a[1]))
            pts.append(e)
            ax = rng.choice([0, 1])
            for off in (Fr(rng.choice([1, -1]), 2 ** 24), Fr(rng.choice([1, -1]), 2 ** 17), Fr(1, 2 ** 6), Fr(-1, 2 ** 6)):
                pts.append((e[0] + off, e[1]) if ax == 0 else (e[0], e[1] + off))
    far = max(max(xs) - min(xs), max(ys) - min(ys)) * 4
    pts += [(min(xs) - far, c[1]), (c[0], max(ys) + far)]
    scale, shift = Fr(1), (Fr(0), Fr(0))
    if rng.random() < 0.4:
        # the same polygon at another scale and away from the origin (powers of two: every coordinate stays exact in float64)
        scale = Fr(2) ** rng.choice([-10, -5, 5, 8])
        shift = (Fr(rng.choice([0, 1, -3, 40])) * Fr(2) ** rng.choice([0, 5]), Fr(rng.choice([0, 2, -1, 25])) * Fr(2) ** rng.choice([0, 5]))
        mp = lambda v: (v[0] * scale + shift[0], v[1] * scale + shift[1])
        outer = [mp(v) for v in outer]
        holes = [[mp(v) for v in h] for h in holes]
        pts = [mp(v) for v in pts]
    return dict(id=idx, kind=kind, scale=str(scale), shift=[str(shift[0]), str(shift[1])], outer=[[str(a), str(b)] for a, b in outer],
                holes=[[[str(a), str(b)] for a, b in h] for h in holes], points=[[str(a), str(b)] for a, b in pts],
                via_vertices=(not holes and rng.random() < 0.7))


def _f32(x):
    import numpy as np
    return Fr(float(np.float32(float(x))))


def _fr_ring(r):
    return [(Fr(a), Fr(b)) for a, b in r]


# ----------------------------------------------------------------------------------------------------------
# implementation runs

def build_impl(tp, case):
    from torchphysics.problem.domains.domain2D.shapely_polygon import ShapelyPolygon
    import shapely.geometry as s_geo
    X = tp.spaces.R2("x")
    fo = [[float(Fr(a)), float(Fr(b))] for a, b in case["outer"]]
    fh = [[[float(Fr(a)), float(Fr(b))] for a, b in h] for h in case["holes"]]
    if case.get("via_vertices") and not fh:
        return ShapelyPolygon(X, vertices=fo), X
    return ShapelyPolygon(X, shapely_polygon=s_geo.Polygon(fo, fh)), X


def run_impl(tp, case):
    import torch
    try:
        P, X = build_impl(tp, case)
        t = torch.tensor([[float(Fr(a)), float(Fr(b))] for a, b in case["points"]], dtype=torch.float64)
        pts = tp.spaces.Points(t, X)
        inside = P._contains(pts)
        onb = P.boundary._contains(pts)
        return dict(inside=[bool(v) for v in inside.reshape(-1).tolist()], inside_shape=tuple(inside.shape),
                    onb=[bool(v) for v in onb.reshape(-1).tolist()], onb_shape=tuple(onb.shape),
                    area=float(P.volume().reshape(-1)[0]), length=float(P.boundary.volume().reshape(-1)[0]),
                    bbox=[float(v) for v in P.bounding_box().reshape(-1).tolist()],
                    outline=[[(float(v[0]), float(v[1])) for v in ring.tolist()] for ring in P.outline()])
    except Exception as e:      # the generated polygons are valid: any exception is a failure of the implementation
        return dict(error=f"{type(e).__name__}: {str(e)[:200]}")


def _canon_cycle(closed):
    """closed coordinate list → ring rotated to start at its smallest vertex (direction kept)"""
    r = list(closed[:-1]) if len(closed) > 1 and closed[0] == closed[-1] else list(closed)
    k = r.index(min(r))
    return r[k:] + r[:k]


# ----------------------------------------------------------------------------------------------------------
# the stream

def run_stream(ctx, rep, cases=None):
    """additional correspondence stream of `./check C05` (see module docstring)"""
    tp = common.use_repo()
    if cases is None:
        rng = random.Random(ctx.rng.getrandbits(64))
        cases = [make_case(rng, i) for i in range(ctx.scale(40, 400))]
    polys = [(_fr_ring(c["outer"]), [_fr_ring(h) for h in c["holes"]]) for c in cases]
    queries = [(o, h, _fr_ring(c["points"])) for (o, h), c in zip(polys, cases)]
    cont, locs, bdry, meas = _all_exact(queries)
    for cs, (outer, holes), (_, _, pts), cn, lc, bd, ms in zip(cases, polys, queries, cont, locs, bdry, meas):
        where = dict(stream="polygon", polygon_case=cs)
        desc = f"ShapelyPolygon({cs['kind']}, {len(outer)} vertices, {len(holes)} hole(s))"
        rep.count("polygon:kind:" + cs["kind"])
        rep.count("polygon:scale:" + cs.get("scale", "1") + (":shifted" if cs.get("shift", ["0", "0"]) != ["0", "0"] else ""))
        rep.count("polygon:holes:%d" % len(holes))
        rep.count("polygon:exterior-given:" + ("ccw" if _shoelace2(outer) > 0 else "cw"))
        nontrivial = bool(holes) or cs["kind"] not in ("convex",)
        if cn is None or ms is None:
            rep.disagree("drivers/Polygon.lean: the model rejects a polygon the generator considers valid", where, "valid", "err")
            continue
        res = run_impl(tp, cs)
        rep.case(dict(kind=cs["kind"], outer=cs["outer"], holes=cs["holes"]), nontrivial, kind="polygon:" + cs["kind"],
                 sample=dict(polygon=desc, outer=cs["outer"][:4], first_query=cs["points"][0],
                             implementation=(res.get("inside") or [res])[0], model=[cn[0][0], str(cn[0][1])],
                             area_model=str(ms["area"]), area_implementation=res.get("area")))
        if "error" in res:
            rep.fail(f"{desc}: the implementation raised {res['error']} on a valid polygon", where)
            continue
        n = len(pts)
        if res["inside_shape"] != (n, 1) or res["onb_shape"] != (n, 1):
            rep.fail(f"{desc}: _contains returned shapes {res['inside_shape']} / {res['onb_shape']} for {n} points", where)
            continue
        for i, p in enumerate(pts):
            inside, mg, d2 = cn[i]
            pw = dict(where, query_point=[str(p[0]), str(p[1])], point_float=[float(p[0]), float(p[1])])
            # model self-check against the independent oracle
            pl = py_locate(outer, holes, p)
            if lc[i] != pl or (pl == "i") != inside or py_bdry_dist2(outer, holes, p) != d2:
                rep.disagree("TPV.Poly.polyLocate / bdryDist2 vs the independent winding-number / distance oracle of harness/polygon.py",
                             pw, pl, lc[i])
            # interior test
            if mg > MARGIN:
                rep.count("polygon:contains:decided-with-margin")
                if res["inside"][i] != inside:
                    rep.fail(f"{desc}: _contains answers {res['inside'][i]} for {pw['point_float']}, but the point is "
                             f"{'inside' if inside else 'outside'} the polygon (exact even-odd rule over exterior and holes, "
                             f"edge slack {float(mg):.3g}, distance to the boundary {math.sqrt(float(d2)):.3g})", pw)
            elif mg == 0:
                rep.count("polygon:contains:exactly-on-edge")
                if res["inside"][i] != inside:
                    rep.count("polygon:contains:edge-point-accepted")
                    rep.disagree("ShapelyPolygon._contains vs TPV.Poly.polyContains on a point exactly on an edge (model: Shapely's "
                                 "`contains` is the open interior, the point is not contained)", pw, res["inside"][i], inside)
            else:
                rep.count("polygon:contains:within-margin(skipped)")
            # boundary test
            acc, _ = bd[i]
            tolp = bdry_tol(outer, holes)
            if d2 == 0:
                rep.count("polygon:bdry:exact-edge-point")
                if not res["onb"][i]:
                    rep.fail(f"{desc}: boundary._contains rejects {pw['point_float']}, a point exactly on an edge "
                             f"({'of a hole' if py_bdry_dist2(outer, [], p) != 0 else 'of the exterior'})", pw)
            elif d2 > (2 * tolp) ** 2:
                rep.count("polygon:bdry:far")
                if res["onb"][i]:
                    rep.fail(f"{desc}: boundary._contains accepts {pw['point_float']} at distance {math.sqrt(float(d2)):.3g} "
                             f"from the nearest edge (tolerance {float(tolp):.3g} = 1e-6 * max(1, largest |coordinate|))", pw)
            elif d2 < (tolp / 2) ** 2:
                rep.count("polygon:bdry:near")
                if not res["onb"][i]:
                    rep.fail(f"{desc}: boundary._contains rejects {pw['point_float']} at distance {math.sqrt(float(d2)):.3g} "
                             f"from the nearest edge (tolerance {float(tolp):.3g} = 1e-6 * max(1, largest |coordinate|))", pw)
            else:
                rep.count("polygon:bdry:within-band(skipped)")
            if acc != (d2 <= tolp * tolp):
                rep.disagree("TPV.Poly.polyBdryContains vs dist2 <= tol^2", pw, d2 <= tolp * tolp, acc)
        # measures
        area = ms["area"]
        if area != abs(_shoelace2(outer)) / 2 - sum(abs(_shoelace2(h)) / 2 for h in holes):
            rep.disagree("TPV.Poly.polyArea vs the shoelace oracle of harness/polygon.py", where, None, str(area))
        if abs(res["area"] - float(area)) > REL * float(area):
            rep.fail(f"{desc}: volume() = {res['area']!r}, the area (exterior minus holes, exact) is {float(area)!r}", where)
        plen = sum(math.hypot(float(b[0] - a[0]), float(b[1] - a[1])) for r in [outer] + holes for a, b in zip(r, r[1:] + r[:1]))
        if abs(ms["length"] - plen) > 1e-9 * max(1.0, plen):
            rep.disagree("TPV.Poly.polyBdryLen (Float) vs math.hypot", where, plen, ms["length"])
        if abs(res["length"] - ms["length"]) > REL * ms["length"]:
            rep.fail(f"{desc}: boundary.volume() = {res['length']!r}, the total edge length (exterior and holes) is {ms['length']!r}", where)
        # bounding_box() and outline() are float32 tensors: the exact values rounded to the nearest float32 (exact for the
        # unscaled dyadic polygons, rounded for the scaled / shifted ones)
        if [Fr(v) for v in res["bbox"]] != [_f32(v) for v in ms["bbox"]]:
            rep.fail(f"{desc}: bounding_box() = {res['bbox']}, the extreme vertex coordinates (xmin, xmax, ymin, ymax) are "
                     f"{[float(v) for v in ms['bbox']]}", where)
        # outline: same rings, same direction, any start vertex
        mo = [_canon_cycle([(_f32(a), _f32(b)) for a, b in r]) for r in ms["outline"]]
        io = [_canon_cycle([(Fr(a), Fr(b)) for a, b in r]) for r in res["outline"]]
        if mo != io:
            if sorted(map(sorted, mo)) == sorted(map(sorted, io)) and (_shoelace2(io[0]) <= 0 or any(_shoelace2(r) >= 0 for r in io[1:])):
                rep.fail(f"{desc}: outline() is not oriented (exterior counter-clockwise, holes clockwise): signed areas "
                         f"{[float(_shoelace2(r)) / 2 for r in io]}", where)
            else:
                rep.disagree("ShapelyPolygon.outline() vs TPV.Poly.polyOutline (up to the start vertex)", where,
                             [[(float(a), float(b)) for a, b in r] for r in io], [[(float(a), float(b)) for a, b in r] for r in mo])
        else:
            rep.count("polygon:outline-agrees")


def replay(ctx, rep, inp):
    """re-run one recorded case (`inp` = the `input` of a failure of this stream)"""
    run_stream(ctx, rep, [inp["polygon_case"]])


if __name__ == "__main__":
    # stand-alone run of the stream (development / mutation testing): VERIF_SEED, VERIF_REPO, --tier
    import argparse
    import os
    import sys
    ap = argparse.ArgumentParser()
    ap.add_argument("--tier", default="quick", choices=["quick", "thorough"])
    a = ap.parse_args()
    os.chdir(common.VERIF)
    ctx = common.Ctx("Polygon", a.tier, int(os.environ.get("VERIF_SEED", "0")))
    rep = common.Report(ctx)
    run_stream(ctx, rep)
    for f in rep.failures[:5]:
        print("FAIL:", f["property_failure"])
    for d in rep.disagreements[:5]:
        print("DISAGREE:", d["correspondence"], d["implementation"], d["model"])
    print(f"[Polygon] tier={a.tier} seed={ctx.seed} cases={rep.evaluations} distinct={len(rep.keys)} failures={len(rep.failures)} "
          f"disagreements={len(rep.disagreements)} wall={round(__import__('time').time() - ctx.t0, 2)}s")
    print({k: v for k, v in sorted(rep.hist.items())})
    sys.exit(1 if rep.failures or rep.disagreements else 0)
