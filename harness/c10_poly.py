"""C10 — property oracles for the two primitives whose geometry kernels are external (ShapelyPolygon, TrimeshPolyhedron).
Not part of the Lean model (Shapely / Trimesh are opaque kernels); the oracles are independent closed forms:
shoelace area (holes subtracted) and edge lengths for polygons; box / tetrahedron / prism volume and surface area for
polyhedra built from vertices+faces AND loaded from a mesh file, for outward, inward and mixed face orientation."""
import math
import os
import tempfile
import warnings
from fractions import Fraction as Fr

import common

REL = 2e-5


def shoelace(vs):
    s = Fr(0)
    for (x0, y0), (x1, y1) in zip(vs, vs[1:] + vs[:1]):
        s += x0 * y1 - x1 * y0
    return abs(s) / 2


def perimeter(vs):
    return sum(math.hypot(float(x1 - x0), float(y1 - y0)) for (x0, y0), (x1, y1) in zip(vs, vs[1:] + vs[:1]))


def star_polygon(rng, cx, cy, rmin, rmax, m):
    """simple polygon: vertices at increasing (rational-slope) directions around a centre, radii in [rmin, rmax]"""
    dirs = [(Fr(1), Fr(0)), (Fr(4, 5), Fr(3, 5)), (Fr(3, 5), Fr(4, 5)), (Fr(0), Fr(1)), (Fr(-3, 5), Fr(4, 5)), (Fr(-4, 5), Fr(3, 5)),
            (Fr(-1), Fr(0)), (Fr(-4, 5), Fr(-3, 5)), (Fr(-3, 5), Fr(-4, 5)), (Fr(0), Fr(-1)), (Fr(3, 5), Fr(-4, 5)), (Fr(4, 5), Fr(-3, 5))]
    idx = sorted(rng.sample(range(12), m))
    # keep the polygon star-shaped around the centre: consecutive directions less than 180 degrees apart
    while any((b - a) % 12 >= 6 for a, b in zip(idx, idx[1:] + idx[:1])):
        idx = sorted(rng.sample(range(12), m))
    out = []
    for i in idx:
        r = Fr(rng.randint(int(rmin * 8), int(rmax * 8)), 8)
        out.append((cx + r * dirs[i][0], cy + r * dirs[i][1]))
    return out


def make_polygon_case(rng, idx):
    cx, cy = Fr(rng.randint(-16, 16), 8), Fr(rng.randint(-16, 16), 8)
    outer = star_polygon(rng, cx, cy, 2, 4, rng.randint(3, 9))
    # every edge of the outer ring keeps a distance > 7/8 from the centre, so a hole of radius <= 3/4 lies strictly inside
    while any(((x0 - cx) * (y1 - cy) - (x1 - cx) * (y0 - cy)) ** 2 <= Fr(49, 64) * ((x1 - x0) ** 2 + (y1 - y0) ** 2)
              for (x0, y0), (x1, y1) in zip(outer, outer[1:] + outer[:1])):
        outer = star_polygon(rng, cx, cy, 2, 4, rng.randint(3, 9))
    hole = star_polygon(rng, cx, cy, Fr(1, 4), Fr(3, 4), rng.randint(3, 6)) if rng.random() < 0.4 else None
    if rng.random() < 0.5:
        outer = outer[::-1]
    if hole and rng.random() < 0.5:
        hole = hole[::-1]
    return dict(id=idx, poly="polygon", outer=[[str(a), str(b)] for a, b in outer],
                hole=[[str(a), str(b)] for a, b in hole] if hole else None,
                density=str(rng.choice([Fr(1, 2), Fr(15, 4), Fr(10), Fr(7, 3)])))


SOLIDS = ["box", "tetra", "prism"]


def solid(kind, a, b, c):
    """vertices, outward faces, volume, surface area"""
    if kind == "box":
        v = [[0, 0, 0], [a, 0, 0], [a, b, 0], [0, b, 0], [0, 0, c], [a, 0, c], [a, b, c], [0, b, c]]
        f = [[0, 2, 1], [0, 3, 2], [4, 5, 6], [4, 6, 7], [0, 1, 5], [0, 5, 4], [1, 2, 6], [1, 6, 5], [2, 3, 7], [2, 7, 6], [3, 0, 4], [3, 4, 7]]
        return v, f, a * b * c, 2 * (a * b + b * c + a * c)
    if kind == "tetra":
        v = [[0, 0, 0], [a, 0, 0], [0, b, 0], [0, 0, c]]
        f = [[0, 2, 1], [0, 1, 3], [0, 3, 2], [1, 2, 3]]
        slant = 0.5 * math.sqrt((a * b) ** 2 + (b * c) ** 2 + (a * c) ** 2)
        return v, f, a * b * c / 6, 0.5 * (a * b + b * c + a * c) + slant
    # right prism over the triangle (0,0),(a,0),(0,b), height c
    v = [[0, 0, 0], [a, 0, 0], [0, b, 0], [0, 0, c], [a, 0, c], [0, b, c]]
    f = [[0, 2, 1], [3, 4, 5], [0, 1, 4], [0, 4, 3], [1, 2, 5], [1, 5, 4], [2, 0, 3], [2, 3, 5]]
    return v, f, a * b * c / 2, a * b + c * (a + b + math.hypot(a, b))


def make_solid_case(rng, idx):
    return dict(id=idx, poly="solid", kind=rng.choice(SOLIDS), dims=[rng.choice([0.5, 1.0, 1.5, 2.0, 3.0]) for _ in range(3)],
                shift=[rng.choice([-1.0, 0.0, 2.0]) for _ in range(3)],
                orient=rng.choice(["outward", "inward", "mixed"]), source=rng.choice(["faces", "stl", "ply"]),
                density=rng.choice([0.5, 2.0, 7.5, 20.0]))


def close(a, b):
    return abs(a - b) <= REL * max(abs(a), abs(b)) + 1e-7


def scalar(v):
    import torch
    if not isinstance(v, torch.Tensor) or v.numel() != 1:
        return None
    return float(v.reshape(-1)[0])


def sample_count(fn, d):
    with warnings.catch_warnings():
        warnings.simplefilter("ignore")
        try:
            return len(common.call_with_timeout(10, fn, d=d)), None
        except common.CallTimeout:
            return None, "timeout"
        except Exception as e:  # noqa
            return None, f"{type(e).__name__}: {str(e)[:140]}"


def check_polygon(case, rep):
    tp = common.use_repo()
    import shapely.geometry as sg
    from torchphysics.problem.domains.domain2D.shapely_polygon import ShapelyPolygon
    outer = [(Fr(a), Fr(b)) for a, b in case["outer"]]
    hole = [(Fr(a), Fr(b)) for a, b in case["hole"]] if case["hole"] else None
    X = tp.spaces.R2("x")
    fo = [[float(a), float(b)] for a, b in outer]
    if hole:
        P = ShapelyPolygon(X, shapely_polygon=sg.Polygon(fo, holes=[[[float(a), float(b)] for a, b in hole]]))
    else:
        P = ShapelyPolygon(X, vertices=fo)
    area = shoelace(outer) - (shoelace(hole) if hole else 0)
    per = perimeter(outer) + (perimeter(hole) if hole else 0)
    inp = dict(poly="polygon", outer=case["outer"], hole=case["hole"], density=case["density"])
    rep.count("polygon" + ("+hole" if hole else ""))
    v, vb = scalar(P.volume()), scalar(P.boundary.volume())
    if v is None or not close(v, float(area)) or not v > 0:
        rep.fail(f"ShapelyPolygon.volume() = {v}, shoelace area (holes subtracted) = {float(area):.7g}", inp)
    if vb is None or not close(vb, per) or not vb > 0:
        rep.fail(f"ShapelyPolygon.boundary.volume() = {vb}, length of all edges (outer ring and holes) = {per:.7g}", inp)
    d = Fr(case["density"])
    n = math.ceil(d * area)
    xb = float(d) * per
    nb = {math.ceil(xb * (1 - 4e-6)), math.ceil(xb), math.ceil(xb * (1 + 4e-6))}
    import torch
    torch.manual_seed(case["id"])
    got, err = sample_count(P.sample_random_uniform, float(d))
    if err or got != n:
        rep.fail(f"ShapelyPolygon.sample_random_uniform(d={d}) returned {got if not err else err}; ceil(d*area) = {n}", dict(inp, how="random"))
    got, err = sample_count(P.sample_grid, float(d))
    if err:
        rep.count("polygon-grid-raised")      # sample_grid of non-convex polygons has its own defects (C01/C18)
    elif got > n:
        rep.fail(f"ShapelyPolygon.sample_grid(d={d}) returned {got} points, more than ceil(d*area) = {n}", dict(inp, how="grid"))
    for how, fn in (("random", P.boundary.sample_random_uniform), ("grid", P.boundary.sample_grid)):
        got, err = sample_count(fn, float(d))
        if err or got not in nb:
            rep.fail(f"ShapelyPolygon.boundary {how} sampling with d={d} returned {got if not err else err}; ceil(d*length) = {sorted(nb)}",
                     dict(inp, how="bdry-" + how))


def check_solid(case, rep):
    tp = common.use_repo()
    import numpy as np
    import trimesh
    from torchphysics.problem.domains.domain3D.trimesh_polyhedron import TrimeshPolyhedron
    a, b, c = case["dims"]
    verts, faces, vol, area = solid(case["kind"], a, b, c)
    verts = [[x + s for x, s in zip(p, case["shift"])] for p in verts]
    if case["orient"] == "inward":
        faces = [f[::-1] for f in faces]
    elif case["orient"] == "mixed":
        faces = [f[::-1] if i % 3 == 0 else f for i, f in enumerate(faces)]
    Z = tp.spaces.R3("z")
    inp = dict(poly="solid", kind=case["kind"], dims=case["dims"], shift=case["shift"], orient=case["orient"], source=case["source"],
               density=case["density"])
    rep.count(f"solid:{case['kind']}:{case['orient']}:{case['source']}")
    with warnings.catch_warnings():
        warnings.simplefilter("ignore")
        try:
            if case["source"] == "faces":
                T = TrimeshPolyhedron(Z, vertices=verts, faces=faces)
            else:
                with tempfile.TemporaryDirectory(prefix="c10_mesh_") as tmp:
                    path = os.path.join(tmp, "m." + case["source"])
                    # process=False keeps the winding exactly as given
                    trimesh.Trimesh(vertices=np.array(verts, dtype=float), faces=np.array(faces), process=False).export(path)
                    T = TrimeshPolyhedron(Z, file_name=path, file_type=case["source"])
        except Exception as e:  # noqa
            rep.fail(f"TrimeshPolyhedron could not be built from a closed {case['kind']} mesh: {type(e).__name__}: {str(e)[:120]}", inp)
            return
    v, vb = scalar(T.volume()), scalar(T.boundary.volume())
    if v is None or not close(v, vol) or not v > 0:
        rep.fail(f"TrimeshPolyhedron.volume() = {v}, volume of the {case['kind']} = {vol:.7g} (faces wound {case['orient']}, "
                 f"built from {case['source']})", inp)
        return
    if vb is None or not close(vb, area):
        rep.fail(f"TrimeshPolyhedron.boundary.volume() = {vb}, surface area of the {case['kind']} = {area:.7g}", inp)
    d = case["density"]
    import torch
    torch.manual_seed(case["id"])
    np.random.seed(case["id"])
    for what, fn, m in (("random", T.sample_random_uniform, vol), ("grid", T.sample_grid, vol),
                        ("bdry-random", T.boundary.sample_random_uniform, area), ("bdry-grid", T.boundary.sample_grid, area)):
        x = d * m
        want = {math.ceil(x * (1 - 4e-6)), math.ceil(x), math.ceil(x * (1 + 4e-6))}
        got, err = sample_count(fn, d)
        if err and what.endswith("grid"):
            rep.count("solid-grid-raised")
            continue
        if err or got not in want:
            rep.fail(f"TrimeshPolyhedron {what} sampling with d={d} returned {got if not err else err}; ceil(d*measure) = {sorted(want)}",
                     dict(inp, how=what))


def check(case, rep):
    nf = len(rep.failures)
    (check_polygon if case["poly"] == "polygon" else check_solid)(case, rep)
    rep.case(case, True, sample=dict(case=case, verdict="ok" if nf == len(rep.failures) else "fails"), kind=case["poly"])


def run_poly(ctx, rep):
    rng = ctx.rng
    fixed = [dict(id=900000, poly="polygon", outer=[["0", "0"], ["4", "0"], ["4", "1"], ["1", "1"], ["1", "3"], ["0", "3"]], hole=None, density="3/2"),
             dict(id=900001, poly="solid", kind="box", dims=[1.0, 2.0, 3.0], shift=[0.0, 0.0, 0.0], orient="inward", source="stl", density=2.0),
             dict(id=900002, poly="solid", kind="box", dims=[1.0, 2.0, 3.0], shift=[0.0, 0.0, 0.0], orient="inward", source="faces", density=2.0)]
    cases = fixed + [make_polygon_case(rng, 910000 + i) for i in range(ctx.scale(40, 400))] + \
        [make_solid_case(rng, 920000 + i) for i in range(ctx.scale(30, 300))]
    for cs in cases:
        check(cs, rep)
