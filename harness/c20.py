"""C20 — Fourier layers / FNO: correspondence with the Lean model (Float DFT, stated tolerance) and the
property oracles (shift equivariance, resolution consistency, input untouched) on the implementation."""
import math
import zlib

import common
from common import fbits, unfbits, lst

DEN = 16                  # all generated numbers are dyadic rationals m/16 (exact in float32 and float64)
TOL_MODEL = 1e-9          # |implementation - Lean Float model|  <= TOL_MODEL  * (1 + max|output|)   (float64)
TOL_ORACLE64 = 1e-10      # metamorphic relations on the implementation, float64 (observed: ~1e-15)
TOL_ORACLE32 = 1e-3       # the same in the default float32 / complex64 configuration (observed: ~1e-6)
ACTS = ["tanh", "relu", "id"]
# execution contexts of a forward pass: torch.no_grad, grad mode (input without / with requires_grad),
# torch.inference_mode (pytorch-lightning's default for validate / test / predict)
EXEC_MODES = ["no_grad", "grad", "grad_req", "inference", "inference"]
# long grid axes: primes, 2^k +- 1, 5-smooth and not, > 128, > 256, > 512
LONG_N = [127, 129, 131, 134, 139, 149, 191, 200, 255, 257, 262, 263, 268, 301, 383, 509, 511, 513, 521, 769, 1000, 1021, 1024, 1031]
MID_N = [33, 37, 43, 45, 47, 53, 61, 64, 65, 67, 71, 89, 97, 101, 113, 127, 128, 131, 134, 139]


def run_driver_parallel(lines, workers=4):
    """common.run_driver on `workers` interleaved slices of the request list (the Lean driver is single-threaded;
    replies are put back in request order)"""
    import concurrent.futures
    if len(lines) < 2 * workers:
        return common.run_driver("C20", lines)
    parts = [lines[i::workers] for i in range(workers)]
    with concurrent.futures.ThreadPoolExecutor(workers) as ex:
        outs = list(ex.map(lambda part: common.run_driver("C20", part), parts))
    replies = [None] * len(lines)
    for i, out in enumerate(outs):
        replies[i::workers] = out
    return replies


# ------------------------------------------------------------------------------------------
# generators (every number is stored in the case, so a case replays without the seed)

def _nums(rng, n, lo=-48, hi=48):
    return [rng.randint(lo, hi) for _ in range(n)]


def _prod(l):
    p = 1
    for a in l:
        p *= a
    return p


def gen_shape(rng, d, cap):
    while True:
        if d == 1:
            shape = [rng.choice([1, 2, 3, 4, 5, 6, 7, 8, 9, 10, 12, 15, 16, 17, 24, 32])]
        elif d == 2:
            shape = [rng.randint(1, 8), rng.randint(1, 8)]
        else:
            shape = [rng.randint(1, 4) for _ in range(d)]
        if _prod(shape) <= cap:
            return shape


def gen_modes(rng, shape):
    """per axis: truncate / exactly the spectrum / zero-pad"""
    modes = []
    for i, N in enumerate(shape):
        F = N // 2 + 1 if i == len(shape) - 1 else N
        regime = rng.choice(["trunc", "exact", "pad"])
        if regime == "trunc" and F > 1:
            modes.append(rng.randint(1, F - 1))
        elif regime == "pad":
            modes.append(F + rng.randint(1, 3))
        else:
            modes.append(F)
    return modes


def gen_layer_params(rng, modes, C):
    lin = rng.randint(0, 1)
    bias = rng.randint(0, 1) if lin else 0
    return dict(modes=modes, lin=lin, skip=rng.randint(0, 1), bias=bias,
                kern=_nums(rng, 2 * _prod(modes) * C), W=_nums(rng, C * C, -24, 24) if lin else [],
                b=_nums(rng, C) if bias else [])


def gen_shifts(rng, shape):
    out = []
    for i, N in enumerate(shape):
        out.append([i, rng.choice([1, -1, rng.randint(-2 * N, 2 * N), rng.randint(1, max(1, N - 1)), N // 2])])
    if len(shape) > 1:
        out.append([-1] + [rng.randint(0, N) for N in shape])     # all axes at once
    return out


def gen_layer_case(rng, d, cap, f32=False, long=None):
    """long = None: small grids; "model": a long 1-D grid with few kept modes (cheap for the Lean driver);
    "oracle": long axes, any mode regime, property oracles only"""
    shape = gen_shape(rng, d, cap)
    C = rng.randint(1, 3)
    B = rng.choice([1, 1, 2])
    modes = None
    if long == "model":
        shape, C, B = [rng.choice([n for n in LONG_N if n <= 301])], 1, 1
        modes = [rng.randint(1, 4)]
    elif long == "oracle":
        if d == 1:
            shape = [rng.choice(LONG_N + MID_N)]
        else:
            shape = [rng.randint(1, 3) for _ in range(d)]
            shape[rng.randrange(d)] = rng.choice([n for n in LONG_N if n <= 301])
        if rng.random() < 0.4:
            modes = [rng.randint(1, min(12, N // 2 + 1)) for N in shape]
    case = dict(kind="layer", f32=int(f32), shape=shape, C=C, B=B, layer=gen_layer_params(rng, modes or gen_modes(rng, shape), C),
                x=_nums(rng, B * _prod(shape) * C), shifts=gen_shifts(rng, shape),
                mode=rng.choice(EXEC_MODES), train=rng.randint(0, 1), amp=gen_amp(rng, f32))
    if case["amp"] != 1.0 and rng.random() < 0.7:
        case["layer"]["bias"], case["layer"]["b"] = 0, []       # a bias of order one would hide a tiny field
    if long == "oracle":
        case["nomodel"] = 1
    if d == 1 and rng.random() < 0.3:
        case["intmode"] = 1                              # mode_num given as a plain int
    if d == 1:
        N, m = shape[0], case["layer"]["modes"][0]
        band = min(m - 1, (N - 1) // 2, 12)              # band <= m-1 (kept), 2*band < N (below Nyquist)
        band = rng.randint(0, band)
        case["res"] = dict(band=band, r=rng.choice([2, 3, 4]), a=_nums(rng, (band + 1) * C * B), b=_nums(rng, (band + 1) * C * B))
    return case


def _eye(n):
    return [DEN if i == j else 0 for i in range(n) for j in range(n)]


def gen_fno_case(rng, d, cap, f32=False, long=False, linear_path=False):
    """linear_path: no bias anywhere, identity activations -- the FNO is linear, so it is exercised over many decades of
    input amplitude with tolerances proportional to the amplitude"""
    shape = gen_shape(rng, d, cap)
    if long:
        shape = [rng.choice(LONG_N + MID_N)] if d == 1 else [rng.randint(1, 3), rng.choice([n for n in LONG_N if n <= 301])]
    Cin, C, Cout = rng.randint(1, 2), rng.randint(1, 3), rng.randint(1, 2)
    nl = rng.randint(1, 3)
    B = rng.choice([1, 2])
    # lifting / projection networks: the default nn.Linear, or user supplied ones
    up = rng.choice(["default", "default", "identity", "nobias", "mlp"])
    down = rng.choice(["default", "default", "identity", "nobias", "mlp"])
    if linear_path:
        up, down = rng.choice(["identity", "nobias"]), rng.choice(["identity", "nobias"])
    if up == "identity":
        Cin = C
    if down == "identity":
        Cout = C
    uniform = rng.random() < 0.3                          # scalar constructor arguments shared by all layers
    layers = []
    for i in range(nl):
        p = gen_layer_params(rng, layers[0]["modes"] if (uniform and layers) else gen_modes(rng, shape), C)
        if uniform and layers:
            for k in ("lin", "skip", "bias"):
                p[k] = layers[0][k]
            if not p["lin"]:
                p["W"], p["b"] = [], []
            else:
                p["W"] = p["W"] or _nums(rng, C * C, -24, 24)
                p["b"] = (p["b"] or _nums(rng, C)) if p["bias"] else []
        p["kern"] = [k // 4 for k in p["kern"]]           # keep the activations out of saturation
        p["act"] = layers[0]["act"] if (uniform and layers) else rng.choice(ACTS)
        if linear_path:
            p["bias"], p["b"], p["act"] = 0, [], "id"
        layers.append(p)
    case = dict(kind="fno", f32=int(f32), shape=shape, Cin=Cin, C=C, Cout=Cout, B=B, layers=layers, up=up, down=down, uniform=int(uniform),
                upW=_eye(C) if up == "identity" else _nums(rng, C * Cin, -16, 16),
                upb=[0] * C if up in ("identity", "nobias") else _nums(rng, C, -16, 16),
                downW=_eye(C) if down == "identity" else _nums(rng, Cout * C, -16, 16),
                downb=[0] * Cout if down in ("identity", "nobias") else _nums(rng, Cout, -16, 16),
                x=_nums(rng, B * _prod(shape) * Cin, -24, 24), shifts=gen_shifts(rng, shape),
                mode=rng.choice(EXEC_MODES), train=rng.randint(0, 1))
    if linear_path:
        case["linear_path"], case["amp"] = 1, gen_amp(rng, f32)
    for side, kind, cin, cout in (("upmlp", up, Cin, C), ("downmlp", down, C, Cout)):
        if kind == "mlp":
            h = rng.randint(1, 3)
            case[side] = dict(h=h, W1=_nums(rng, h * cin, -16, 16), b1=_nums(rng, h, -16, 16), W2=_nums(rng, cout * h, -16, 16), b2=_nums(rng, cout, -16, 16))
            case["nomodel"] = 1                           # the driver knows linear lifting / projection only
    if long:
        case["nomodel"] = 1
    return case


def gen_bn_case(rng):
    """batch normalisation over the space axis (space_resolution), freshly initialised: oracles only"""
    N = rng.choice([2, 3, 4, 5, 8, 9, 12, 16])
    C, B = rng.randint(1, 2), 2
    case = dict(kind="layer", f32=0, shape=[N], C=C, B=B, layer=gen_layer_params(rng, gen_modes(rng, [N]), C),
                x=_nums(rng, B * N * C), shifts=gen_shifts(rng, [N]), mode=rng.choice(EXEC_MODES), train=rng.randint(0, 1),
                bn=1, nomodel=1)
    return case


def _partner(n):
    """the other grid size with the same number n//2+1 of half-spectrum bins"""
    return n + 1 if n % 2 == 0 else n - 1


def gen_history_case(rng, d, sub):
    """ONE layer / FNO object evaluated on a sequence of grids (mixed parity, repeated sizes, refinements)"""
    s0 = gen_shape(rng, d, {1: 16, 2: 16, 3: 12}[d])
    if s0[-1] == 1:
        s0[-1] = 2
    last = lambda sh, n: sh[:-1] + [n]
    dbl = last(s0, 2 * s0[-1])
    other = [max(1, a + rng.choice([-1, 1])) for a in s0[:-1]] + [s0[-1]]
    pool = [s0, last(s0, _partner(s0[-1])), s0, dbl, last(dbl, _partner(dbl[-1])), other, last(other, _partner(other[-1]))]
    rng.shuffle(pool)
    shapes = pool[:rng.randint(4, 6)]
    if not any(a[:-1] == b[:-1] and a[-1] != b[-1] and a[-1] // 2 == b[-1] // 2 for a in shapes for b in shapes):
        shapes.append(last(shapes[0], _partner(shapes[0][-1])))       # always one even/odd pair with equal spectrum shape
    modes = gen_modes(rng, s0)
    case = dict(kind="history", sub=sub, f32=0, shapes=shapes, B=1, mode=rng.choice(EXEC_MODES), train=rng.randint(0, 1))
    if sub == "layer":
        case["amp"] = gen_amp(rng)
    if sub == "layer":
        C = rng.randint(1, 2)
        case.update(C=C, layer=gen_layer_params(rng, modes, C))
        if case.get("amp", 1.0) != 1.0 and rng.random() < 0.7:
            case["layer"]["bias"], case["layer"]["b"] = 0, []
        cin = C
    else:
        Cin, C, Cout = rng.randint(1, 2), rng.randint(1, 2), rng.randint(1, 2)
        layers = []
        for _ in range(rng.randint(1, 2)):
            pr = gen_layer_params(rng, gen_modes(rng, s0), C)
            pr["kern"] = [k // 4 for k in pr["kern"]]
            pr["act"] = rng.choice(ACTS)
            layers.append(pr)
        case.update(Cin=Cin, C=C, Cout=Cout, layers=layers, upW=_nums(rng, C * Cin, -16, 16), upb=_nums(rng, C, -16, 16),
                    downW=_nums(rng, Cout * C, -16, 16), downb=_nums(rng, Cout, -16, 16))
        cin = Cin
    if sub == "layer" and d == 1 and rng.random() < 0.5:
        # every call samples the same band-limited function: resolution relation between the calls
        band = rng.randint(0, min(modes[0] - 1, (min(sh[0] for sh in shapes) - 1) // 2))
        case["trig"] = dict(band=band, a=_nums(rng, (band + 1) * cin), b=_nums(rng, (band + 1) * cin))
        case["steps"] = [dict(shifts=gen_shifts(rng, sh)) for sh in shapes]
    else:
        case["steps"] = [dict(x=_nums(rng, _prod(sh) * cin, -24, 24), shifts=gen_shifts(rng, sh)) for sh in shapes]
    return case


def _fno_params(rng, shape, Cin, C, Cout):
    layers = []
    for _ in range(rng.randint(1, 2)):
        pr = gen_layer_params(rng, gen_modes(rng, shape), C)
        pr["kern"] = [k // 4 for k in pr["kern"]]
        pr["act"] = rng.choice(ACTS)
        layers.append(pr)
    return dict(Cin=Cin, C=C, Cout=Cout, layers=layers, upW=_nums(rng, C * Cin, -16, 16), upb=_nums(rng, C, -16, 16),
                downW=_nums(rng, Cout * C, -16, 16), downb=_nums(rng, Cout, -16, 16))


def _vdim(vs):
    return sum(d for _, d in vs)


def _permuted(rng, vs):
    """a different order of the same variables"""
    while True:
        out = list(vs)
        rng.shuffle(out)
        if out != list(vs):
            return out


def gen_named_case(rng, d, variant):
    """FNOs whose input channels are several NAMED variables: fed in the model's order and in another order,
    alone (`perm`), as members of tp.models.Parallel, or chained in tp.models.Sequential"""
    shape = gen_shape(rng, d, 16)
    B = 1
    names = ["f", "g", "h", "k"][:rng.choice([2, 3, 3, 3, 4])]
    allv = [[n, rng.randint(1, 2)] for n in names]
    case = dict(kind="named", variant=variant, f32=0, shape=shape, B=B, shifts=gen_shifts(rng, shape),
                mode=rng.choice(EXEC_MODES), train=rng.randint(0, 1))
    if variant == "perm":
        inS = _permuted(rng, allv) if rng.random() < 0.5 else allv
        outS = [["u", rng.randint(1, 2)]]
        case["nets"] = [dict(inS=inS, outS=outS, **_fno_params(rng, shape, _vdim(inS), rng.randint(1, 2), _vdim(outS)))]
        own = inS
    elif variant == "parallel":
        nets = []
        for o in ("u", "w"):
            sub = [v for v in allv if rng.random() < 0.7] or [allv[0]]
            rng.shuffle(sub)
            outS = [[o, rng.randint(1, 2)]]
            nets.append(dict(inS=sub, outS=outS, **_fno_params(rng, shape, _vdim(sub), rng.randint(1, 2), _vdim(outS))))
        case["nets"] = nets
        own = list(nets[0]["inS"]) + [v for v in nets[1]["inS"] if v not in nets[0]["inS"]]    # Parallel.input_space
        allv = own
    else:
        mid = [["u", rng.randint(1, 2)], ["v", rng.randint(1, 2)]]
        outS = [["w", rng.randint(1, 2)]]
        inS = _permuted(rng, allv) if rng.random() < 0.5 else allv
        case["nets"] = [dict(inS=inS, outS=mid, **_fno_params(rng, shape, _vdim(inS), rng.randint(1, 2), _vdim(mid))),
                        dict(inS=mid[::-1], outS=outS, **_fno_params(rng, shape, _vdim(mid), rng.randint(1, 2), _vdim(outS)))]
        own = inS
    # ONE model object is fed a sequence of inputs: the variables listed in the model's own order and in several different
    # other orders (repeats included), on grids and batch sizes that change from call to call
    import itertools
    perms = [list(q) for q in itertools.permutations(own)]
    others = [q for q in perms if q != list(own)]
    rng.shuffle(others)
    feeds = others[:rng.randint(2, 4)] + ([list(own)] if rng.random() < 0.7 else [])
    if others and rng.random() < 0.6:
        feeds.append(others[0])                                   # an earlier order again, after different ones
    rng.shuffle(feeds)
    case["feeds"] = feeds or [list(own)]
    steps = []
    for _ in case["feeds"]:
        sh = shape if rng.random() < 0.5 else [max(1, a + rng.choice([-1, 0, 1])) for a in shape]
        Bs = rng.choice([1, 1, 2])
        steps.append(dict(shape=sh, B=Bs, shifts=gen_shifts(rng, sh),
                          data={n: _nums(rng, Bs * _prod(sh) * dd, -24, 24) for n, dd in allv}))
    case["steps"] = steps
    return case


def gen_cases(ctx):
    rng = ctx.rng
    cases = []
    cap = 48
    n1, n2, n3 = ctx.scale(120, 1200), ctx.scale(90, 900), ctx.scale(40, 400)
    for d, n in ((1, n1), (2, n2), (3, n3)):
        for _ in range(n):
            cases.append(gen_layer_case(rng, d, cap))
    for _ in range(ctx.scale(50, 500)):
        cases.append(gen_fno_case(rng, rng.choice([1, 1, 2, 3]), 24))
    # default precision (float32 / complex64): oracles only
    for _ in range(ctx.scale(50, 500)):
        d = rng.choice([1, 2, 3])
        cases.append(gen_layer_case(rng, d, 256 if d > 1 else 48, f32=True) if rng.random() < 0.6
                     else gen_fno_case(rng, d, 64, f32=True))
    # shapes the model refuses (number of mode counts != number of spatial axes of the data)
    for _ in range(ctx.scale(4, 20)):
        c = gen_layer_case(rng, 2, cap)
        c["kind"] = "malformed"
        c["layer"]["modes"] = c["layer"]["modes"][:1]
        c["layer"]["kern"] = _nums(rng, 2 * c["layer"]["modes"][0] * c["C"])
        cases.append(c)
    # long grid axes (primes, 2^k +- 1, 5-smooth or not, > 128 / 256 / 512)
    for _ in range(ctx.scale(3, 30)):
        cases.append(gen_layer_case(rng, 1, cap, long="model"))
    for _ in range(ctx.scale(24, 240)):
        # 1-D and 2-D only: torch 2.14 (CPU) corrupts the heap in irfftn over three axes when the middle axis has >= 128
        # nodes and the leading one >= 2 (reproduced with torch alone: irfftn(randn(1,2,12,2,2, cdouble), s=(2,301,3), dim=[1,2,3]))
        cases.append(gen_layer_case(rng, rng.choice([1, 1, 1, 2, 2]), cap, long="oracle", f32=rng.random() < 0.2))
    for _ in range(ctx.scale(8, 80)):
        cases.append(gen_fno_case(rng, rng.choice([1, 1, 2]), cap, long=True))
    for _ in range(ctx.scale(6, 60)):
        cases.append(gen_bn_case(rng))
    # linear FNOs (no bias, identity activations) over many decades of input amplitude
    for _ in range(ctx.scale(16, 160)):
        cases.append(gen_fno_case(rng, rng.choice([1, 1, 2, 3]), 24, linear_path=True, f32=rng.random() < 0.3))
    # histories: the same object on several grids
    for _ in range(ctx.scale(36, 360)):
        cases.append(gen_history_case(rng, rng.choice([1, 1, 1, 2, 2, 3]), rng.choice(["layer", "layer", "fno"])))
    # several named input variables: permuted feeds, Parallel, Sequential
    for _ in range(ctx.scale(36, 360)):
        cases.append(gen_named_case(rng, rng.choice([1, 1, 2, 2, 3]), rng.choice(["perm", "perm", "parallel", "sequential"])))
    cases.append(dict(kind="prog"))
    return cases


# ------------------------------------------------------------------------------------------
# implementation side

def _t(torch, nums, shape, dtype):
    return (torch.tensor(nums, dtype=torch.float64) / DEN).reshape(shape).to(dtype)


def build_layer(torch, FourierLayer, p, C, f32, case=None):
    case = case or {}
    rd, cd = (torch.float32, torch.complex64) if f32 else (torch.float64, torch.complex128)
    kw = dict(space_res=case["shape"][0]) if case.get("bn") else {}
    L = FourierLayer(C, p["modes"][0] if case.get("intmode") else tuple(p["modes"]), linear_connection=bool(p["lin"]),
                     skip_connection=bool(p["skip"]), bias=bool(p["bias"]), **kw)
    if not f32:
        L = L.double()
    set_layer(torch, L, p, C, rd, cd)
    L.train(bool(case.get("train", 0)))
    return L


def set_layer(torch, L, p, C, rd, cd):
    k = _t(torch, p["kern"], tuple(p["modes"]) + (C, 2), rd)
    L.fourier_kernel.data = torch.view_as_complex(k.contiguous()).to(cd)
    if p["lin"]:
        L.linear_transform.weight.data = _t(torch, p["W"], (C, C), rd)
        if p["bias"]:
            L.linear_transform.bias.data = _t(torch, p["b"], (C,), rd)


def bits(torch, t):
    return t.detach().contiguous().view(torch.int32 if t.dtype == torch.float32 else torch.int64).clone()


def gen_amp(rng, f32=False):
    """input amplitude: 1 half of the time, else m * 10^e over many decades (float64: 1e-20 .. 1e20, float32: 1e-12 .. 1e12)"""
    if rng.random() < 0.5:
        return 1.0
    e = rng.randint(-12, 12) if f32 else rng.randint(-20, 20)
    if rng.random() < 0.3:
        e = (-7 if f32 else -16) + rng.randint(-2, 1)          # around the machine epsilon of the dtype
    return float(f"{rng.choice([1, 2.5, 5, 7.3])}e{e}")


def layer_gain(p):
    """bound of |output| / max|input| of one Fourier layer (spectral path + linear + skip), and the largest bias"""
    C = max(1, len(p["kern"]) // (2 * _prod(p["modes"])))
    k = [math.hypot(p["kern"][2 * i], p["kern"][2 * i + 1]) / DEN for i in range(len(p["kern"]) // 2)]
    spectral = 2.0 * sum(max(k[j * C:(j + 1) * C]) for j in range(len(k) // C))
    lin = max((sum(abs(w) for w in p["W"][r * C:(r + 1) * C]) / DEN for r in range(C)), default=0.0) if p["W"] else 0.0
    return 1.0 + spectral + lin, max((abs(b) / DEN for b in p["b"]), default=0.0)


def layer_scale(p):
    """scale of the tolerances for one layer: never larger than the plain 1 + max|y|, and proportional to the input amplitude
    when the input is tiny (the layer is affine: rounding errors are bounded by eps * (gain * max|x| + max|b| + max|y|))"""
    gain, bmax = layer_gain(p)
    return lambda y, x: min(1.0 + float(y.abs().max()), float(y.abs().max()) + gain * float(x.abs().max()) + bmax)


def linear_path_scale(y, x):
    """FNO without any bias and with identity activations: homogeneous of degree one in the input"""
    return min(1.0 + float(y.abs().max()), float(y.abs().max()) + float(x.abs().max()))


def run_in(torch, mode, f, t):
    """one forward pass in the given execution context; the result is detached"""
    if mode == "inference":
        with torch.inference_mode():
            return f(t)
    if mode in ("grad", "grad_req"):
        with torch.enable_grad():
            return f(t).detach()
    with torch.no_grad():
        return f(t)


def guarded_call(torch, mode, f, t, what, problems):
    """forward pass + "the input tensor is left alone": bit pattern and version counter of the caller's tensor"""
    if mode == "grad_req":
        t = t.detach().clone().requires_grad_(True)
    t0, v0 = bits(torch, t), t._version
    y = run_in(torch, mode, f, t)
    if not torch.equal(bits(torch, t), t0):
        problems.append(f"{what} [{mode}]: the input tensor was modified by the forward pass "
                        f"(max change {float((t.detach() - t0.view(t.dtype)).abs().max()):.3g})")
    elif t._version != v0:
        problems.append(f"{what} [{mode}]: the forward pass wrote in place into its input tensor (version counter {v0} -> {t._version})")
    return y


def check_relations(torch, f, x, shifts, tol, what, problems, mode="no_grad", scale_of=None):
    """shift equivariance of the map f on the implementation; f: tensor (B, *shape, C) -> tensor"""
    x0 = bits(torch, x)
    n0 = len(problems)
    y = guarded_call(torch, mode, f, x, what, problems)
    if len(problems) > n0:
        x = x0.view(x.dtype).clone()
    if tuple(y.shape[:-1]) != tuple(x.shape[:-1]):
        problems.append(f"{what}: output grid {tuple(y.shape[1:-1])} differs from the input grid {tuple(x.shape[1:-1])}")
        return y
    scale = scale_of(y, x) if scale_of else 1.0 + float(y.abs().max())
    for sh in shifts:
        if sh[0] >= 0:
            dims, amounts = (sh[0] + 1,), (sh[1],)
        else:
            dims, amounts = tuple(range(1, len(sh))), tuple(sh[1:])
        ys = guarded_call(torch, mode, f, torch.roll(x, amounts, dims), what, problems)
        err = float((ys - torch.roll(y, amounts, dims)).abs().max())
        if not err <= tol * scale:
            problems.append(f"{what}: not shift-equivariant: shifting the input by {list(amounts)} along spatial ax"
                            f"{'is' if len(dims) == 1 else 'es'} {[a - 1 for a in dims]} changes the shifted-back output by {err:.3g} "
                            f"(tolerance {tol * scale:.3g})")
    return y


def trig_input(torch, res, B, N, C, dtype):
    """samples j/N of sum_p a_p cos(2 pi p t) + b_p sin(2 pi p t), separately per batch row and channel"""
    band = res["band"]
    a = (torch.tensor(res["a"], dtype=torch.float64) / DEN).reshape(B, C, band + 1)
    b = (torch.tensor(res["b"], dtype=torch.float64) / DEN).reshape(B, C, band + 1)
    pj = (torch.arange(band + 1).reshape(-1, 1) * torch.arange(N).reshape(1, -1)) % N
    th = 2.0 * math.pi * pj.to(torch.float64) / N                       # (band+1, N)
    x = torch.einsum("bcp,pj->bjc", a, torch.cos(th)) + torch.einsum("bcp,pj->bjc", b, torch.sin(th))
    return x.to(dtype)


def eval_layer(case):
    tp = common.use_repo()
    import torch
    from torchphysics.models.FNO import _FourierLayer
    f32 = bool(case["f32"])
    rd = torch.float32 if f32 else torch.float64
    shape, C, B, p = case["shape"], case["C"], case["B"], case["layer"]
    problems = []
    with torch.no_grad():
        try:
            mode = case.get("mode", "no_grad")
            L = build_layer(torch, _FourierLayer, p, C, f32, case)
            amp = case.get("amp", 1.0)
            x = _t(torch, case["x"], (B, *shape, C), torch.float64).mul(amp).to(rd)
            tol = TOL_ORACLE32 if f32 else TOL_ORACLE64
            sc = layer_scale(p)
            what0 = "_FourierLayer" + (f" (input amplitude {amp:g})" if amp != 1.0 else "")
            y = check_relations(torch, L, x, case["shifts"], tol, what0, problems, mode, sc)
            if "res" in case:
                N, r = shape[0], case["res"]["r"]
                xc = trig_input(torch, case["res"], B, N, C, torch.float64).mul(amp).to(rd)
                xf = trig_input(torch, case["res"], B, r * N, C, torch.float64).mul(amp).to(rd)
                yc = guarded_call(torch, mode, L, xc, "_FourierLayer", problems)
                yf = guarded_call(torch, mode, L, xf, "_FourierLayer", problems)
                if tuple(yc.shape) == tuple(xc.shape) and tuple(yf.shape) == tuple(xf.shape):
                    err = float((yf[:, ::r, :] - yc).abs().max())
                    scale = sc(yc, xc)
                    if not err <= tol * scale:
                        problems.append(f"{what0}: not resolution-consistent: band limit {case['res']['band']} < kept modes {p['modes'][0]}, "
                                        f"grid {N} vs {r * N}: outputs differ by {err:.3g} at the shared nodes (tolerance {tol * scale:.3g})")
                else:
                    problems.append(f"_FourierLayer: output grid differs from the input grid ({tuple(yc.shape)} for {tuple(xc.shape)}, "
                                    f"{tuple(yf.shape)} for {tuple(xf.shape)})")
        except Exception as e:  # a valid configuration must not raise
            return dict(error=f"{type(e).__name__}: {e}"[:300], problems=problems)
    return dict(out=y.detach().to(torch.float64), problems=problems)


def layer_tokens(p, C, with_act):
    f = lambda v: fbits(v / DEN)
    toks = [lst(p["modes"]), str(p["lin"]), str(p["skip"]), lst(p["kern"], f), lst(p["W"], f), lst(p["b"], f)]
    if with_act:
        toks.append(p["act"])
    return " ".join(toks)


def layer_lines(case):
    shape, C, B = case["shape"], case["C"], case["B"]
    n = _prod(shape) * C
    amp = case.get("amp", 1.0)
    f = lambda v: fbits(v / DEN * amp)
    return [f"layer {lst(shape)} {C} {layer_tokens(case['layer'], C, False)} {lst(case['x'][b * n:(b + 1) * n], f)}"
            for b in range(B)]


def eval_fno(case):
    tp = common.use_repo()
    import torch
    from torchphysics.models.FNO import FNO
    f32 = bool(case["f32"])
    rd, cd = (torch.float32, torch.complex64) if f32 else (torch.float64, torch.complex128)
    shape, Cin, C, Cout, B = case["shape"], case["Cin"], case["C"], case["Cout"], case["B"]
    problems = []
    with torch.no_grad():
        try:
            net, f = build_fno(tp, torch, case, rd, cd)
            x = _t(torch, case["x"], (B, *shape, Cin), torch.float64).mul(case.get("amp", 1.0)).to(rd)
            tol = TOL_ORACLE32 if f32 else TOL_ORACLE64
            y = check_relations(torch, f, x, case["shifts"], tol, "FNO" + (f" (linear, input amplitude {case['amp']:g})" if case.get("linear_path") else ""),
                                problems, case.get("mode", "no_grad"), linear_path_scale if case.get("linear_path") else None)
        except Exception as e:
            return dict(error=f"{type(e).__name__}: {e}"[:300], problems=problems)
    return dict(out=y.detach().to(torch.float64), problems=problems)


def fno_lines(case):
    shape, Cin, C, Cout, B = case["shape"], case["Cin"], case["C"], case["Cout"], case["B"]
    f = lambda v: fbits(v / DEN)
    n = _prod(shape) * Cin
    head = (f"fno {lst(shape)} {Cin} {C} {Cout} {lst(case['upW'], f)} {lst(case['upb'], f)} {len(case['layers'])} "
            + " ".join(layer_tokens(l, C, True) for l in case["layers"])
            + f" {lst(case['downW'], f)} {lst(case['downb'], f)}")
    fx = lambda v: fbits(v / DEN * case.get("amp", 1.0))
    return [f"{head} {lst(case['x'][b * n:(b + 1) * n], fx)}" for b in range(B)]


def mk_space(tp, vs):
    sp = tp.spaces.Rn(vs[0][0], vs[0][1])
    for n, d in vs[1:]:
        sp = sp * tp.spaces.Rn(n, d)
    return sp


def build_fno(tp, torch, case, rd, cd):
    from torchphysics.models.FNO import FNO
    acts = {"tanh": torch.nn.Tanh, "relu": torch.nn.ReLU, "id": torch.nn.Identity}
    Cin, C, Cout = case["Cin"], case["C"], case["Cout"]
    Fs = mk_space(tp, case["inS"]) if "inS" in case else tp.spaces.Rn("f", Cin)
    Us = mk_space(tp, case["outS"]) if "outS" in case else tp.spaces.Rn("u", Cout)
    ls = case["layers"]

    class NoLifting(torch.nn.Module):
        """hands the data on as it is (FNO.forward gives the lifting network a Points object)"""
        def forward(self, points):
            return points.as_tensor if hasattr(points, "as_tensor") else points

    def custom(kind, cin, cout, W, mlp):
        if kind == "identity":
            return NoLifting() if cin == Cin and cout == C and W is case["upW"] else torch.nn.Identity()
        if kind == "nobias":
            lin = torch.nn.Linear(cin, cout, bias=False)
            lin.weight.data = _t(torch, W, (cout, cin), torch.float32)
            return lin
        if kind == "mlp":
            l1, l2 = torch.nn.Linear(cin, mlp["h"]), torch.nn.Linear(mlp["h"], cout)
            l1.weight.data, l1.bias.data = _t(torch, mlp["W1"], (mlp["h"], cin), torch.float32), _t(torch, mlp["b1"], (mlp["h"],), torch.float32)
            l2.weight.data, l2.bias.data = _t(torch, mlp["W2"], (cout, mlp["h"]), torch.float32), _t(torch, mlp["b2"], (cout,), torch.float32)
            return torch.nn.Sequential(l1, torch.nn.Tanh(), l2)
        return None
    up_kind, down_kind = case.get("up", "default"), case.get("down", "default")
    if case.get("uniform"):
        # scalar constructor arguments: one value for all layers (a list of d mode counts is only unambiguous when it is
        # shorter than the number of layers, see FNO.__init__)
        m0 = ls[0]["modes"]
        modes = m0[0] if len(m0) == 1 else (list(m0) if len(m0) < len(ls) else [list(l["modes"]) for l in ls])
        kw = dict(fourier_modes=modes, activations=acts[ls[0]["act"]](), skip_connections=bool(ls[0]["skip"]),
                  linear_connections=bool(ls[0]["lin"]), bias=bool(ls[0]["bias"]))
    else:
        kw = dict(fourier_modes=[list(l["modes"]) for l in ls], activations=[acts[l["act"]]() for l in ls],
                  skip_connections=[bool(l["skip"]) for l in ls], linear_connections=[bool(l["lin"]) for l in ls],
                  bias=[bool(l["bias"]) for l in ls])
    net = FNO(Fs, Us, fourier_layers=len(ls), hidden_channels=C,
              channel_up_sample_network=custom(up_kind, Cin, C, case["upW"], case.get("upmlp")),
              channel_down_sample_network=custom(down_kind, C, Cout, case["downW"], case.get("downmlp")), **kw)
    if rd == torch.float64:
        net = net.double()
    if up_kind == "default":
        net.channel_up_sampling.weight.data = _t(torch, case["upW"], (C, Cin), rd)
        net.channel_up_sampling.bias.data = _t(torch, case["upb"], (C,), rd)
    if down_kind == "default":
        net.channel_down_sampling.weight.data = _t(torch, case["downW"], (Cout, C), rd)
        net.channel_down_sampling.bias.data = _t(torch, case["downb"], (Cout,), rd)
    net.train(bool(case.get("train", 0)))
    for i, l in enumerate(ls):
        set_layer(torch, net.fourier_sequential[2 * i], l, C, rd, cd)
    return net, (lambda t: net(tp.spaces.Points(t, Fs)).as_tensor)


def eval_history(case):
    """one object, a sequence of calls on different grids; every call is checked like a single case"""
    tp = common.use_repo()
    import torch
    from torchphysics.models.FNO import _FourierLayer
    rd, cd = torch.float64, torch.complex128
    sub = case["sub"]
    cin = case["C"] if sub == "layer" else case["Cin"]
    problems, outs, xs = [], [], []
    name = "_FourierLayer" if sub == "layer" else "FNO"
    with torch.no_grad():
        try:
            if sub == "layer":
                f = build_layer(torch, _FourierLayer, case["layer"], case["C"], False, dict(train=case.get("train", 0)))
            else:
                _, f = build_fno(tp, torch, case, rd, cd)
        except Exception as e:
            return dict(error=f"constructing: {type(e).__name__}: {e}"[:300], problems=problems, outs=outs, xs=xs)
        for t, (sh, st) in enumerate(zip(case["shapes"], case["steps"])):
            what = f"{name}, call {t + 1} of one object on the grids {case['shapes']}"
            if "trig" in case:
                x = trig_input(torch, case["trig"], 1, sh[0], cin, rd)
            else:
                x = _t(torch, st["x"], (1, *sh, cin), rd)
            x = x * case.get("amp", 1.0)
            xs.append(x)
            try:
                pr = []
                y = check_relations(torch, f, x, st["shifts"], TOL_ORACLE64, what, pr, case.get("mode", "no_grad"),
                                    layer_scale(case["layer"]) if sub == "layer" else None)
                problems += pr
                outs.append(y.detach().to(torch.float64) if tuple(y.shape[:-1]) == tuple(x.shape[:-1]) else None)
            except Exception as e:
                problems.append(f"{what}: raised on a valid input of grid {sh}: {type(e).__name__}: {e}"[:400])
                outs.append(None)
        if "trig" in case:
            band = case["trig"]["band"]
            for i, (si, yi) in enumerate(zip(case["shapes"], outs)):
                for j, (sj, yj) in enumerate(zip(case["shapes"], outs)):
                    if yi is None or yj is None or sj[0] <= si[0] or sj[0] % si[0] or not 2 * band < si[0]:
                        continue
                    r = sj[0] // si[0]
                    err = float((yj[:, ::r, :] - yi).abs().max())
                    scale = layer_scale(case["layer"])(yi, xs[i])
                    if not err <= TOL_ORACLE64 * scale:
                        problems.append(f"{name}: not resolution-consistent within one object's history {case['shapes']}: band limit {band}, calls "
                                        f"{i + 1} (grid {si[0]}) and {j + 1} (grid {sj[0]}) differ by {err:.3g} at the shared nodes")
    return dict(outs=outs, xs=xs, problems=problems)


def history_lines(case, res):
    """one model request per call; the inputs are taken from the tensors that were fed to the implementation"""
    lines = []
    for sh, x in zip(case["shapes"], res["xs"]):
        vals = lst([float(v) for v in x.flatten()], fbits)
        if case["sub"] == "layer":
            lines.append(f"layer {lst(sh)} {case['C']} {layer_tokens(case['layer'], case['C'], False)} {vals}")
        else:
            f = lambda v: fbits(v / DEN)
            C = case["C"]
            lines.append(f"fno {lst(sh)} {case['Cin']} {C} {case['Cout']} {lst(case['upW'], f)} {lst(case['upb'], f)} {len(case['layers'])} "
                         + " ".join(layer_tokens(l, C, True) for l in case["layers"])
                         + f" {lst(case['downW'], f)} {lst(case['downb'], f)} {vals}")
    return lines


def eval_named(case):
    tp = common.use_repo()
    import torch
    rd, cd = torch.float64, torch.complex128
    variant, mode = case["variant"], case.get("mode", "no_grad")
    problems = []
    res = dict(problems=problems, lines=[], refs=[], inters=[], spans=[])

    def compose(nets):
        if variant == "perm":
            return nets[0]
        return tp.models.Parallel(*nets) if variant == "parallel" else tp.models.Sequential(*nets)
    with torch.no_grad():
        try:
            nets = [build_fno(tp, torch, dict(nc, train=case.get("train", 0)), rd, cd)[0] for nc in case["nets"]]
            model = compose(nets)                     # the object under test: used for EVERY call of the history
            out_dim = sum(_vdim(nc["outS"]) for nc in case["nets"]) if variant == "parallel" else _vdim(case["nets"][-1]["outS"])
            f16 = lambda v: fbits(v / DEN)

            def req(mode_, src, nc, xrow, shape):
                C = nc["C"]
                vs = lambda l: lst([f"{n} {dd}" for n, dd in l])
                return (f"fnonamed {mode_} {vs(src)} {vs(nc['inS'])} {lst(shape)} {nc['Cin']} {C} {nc['Cout']} {lst(nc['upW'], f16)} "
                        f"{lst(nc['upb'], f16)} {len(nc['layers'])} " + " ".join(layer_tokens(l, C, True) for l in nc["layers"])
                        + f" {lst(nc['downW'], f16)} {lst(nc['downb'], f16)} {lst([float(v) for v in xrow.flatten()], fbits)}")
            for t, (layout, st) in enumerate(zip(case["feeds"], case["steps"])):
                shape, B = st["shape"], st["B"]
                var = {n: _t(torch, v, (B, *shape, len(v) // (B * _prod(shape))), rd) for n, v in st["data"].items()}
                cols = lambda lay: torch.cat([var[n] for n, _ in lay], dim=-1)
                # reference: FRESH models with the same weights, every FNO called on Points in ITS OWN variable order
                # (no re-ordering involved), columns picked here with plain tensor indexing
                fresh = [build_fno(tp, torch, dict(nc, train=case.get("train", 0)), rd, cd)[0] for nc in case["nets"]]
                own = lambda i: tp.spaces.Points(cols(case["nets"][i]["inS"]), fresh[i].input_space)
                inter = None
                if variant == "perm":
                    ref = fresh[0](own(0)).as_tensor
                elif variant == "parallel":
                    ref = torch.cat([fresh[i](own(i)).as_tensor for i in range(len(fresh))], dim=-1)
                else:
                    inter = fresh[0](own(0)).as_tensor
                    off, parts = 0, {}
                    for n, dd in case["nets"][0]["outS"]:
                        parts[n] = inter[..., off:off + dd]
                        off += dd
                    ref = fresh[1](tp.spaces.Points(torch.cat([parts[n] for n, _ in case["nets"][1]["inS"]], dim=-1),
                                                    fresh[1].input_space)).as_tensor
                res["refs"].append(ref.detach()); res["inters"].append(inter)
                scale = 1.0 + float(ref.abs().max())
                sp = mk_space(tp, layout)
                f = lambda x, sp=sp: model(tp.spaces.Points(x, sp)).as_tensor
                what = (f"{variant} FNO, call {t + 1} of one object fed with the variable orders "
                        f"{[''.join(n for n, _ in l) for l in case['feeds']]}: variables listed as {[n for n, _ in layout]}, grid {shape}")
                start = len(res["lines"])
                try:
                    y = check_relations(torch, f, cols(layout), st["shifts"], TOL_ORACLE64, what, problems, mode)
                    if tuple(y.shape) != (B, *shape, out_dim):
                        problems.append(f"{what}: output of shape {tuple(y.shape)} (batch {B}); expected {(B, *shape, out_dim)}: "
                                        f"grid axes must be preserved")
                    else:
                        err = float((y - ref).abs().max())
                        if not err <= TOL_ORACLE64 * scale:
                            problems.append(f"{what}: the output differs by {err:.3g} from the output of a fresh model with the same weights "
                                            f"for the same named data in the models' own variable order (variables are identified by name, "
                                            f"a call must not depend on earlier calls)")
                except Exception as e:
                    problems.append(f"{what}: raised on a valid input: {type(e).__name__}: {e}"[:500])
                # model requests: the Lean model does the by-name selection itself
                xfeed = cols(layout)
                for bb in range(B):
                    if variant == "perm":
                        res["lines"].append(req("fix", layout, case["nets"][0], xfeed[bb], shape))
                    elif variant == "parallel":
                        for nc in case["nets"]:
                            res["lines"].append(req("select", layout, nc, xfeed[bb], shape))
                    else:
                        res["lines"].append(req("fix", layout, case["nets"][0], xfeed[bb], shape))
                        res["lines"].append(req("fix", case["nets"][0]["outS"], case["nets"][1], inter[bb], shape))
                res["spans"].append((start, len(res["lines"])))
        except Exception as e:
            res["error"] = f"{type(e).__name__}: {e}"[:300]
    return res


def eval_malformed(case):
    tp = common.use_repo()
    import torch
    from torchphysics.models.FNO import _FourierLayer
    try:
        with torch.no_grad():
            L = build_layer(torch, _FourierLayer, case["layer"], case["C"], False)
            L(_t(torch, case["x"], (case["B"], *case["shape"], case["C"]), torch.float64))
        return dict(text="accepted")
    except Exception:
        return dict(text="err:shape")


def eval_prog():
    """which pre-existing tensors does a forward pass write to? (all four connection settings)"""
    tp = common.use_repo()
    import torch
    from torchphysics.models.FNO import _FourierLayer
    out = []
    for lin in (0, 1):
        for skip in (0, 1):
            L = _FourierLayer(2, 3, linear_connection=bool(lin), skip_connection=bool(skip), bias=True)
            x = torch.linspace(-1, 1, 16).reshape(1, 8, 2).clone()
            before = [bits(torch, x)] + [bits(torch, torch.view_as_real(q) if q.is_complex() else q) for q in L.parameters()]
            try:
                with torch.no_grad():
                    L(x)
            except Exception as e:
                out.append((lin, skip, f"{type(e).__name__}: {e}"[:300]))
                continue
            after = [bits(torch, x)] + [bits(torch, torch.view_as_real(q) if q.is_complex() else q) for q in L.parameters()]
            names = ["points"] + [n for n, _ in L.named_parameters()]
            out.append((lin, skip, [n for n, a, b in zip(names, before, after) if not torch.equal(a, b)]))
    return out


# ------------------------------------------------------------------------------------------

def evaluate(case):
    import torch
    torch.set_num_threads(1)      # tiny tensors; be a good neighbour
    k = case["kind"]
    if k == "layer":
        return eval_layer(case), ([] if case["f32"] or case.get("nomodel") else layer_lines(case))
    if k == "fno":
        return eval_fno(case), ([] if case["f32"] or case.get("nomodel") else fno_lines(case))
    if k == "malformed":
        return eval_malformed(case), layer_lines(case)[:1]
    if k == "history":
        res = eval_history(case)
        return res, history_lines(case, res)
    if k == "named":
        res = eval_named(case)
        return res, res["lines"]
    return dict(prog=eval_prog()), [f"prog {l} {s}" for l in (0, 1) for s in (0, 1)]


def regime(case):
    p = case["layer"] if case["kind"] == "layer" else case["layers"][0]
    out = []
    for i, (N, m) in enumerate(zip(case["shape"], p["modes"])):
        F = N // 2 + 1 if i == len(case["shape"]) - 1 else N
        out.append("trunc" if m < F else "exact" if m == F else "pad")
    return out


def key_of(case):
    c = {k: v for k, v in case.items() if k not in ("x", "res")}
    return f"{case['kind']}:{case.get('shape', case.get('shapes'))}:{zlib.crc32(repr(sorted(case.items(), key=str)).encode())}"


def judge(rep, case, res, replies):
    import torch
    kind = case["kind"]
    if kind == "prog":
        for (lin, skip, written), reply in zip(res["prog"], replies):
            rep.count("prog")
            if isinstance(written, str):
                rep.fail(f"_FourierLayer(2, 3, linear={lin}, skip={skip}) raised on an (1, 8, 2) input: {written}", dict(case, lin=lin, skip=skip))
                continue
            if "points" in written:
                rep.fail(f"_FourierLayer(linear={lin}, skip={skip}).forward modified its input tensor", case)
            model_clean = reply.startswith("points=p kernel=k ")
            if bool(written) == model_clean:
                rep.disagree("buffers written by the forward pass: drivers/C20.lean `prog` vs parameters/input compared bit-wise",
                             dict(case, lin=lin, skip=skip), written, reply)
        return
    if kind == "history":
        name = "_FourierLayer" if case["sub"] == "layer" else "FNO"
        rep.count(f"history:{case['sub']}:d={len(case['shapes'][0])}{':trig' if 'trig' in case else ''}")
        rep.count("history-calls", len(case["shapes"]))
        rep.count(f"exec:{case.get('mode', 'no_grad')}:{'train' if case.get('train') else 'eval'}")
        pairs = sum(1 for i, a in enumerate(case["shapes"]) for b in case["shapes"][i + 1:]
                    if a[:-1] == b[:-1] and a[-1] != b[-1] and a[-1] // 2 == b[-1] // 2)
        rep.count("history:even-odd-pairs-with-equal-spectrum-shape", pairs)
        for pr in res["problems"]:
            rep.fail(pr, case)
        if "error" in res:
            rep.fail(f"{name} raised on a valid configuration: {res['error']}", case)
            return
        for t, (y, reply) in enumerate(zip(res["outs"], replies)):
            if y is None:
                continue
            if reply.startswith(("err", "bad-op")):
                rep.disagree(f"drivers/C20.lean refused call {t + 1} of a history the implementation accepts", case, "accepted", reply[:80])
                continue
            toks = reply.split()
            if len(toks) != y.numel():
                rep.disagree(f"output size of call {t + 1} of a history: drivers/C20.lean vs {name}", case, list(y.shape), len(toks))
                continue
            m = torch.tensor([unfbits(v) for v in toks], dtype=torch.float64).reshape(y.shape)
            err = float((m - y).abs().max())
            scale = 1.0 + float(y.abs().max())
            if case["sub"] == "layer":
                scale = layer_scale(case["layer"])(y, res["xs"][t])
            if not err <= TOL_MODEL * scale:
                rep.disagree(f"values of call {t + 1} (grid {case['shapes'][t]}) in a history of one {name} object: the stateless Lean model "
                             f"(drivers/C20.lean) vs the implementation, tolerance {TOL_MODEL}*(1+max|y|)", case,
                             dict(max_abs_diff=err), dict(first_model_values=[float(v) for v in m.flatten()[:3]]))
            rep.hist["max_model_err"] = max(rep.hist.get("max_model_err", 0.0), err / scale)
        return
    if kind == "named":
        variant = case["variant"]
        rep.count(f"named:{variant}:d={len(case['shape'])}:vars={len(case['feeds'][0])}")
        rep.count("named:feeds", len(case["feeds"]))
        rep.count(f"exec:{case.get('mode', 'no_grad')}:{'train' if case.get('train') else 'eval'}")
        for pr in res["problems"]:
            rep.fail(pr, case)
        if "error" in res:
            rep.fail(f"{variant} FNO raised on a valid configuration: {res['error']}", case)
            return
        if not replies:
            return
        if any(r.startswith(("err", "bad-op")) for r in replies):
            rep.disagree("drivers/C20.lean `fnonamed` refused an input the implementation accepts", case, "accepted",
                         [r[:60] for r in replies if r.startswith(("err", "bad-op"))][0])
            return
        rep.count("named:distinct-non-canonical-orders-per-object",
                  len({tuple(n for n, _ in l) for l in case["feeds"]} - {tuple(n for n, _ in case["feeds"][0])}))
        for t, ((a0, b0), st) in enumerate(zip(res["spans"], case["steps"])):
            rows = [torch.tensor([unfbits(v) for v in r.split()], dtype=torch.float64) for r in replies[a0:b0]]
            B, shape = st["B"], st["shape"]
            per = len(rows) // B
            try:
                if variant == "perm":
                    m = torch.stack([rows[b].reshape(*shape, -1) for b in range(B)])
                    targets = [("output", res["refs"][t], m)]
                elif variant == "parallel":
                    m = torch.stack([torch.cat([rows[b * per + i].reshape(*shape, -1) for i in range(per)], dim=-1) for b in range(B)])
                    targets = [("joined output", res["refs"][t], m)]
                else:
                    m1 = torch.stack([rows[2 * b].reshape(*shape, -1) for b in range(B)])
                    m2 = torch.stack([rows[2 * b + 1].reshape(*shape, -1) for b in range(B)])
                    targets = [("first model's output", res["inters"][t], m1), ("output", res["refs"][t], m2)]
                for nm, y, m in targets:
                    if tuple(y.shape) != tuple(m.shape):
                        raise ValueError(f"{nm}: {tuple(y.shape)} vs {tuple(m.shape)}")
                    err = float((m - y).abs().max())
                    scale = 1.0 + float(y.abs().max())
                    if not err <= TOL_MODEL * scale:
                        rep.disagree(f"values ({nm}, call {t + 1}) of a {variant} FNO with named input variables: drivers/C20.lean `fnonamed` "
                                     f"(Fourier.fnoFix / fnoSelect at Float) vs a fresh implementation model, tolerance {TOL_MODEL}*(1+max|y|)", case,
                                     dict(max_abs_diff=err), dict(first_model_values=[float(v) for v in m.flatten()[:3]]))
                    rep.hist["max_model_err"] = max(rep.hist.get("max_model_err", 0.0), err / scale)
            except (ValueError, RuntimeError) as e:
                rep.disagree(f"output size of a {variant} FNO: drivers/C20.lean `fnonamed` vs implementation", case, str(e)[:200],
                             [len(r.split()) for r in replies[a0:b0]][:4])
        return
    if kind == "malformed":
        rep.count("malformed")
        if replies and replies[0] != res["text"]:
            rep.disagree("rejected shapes: drivers/C20.lean `layer` vs _FourierLayer", case, res["text"], replies[0])
        return
    rep.count(f"{kind}:d={len(case['shape'])}:{'f32' if case['f32'] else 'f64'}")
    rep.count(f"exec:{case.get('mode', 'no_grad')}:{'train' if case.get('train') else 'eval'}")
    nmax = max(case["shape"])
    rep.count("longest-axis:" + ("<=48" if nmax <= 48 else "49-128" if nmax <= 128 else "129-256" if nmax <= 256 else "257-512" if nmax <= 512 else ">512"))
    if nmax > 128:
        rep.count("longest-axis>128:" + ("with-model" if replies else "oracles-only"))
    if kind == "fno":
        rep.count(f"fno:up={case.get('up', 'default')}")
        rep.count(f"fno:down={case.get('down', 'default')}")
        rep.count("fno:scalar-ctor-args" if case.get("uniform") else "fno:per-layer-ctor-args")
    amp = case.get("amp", 1.0)
    if amp != 1.0:
        e = math.floor(math.log10(amp))
        rep.count("input-amplitude:" + ("<=1e-13" if e < -12 else "1e-12..1e-7" if e < -6 else "1e-6..1e-1" if e < 0 else "1e0..1e6" if e <= 6 else "1e7..1e12" if e <= 12 else ">=1e13")
                  + (":f32" if case["f32"] else ":f64"))
    if case.get("linear_path"):
        rep.count("fno:linear-path")
    if case.get("intmode"):
        rep.count("layer:int-mode_num")
    if case.get("bn"):
        rep.count("layer:batchnorm-fresh-init")
    for r in set(regime(case)):
        rep.count("modes:" + r)
    if case["shape"][-1] % 2 == 0 and regime(case)[-1] != "trunc":
        rep.count("nyquist-bin-kept")
    p0 = case["layer"] if kind == "layer" else case["layers"][0]
    rep.count(f"lin={p0['lin']} skip={p0['skip']}")
    if "res" in case:
        rep.count(f"resolution:r={case['res']['r']}")
    for pr in res["problems"]:
        rep.fail(pr, case)
    if "error" in res:
        rep.fail(f"{'_FourierLayer' if kind == 'layer' else 'FNO'} raised on a valid configuration: {res['error']}", case)
        return
    if not replies:
        return
    y = res["out"]
    if any(r.startswith("err") or r.startswith("bad-op") for r in replies):
        rep.disagree(f"drivers/C20.lean `{kind}` refused an input the implementation accepts", case, "accepted", replies[0][:80])
        return
    n = y[0].numel()
    ok_shape = all(len(r.split()) == n for r in replies) and len(replies) == y.shape[0]
    if not ok_shape:
        rep.disagree(f"output size: drivers/C20.lean `{kind}` vs implementation", case, list(y.shape), [len(r.split()) for r in replies])
        return
    m = torch.tensor([[unfbits(t) for t in r.split()] for r in replies], dtype=torch.float64).reshape(y.shape)
    err = float((m - y).abs().max())
    scale = 1.0 + float(y.abs().max())
    xmax = max((abs(v) for v in case["x"]), default=0) / DEN * case.get("amp", 1.0)
    if kind == "layer":
        gain, bmax = layer_gain(case["layer"])
        scale = min(scale, float(y.abs().max()) + gain * xmax + bmax)
    elif case.get("linear_path"):
        scale = min(scale, float(y.abs().max()) + xmax)
    if not err <= TOL_MODEL * scale:
        idx = int((m - y).abs().argmax())
        rep.disagree(f"values: drivers/C20.lean `{kind}` (Fourier.{'layer' if kind == 'layer' else 'fnoBody'} at Float) vs "
                     f"{'_FourierLayer' if kind == 'layer' else 'FNO'}.forward in float64, tolerance {TOL_MODEL}*(1+max|y|)",
                     case, dict(max_abs_diff=err, flat_index=idx, value=float(y.flatten()[idx])), dict(value=float(m.flatten()[idx])))
    rep.hist["max_model_err"] = max(rep.hist.get("max_model_err", 0.0), err / scale)


def run(ctx, rep, cases=None):
    rep.rule = ("seeded Fourier-layer / FNO configurations in 1-3 spatial dimensions (grid sizes, truncating / exact / zero-padding mode "
                "counts per axis, channels, linear/skip/bias, batch) with dyadic data; non-trivial = grid with >= 2 nodes and a tested shift "
                "that is not a multiple of the axis length; histories = ONE layer / FNO object called on a sequence of 4-7 grids (even/odd pairs with the "
                "same half-spectrum shape, repeats, refinements; every call compared with the stateless model and checked with the shift relations, "
                "band-limited histories with the resolution relation between calls); named = FNOs with 2-3 named input variables fed in the model's "
                "order and in another order, alone, inside tp.models.Parallel and chained in tp.models.Sequential (output shape, by-name identity, "
                "shift relations, Lean fnoFix/fnoSelect); half of the layer cases / layer histories and the bias-free linear FNOs scale the input by "
                "m*10^e (e in -20..20 float64, -12..12 float32) with tolerances proportional to the amplitude; distinct = distinct (configuration, data) digests")
    cases = cases if cases is not None else gen_cases(ctx)
    results, lines, spans = [], [], []
    for c in cases:
        r, ls = evaluate(c)
        results.append(r)
        spans.append((len(lines), len(lines) + len(ls)))
        lines += ls
    try:
        replies = run_driver_parallel(lines)
    except common.DriverFailure:
        for c, r in zip(cases, results):
            if c["kind"] in ("layer", "fno", "history", "named"):
                judge(rep, c, r, [])
        rep.disagreements.clear()
        raise
    for c, r, (a, b) in zip(cases, results, spans):
        nontrivial = c["kind"] in ("layer", "fno") and _prod(c["shape"]) >= 2 and any(
            (sh[0] >= 0 and sh[1] % c["shape"][sh[0]] != 0) or (sh[0] < 0 and any(s % N for s, N in zip(sh[1:], c["shape"])))
            for sh in c["shifts"])
        if c["kind"] == "history":
            nontrivial = True
        if c["kind"] == "named":
            nontrivial = len(c["feeds"]) > 1 or c["variant"] != "perm"
        sample = None
        if c["kind"] == "history" and r.get("outs") and r["outs"][0] is not None and b > a:
            sample = dict(kind="history", sub=c["sub"], grids=c["shapes"], implementation_first_values=[float(v) for v in r["outs"][0].flatten()[:3]],
                          model_first_values=[unfbits(t) for t in replies[a].split()[:3]] if not replies[a].startswith(("err", "bad")) else None)
        if c["kind"] in ("layer", "fno") and "out" in r:
            sample = dict(kind=c["kind"], shape=c["shape"], modes=(c["layer"] if c["kind"] == "layer" else c["layers"][0])["modes"],
                          f32=c["f32"], implementation_first_values=[float(v) for v in r["out"].flatten()[:3]],
                          model_first_values=[unfbits(t) for t in replies[a].split()[:3]] if b > a and not replies[a].startswith(("err", "bad")) else None)
        rep.case(key_of(c), nontrivial, sample=sample, kind=f"{c['kind']}{c.get('sub', '')}{len(c.get('shape', []))}{c.get('f32', 0)}")
        judge(rep, c, r, replies[a:b])
    rep.traces_validated = sum(len(c["shapes"]) if c["kind"] == "history" else 1 for c in cases
                               if c["kind"] in ("layer", "fno", "history", "named") and not c.get("f32"))


def replay(ctx, obj):
    rep = common.Report(ctx)
    inp = obj.get("failing_input") or obj.get("first")
    case = {k: v for k, v in inp["input"].items() if k in
            ("kind", "f32", "shape", "C", "B", "layer", "x", "shifts", "res", "Cin", "Cout", "layers", "upW", "upb", "downW", "downb",
             "mode", "train", "nomodel", "intmode", "bn", "up", "down", "uniform", "upmlp", "downmlp", "amp", "linear_path",
             "sub", "shapes", "steps", "trig", "variant", "nets", "feeds", "data")}
    lean = common.lean_check("C20")
    run(ctx, rep, [case])
    return common.finish(ctx, rep, lean)
