/-
  Helper lemmas for the geometry proofs (membership algorithm vs. denotation).
-/
import TPV.Proofs.GeomSpec
import Mathlib.Tactic.LinearCombination

namespace TPV.Geom
set_option linter.unusedSectionVars false
variable {K : Type} [Field K] [LinearOrder K] [IsStrictOrderedRing K]

@[simp] theorem le_iff (a b : K) : le a b = true ↔ a ≤ b := by simp [le]

theorem solveLgs_fst (q1 q2 d1x d1y d2x d2y s t : K) (hdet : d1x * d2y - d1y * d2x ≠ 0)
    (h1 : q1 = s * d1x + t * d2x) (h2 : q2 = s * d1y + t * d2y) :
    solveLgs q1 q2 d1x d1y d2x d2y = (s, t) := by
  subst h1 h2
  simp only [solveLgs]
  refine Prod.ext ?_ ?_ <;> simp only [] <;> rw [div_eq_iff hdet] <;> ring

theorem solveLgs_spec (q1 q2 d1x d1y d2x d2y : K) (hdet : d1x * d2y - d1y * d2x ≠ 0) :
    q1 = (solveLgs q1 q2 d1x d1y d2x d2y).1 * d1x + (solveLgs q1 q2 d1x d1y d2x d2y).2 * d2x ∧
    q2 = (solveLgs q1 q2 d1x d1y d2x d2y).1 * d1y + (solveLgs q1 q2 d1x d1y d2x d2y).2 * d2y := by
  simp only [solveLgs]
  constructor <;> rw [div_mul_eq_mul_div, div_mul_eq_mul_div, ← add_div, eq_div_iff hdet] <;> ring

theorem normLe_iff (d2 r : K) : normLe d2 r = true ↔ 0 ≤ r ∧ d2 ≤ r ^ 2 := by
  simp [normLe, pow_two]

end TPV.Geom
