/-
  Helper lemmas for C20 (Fourier layer): the model's pair arithmetic over ℝ is ℂ, twiddle algebra,
  one-axis shift/phase lemmas, induction over the axes.  Property theorems: TPV/Props/C20.lean.
-/
import TPV.Model.Fourier
import Mathlib.Analysis.SpecialFunctions.Trigonometric.Basic
import Mathlib.Analysis.SpecialFunctions.Complex.Circle
import Mathlib.Tactic.Ring
import Mathlib.Tactic.Linarith
import Mathlib.Tactic.FieldSimp
import Mathlib.Algebra.Field.GeomSum
import Mathlib.Analysis.SpecialFunctions.Complex.Log

namespace TPV.Fourier
open Finset

/-- the real numbers as an instance of the model's scalar interface -/
noncomputable instance instTrigReal : Trig ℝ := ⟨Real.cos, Real.sin, Real.pi, fun n => (n : ℝ)⟩

/-- model complex numbers over ℝ are Mathlib's complex numbers -/
def toC (z : Cx ℝ) : ℂ := ⟨z.re, z.im⟩

theorem toC_inj {a b : Cx ℝ} (h : toC a = toC b) : a = b := by
  cases a; cases b
  simp only [toC, Complex.mk.injEq] at h
  simp [h.1, h.2]

@[simp] theorem zero_real : (zero : ℝ) = 0 := by simp [zero, Trig.ofNat]
@[simp] theorem one_real : (one : ℝ) = 1 := by simp [one, Trig.ofNat]
@[simp] theorem two_real : (two : ℝ) = 2 := by simp [two, Trig.ofNat]
@[simp] theorem ofNat_real (n : ℕ) : (Trig.ofNat n : ℝ) = n := rfl

@[simp] theorem toC_zero : toC Cx.zero = 0 := by
  apply Complex.ext <;> simp [toC, Cx.zero]
@[simp] theorem toC_ofReal (x : ℝ) : toC (Cx.ofReal x) = (x : ℂ) := by
  apply Complex.ext <;> simp [toC, Cx.ofReal]
@[simp] theorem toC_add (a b : Cx ℝ) : toC (a.add b) = toC a + toC b := by
  apply Complex.ext <;> simp [toC, Cx.add]
@[simp] theorem toC_mul (a b : Cx ℝ) : toC (a.mul b) = toC a * toC b := by
  apply Complex.ext <;> simp [toC, Cx.mul]
@[simp] theorem toC_scale (s : ℝ) (a : Cx ℝ) : toC (Cx.scale s a) = (s : ℂ) * toC a := by
  apply Complex.ext <;> simp [toC, Cx.scale]
@[simp] theorem toC_re (a : Cx ℝ) : (toC a).re = a.re := rfl
@[simp] theorem toC_im (a : Cx ℝ) : (toC a).im = a.im := rfl

theorem sumTo_eq (n : ℕ) (f : ℕ → ℝ) : sumTo n f = ∑ j ∈ range n, f j := by
  induction n with
  | zero => simp [sumTo]
  | succ n ih => simp [sumTo, ih, Finset.sum_range_succ]

theorem toC_csumTo (n : ℕ) (f : ℕ → Cx ℝ) : toC (csumTo n f) = ∑ j ∈ range n, toC (f j) := by
  induction n with
  | zero => simp [csumTo]
  | succ n ih => simp [csumTo, ih, Finset.sum_range_succ]

/-- `exp(2πi m/N)` -/
noncomputable def E (N m : ℕ) : ℂ := Complex.exp (((ang N m : ℝ) : ℂ) * Complex.I)

theorem ang_real (N m : ℕ) : (ang N m : ℝ) = 2 * Real.pi * m / N := by
  simp [ang, Trig.pi]

@[simp] theorem toC_tw (N m : ℕ) : toC (tw N m) = E N m := by
  apply Complex.ext
  · simp [toC, tw, E, Complex.exp_ofReal_mul_I_re, Trig.cos]
  · simp [toC, tw, E, Complex.exp_ofReal_mul_I_im, Trig.sin]

@[simp] theorem toC_twc (N m : ℕ) : toC (twc N m) = (E N m)⁻¹ := by
  rw [E, ← Complex.exp_neg]
  apply Complex.ext
  · simp only [toC, twc, Trig.cos]
    rw [show -(((ang N m : ℝ) : ℂ) * Complex.I) = (((-ang N m : ℝ)) : ℂ) * Complex.I by push_cast; ring,
      Complex.exp_ofReal_mul_I_re, Real.cos_neg]
  · simp only [toC, twc, Trig.sin]
    rw [show -(((ang N m : ℝ) : ℂ) * Complex.I) = (((-ang N m : ℝ)) : ℂ) * Complex.I by push_cast; ring,
      Complex.exp_ofReal_mul_I_im, Real.sin_neg]

theorem E_ne_zero (N m : ℕ) : E N m ≠ 0 := Complex.exp_ne_zero _

theorem E_zero (N : ℕ) : E N 0 = 1 := by simp [E, ang_real]

theorem E_add (N a b : ℕ) : E N (a + b) = E N a * E N b := by
  simp only [E, ← Complex.exp_add, ang_real]
  congr 1; push_cast; ring

theorem E_period (N m q : ℕ) (hN : 0 < N) : E N (m + N * q) = E N m := by
  have hN' : (N : ℂ) ≠ 0 := by exact_mod_cast hN.ne'
  rw [E_add]
  have : E N (N * q) = 1 := by
    simp only [E, ang_real]
    rw [← Complex.exp_nat_mul_two_pi_mul_I q]
    congr 1; push_cast; field_simp
  rw [this, mul_one]


/-! ### index bookkeeping -/

@[simp] theorem upd_same (k : Idx) (i v : ℕ) : upd k i v i = v := by simp [upd]
theorem upd_ne (k : Idx) {i j : ℕ} (v : ℕ) (h : j ≠ i) : upd k i v j = k j := by simp [upd, h]
@[simp] theorem upd_upd (k : Idx) (i v w : ℕ) : upd (upd k i v) i w = upd k i w := by
  funext a; simp only [upd]; split <;> rfl
theorem upd_comm (k : Idx) {i j : ℕ} (v w : ℕ) (h : i ≠ j) : upd (upd k i v) j w = upd (upd k j w) i v := by
  funext a; simp only [upd]
  by_cases h1 : a = j <;> by_cases h2 : a = i
  · exact absurd (h2.symm.trans h1) h
  · subst h1; simp [h2]
  · subst h2; simp [h1]
  · simp [h1, h2]

/-- `shiftIdx N a m + a` is `m` up to multiples of `N` -/
theorem shiftIdx_add (N a m : ℕ) (hN : 0 < N) : ∃ q q', shiftIdx N a m + a + N * q' = m + N * q := by
  unfold shiftIdx
  have h1 := Nat.div_add_mod (m + (N - a % N)) N
  have h2 := Nat.div_add_mod a N
  have h3 := Nat.mod_lt a hN
  refine ⟨1 + a / N, (m + (N - a % N)) / N, ?_⟩
  have : N * (1 + a / N) = N + N * (a / N) := by ring
  omega

theorem shiftIdx_lt (N a m : ℕ) (hN : 0 < N) : shiftIdx N a m < N := Nat.mod_lt _ hN

/-- cyclic reindexing of a sum over one period -/
theorem sum_shift (N c : ℕ) (hN : 0 < N) (F : ℕ → ℂ) :
    ∑ j ∈ range N, F ((j + c) % N) = ∑ j ∈ range N, F j := by
  have : NeZero N := ⟨by omega⟩
  rw [← Fin.sum_univ_eq_sum_range (fun j => F ((j + c) % N)) N, ← Fin.sum_univ_eq_sum_range F N]
  rw [← Equiv.sum_comp (Equiv.addRight (Fin.ofNat N c)) (fun j : Fin N => F j)]
  refine Finset.sum_congr rfl (fun j _ => ?_)
  simp [Fin.val_add]

/-- the phase factor a shift by `a` along axis `i` (size `N`) puts on a spectrum -/
noncomputable def phase (i N a : ℕ) (Y : Idx → Cx ℝ) : Idx → Cx ℝ := fun k => (twc N (a * k i)).mul (Y k)

theorem E_shift (N a m k : ℕ) (hN : 0 < N) :
    E N (shiftIdx N a m * k) * E N (a * k) = E N (m * k) := by
  obtain ⟨q, q', hq⟩ := shiftIdx_add N a m hN
  rw [← E_add, ← Nat.add_mul, ← E_period N _ (q' * k) hN, ← Nat.mul_assoc, ← Nat.add_mul, hq,
    Nat.add_mul, Nat.mul_assoc, E_period _ _ _ hN]

/-! ### one axis: a shift becomes a phase, a phase becomes a shift -/

theorem fwdAxis_roll_same (i N a : ℕ) (hN : 0 < N) (x : Idx → Cx ℝ) :
    fwdAxis i N (rollAxis i N a x) = phase i N a (fwdAxis i N x) := by
  funext k
  apply toC_inj
  simp only [fwdAxis, rollAxis, phase, toC_mul, toC_csumTo, toC_twc, upd_same, upd_upd]
  rw [Finset.mul_sum]
  have hsh : ∀ j, shiftIdx N a j = (j + (N - a % N)) % N := fun j => rfl
  rw [← sum_shift N (N - a % N) hN (fun j => (E N (a * k i))⁻¹ * ((E N (j * k i))⁻¹ * toC (x (upd k i j))))]
  refine Finset.sum_congr rfl (fun j _ => ?_)
  rw [← hsh j]
  have h := E_shift N a j (k i) hN
  have h1 := E_ne_zero N (a * k i)
  have h2 := E_ne_zero N (shiftIdx N a j * k i)
  rw [← h]
  field_simp

theorem invAxis_phase_same (i N a : ℕ) (hN : 0 < N) (Y : Idx → Cx ℝ) :
    invAxis i N (phase i N a Y) = rollAxis i N a (invAxis i N Y) := by
  funext n
  apply toC_inj
  simp only [invAxis, rollAxis, phase, toC_mul, toC_csumTo, toC_twc, toC_tw, toC_scale, upd_same, upd_upd]
  congr 1
  refine Finset.sum_congr rfl (fun k _ => ?_)
  have h := E_shift N a (n i) k hN
  have h1 := E_ne_zero N (a * k)
  rw [Nat.mul_comm k (n i), ← h, Nat.mul_comm k (shiftIdx N a (n i))]
  field_simp

theorem c2rAxis_phase_same (i N a : ℕ) (hN : 0 < N) (Y : Idx → Cx ℝ) :
    c2rAxis i N (phase i N a Y) = rollAxis i N a (c2rAxis i N Y) := by
  funext n
  simp only [c2rAxis, rollAxis, phase, upd_same, upd_upd, sumTo_eq]
  congr 1
  refine Finset.sum_congr rfl (fun k _ => ?_)
  have h := E_shift N a (n i) k hN
  have h1 := E_ne_zero N (a * k)
  simp only [c2rTerm]
  by_cases hk : k = 0
  · subst hk
    simp only [if_true]
    have : toC (twc N (a * 0)) = 1 := by simp [E_zero]
    have h2 : toC ((twc N (a * 0)).mul (Y (upd n i 0))) = toC (Y (upd n i 0)) := by rw [toC_mul, this, one_mul]
    exact congrArg Complex.re h2
  · simp only [hk, if_false]
    by_cases hny : 2 * k = N
    · simp only [hny, if_true]
      -- Nyquist bin: the phase is ±1
      have hang : (ang N (a * k) : ℝ) = a * Real.pi := by
        rw [ang_real]; subst hny; push_cast; field_simp
      have hs : Trig.sin (ang N (a * k) : ℝ) = 0 := by
        show Real.sin _ = 0; rw [hang]; exact Real.sin_nat_mul_pi a
      have hre : ((twc N (a * k)).mul (Y (upd n i k))).re
          = Trig.cos (ang N (a * k) : ℝ) * (Y (upd n i k)).re := by
        simp [Cx.mul, twc, hs]
      rw [hre]
      have hc : Trig.cos (ang N (k * shiftIdx N a (n i)) : ℝ) * Trig.cos (ang N (a * k) : ℝ)
          = Trig.cos (ang N (k * n i) : ℝ) := by
        have h' := congrArg Complex.re h
        rw [Nat.mul_comm (shiftIdx N a (n i)) k, Nat.mul_comm (n i) k] at h'
        simp only [E, Complex.mul_re, Complex.exp_ofReal_mul_I_re, Complex.exp_ofReal_mul_I_im] at h'
        have hs' : Real.sin (ang N (a * k) : ℝ) = 0 := hs
        rw [hs', mul_zero, sub_zero] at h'
        exact h'
      have hsq : Trig.cos (ang N (a * k) : ℝ) ^ 2 = 1 := by
        have := Real.cos_sq_add_sin_sq (ang N (a * k) : ℝ)
        have hs' : Real.sin (ang N (a * k) : ℝ) = 0 := hs
        rw [hs'] at this
        show Real.cos _ ^ 2 = 1
        linarith
      rw [← hc]
      linear_combination ((Y (upd n i k)).re * Trig.cos (ang N (k * shiftIdx N a (n i)) : ℝ)) * hsq
    · simp only [hny, if_false]
      congr 1
      have h2 : toC ((tw N (k * n i)).mul ((twc N (a * k)).mul (Y (upd n i k))))
          = toC ((tw N (k * shiftIdx N a (n i))).mul (Y (upd n i k))) := by
        simp only [toC_mul, toC_tw, toC_twc]
        rw [Nat.mul_comm k (n i), ← h, Nat.mul_comm k (shiftIdx N a (n i))]
        field_simp
      exact congrArg Complex.re h2

/-! ### the other axes do not notice -/

theorem fwdAxis_roll_other {i j : ℕ} (h : j ≠ i) (M N a : ℕ) (x : Idx → Cx ℝ) :
    fwdAxis j M (rollAxis i N a x) = rollAxis i N a (fwdAxis j M x) := by
  funext k
  simp only [fwdAxis, rollAxis]
  congr 1; funext j'
  rw [upd_ne _ _ (Ne.symm h), upd_ne _ _ h, upd_comm _ _ _ h]

theorem fwdAxis_phase_other {i j : ℕ} (h : j ≠ i) (M N a : ℕ) (Y : Idx → Cx ℝ) :
    fwdAxis j M (phase i N a Y) = phase i N a (fwdAxis j M Y) := by
  funext k
  apply toC_inj
  simp only [fwdAxis, phase, toC_mul, toC_csumTo, toC_twc]
  rw [Finset.mul_sum]
  refine Finset.sum_congr rfl (fun j' _ => ?_)
  rw [upd_ne _ _ (Ne.symm h)]; ring

theorem invAxis_roll_other {i j : ℕ} (h : j ≠ i) (M N a : ℕ) (Y : Idx → Cx ℝ) :
    invAxis j M (rollAxis i N a Y) = rollAxis i N a (invAxis j M Y) := by
  funext n
  simp only [invAxis, rollAxis]
  congr 2; funext k
  rw [upd_ne _ _ (Ne.symm h), upd_ne _ _ h, upd_comm _ _ _ h]

theorem invAxis_phase_other {i j : ℕ} (h : j ≠ i) (M N a : ℕ) (Y : Idx → Cx ℝ) :
    invAxis j M (phase i N a Y) = phase i N a (invAxis j M Y) := by
  funext n
  apply toC_inj
  simp only [invAxis, phase, toC_mul, toC_csumTo, toC_twc, toC_tw, toC_scale]
  rw [Finset.mul_sum, Finset.mul_sum, Finset.mul_sum]
  refine Finset.sum_congr rfl (fun k _ => ?_)
  rw [upd_ne _ _ (Ne.symm h)]; ring

theorem c2rAxis_roll_other {i j : ℕ} (h : j ≠ i) (M N a : ℕ) (Y : Idx → Cx ℝ) :
    c2rAxis j M (rollAxis i N a Y) = rollAxis i N a (c2rAxis j M Y) := by
  funext n
  simp only [c2rAxis, rollAxis]
  congr 2; funext k
  rw [upd_ne _ _ (Ne.symm h), upd_ne _ _ h, upd_comm _ _ _ h]

theorem resize_phase (src dst : List ℕ) (i N a : ℕ) (Y : Idx → Cx ℝ) :
    resize src dst (phase i N a Y) = phase i N a (resize src dst Y) := by
  funext k
  simp only [resize, phase]
  split
  · rfl
  · apply toC_inj; simp

theorem mulKernel_phase (kern : Idx → Cx ℝ) (i N a : ℕ) (P : Idx → Cx ℝ) :
    (fun k => ((phase i N a P) k).mul (kern k)) = phase i N a (fun k => (P k).mul (kern k)) := by
  funext k
  apply toC_inj
  simp only [phase, toC_mul]; ring

/-! ### all axes -/

theorem fwdFrom_roll_other (i N a : ℕ) : ∀ (ns : List ℕ) (s : ℕ) (x : Idx → Cx ℝ), (i < s ∨ s + ns.length ≤ i) →
    fwdFrom s ns (rollAxis i N a x) = rollAxis i N a (fwdFrom s ns x)
  | [], _, _, _ => rfl
  | M :: ns, s, x, h => by
    simp only [fwdFrom]
    rw [fwdFrom_roll_other i N a ns (s + 1) x (by simp only [List.length_cons] at h; omega),
      fwdAxis_roll_other (by simp only [List.length_cons] at h; omega)]

theorem fwdFrom_phase_other (i N a : ℕ) : ∀ (ns : List ℕ) (s : ℕ) (Y : Idx → Cx ℝ), (i < s ∨ s + ns.length ≤ i) →
    fwdFrom s ns (phase i N a Y) = phase i N a (fwdFrom s ns Y)
  | [], _, _, _ => rfl
  | M :: ns, s, Y, h => by
    simp only [fwdFrom]
    rw [fwdFrom_phase_other i N a ns (s + 1) Y (by simp only [List.length_cons] at h; omega),
      fwdAxis_phase_other (by simp only [List.length_cons] at h; omega)]

/-- the forward transform turns a shift along axis `i` into the phase `exp(-2πi a kᵢ/N)` -/
theorem fwdFrom_roll (i N a : ℕ) (hN : 0 < N) : ∀ (ns : List ℕ) (s : ℕ) (x : Idx → Cx ℝ), s ≤ i →
    ns[i - s]? = some N → fwdFrom s ns (rollAxis i N a x) = phase i N a (fwdFrom s ns x)
  | [], _, _, _, h => by simp at h
  | M :: ns, s, x, hs, h => by
    simp only [fwdFrom]
    by_cases e : i = s
    · subst e
      simp only [Nat.sub_self, List.getElem?_cons_zero, Option.some.injEq] at h
      subst h
      rw [fwdFrom_roll_other i M a ns (i + 1) x (by omega), fwdAxis_roll_same i M a hN]
    · have hlt : s < i := by omega
      have h' : ns[i - (s + 1)]? = some N := by
        have : i - s = (i - (s + 1)) + 1 := by omega
        rw [this, List.getElem?_cons_succ] at h; exact h
      rw [fwdFrom_roll i N a hN ns (s + 1) x (by omega) h', fwdAxis_phase_other (by omega)]

theorem invFrom_roll_other (i N a : ℕ) : ∀ (pre : List ℕ) (last s : ℕ) (Y : Idx → Cx ℝ), i < s →
    invFrom s pre last (rollAxis i N a Y) = rollAxis i N a (invFrom s pre last Y)
  | [], last, s, Y, h => by simp only [invFrom]; exact c2rAxis_roll_other (by omega) _ _ _ _
  | M :: pre, last, s, Y, h => by
    simp only [invFrom]
    rw [invAxis_roll_other (by omega), invFrom_roll_other i N a pre last (s + 1) _ (by omega)]

/-- the inverse transform turns the phase back into the shift -/
theorem invFrom_phase (i N a : ℕ) (hN : 0 < N) : ∀ (pre : List ℕ) (last s : ℕ) (Y : Idx → Cx ℝ), s ≤ i →
    (pre ++ [last])[i - s]? = some N → invFrom s pre last (phase i N a Y) = rollAxis i N a (invFrom s pre last Y)
  | [], last, s, Y, hs, h => by
    simp only [invFrom]
    have e : i - s = 0 := by
      by_contra hne
      have : i - s = (i - s - 1) + 1 := by omega
      rw [this] at h; simp at h
    rw [e] at h
    simp only [List.nil_append, List.getElem?_cons_zero, Option.some.injEq] at h
    have : i = s := by omega
    subst this; subst h
    exact c2rAxis_phase_same i last a hN Y
  | M :: pre, last, s, Y, hs, h => by
    simp only [invFrom]
    by_cases e : i = s
    · subst e
      simp only [Nat.sub_self, List.cons_append, List.getElem?_cons_zero, Option.some.injEq] at h
      subst h
      rw [invAxis_phase_same i M a hN, invFrom_roll_other i M a pre last (i + 1) _ (by omega)]
    · have h' : (pre ++ [last])[i - (s + 1)]? = some N := by
        have : i - s = (i - (s + 1)) + 1 := by omega
        rw [this, List.cons_append, List.getElem?_cons_succ] at h; exact h
      rw [invAxis_phase_other (by omega), invFrom_phase i N a hN pre last (s + 1) _ (by omega) h']


/-! ### orthogonality of characters, spectrum of a band-limited signal (for resolution consistency) -/

theorem E_pow (N d j : ℕ) : E N (d * j) = (E N d) ^ j := by
  induction j with
  | zero => simp [E_zero]
  | succ j ih => rw [Nat.mul_succ, E_add, ih, pow_succ]

theorem E_pow_N (N d : ℕ) (hN : 0 < N) : (E N d) ^ N = 1 := by
  rw [← E_pow]
  have := E_period N 0 d hN
  rw [Nat.zero_add] at this
  rw [Nat.mul_comm, this, E_zero]

theorem E_ne_one (N d : ℕ) (hd : 0 < d) (hdN : d < N) : E N d ≠ 1 := by
  intro h
  rw [E, Complex.exp_eq_one_iff] at h
  obtain ⟨q, hq⟩ := h
  rw [ang_real] at hq
  have hN' : (N : ℝ) ≠ 0 := by
    have : 0 < N := by omega
    exact_mod_cast this.ne'
  -- compare imaginary parts: 2π d / N = q 2π
  have him := congrArg Complex.im hq
  simp at him
  have hpi : Real.pi ≠ 0 := Real.pi_ne_zero
  have hd' : (d : ℝ) = q * N := by
    field_simp at him
    linarith
  have hdz : (d : ℤ) = q * N := by exact_mod_cast hd'
  have hq1 : 0 < q := by
    by_contra hneg
    have : q ≤ 0 := by omega
    have : q * (N : ℤ) ≤ 0 := Int.mul_nonpos_of_nonpos_of_nonneg this (by omega)
    omega
  have : (N : ℤ) ≤ q * N := by nlinarith
  omega

/-- orthogonality of the characters of ℤ/N: `Σ_{j<N} exp(2πi d j/N) = N` if `d = 0`, `0` for `0 < d < N` -/
theorem geom_E (N d : ℕ) (hdN : d < N) :
    ∑ j ∈ range N, E N (d * j) = if d = 0 then (N : ℂ) else 0 := by
  have hN : 0 < N := by omega
  split
  · next h => subst h; simp [E_zero]
  · next h =>
    simp only [E_pow]
    rw [geom_sum_eq (E_ne_one N d (by omega) hdN), E_pow_N N d hN]; simp

theorem geom_E_inv (N d : ℕ) (hdN : d < N) :
    ∑ j ∈ range N, (E N (d * j))⁻¹ = if d = 0 then (N : ℂ) else 0 := by
  have hN : 0 < N := by omega
  split
  · next h => subst h; simp [E_zero]
  · next h =>
    simp only [E_pow, ← inv_pow]
    have h1 : (E N d)⁻¹ ≠ 1 := by
      intro h'; exact E_ne_one N d (by omega) hdN (inv_eq_one.mp h')
    rw [geom_sum_eq h1, inv_pow, E_pow_N N d hN]; simp


theorem E_eq (N m : ℕ) : E N m = ((Real.cos (ang N m : ℝ) : ℝ) : ℂ) + ((Real.sin (ang N m : ℝ) : ℝ) : ℂ) * Complex.I := by
  rw [E, Complex.exp_mul_I, Complex.ofReal_cos, Complex.ofReal_sin]

theorem E_inv_eq (N m : ℕ) : (E N m)⁻¹ = ((Real.cos (ang N m : ℝ) : ℝ) : ℂ) - ((Real.sin (ang N m : ℝ) : ℝ) : ℂ) * Complex.I := by
  rw [E, ← Complex.exp_neg, ← neg_mul, Complex.exp_mul_I, Complex.cos_neg, Complex.sin_neg,
    Complex.ofReal_cos, Complex.ofReal_sin]
  ring

/-- `a_p - i b_p`: twice the complex Fourier coefficient of `a_p cos + b_p sin` -/
noncomputable def gam (a b : ℕ → ℝ) (p : ℕ) : ℂ := (a p : ℂ) - (b p : ℂ) * Complex.I
noncomputable def gamc (a b : ℕ → ℝ) (p : ℕ) : ℂ := (a p : ℂ) + (b p : ℂ) * Complex.I

theorem trigPoly_C (a b : ℕ → ℝ) (B N j : ℕ) :
    ((trigPoly a b B N j : ℝ) : ℂ)
      = ∑ p ∈ range (B + 1), (gam a b p * E N (p * j) + gamc a b p * (E N (p * j))⁻¹) / 2 := by
  simp only [trigPoly, sumTo_eq]
  push_cast
  refine Finset.sum_congr rfl (fun p _ => ?_)
  rw [E_inv_eq, E_eq]
  simp only [gam, gamc, Trig.cos, Trig.sin]
  linear_combination ((b p : ℂ) * ((Real.sin (ang N (p * j) : ℝ) : ℝ) : ℂ)) * Complex.I_sq

theorem ortho1 (N p k : ℕ) (hp : p < N) (hk : k < N) :
    ∑ j ∈ range N, E N (p * j) * (E N (j * k))⁻¹ = if p = k then (N : ℂ) else 0 := by
  rcases Nat.lt_or_ge p k with h | h
  · have hne : p ≠ k := by omega
    rw [if_neg hne]
    have := geom_E_inv N (k - p) (by omega)
    rw [if_neg (by omega)] at this
    rw [← this]
    refine Finset.sum_congr rfl (fun j _ => ?_)
    have e : j * k = (k - p) * j + p * j := by
      rw [← Nat.add_mul, Nat.sub_add_cancel (by omega), Nat.mul_comm]
    rw [e, E_add]
    have h1 := E_ne_zero N (p * j); have h2 := E_ne_zero N ((k - p) * j)
    field_simp
  · have := geom_E N (p - k) (by omega)
    have hiff : (p - k = 0) ↔ p = k := by omega
    simp only [hiff] at this
    rw [← this]
    refine Finset.sum_congr rfl (fun j _ => ?_)
    have e : p * j = (p - k) * j + j * k := by
      rw [Nat.mul_comm j k, ← Nat.add_mul, Nat.sub_add_cancel h]
    rw [e, E_add]
    have h1 := E_ne_zero N (j * k)
    field_simp

theorem ortho2 (N p k : ℕ) (hpk : p + k < N) :
    ∑ j ∈ range N, (E N (p * j))⁻¹ * (E N (j * k))⁻¹ = if p + k = 0 then (N : ℂ) else 0 := by
  rw [← geom_E_inv N (p + k) hpk]
  refine Finset.sum_congr rfl (fun j _ => ?_)
  rw [Nat.add_mul, E_add, Nat.mul_comm k j, mul_inv]

/-- the DFT of a band-limited signal (band `B`, `2B < N`) at the bins `k ≤ N/2` of the half spectrum:
    `N a₀` at `k = 0`, `N/2 (a_k - i b_k)` for `1 ≤ k ≤ B`, `0` above the band -/
theorem spectrum_trigPoly (a b : ℕ → ℝ) (B N k : ℕ) (hB : 2 * B < N) (hk : k < N / 2 + 1) :
    ∑ j ∈ range N, (E N (j * k))⁻¹ * ((trigPoly a b B N j : ℝ) : ℂ)
      = (N : ℂ) / 2 * ((if k ≤ B then gam a b k else 0) + (if k = 0 then gamc a b 0 else 0)) := by
  simp only [trigPoly_C, Finset.mul_sum]
  rw [Finset.sum_comm]
  have hterm : ∀ p ∈ range (B + 1),
      ∑ j ∈ range N, (E N (j * k))⁻¹ * ((gam a b p * E N (p * j) + gamc a b p * (E N (p * j))⁻¹) / 2)
        = gam a b p / 2 * (if p = k then (N : ℂ) else 0) + gamc a b p / 2 * (if p + k = 0 then (N : ℂ) else 0) := by
    intro p hp
    have hp' : p < B + 1 := Finset.mem_range.mp hp
    rw [← ortho1 N p k (by omega) (by omega), ← ortho2 N p k (by omega), Finset.mul_sum, Finset.mul_sum,
      ← Finset.sum_add_distrib]
    refine Finset.sum_congr rfl (fun j _ => ?_)
    ring
  rw [Finset.sum_congr rfl hterm, Finset.sum_add_distrib]
  have s1 : ∑ p ∈ range (B + 1), gam a b p / 2 * (if p = k then (N : ℂ) else 0)
      = (N : ℂ) / 2 * (if k ≤ B then gam a b k else 0) := by
    have : ∀ p ∈ range (B + 1), gam a b p / 2 * (if p = k then (N : ℂ) else 0)
        = if p = k then gam a b p / 2 * N else 0 := by
      intro p _; split <;> simp
    rw [Finset.sum_congr rfl this, Finset.sum_ite_eq']
    by_cases h : k ≤ B
    · have : k ∈ range (B + 1) := Finset.mem_range.mpr (by omega)
      rw [if_pos this, if_pos h]; ring
    · have : k ∉ range (B + 1) := by simp; omega
      rw [if_neg this, if_neg h]; simp
  have s2 : ∑ p ∈ range (B + 1), gamc a b p / 2 * (if p + k = 0 then (N : ℂ) else 0)
      = (N : ℂ) / 2 * (if k = 0 then gamc a b 0 else 0) := by
    by_cases h : k = 0
    · subst h
      have : ∀ p ∈ range (B + 1), gamc a b p / 2 * (if p + 0 = 0 then (N : ℂ) else 0)
          = if p = 0 then gamc a b p / 2 * N else 0 := by
        intro p _; simp only [Nat.add_zero]; split <;> simp
      rw [Finset.sum_congr rfl this, Finset.sum_ite_eq']
      have : (0 : ℕ) ∈ range (B + 1) := Finset.mem_range.mpr (by omega)
      rw [if_pos this, if_pos rfl]; ring
    · have : ∀ p ∈ range (B + 1), gamc a b p / 2 * (if p + k = 0 then (N : ℂ) else 0) = 0 := by
        intro p _; rw [if_neg (by omega)]; simp
      rw [Finset.sum_congr rfl this, if_neg h]; simp
  rw [s1, s2]; ring

/-! ### the one-dimensional layer on band-limited inputs -/

/-- the one-dimensional spectral convolution, unfolded: bins `k < min(m, N/2+1)` are multiplied by the
    kernel, the others are dropped -/
theorem spectral_1d (N m : ℕ) (kern : Idx → Cx ℝ) (x : Idx → ℝ) (n : Idx) :
    spectral [] N [m] kern x n = (1 / (N : ℝ)) * ∑ k ∈ range (N / 2 + 1), c2rTerm N k (n 0)
      (if k < m then (fwdAxis 0 N (fun j => Cx.ofReal (x j)) (upd n 0 k)).mul (kern (upd n 0 k)) else Cx.zero) := by
  simp only [spectral, fwdFrom, invFrom, c2rAxis, specShape, List.nil_append, resize, inBox, sumTo_eq,
    Bool.and_true, upd_same, one_real, ofNat_real]
  congr 1
  refine Finset.sum_congr rfl (fun k hk => ?_)
  have hk' : k < N / 2 + 1 := Finset.mem_range.mp hk
  by_cases hm : k < m <;> simp [hk', hm]

theorem fwdAxis_toC (N : ℕ) (x : Idx → ℝ) (k : Idx) :
    toC (fwdAxis 0 N (fun j => Cx.ofReal (x j)) k) = ∑ j ∈ range N, (E N (j * k 0))⁻¹ * ((x (upd k 0 j) : ℝ) : ℂ) := by
  simp [fwdAxis, toC_csumTo]

theorem c2rTerm_mid (N k n : ℕ) (z : Cx ℝ) (h0 : k ≠ 0) (hny : 2 * k ≠ N) :
    c2rTerm N k n z = 2 * (E N (k * n) * toC z).re := by
  simp only [c2rTerm, h0, hny, if_false, two_real]
  rw [← toC_tw, ← toC_mul]; rfl

theorem c2rTerm_zero (N k n : ℕ) : c2rTerm N k n (Cx.zero : Cx ℝ) = 0 := by
  simp only [c2rTerm, Cx.zero, Cx.mul, zero_real, two_real]
  split
  · rfl
  · split <;> simp

/-- the value at `t = n/N` of the Fourier multiplier with symbol `K` applied to the trigonometric polynomial
    with coefficients `a, b` (band `B`): it depends on the grid only through the position `n/N` -/
noncomputable def multiplier (a b : ℕ → ℝ) (B : ℕ) (K : ℕ → Cx ℝ) (N n : ℕ) : ℝ :=
  ∑ k ∈ range (B + 1), if k = 0 then a 0 * (K 0).re else (E N (k * n) * (gam a b k * toC (K k))).re

/-- On a band-limited input (band `B` below the Nyquist frequency of the grid and below the number `m` of
    kept modes) the spectral convolution IS the Fourier multiplier. -/
theorem spectral_trigPoly (a b : ℕ → ℝ) (B N m : ℕ) (hB : 2 * B < N) (hm : B < m) (kern : Idx → Cx ℝ) (n : Idx) :
    spectral [] N [m] kern (fun j => trigPoly a b B N (j 0)) n
      = multiplier a b B (fun k => kern (upd n 0 k)) N (n 0) := by
  have hN : (N : ℝ) ≠ 0 := by
    have : 0 < N := by omega
    exact_mod_cast this.ne'
  rw [spectral_1d, multiplier]
  have hsub : range (B + 1) ⊆ range (N / 2 + 1) := by
    intro k hk
    have := Finset.mem_range.mp hk
    exact Finset.mem_range.mpr (by omega)
  rw [← Finset.sum_subset hsub, Finset.mul_sum]
  · refine Finset.sum_congr rfl (fun k hk => ?_)
    have hk' : k < B + 1 := Finset.mem_range.mp hk
    have hkm : k < m := by omega
    rw [if_pos hkm]
    have hS := spectrum_trigPoly a b B N k hB (by omega)
    have hz : toC ((fwdAxis 0 N (fun j => Cx.ofReal (trigPoly a b B N (j 0))) (upd n 0 k)).mul (kern (upd n 0 k)))
        = (N : ℂ) / 2 * ((if k ≤ B then gam a b k else 0) + (if k = 0 then gamc a b 0 else 0)) * toC (kern (upd n 0 k)) := by
      rw [toC_mul, fwdAxis_toC]
      simp only [upd_same]
      rw [hS]
    by_cases h0 : k = 0
    · subst h0
      simp only [if_true]
      have : c2rTerm N 0 (n 0) ((fwdAxis 0 N (fun j => Cx.ofReal (trigPoly a b B N (j 0))) (upd n 0 0)).mul (kern (upd n 0 0)))
          = (toC ((fwdAxis 0 N (fun j => Cx.ofReal (trigPoly a b B N (j 0))) (upd n 0 0)).mul (kern (upd n 0 0)))).re := by
        show (if (0 : ℕ) = 0 then _ else _) = _
        rw [if_pos rfl]; rfl
      rw [this, hz]
      simp only [Nat.zero_le, if_true, gam, gamc]
      have : (N : ℂ) / 2 * ((a 0 : ℂ) - (b 0 : ℂ) * Complex.I + ((a 0 : ℂ) + (b 0 : ℂ) * Complex.I)) * toC (kern (upd n 0 0))
          = ((N * a 0 : ℝ) : ℂ) * toC (kern (upd n 0 0)) := by push_cast; ring
      rw [this, Complex.re_ofReal_mul, toC_re]
      field_simp
    · rw [if_neg h0, c2rTerm_mid N k (n 0) _ h0 (by omega), hz, if_pos (by omega), if_neg h0, add_zero]
      have : E N (k * n 0) * ((N : ℂ) / 2 * gam a b k * toC (kern (upd n 0 k)))
          = ((N / 2 : ℝ) : ℂ) * (E N (k * n 0) * (gam a b k * toC (kern (upd n 0 k)))) := by push_cast; ring
      rw [this, Complex.re_ofReal_mul]
      field_simp
  · intro k hk hkB
    have hk' : k < N / 2 + 1 := Finset.mem_range.mp hk
    have hkB' : ¬ k ≤ B := by
      intro h; exact hkB (Finset.mem_range.mpr (by omega))
    by_cases hkm : k < m
    · rw [if_pos hkm]
      have hS := spectrum_trigPoly a b B N k hB hk'
      rw [if_neg hkB', if_neg (by omega)] at hS
      have hz : (fwdAxis 0 N (fun j => Cx.ofReal (trigPoly a b B N (j 0))) (upd n 0 k)).mul (kern (upd n 0 k)) = Cx.zero := by
        apply toC_inj
        rw [toC_mul, fwdAxis_toC]
        simp only [upd_same]
        rw [hS]; simp
      rw [hz, c2rTerm_zero]
    · rw [if_neg hkm, c2rTerm_zero]

/-! ### refining the grid -/

theorem ang_refine (N r m : ℕ) (hr : 0 < r) : (ang (r * N) (r * m) : ℝ) = ang N m := by
  have hr' : (r : ℝ) ≠ 0 := by exact_mod_cast hr.ne'
  rw [ang_real, ang_real]
  push_cast
  rw [show 2 * Real.pi * ((r : ℝ) * m) = r * (2 * Real.pi * m) by ring, mul_div_mul_left _ _ hr']

theorem E_refine (N r m : ℕ) (hr : 0 < r) : E (r * N) (r * m) = E N m := by
  rw [E, E, ang_refine N r m hr]

theorem multiplier_refine (a b : ℕ → ℝ) (B : ℕ) (K : ℕ → Cx ℝ) (N r n : ℕ) (hr : 0 < r) :
    multiplier a b B K (r * N) (r * n) = multiplier a b B K N n := by
  simp only [multiplier]
  refine Finset.sum_congr rfl (fun k _ => ?_)
  rw [Nat.mul_left_comm k r n, E_refine N r _ hr]

theorem trigPoly_refine (a b : ℕ → ℝ) (B N r j : ℕ) (hr : 0 < r) :
    trigPoly a b B (r * N) (r * j) = trigPoly a b B N j := by
  simp only [trigPoly, sumTo_eq]
  refine Finset.sum_congr rfl (fun p _ => ?_)
  rw [Nat.mul_left_comm p r j, ang_refine N r _ hr]

/-! ### variables by name: decode / encode of channel columns -/

theorem decode_mem : ∀ (S : Vars) (c : ℕ) (v : String) (j : ℕ), decode S c = some (v, j) → ∃ d, (v, d) ∈ S ∧ j < d
  | [], _, _, _, h => by simp [decode] at h
  | (w, d) :: S, c, v, j, h => by
    simp only [decode] at h
    split at h
    · next hc =>
      simp only [Option.some.injEq, Prod.mk.injEq] at h
      obtain ⟨rfl, rfl⟩ := h
      exact ⟨d, List.mem_cons_self, hc⟩
    · obtain ⟨d', hm, hj⟩ := decode_mem S (c - d) v j h
      exact ⟨d', List.mem_cons_of_mem _ hm, hj⟩

theorem decode_lt : ∀ (S : Vars) (c : ℕ), c < vdim S → ∃ vj, decode S c = some vj
  | [], c, h => by simp [vdim] at h
  | (w, d) :: S, c, h => by
    simp only [decode]
    split
    · exact ⟨_, rfl⟩
    · next hc =>
      simp only [vdim] at h
      exact decode_lt S (c - d) (by omega)

theorem mem_keysOf {S : Vars} {v : String} {d : ℕ} (h : (v, d) ∈ S) : v ∈ keysOf S :=
  List.mem_map.mpr ⟨(v, d), h, rfl⟩

theorem encode_decode : ∀ (S : Vars), (keysOf S).Nodup → ∀ (c : ℕ) (v : String) (j : ℕ),
    decode S c = some (v, j) → encode S v j = some c
  | [], _, _, _, _, h => by simp [decode] at h
  | (w, d) :: S, hn, c, v, j, h => by
    simp only [keysOf, List.map_cons, List.nodup_cons] at hn
    simp only [decode] at h
    split at h
    · next hc =>
      simp only [Option.some.injEq, Prod.mk.injEq] at h
      obtain ⟨rfl, rfl⟩ := h
      simp [encode, hc]
    · next hc =>
      obtain ⟨d', hm, _⟩ := decode_mem S (c - d) v j h
      have hne : w ≠ v := by
        rintro rfl
        exact hn.1 (mem_keysOf hm)
      simp only [encode, hne, if_false]
      rw [encode_decode S hn.2 (c - d) v j h]
      simp only [Option.map_some, Option.some.injEq]
      omega

theorem decode_encode : ∀ (S : Vars) (v : String) (j c : ℕ), encode S v j = some c → decode S c = some (v, j)
  | [], _, _, _, h => by simp [encode] at h
  | (w, d) :: S, v, j, c, h => by
    simp only [encode] at h
    split at h
    · next hw =>
      subst hw
      split at h
      · next hj =>
        simp only [Option.some.injEq] at h
        subst h
        simp [decode, hj]
      · simp at h
    · next hw =>
      cases he : encode S v j with
      | none => simp [he] at h
      | some c' =>
        simp only [he, Option.map_some, Option.some.injEq] at h
        subst h
        have : ¬ (c' + d < d) := by omega
        simp only [decode, this, if_false, Nat.add_sub_cancel]
        exact decode_encode S v j c' he

theorem encode_of_mem : ∀ (S : Vars), (keysOf S).Nodup → ∀ (v : String) (d j : ℕ), (v, d) ∈ S → j < d →
    ∃ c, encode S v j = some c
  | [], _, _, _, _, h, _ => by simp at h
  | (w, d') :: S, hn, v, d, j, h, hj => by
    simp only [keysOf, List.map_cons, List.nodup_cons] at hn
    rcases List.mem_cons.mp h with h | h
    · simp only [Prod.mk.injEq] at h
      obtain ⟨rfl, rfl⟩ := h
      exact ⟨j, by simp [encode, hj]⟩
    · have hne : w ≠ v := by
        rintro rfl
        exact hn.1 (mem_keysOf h)
      obtain ⟨c, hc⟩ := encode_of_mem S hn.2 v d j h hj
      exact ⟨c + d', by simp [encode, hne, hc]⟩

/-- two layouts of the same named variables -/
structure SameVars (A B : Vars) : Prop where
  nodupA : (keysOf A).Nodup
  nodupB : (keysOf B).Nodup
  mem : ∀ e, e ∈ A ↔ e ∈ B

theorem SameVars.symm {A B : Vars} (h : SameVars A B) : SameVars B A := ⟨h.nodupB, h.nodupA, fun e => (h.mem e).symm⟩

theorem srcCol_some {src dst : Vars} (h : SameVars src dst) (c : ℕ) (hc : c < vdim dst) :
    ∃ s, srcCol src dst c = some s ∧ srcCol dst src s = some c := by
  obtain ⟨⟨v, j⟩, hd⟩ := decode_lt dst c hc
  obtain ⟨d, hm, hj⟩ := decode_mem dst c v j hd
  obtain ⟨s, hs⟩ := encode_of_mem src h.nodupA v d j ((h.mem _).mpr hm) hj
  refine ⟨s, by simp [srcCol, hd, hs], ?_⟩
  simp [srcCol, decode_encode src v j s hs, encode_decode dst h.nodupB c v j hd]

theorem selectable_of_same {src dst : Vars} (h : SameVars src dst) : selectable src dst = true := by
  simp only [selectable, List.all_eq_true, List.mem_range]
  intro c hc
  obtain ⟨s, hs, _⟩ := srcCol_some h c hc
  simp [hs]

theorem sameKeySet_of_same {src dst : Vars} (h : SameVars src dst) : sameKeySet src dst = true := by
  have key : ∀ {A B : Vars}, (∀ e, e ∈ A ↔ e ∈ B) → ∀ k ∈ keysOf A, k ∈ keysOf B := by
    intro A B hm k hk
    obtain ⟨⟨v, d⟩, he, rfl⟩ := List.mem_map.mp hk
    exact mem_keysOf ((hm _).mp he)
  simp only [sameKeySet, Bool.and_eq_true, List.all_eq_true, List.contains_iff_mem]
  exact ⟨fun k hk => key h.mem k hk, fun k hk => key (fun e => (h.mem e).symm) k hk⟩

/-- re-layout there and back is the identity on the existing columns -/
theorem relayout_roundtrip {K : Type} {src dst : Vars} (h : SameVars src dst) (v : ℕ → K) (c : ℕ) (hc : c < vdim dst) :
    relayout src dst (relayout dst src v) c = v c := by
  obtain ⟨s, hs, hback⟩ := srcCol_some h c hc
  simp [relayout, hs, hback]

theorem relayout_self {K : Type} {S : Vars} (hn : (keysOf S).Nodup) (v : ℕ → K) (c : ℕ) (hc : c < vdim S) :
    relayout S S v c = v c := by
  obtain ⟨s, hs, hback⟩ := srcCol_some (⟨hn, hn, fun _ => Iff.rfl⟩ : SameVars S S) c hc
  obtain ⟨⟨w, j⟩, hd⟩ := decode_lt S c hc
  have : srcCol S S c = some c := by simp [srcCol, hd, encode_decode S hn c w j hd]
  simp [relayout, this]

theorem sumTo_congr (n : ℕ) (f g : ℕ → ℝ) (h : ∀ j, j < n → f j = g j) : sumTo n f = sumTo n g := by
  rw [sumTo_eq, sumTo_eq]
  exact Finset.sum_congr rfl (fun j hj => h j (Finset.mem_range.mp hj))

/-- `nn.Linear` with `C` input features reads the channels `< C` only -/
theorem linear_congr (C : ℕ) (W : ℕ → ℕ → ℝ) (b : ℕ → ℝ) (v w : ℕ → ℝ) (h : ∀ c, c < C → v c = w c) :
    linear C W b v = linear C W b w := by
  funext c
  simp only [linear]
  rw [sumTo_congr C _ _ (fun c' hc' => by rw [h c' hc'])]


end TPV.Fourier
