/-
  Helper lemmas for C20 (Fourier layer): the model's pair arithmetic over ℝ is ℂ, twiddle algebra,
  one-axis shift/phase lemmas, induction over the axes.  Property theorems: TPV/Props/C20.lean.
-/
import TPV.Model.Fourier
import Mathlib.Analysis.SpecialFunctions.Trigonometric.Basic
import Mathlib.Analysis.SpecialFunctions.Complex.Circle
import Mathlib.Tactic.Ring
import Mathlib.Tactic.Linarith
import Mathlib.Tactic.FieldSimp

namespace TPV.Fourier
open Finset

/-- the real numbers as an instance of the model's scalar interface -/
noncomputable instance instTrigReal : Trig ℝ := ⟨Real.cos, Real.sin, Real.pi, fun n => (n : ℝ)⟩

/-- model complex numbers over ℝ are Mathlib's complex numbers -/
def toC (z : Cx ℝ) : ℂ := ⟨z.re, z.im⟩

theorem toC_inj {a b : Cx ℝ} (h : toC a = toC b) : a = b := by
  cases a; cases b
  simp only [toC, Complex.mk.injEq] at h
  simp [h.1, h.2]

@[simp] theorem zero_real : (zero : ℝ) = 0 := by simp [zero, Trig.ofNat]
@[simp] theorem one_real : (one : ℝ) = 1 := by simp [one, Trig.ofNat]
@[simp] theorem two_real : (two : ℝ) = 2 := by simp [two, Trig.ofNat]
@[simp] theorem ofNat_real (n : ℕ) : (Trig.ofNat n : ℝ) = n := rfl

@[simp] theorem toC_zero : toC Cx.zero = 0 := by
  apply Complex.ext <;> simp [toC, Cx.zero]
@[simp] theorem toC_ofReal (x : ℝ) : toC (Cx.ofReal x) = (x : ℂ) := by
  apply Complex.ext <;> simp [toC, Cx.ofReal]
@[simp] theorem toC_add (a b : Cx ℝ) : toC (a.add b) = toC a + toC b := by
  apply Complex.ext <;> simp [toC, Cx.add]
@[simp] theorem toC_mul (a b : Cx ℝ) : toC (a.mul b) = toC a * toC b := by
  apply Complex.ext <;> simp [toC, Cx.mul]
@[simp] theorem toC_scale (s : ℝ) (a : Cx ℝ) : toC (Cx.scale s a) = (s : ℂ) * toC a := by
  apply Complex.ext <;> simp [toC, Cx.scale]
@[simp] theorem toC_re (a : Cx ℝ) : (toC a).re = a.re := rfl
@[simp] theorem toC_im (a : Cx ℝ) : (toC a).im = a.im := rfl

theorem sumTo_eq (n : ℕ) (f : ℕ → ℝ) : sumTo n f = ∑ j ∈ range n, f j := by
  induction n with
  | zero => simp [sumTo]
  | succ n ih => simp [sumTo, ih, Finset.sum_range_succ]

theorem toC_csumTo (n : ℕ) (f : ℕ → Cx ℝ) : toC (csumTo n f) = ∑ j ∈ range n, toC (f j) := by
  induction n with
  | zero => simp [csumTo]
  | succ n ih => simp [csumTo, ih, Finset.sum_range_succ]

/-- `exp(2πi m/N)` -/
noncomputable def E (N m : ℕ) : ℂ := Complex.exp (((ang N m : ℝ) : ℂ) * Complex.I)

theorem ang_real (N m : ℕ) : (ang N m : ℝ) = 2 * Real.pi * m / N := by
  simp [ang, Trig.pi]

@[simp] theorem toC_tw (N m : ℕ) : toC (tw N m) = E N m := by
  apply Complex.ext
  · simp [toC, tw, E, Complex.exp_ofReal_mul_I_re, Trig.cos]
  · simp [toC, tw, E, Complex.exp_ofReal_mul_I_im, Trig.sin]

@[simp] theorem toC_twc (N m : ℕ) : toC (twc N m) = (E N m)⁻¹ := by
  rw [E, ← Complex.exp_neg]
  apply Complex.ext
  · simp only [toC, twc, Trig.cos]
    rw [show -(((ang N m : ℝ) : ℂ) * Complex.I) = (((-ang N m : ℝ)) : ℂ) * Complex.I by push_cast; ring,
      Complex.exp_ofReal_mul_I_re, Real.cos_neg]
  · simp only [toC, twc, Trig.sin]
    rw [show -(((ang N m : ℝ) : ℂ) * Complex.I) = (((-ang N m : ℝ)) : ℂ) * Complex.I by push_cast; ring,
      Complex.exp_ofReal_mul_I_im, Real.sin_neg]

theorem E_ne_zero (N m : ℕ) : E N m ≠ 0 := Complex.exp_ne_zero _

theorem E_zero (N : ℕ) : E N 0 = 1 := by simp [E, ang_real]

theorem E_add (N a b : ℕ) : E N (a + b) = E N a * E N b := by
  simp only [E, ← Complex.exp_add, ang_real]
  congr 1; push_cast; ring

theorem E_period (N m q : ℕ) (hN : 0 < N) : E N (m + N * q) = E N m := by
  have hN' : (N : ℂ) ≠ 0 := by exact_mod_cast hN.ne'
  rw [E_add]
  have : E N (N * q) = 1 := by
    simp only [E, ang_real]
    rw [← Complex.exp_nat_mul_two_pi_mul_I q]
    congr 1; push_cast; field_simp
  rw [this, mul_one]


/-! ### index bookkeeping -/

@[simp] theorem upd_same (k : Idx) (i v : ℕ) : upd k i v i = v := by simp [upd]
theorem upd_ne (k : Idx) {i j : ℕ} (v : ℕ) (h : j ≠ i) : upd k i v j = k j := by simp [upd, h]
@[simp] theorem upd_upd (k : Idx) (i v w : ℕ) : upd (upd k i v) i w = upd k i w := by
  funext a; simp only [upd]; split <;> rfl
theorem upd_comm (k : Idx) {i j : ℕ} (v w : ℕ) (h : i ≠ j) : upd (upd k i v) j w = upd (upd k j w) i v := by
  funext a; simp only [upd]
  by_cases h1 : a = j <;> by_cases h2 : a = i
  · exact absurd (h2.symm.trans h1) h
  · subst h1; simp [h2]
  · subst h2; simp [h1]
  · simp [h1, h2]

/-- `shiftIdx N a m + a` is `m` up to multiples of `N` -/
theorem shiftIdx_add (N a m : ℕ) (hN : 0 < N) : ∃ q q', shiftIdx N a m + a + N * q' = m + N * q := by
  unfold shiftIdx
  have h1 := Nat.div_add_mod (m + (N - a % N)) N
  have h2 := Nat.div_add_mod a N
  have h3 := Nat.mod_lt a hN
  refine ⟨1 + a / N, (m + (N - a % N)) / N, ?_⟩
  have : N * (1 + a / N) = N + N * (a / N) := by ring
  omega

theorem shiftIdx_lt (N a m : ℕ) (hN : 0 < N) : shiftIdx N a m < N := Nat.mod_lt _ hN

/-- cyclic reindexing of a sum over one period -/
theorem sum_shift (N c : ℕ) (hN : 0 < N) (F : ℕ → ℂ) :
    ∑ j ∈ range N, F ((j + c) % N) = ∑ j ∈ range N, F j := by
  have : NeZero N := ⟨by omega⟩
  rw [← Fin.sum_univ_eq_sum_range (fun j => F ((j + c) % N)) N, ← Fin.sum_univ_eq_sum_range F N]
  rw [← Equiv.sum_comp (Equiv.addRight (Fin.ofNat N c)) (fun j : Fin N => F j)]
  refine Finset.sum_congr rfl (fun j _ => ?_)
  simp [Fin.val_add]

/-- the phase factor a shift by `a` along axis `i` (size `N`) puts on a spectrum -/
noncomputable def phase (i N a : ℕ) (Y : Idx → Cx ℝ) : Idx → Cx ℝ := fun k => (twc N (a * k i)).mul (Y k)

theorem E_shift (N a m k : ℕ) (hN : 0 < N) :
    E N (shiftIdx N a m * k) * E N (a * k) = E N (m * k) := by
  obtain ⟨q, q', hq⟩ := shiftIdx_add N a m hN
  rw [← E_add, ← Nat.add_mul, ← E_period N _ (q' * k) hN, ← Nat.mul_assoc, ← Nat.add_mul, hq,
    Nat.add_mul, Nat.mul_assoc, E_period _ _ _ hN]

/-! ### one axis: a shift becomes a phase, a phase becomes a shift -/

theorem fwdAxis_roll_same (i N a : ℕ) (hN : 0 < N) (x : Idx → Cx ℝ) :
    fwdAxis i N (rollAxis i N a x) = phase i N a (fwdAxis i N x) := by
  funext k
  apply toC_inj
  simp only [fwdAxis, rollAxis, phase, toC_mul, toC_csumTo, toC_twc, upd_same, upd_upd]
  rw [Finset.mul_sum]
  have hsh : ∀ j, shiftIdx N a j = (j + (N - a % N)) % N := fun j => rfl
  rw [← sum_shift N (N - a % N) hN (fun j => (E N (a * k i))⁻¹ * ((E N (j * k i))⁻¹ * toC (x (upd k i j))))]
  refine Finset.sum_congr rfl (fun j _ => ?_)
  rw [← hsh j]
  have h := E_shift N a j (k i) hN
  have h1 := E_ne_zero N (a * k i)
  have h2 := E_ne_zero N (shiftIdx N a j * k i)
  rw [← h]
  field_simp

theorem invAxis_phase_same (i N a : ℕ) (hN : 0 < N) (Y : Idx → Cx ℝ) :
    invAxis i N (phase i N a Y) = rollAxis i N a (invAxis i N Y) := by
  funext n
  apply toC_inj
  simp only [invAxis, rollAxis, phase, toC_mul, toC_csumTo, toC_twc, toC_tw, toC_scale, upd_same, upd_upd]
  congr 1
  refine Finset.sum_congr rfl (fun k _ => ?_)
  have h := E_shift N a (n i) k hN
  have h1 := E_ne_zero N (a * k)
  rw [Nat.mul_comm k (n i), ← h, Nat.mul_comm k (shiftIdx N a (n i))]
  field_simp

theorem c2rAxis_phase_same (i N a : ℕ) (hN : 0 < N) (Y : Idx → Cx ℝ) :
    c2rAxis i N (phase i N a Y) = rollAxis i N a (c2rAxis i N Y) := by
  funext n
  simp only [c2rAxis, rollAxis, phase, upd_same, upd_upd, sumTo_eq]
  congr 1
  refine Finset.sum_congr rfl (fun k _ => ?_)
  have h := E_shift N a (n i) k hN
  have h1 := E_ne_zero N (a * k)
  simp only [c2rTerm]
  by_cases hk : k = 0
  · subst hk
    simp only [if_true]
    have : toC (twc N (a * 0)) = 1 := by simp [E_zero]
    have h2 : toC ((twc N (a * 0)).mul (Y (upd n i 0))) = toC (Y (upd n i 0)) := by rw [toC_mul, this, one_mul]
    exact congrArg Complex.re h2
  · simp only [hk, if_false]
    by_cases hny : 2 * k = N
    · simp only [hny, if_true]
      -- Nyquist bin: the phase is ±1
      have hang : (ang N (a * k) : ℝ) = a * Real.pi := by
        rw [ang_real]; subst hny; push_cast; field_simp
      have hs : Trig.sin (ang N (a * k) : ℝ) = 0 := by
        show Real.sin _ = 0; rw [hang]; exact Real.sin_nat_mul_pi a
      have hre : ((twc N (a * k)).mul (Y (upd n i k))).re
          = Trig.cos (ang N (a * k) : ℝ) * (Y (upd n i k)).re := by
        simp [Cx.mul, twc, hs]
      rw [hre]
      have hc : Trig.cos (ang N (k * shiftIdx N a (n i)) : ℝ) * Trig.cos (ang N (a * k) : ℝ)
          = Trig.cos (ang N (k * n i) : ℝ) := by
        have h' := congrArg Complex.re h
        rw [Nat.mul_comm (shiftIdx N a (n i)) k, Nat.mul_comm (n i) k] at h'
        simp only [E, Complex.mul_re, Complex.exp_ofReal_mul_I_re, Complex.exp_ofReal_mul_I_im] at h'
        have hs' : Real.sin (ang N (a * k) : ℝ) = 0 := hs
        rw [hs', mul_zero, sub_zero] at h'
        exact h'
      have hsq : Trig.cos (ang N (a * k) : ℝ) ^ 2 = 1 := by
        have := Real.cos_sq_add_sin_sq (ang N (a * k) : ℝ)
        have hs' : Real.sin (ang N (a * k) : ℝ) = 0 := hs
        rw [hs'] at this
        show Real.cos _ ^ 2 = 1
        linarith
      rw [← hc]
      linear_combination ((Y (upd n i k)).re * Trig.cos (ang N (k * shiftIdx N a (n i)) : ℝ)) * hsq
    · simp only [hny, if_false]
      congr 1
      have h2 : toC ((tw N (k * n i)).mul ((twc N (a * k)).mul (Y (upd n i k))))
          = toC ((tw N (k * shiftIdx N a (n i))).mul (Y (upd n i k))) := by
        simp only [toC_mul, toC_tw, toC_twc]
        rw [Nat.mul_comm k (n i), ← h, Nat.mul_comm k (shiftIdx N a (n i))]
        field_simp
      exact congrArg Complex.re h2

/-! ### the other axes do not notice -/

theorem fwdAxis_roll_other {i j : ℕ} (h : j ≠ i) (M N a : ℕ) (x : Idx → Cx ℝ) :
    fwdAxis j M (rollAxis i N a x) = rollAxis i N a (fwdAxis j M x) := by
  funext k
  simp only [fwdAxis, rollAxis]
  congr 1; funext j'
  rw [upd_ne _ _ (Ne.symm h), upd_ne _ _ h, upd_comm _ _ _ h]

theorem fwdAxis_phase_other {i j : ℕ} (h : j ≠ i) (M N a : ℕ) (Y : Idx → Cx ℝ) :
    fwdAxis j M (phase i N a Y) = phase i N a (fwdAxis j M Y) := by
  funext k
  apply toC_inj
  simp only [fwdAxis, phase, toC_mul, toC_csumTo, toC_twc]
  rw [Finset.mul_sum]
  refine Finset.sum_congr rfl (fun j' _ => ?_)
  rw [upd_ne _ _ (Ne.symm h)]; ring

theorem invAxis_roll_other {i j : ℕ} (h : j ≠ i) (M N a : ℕ) (Y : Idx → Cx ℝ) :
    invAxis j M (rollAxis i N a Y) = rollAxis i N a (invAxis j M Y) := by
  funext n
  simp only [invAxis, rollAxis]
  congr 2; funext k
  rw [upd_ne _ _ (Ne.symm h), upd_ne _ _ h, upd_comm _ _ _ h]

theorem invAxis_phase_other {i j : ℕ} (h : j ≠ i) (M N a : ℕ) (Y : Idx → Cx ℝ) :
    invAxis j M (phase i N a Y) = phase i N a (invAxis j M Y) := by
  funext n
  apply toC_inj
  simp only [invAxis, phase, toC_mul, toC_csumTo, toC_twc, toC_tw, toC_scale]
  rw [Finset.mul_sum, Finset.mul_sum, Finset.mul_sum]
  refine Finset.sum_congr rfl (fun k _ => ?_)
  rw [upd_ne _ _ (Ne.symm h)]; ring

theorem c2rAxis_roll_other {i j : ℕ} (h : j ≠ i) (M N a : ℕ) (Y : Idx → Cx ℝ) :
    c2rAxis j M (rollAxis i N a Y) = rollAxis i N a (c2rAxis j M Y) := by
  funext n
  simp only [c2rAxis, rollAxis]
  congr 2; funext k
  rw [upd_ne _ _ (Ne.symm h), upd_ne _ _ h, upd_comm _ _ _ h]

theorem resize_phase (src dst : List ℕ) (i N a : ℕ) (Y : Idx → Cx ℝ) :
    resize src dst (phase i N a Y) = phase i N a (resize src dst Y) := by
  funext k
  simp only [resize, phase]
  split
  · rfl
  · apply toC_inj; simp

theorem mulKernel_phase (kern : Idx → Cx ℝ) (i N a : ℕ) (P : Idx → Cx ℝ) :
    (fun k => ((phase i N a P) k).mul (kern k)) = phase i N a (fun k => (P k).mul (kern k)) := by
  funext k
  apply toC_inj
  simp only [phase, toC_mul]; ring

/-! ### all axes -/

theorem fwdFrom_roll_other (i N a : ℕ) : ∀ (ns : List ℕ) (s : ℕ) (x : Idx → Cx ℝ), (i < s ∨ s + ns.length ≤ i) →
    fwdFrom s ns (rollAxis i N a x) = rollAxis i N a (fwdFrom s ns x)
  | [], _, _, _ => rfl
  | M :: ns, s, x, h => by
    simp only [fwdFrom]
    rw [fwdFrom_roll_other i N a ns (s + 1) x (by simp only [List.length_cons] at h; omega),
      fwdAxis_roll_other (by simp only [List.length_cons] at h; omega)]

theorem fwdFrom_phase_other (i N a : ℕ) : ∀ (ns : List ℕ) (s : ℕ) (Y : Idx → Cx ℝ), (i < s ∨ s + ns.length ≤ i) →
    fwdFrom s ns (phase i N a Y) = phase i N a (fwdFrom s ns Y)
  | [], _, _, _ => rfl
  | M :: ns, s, Y, h => by
    simp only [fwdFrom]
    rw [fwdFrom_phase_other i N a ns (s + 1) Y (by simp only [List.length_cons] at h; omega),
      fwdAxis_phase_other (by simp only [List.length_cons] at h; omega)]

/-- the forward transform turns a shift along axis `i` into the phase `exp(-2πi a kᵢ/N)` -/
theorem fwdFrom_roll (i N a : ℕ) (hN : 0 < N) : ∀ (ns : List ℕ) (s : ℕ) (x : Idx → Cx ℝ), s ≤ i →
    ns[i - s]? = some N → fwdFrom s ns (rollAxis i N a x) = phase i N a (fwdFrom s ns x)
  | [], _, _, _, h => by simp at h
  | M :: ns, s, x, hs, h => by
    simp only [fwdFrom]
    by_cases e : i = s
    · subst e
      simp only [Nat.sub_self, List.getElem?_cons_zero, Option.some.injEq] at h
      subst h
      rw [fwdFrom_roll_other i M a ns (i + 1) x (by omega), fwdAxis_roll_same i M a hN]
    · have hlt : s < i := by omega
      have h' : ns[i - (s + 1)]? = some N := by
        have : i - s = (i - (s + 1)) + 1 := by omega
        rw [this, List.getElem?_cons_succ] at h; exact h
      rw [fwdFrom_roll i N a hN ns (s + 1) x (by omega) h', fwdAxis_phase_other (by omega)]

theorem invFrom_roll_other (i N a : ℕ) : ∀ (pre : List ℕ) (last s : ℕ) (Y : Idx → Cx ℝ), i < s →
    invFrom s pre last (rollAxis i N a Y) = rollAxis i N a (invFrom s pre last Y)
  | [], last, s, Y, h => by simp only [invFrom]; exact c2rAxis_roll_other (by omega) _ _ _ _
  | M :: pre, last, s, Y, h => by
    simp only [invFrom]
    rw [invAxis_roll_other (by omega), invFrom_roll_other i N a pre last (s + 1) _ (by omega)]

/-- the inverse transform turns the phase back into the shift -/
theorem invFrom_phase (i N a : ℕ) (hN : 0 < N) : ∀ (pre : List ℕ) (last s : ℕ) (Y : Idx → Cx ℝ), s ≤ i →
    (pre ++ [last])[i - s]? = some N → invFrom s pre last (phase i N a Y) = rollAxis i N a (invFrom s pre last Y)
  | [], last, s, Y, hs, h => by
    simp only [invFrom]
    have e : i - s = 0 := by
      by_contra hne
      have : i - s = (i - s - 1) + 1 := by omega
      rw [this] at h; simp at h
    rw [e] at h
    simp only [List.nil_append, List.getElem?_cons_zero, Option.some.injEq] at h
    have : i = s := by omega
    subst this; subst h
    exact c2rAxis_phase_same i last a hN Y
  | M :: pre, last, s, Y, hs, h => by
    simp only [invFrom]
    by_cases e : i = s
    · subst e
      simp only [Nat.sub_self, List.cons_append, List.getElem?_cons_zero, Option.some.injEq] at h
      subst h
      rw [invAxis_phase_same i M a hN, invFrom_roll_other i M a pre last (i + 1) _ (by omega)]
    · have h' : (pre ++ [last])[i - (s + 1)]? = some N := by
        have : i - s = (i - (s + 1)) + 1 := by omega
        rw [this, List.cons_append, List.getElem?_cons_succ] at h; exact h
      rw [invAxis_phase_other (by omega), invFrom_phase i N a hN pre last (s + 1) _ (by omega) h']

end TPV.Fourier
