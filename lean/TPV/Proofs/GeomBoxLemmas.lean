/-
  Helper lemmas for the bounding-box proofs (C18): extreme values of lists, `mapOpt`, points as coordinate
  lists, the box predicate `Inside`, convexity of parallelogram / triangle / ball / affine images of a box.
-/
import TPV.Proofs.GeomSpec
import TPV.Model.GeomBox
import Mathlib.Order.Basic

namespace TPV.Geom
set_option linter.unusedSectionVars false
variable {K : Type} [Field K] [LinearOrder K] [IsStrictOrderedRing K]

theorem minK_eq (a b : K) : minK a b = min a b := by
  unfold minK; split
  · exact (min_eq_left ‹_›).symm
  · exact (min_eq_right (le_of_lt (lt_of_not_ge ‹_›))).symm

theorem maxK_eq (a b : K) : maxK a b = max a b := by
  unfold maxK; split
  · exact (max_eq_right ‹_›).symm
  · exact (max_eq_left (le_of_lt (lt_of_not_ge ‹_›))).symm

theorem foldl_minK (l : List K) : ∀ a : K, (l.foldl minK a ≤ a ∧ ∀ x ∈ l, l.foldl minK a ≤ x) ∧ (l.foldl minK a = a ∨ l.foldl minK a ∈ l) := by
  induction l with
  | nil => intro a; simp
  | cons y ys ih =>
    intro a
    obtain ⟨⟨h1, h2⟩, h3⟩ := ih (minK a y)
    simp only [List.foldl_cons, List.mem_cons, forall_eq_or_imp]
    rw [minK_eq] at h1 h2 h3 ⊢
    refine ⟨⟨le_trans h1 (min_le_left _ _), le_trans h1 (min_le_right _ _), h2⟩, ?_⟩
    rcases h3 with h | h
    · rcases min_choice a y with e | e
      · left; rw [h, e]
      · right; left; rw [h, e]
    · right; right; exact h

theorem foldl_maxK (l : List K) : ∀ a : K, (a ≤ l.foldl maxK a ∧ ∀ x ∈ l, x ≤ l.foldl maxK a) ∧ (l.foldl maxK a = a ∨ l.foldl maxK a ∈ l) := by
  induction l with
  | nil => intro a; simp
  | cons y ys ih =>
    intro a
    obtain ⟨⟨h1, h2⟩, h3⟩ := ih (maxK a y)
    simp only [List.foldl_cons, List.mem_cons, forall_eq_or_imp]
    rw [maxK_eq] at h1 h2 h3 ⊢
    refine ⟨⟨le_trans (le_max_left _ _) h1, le_trans (le_max_right _ _) h1, h2⟩, ?_⟩
    rcases h3 with h | h
    · rcases max_choice a y with e | e
      · left; rw [h, e]
      · right; left; rw [h, e]
    · right; right; exact h

theorem minL_spec {l : List K} {m : K} (h : minL l = some m) : (∀ x ∈ l, m ≤ x) ∧ m ∈ l := by
  cases l with
  | nil => simp [minL] at h
  | cons a as =>
    simp only [minL, Option.some.injEq] at h
    subst h
    obtain ⟨⟨h1, h2⟩, h3⟩ := foldl_minK as a
    refine ⟨?_, ?_⟩
    · intro x hx
      rcases List.mem_cons.1 hx with rfl | hx
      · exact h1
      · exact h2 x hx
    · rcases h3 with h | h
      · rw [h]; exact List.mem_cons_self
      · exact List.mem_cons_of_mem _ h

theorem maxL_spec {l : List K} {m : K} (h : maxL l = some m) : (∀ x ∈ l, x ≤ m) ∧ m ∈ l := by
  cases l with
  | nil => simp [maxL] at h
  | cons a as =>
    simp only [maxL, Option.some.injEq] at h
    subst h
    obtain ⟨⟨h1, h2⟩, h3⟩ := foldl_maxK as a
    refine ⟨?_, ?_⟩
    · intro x hx
      rcases List.mem_cons.1 hx with rfl | hx
      · exact h1
      · exact h2 x hx
    · rcases h3 with h | h
      · rw [h]; exact List.mem_cons_self
      · exact List.mem_cons_of_mem _ h

theorem span_spec {l : List K} {a b : K} (h : span l = some (a, b)) :
    (∀ x ∈ l, a ≤ x ∧ x ≤ b) ∧ a ∈ l ∧ b ∈ l := by
  unfold span at h
  split at h
  · rename_i a' b' ha hb
    simp only [Option.some.injEq, Prod.mk.injEq] at h
    obtain ⟨rfl, rfl⟩ := h
    have A := minL_spec ha
    have B := maxL_spec hb
    exact ⟨fun x hx => ⟨A.1 x hx, B.1 x hx⟩, A.2, B.2⟩
  · simp at h

theorem mapOpt_mem {α β : Type} {f : α → Option β} : ∀ {l : List α} {r : List β}, mapOpt f l = some r →
    ∀ a ∈ l, ∃ b ∈ r, f a = some b := by
  intro l
  induction l with
  | nil => intro r _ a ha; simp at ha
  | cons x xs ih =>
    intro r h a ha
    simp only [mapOpt] at h
    split at h
    · rename_i b bs hb hbs
      simp only [Option.some.injEq] at h
      subst h
      rcases List.mem_cons.1 ha with rfl | ha
      · exact ⟨b, List.mem_cons_self, hb⟩
      · obtain ⟨b', hb', e⟩ := ih hbs a ha
        exact ⟨b', List.mem_cons_of_mem _ hb', e⟩
    · simp at h

theorem mapOpt_single {α β : Type} {f : α → Option β} {a : α} {r : List β} (h : mapOpt f [a] = some r) :
    ∃ b, f a = some b ∧ r = [b] := by
  simp only [mapOpt] at h
  split at h
  · rename_i b bs hb hbs
    simp only [Option.some.injEq] at hbs h
    subst hbs; exact ⟨b, hb, h.symm⟩
  · simp at h

theorem box2_spec {l : List (K × K)} {b : List (K × K)} (h : box2 l = some b) :
    ∃ x0 x1 y0 y1, b = [(x0, x1), (y0, y1)] ∧ (∀ p ∈ l, x0 ≤ p.1 ∧ p.1 ≤ x1 ∧ y0 ≤ p.2 ∧ p.2 ≤ y1) ∧
      (∃ p ∈ l, p.1 = x0) ∧ (∃ p ∈ l, p.1 = x1) ∧ (∃ p ∈ l, p.2 = y0) ∧ (∃ p ∈ l, p.2 = y1) := by
  unfold box2 at h
  split at h
  · rename_i sx sy hx hy
    simp only [Option.some.injEq] at h
    obtain ⟨x0, x1⟩ := sx
    obtain ⟨y0, y1⟩ := sy
    have X := span_spec hx
    have Y := span_spec hy
    refine ⟨x0, x1, y0, y1, h.symm, ?_, ?_, ?_, ?_, ?_⟩
    · intro p hp
      have a := X.1 p.1 (List.mem_map_of_mem hp)
      have c := Y.1 p.2 (List.mem_map_of_mem hp)
      exact ⟨a.1, a.2, c.1, c.2⟩
    · obtain ⟨p, hp, e⟩ := List.mem_map.1 X.2.1; exact ⟨p, hp, e⟩
    · obtain ⟨p, hp, e⟩ := List.mem_map.1 X.2.2; exact ⟨p, hp, e⟩
    · obtain ⟨p, hp, e⟩ := List.mem_map.1 Y.2.1; exact ⟨p, hp, e⟩
    · obtain ⟨p, hp, e⟩ := List.mem_map.1 Y.2.2; exact ⟨p, hp, e⟩
  · simp at h


/-! ### points as coordinate lists, boxes as predicates -/

/-- the coordinates of a point in space order (`Points.as_tensor` row) -/
def flatPt (vs : List String) (pts : Env K) : Option (List K) :=
  match vs with
  | [] => some []
  | v :: vs =>
    match pts.get v, flatPt vs pts with
    | some x, some r => some (x ++ r)
    | _, _ => none

/-- every coordinate lies in the interval of its axis (and there are as many coordinates as axes) -/
def Inside (box : List (K × K)) (p : List K) : Prop := List.Forall₂ (fun b x => b.1 ≤ x ∧ x ≤ b.2) box p

theorem flatPt_append {vs ws : List String} {pts : Env K} {p : List K} (h : flatPt (vs ++ ws) pts = some p) :
    ∃ pa pb, flatPt vs pts = some pa ∧ flatPt ws pts = some pb ∧ p = pa ++ pb := by
  induction vs generalizing p with
  | nil => exact ⟨[], p, rfl, h, rfl⟩
  | cons v vs ih =>
    simp only [List.cons_append, flatPt] at h ⊢
    split at h
    · rename_i x r hx hr
      simp only [Option.some.injEq] at h
      obtain ⟨pa, pb, h1, h2, e⟩ := ih hr
      refine ⟨x ++ pa, pb, ?_, h2, ?_⟩
      · rw [hx, h1]
      · rw [← h, e, List.append_assoc]
    · simp at h

theorem flatPt_single {v : String} {pts : Env K} {x : List K} (h : pts.get v = some x) : flatPt [v] pts = some x := by
  simp [flatPt, h]

theorem get_single (v : String) (q : List K) : Env.get [(v, q)] v = some q := by
  simp [Env.get, List.lookup]

theorem Inside.append {b1 b2 : List (K × K)} {p1 p2 : List K} (h1 : Inside b1 p1) (h2 : Inside b2 p2) :
    Inside (b1 ++ b2) (p1 ++ p2) := by
  unfold Inside at *
  induction h1 with
  | nil => exact h2
  | cons h _ ih => exact List.Forall₂.cons h ih

theorem Inside.hull_left {ba bb : List (K × K)} {p : List K} (h : Inside ba p) (hl : ba.length = bb.length) :
    Inside (List.zipWith (fun x y => (minK x.1 y.1, maxK x.2 y.2)) ba bb) p := by
  unfold Inside at *
  induction h generalizing bb with
  | nil => cases bb <;> simp_all
  | cons h _ ih =>
    cases bb with
    | nil => simp at hl
    | cons y ys =>
      simp only [List.zipWith_cons_cons]
      refine List.Forall₂.cons ?_ (ih (by simpa using hl))
      rw [minK_eq, maxK_eq]
      exact ⟨le_trans (min_le_left _ _) h.1, le_trans h.2 (le_max_left _ _)⟩

theorem Inside.hull_right {ba bb : List (K × K)} {p : List K} (h : Inside bb p) (hl : ba.length = bb.length) :
    Inside (List.zipWith (fun x y => (minK x.1 y.1, maxK x.2 y.2)) ba bb) p := by
  unfold Inside at *
  induction h generalizing ba with
  | nil => cases ba <;> simp_all
  | cons h _ ih =>
    cases ba with
    | nil => simp at hl
    | cons y ys =>
      simp only [List.zipWith_cons_cons]
      refine List.Forall₂.cons ?_ (ih (by simpa using hl))
      rw [minK_eq, maxK_eq]
      exact ⟨le_trans (min_le_right _ _) h.1, le_trans h.2 (le_max_right _ _)⟩

theorem Inside.meet {ba bb : List (K × K)} {p : List K} (ha : Inside ba p) (hb : Inside bb p) :
    Inside (List.zipWith (fun x y => (maxK x.1 y.1, minK x.2 y.2)) ba bb) p := by
  unfold Inside at *
  induction ha generalizing bb with
  | nil => cases hb; simp
  | cons h _ ih =>
    cases hb with
    | cons h' t' =>
      simp only [List.zipWith_cons_cons]
      refine List.Forall₂.cons ?_ (ih t')
      rw [minK_eq, maxK_eq]
      exact ⟨max_le h.1 h'.1, le_min h.2 h'.2⟩

theorem Inside.shift {bd : List (K × K)} {q t : List K} (h : Inside bd q) (hl : t.length = bd.length) :
    Inside (List.zipWith (fun b s => (b.1 + s, b.2 + s)) bd t) (List.zipWith (· + ·) q t) := by
  unfold Inside at *
  induction h generalizing t with
  | nil => cases t <;> simp_all
  | cons h _ ih =>
    cases t with
    | nil => simp at hl
    | cons s ss =>
      simp only [List.zipWith_cons_cons]
      refine List.Forall₂.cons ?_ (ih (by simpa using hl))
      exact ⟨by linarith [h.1], by linarith [h.2]⟩


/-! ### the common box of several rows -/

theorem hullBoxes_inside : ∀ {l : List (List (K × K))} {h b : List (K × K)} {p : List K},
    hullBoxes l = some h → b ∈ l → Inside b p → Inside h p := by
  intro l
  induction l with
  | nil => intro h b p hh; simp [hullBoxes] at hh
  | cons b0 rest ih =>
    intro h b p hh hb hi
    cases rest with
    | nil =>
      simp only [hullBoxes, Option.some.injEq] at hh
      simp only [List.mem_singleton] at hb
      subst hh hb; exact hi
    | cons b1 bs =>
      simp only [hullBoxes] at hh
      split at hh
      · rename_i h' hh'
        split at hh
        · rename_i hl
          simp only [Option.some.injEq] at hh
          subst hh
          rcases List.mem_cons.1 hb with rfl | hb
          · exact hi.hull_left hl
          · exact (ih hh' hb hi).hull_right hl
        · simp at hh
      · simp at hh

theorem rowsHull_inside {f : Env K → Option (List (K × K))} {ρs : List (Env K)} {h : List (K × K)} {ρ : Env K} {p : List K}
    (hh : rowsHull f ρs = some h) (hρ : ρ ∈ ρs) (hi : ∀ b, f ρ = some b → Inside b p) : Inside h p := by
  unfold rowsHull at hh
  split at hh
  · rename_i l hl
    obtain ⟨b, hb, e⟩ := mapOpt_mem hl ρ hρ
    exact hullBoxes_inside hh hb (hi b e)
  · simp at hh

/-! ### convexity -/

/-- a point `a + s (b − a) + t (c − a)`, `s, t ∈ [0,1]`, of a parallelogram lies between the extreme
    coordinates of the four corners `a, b, c, b + c − a` -/
theorem par_between (s t a b c lo hi : K) (hs0 : 0 ≤ s) (hs1 : s ≤ 1) (ht0 : 0 ≤ t) (ht1 : t ≤ 1)
    (ha : lo ≤ a ∧ a ≤ hi) (hb : lo ≤ b ∧ b ≤ hi) (hc : lo ≤ c ∧ c ≤ hi) (hd : lo ≤ b + c - a ∧ b + c - a ≤ hi) :
    lo ≤ a + s * (b - a) + t * (c - a) ∧ a + s * (b - a) + t * (c - a) ≤ hi := by
  have e : a + s * (b - a) + t * (c - a) = (1 - s) * (1 - t) * a + s * (1 - t) * b + (1 - s) * t * c + s * t * (b + c - a) := by ring
  have w1 : 0 ≤ (1 - s) * (1 - t) := mul_nonneg (by linarith) (by linarith)
  have w2 : 0 ≤ s * (1 - t) := mul_nonneg hs0 (by linarith)
  have w3 : 0 ≤ (1 - s) * t := mul_nonneg (by linarith) ht0
  have w4 : 0 ≤ s * t := mul_nonneg hs0 ht0
  have ws : (1 - s) * (1 - t) + s * (1 - t) + (1 - s) * t + s * t = 1 := by ring
  rw [e]
  constructor
  · nlinarith [mul_nonneg w1 (sub_nonneg.2 ha.1), mul_nonneg w2 (sub_nonneg.2 hb.1), mul_nonneg w3 (sub_nonneg.2 hc.1), mul_nonneg w4 (sub_nonneg.2 hd.1)]
  · nlinarith [mul_nonneg w1 (sub_nonneg.2 ha.2), mul_nonneg w2 (sub_nonneg.2 hb.2), mul_nonneg w3 (sub_nonneg.2 hc.2), mul_nonneg w4 (sub_nonneg.2 hd.2)]

/-- a point of a triangle lies between the extreme coordinates of the three corners -/
theorem tri_between (s t a b c lo hi : K) (hs0 : 0 ≤ s) (ht0 : 0 ≤ t) (hst : s + t ≤ 1)
    (ha : lo ≤ a ∧ a ≤ hi) (hb : lo ≤ b ∧ b ≤ hi) (hc : lo ≤ c ∧ c ≤ hi) :
    lo ≤ a + s * (b - a) + t * (c - a) ∧ a + s * (b - a) + t * (c - a) ≤ hi := by
  have e : a + s * (b - a) + t * (c - a) = (1 - s - t) * a + s * b + t * c := by ring
  have w1 : 0 ≤ 1 - s - t := by linarith
  rw [e]
  constructor
  · nlinarith [mul_nonneg w1 (sub_nonneg.2 ha.1), mul_nonneg hs0 (sub_nonneg.2 hb.1), mul_nonneg ht0 (sub_nonneg.2 hc.1)]
  · nlinarith [mul_nonneg w1 (sub_nonneg.2 ha.2), mul_nonneg hs0 (sub_nonneg.2 hb.2), mul_nonneg ht0 (sub_nonneg.2 hc.2)]

/-- one coordinate of a point of a ball differs from the centre by at most the radius -/
theorem ball_coord (d e r : K) (hr : 0 ≤ r) (he : 0 ≤ e) (h : d ^ 2 + e ≤ r ^ 2) : -r ≤ d ∧ d ≤ r := by
  constructor
  · by_contra hc
    have : d < -r := lt_of_not_ge hc
    nlinarith
  · by_contra hc
    have : r < d := lt_of_not_ge hc
    nlinarith

/-- an affine function of two variables on a box is bounded below by its smallest corner value -/
theorem affine_box_lo (A B q1 q2 x0 x1 y0 y1 cx cy e lo : K) (hx : x0 ≤ q1 ∧ q1 ≤ x1) (hy : y0 ≤ q2 ∧ q2 ≤ y1)
    (h00 : lo ≤ A * (x0 - cx) + B * (y0 - cy) + e) (h01 : lo ≤ A * (x0 - cx) + B * (y1 - cy) + e)
    (h10 : lo ≤ A * (x1 - cx) + B * (y0 - cy) + e) (h11 : lo ≤ A * (x1 - cx) + B * (y1 - cy) + e) :
    lo ≤ A * (q1 - cx) + B * (q2 - cy) + e := by
  rcases le_total 0 A with hA | hA <;> rcases le_total 0 B with hB | hB
  · nlinarith [mul_le_mul_of_nonneg_left hx.1 hA, mul_le_mul_of_nonneg_left hy.1 hB]
  · nlinarith [mul_le_mul_of_nonneg_left hx.1 hA, mul_le_mul_of_nonpos_left hy.2 hB]
  · nlinarith [mul_le_mul_of_nonpos_left hx.2 hA, mul_le_mul_of_nonneg_left hy.1 hB]
  · nlinarith [mul_le_mul_of_nonpos_left hx.2 hA, mul_le_mul_of_nonpos_left hy.2 hB]

theorem affine_box_hi (A B q1 q2 x0 x1 y0 y1 cx cy e hi : K) (hx : x0 ≤ q1 ∧ q1 ≤ x1) (hy : y0 ≤ q2 ∧ q2 ≤ y1)
    (h00 : A * (x0 - cx) + B * (y0 - cy) + e ≤ hi) (h01 : A * (x0 - cx) + B * (y1 - cy) + e ≤ hi)
    (h10 : A * (x1 - cx) + B * (y0 - cy) + e ≤ hi) (h11 : A * (x1 - cx) + B * (y1 - cy) + e ≤ hi) :
    A * (q1 - cx) + B * (q2 - cy) + e ≤ hi := by
  rcases le_total 0 A with hA | hA <;> rcases le_total 0 B with hB | hB
  · nlinarith [mul_le_mul_of_nonneg_left hx.2 hA, mul_le_mul_of_nonneg_left hy.2 hB]
  · nlinarith [mul_le_mul_of_nonneg_left hx.2 hA, mul_le_mul_of_nonpos_left hy.1 hB]
  · nlinarith [mul_le_mul_of_nonpos_left hx.1 hA, mul_le_mul_of_nonneg_left hy.2 hB]
  · nlinarith [mul_le_mul_of_nonpos_left hx.1 hA, mul_le_mul_of_nonpos_left hy.1 hB]

end TPV.Geom
