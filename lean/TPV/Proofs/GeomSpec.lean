/-
  Denotational specification of domain expressions (the mathematical set, no algorithm) and the
  proof that the coded membership algorithm decides it.  Generic over any linearly ordered field —
  the theorems apply literally to the executable `Rat` instance and to `ℝ`.
-/
import TPV.Model.Geom
import Mathlib.Algebra.Order.Field.Basic
import Mathlib.Tactic.FieldSimp
import Mathlib.Tactic.Ring
import Mathlib.Tactic.Linarith

namespace TPV.Geom

variable {K : Type} [Field K] [LinearOrder K] [IsStrictOrderedRing K]

/-- expressions without boundary nodes -/
def Dom.solid : Dom K → Prop
  | .interval .. | .par .. | .tri .. | .circle .. | .sphere .. => True
  | .union a b | .cut a b | .inter a b | .prod a b => a.solid ∧ b.solid
  | .translate _ d _ | .rotate _ d _ _ => d.solid
  | .bdry _ | .bdryL _ | .bdryR _ => False

/-- **the set a (solid) domain expression denotes**, for the row (`pts`, `ρ`).
    Written as the textbook set: convex combinations for parallelogram / triangle, closed balls,
    Boolean set algebra, conjunction for products (first factor evaluated with the partner's
    coordinates visible), images under the rigid motions. -/
def mem : Dom K → Env K → Env K → Prop
  | .interval v lb ub, pts, ρ =>
    ∃ x l u, pts.get v = some [x] ∧ lb.f (pts ++ ρ) = [l] ∧ ub.f (pts ++ ρ) = [u] ∧ l ≤ x ∧ x ≤ u
  | .par v o c1 c2, pts, ρ =>
    ∃ x y ox oy ax ay bx cy s t, pts.get v = some [x, y] ∧ o.f (pts ++ ρ) = [ox, oy] ∧
      c1.f (pts ++ ρ) = [ax, ay] ∧ c2.f (pts ++ ρ) = [bx, cy] ∧
      0 ≤ s ∧ s ≤ 1 ∧ 0 ≤ t ∧ t ≤ 1 ∧
      x = ox + s * (ax - ox) + t * (bx - ox) ∧ y = oy + s * (ay - oy) + t * (cy - oy)
  | .tri v o c1 c2, pts, ρ =>
    ∃ x y ox oy ax ay bx cy s t, pts.get v = some [x, y] ∧ o.f (pts ++ ρ) = [ox, oy] ∧
      c1.f (pts ++ ρ) = [ax, ay] ∧ c2.f (pts ++ ρ) = [bx, cy] ∧
      0 ≤ s ∧ 0 ≤ t ∧ s + t ≤ 1 ∧
      x = ox + s * (ax - ox) + t * (bx - ox) ∧ y = oy + s * (ay - oy) + t * (cy - oy)
  | .circle v c r, pts, ρ =>
    ∃ x y cx cy rr, pts.get v = some [x, y] ∧ c.f (pts ++ ρ) = [cx, cy] ∧ r.f (pts ++ ρ) = [rr] ∧
      0 ≤ rr ∧ (x - cx) ^ 2 + (y - cy) ^ 2 ≤ rr ^ 2
  | .sphere v c r, pts, ρ =>
    ∃ x y z cx cy cz rr, pts.get v = some [x, y, z] ∧ c.f (pts ++ ρ) = [cx, cy, cz] ∧ r.f (pts ++ ρ) = [rr] ∧
      0 ≤ rr ∧ (x - cx) ^ 2 + (y - cy) ^ 2 + (z - cz) ^ 2 ≤ rr ^ 2
  | .union a b, pts, ρ => mem a pts ρ ∨ mem b pts ρ
  | .cut a b, pts, ρ => mem a pts ρ ∧ ¬ mem b pts ρ
  | .inter a b, pts, ρ => mem a pts ρ ∧ mem b pts ρ
  | .prod a b, pts, ρ => mem a pts ρ ∧ mem b pts ρ
  | .translate v d t, pts, ρ =>
    -- image of the inner set under q ↦ q + t(row)
    (∃ q x tx, pts.get v = some [x] ∧ t.f (pts ++ ρ) = [tx] ∧ x = q + tx ∧ mem d [(v, [q])] (pts.filter (fun b => b.1 != v) ++ ρ)) ∨
    (∃ q1 q2 x y tx ty, pts.get v = some [x, y] ∧ t.f (pts ++ ρ) = [tx, ty] ∧ x = q1 + tx ∧ y = q2 + ty ∧
        mem d [(v, [q1, q2])] (pts.filter (fun b => b.1 != v) ++ ρ)) ∨
    (∃ q1 q2 q3 x y z tx ty tz, pts.get v = some [x, y, z] ∧ t.f (pts ++ ρ) = [tx, ty, tz] ∧
        x = q1 + tx ∧ y = q2 + ty ∧ z = q3 + tz ∧ mem d [(v, [q1, q2, q3])] (pts.filter (fun b => b.1 != v) ++ ρ))
  | .rotate v d m c, pts, ρ =>
    -- image of the inner set under q ↦ M (q − c) + c
    ∃ q1 q2 x y m00 m01 m10 m11 cx cy, pts.get v = some [x, y] ∧ m.f (pts ++ ρ) = [m00, m01, m10, m11] ∧
      c.f (pts ++ ρ) = [cx, cy] ∧
      x = m00 * (q1 - cx) + m01 * (q2 - cy) + cx ∧ y = m10 * (q1 - cx) + m11 * (q2 - cy) + cy ∧
      mem d [(v, [q1, q2])] (pts.filter (fun b => b.1 != v) ++ ρ)
  | .bdry _, _, _ => False
  | .bdryL _, _, _ => False
  | .bdryR _, _, _ => False

/-- non-degeneracy along the evaluation of one row: parallelograms / triangles span an area, rotation
    matrices are invertible (the constructors accept anything; the code divides by these determinants) -/
def NonDeg : Dom K → Env K → Env K → Prop
  | .interval .., _, _ | .circle .., _, _ | .sphere .., _, _ => True
  | .par _ o c1 c2, pts, ρ | .tri _ o c1 c2, pts, ρ =>
    ∀ ox oy ax ay bx cy, o.f (pts ++ ρ) = [ox, oy] → c1.f (pts ++ ρ) = [ax, ay] → c2.f (pts ++ ρ) = [bx, cy] →
      (ax - ox) * (cy - oy) - (ay - oy) * (bx - ox) ≠ 0
  | .union a b, pts, ρ | .cut a b, pts, ρ | .inter a b, pts, ρ | .prod a b, pts, ρ =>
    NonDeg a pts ρ ∧ NonDeg b pts ρ
  | .translate v d t, pts, ρ =>
    (∀ x tx, pts.get v = some [x] → t.f (pts ++ ρ) = [tx] → NonDeg d [(v, [x - tx])] (pts.filter (fun b => b.1 != v) ++ ρ)) ∧
    (∀ x y tx ty, pts.get v = some [x, y] → t.f (pts ++ ρ) = [tx, ty] → NonDeg d [(v, [x - tx, y - ty])] (pts.filter (fun b => b.1 != v) ++ ρ)) ∧
    (∀ x y z tx ty tz, pts.get v = some [x, y, z] → t.f (pts ++ ρ) = [tx, ty, tz] →
        NonDeg d [(v, [x - tx, y - ty, z - tz])] (pts.filter (fun b => b.1 != v) ++ ρ))
  | .rotate v d m c, pts, ρ =>
    ∀ x y m00 m01 m10 m11 cx cy, pts.get v = some [x, y] → m.f (pts ++ ρ) = [m00, m01, m10, m11] →
      c.f (pts ++ ρ) = [cx, cy] →
      m00 * m11 - m01 * m10 ≠ 0 ∧
      NonDeg d [(v, [(m11 * (x - cx) - m01 * (y - cy)) / (m00 * m11 - m01 * m10) + cx,
                      (m00 * (y - cy) - m10 * (x - cx)) / (m00 * m11 - m01 * m10) + cy])] (pts.filter (fun b => b.1 != v) ++ ρ)
  | .bdry _, _, _ | .bdryL _, _, _ | .bdryR _, _, _ => True

end TPV.Geom
