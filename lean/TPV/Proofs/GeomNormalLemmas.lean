/-
  Algebraic core of the boundary-normal proofs (C06): the weighted, oriented sum of rotated edge directions of a
  parallelogram / triangle decreases exactly the barycentric constraints of the selected edges.
-/
import TPV.Props.C05
import TPV.Model.GeomNormal
import Mathlib.Analysis.SpecialFunctions.Sqrt
import Mathlib.Tactic.Positivity

namespace TPV.Geom
set_option linter.unusedSectionVars false
variable {K : Type} [Field K] [LinearOrder K] [IsStrictOrderedRing K]

theorem sgn_mul_self_pos (d : K) (h : d ≠ 0) : 0 < sgn d * d := by
  unfold sgn
  rcases lt_or_gt_of_ne h with h' | h'
  · have : ¬ (0 : K) ≤ d := not_le.mpr h'
    simp [le_of_lt h', this]; exact h'
  · have : ¬ d ≤ 0 := not_le.mpr h'
    simp [this]; exact h'

theorem edge_step (g0 D : K) (sel : Prop) (h0 : 0 ≤ g0) (hsel : g0 = 0 → sel) (hD : sel → D < 0) :
    (g0 = 0 → ∀ ε, 0 < ε → g0 + ε * D < 0) ∧ ∃ ε₁, 0 < ε₁ ∧ ∀ ε, 0 < ε → ε < ε₁ → 0 ≤ g0 + (-ε) * D := by
  constructor
  · intro hg ε hε
    have := hD (hsel hg)
    rw [hg]; nlinarith
  · by_cases hs : sel
    · refine ⟨1, one_pos, fun ε hε _ => ?_⟩
      have := hD hs
      nlinarith
    · have hg : 0 < g0 := lt_of_le_of_ne h0 (fun h => hs (hsel h.symm))
      have hpos : 0 < |D| + 1 := by positivity
      refine ⟨g0 / (|D| + 1), div_pos hg hpos, fun ε hε hlt => ?_⟩
      rw [lt_div_iff₀ hpos] at hlt
      have h1 : D ≤ |D| := le_abs_self D
      nlinarith

theorem cs_strict (ax ay bx by' la lb : K) (hla : 0 < la) (hlb : 0 < lb) (ha : la * la = ax * ax + ay * ay)
    (hb : lb * lb = bx * bx + by' * by') (hdet : ax * by' - ay * bx ≠ 0) :
    |ax * bx + ay * by'| < la * lb := by
  have hd : 0 < (ax * by' - ay * bx) ^ 2 := by positivity
  have hl : 0 < la * lb := mul_pos hla hlb
  have key : (ax * bx + ay * by') ^ 2 < (la * lb) ^ 2 := by
    have : (la * lb) ^ 2 = (ax * ax + ay * ay) * (bx * bx + by' * by') := by rw [← ha, ← hb]; ring
    rw [this]; nlinarith
  exact abs_lt_of_sq_lt_sq key hl.le

theorem sel_neg (w' P l1 l2 : K) (hl1 : 0 < l1) (hw : |w'| ≤ 1) (hP : |P| < l1 * l2) :
    (-1) * l2 - w' * P / l1 < 0 := by
  have h1 : |w' * P| < l1 * l2 := by
    rw [abs_mul]
    calc |w'| * |P| ≤ 1 * |P| := by apply mul_le_mul_of_nonneg_right hw (abs_nonneg _)
      _ = |P| := one_mul _
      _ < l1 * l2 := hP
  have h2 := (abs_lt.mp h1).1
  have : (-1) * l2 - w' * P / l1 = (-(l1 * l2) - w' * P) / l1 := by field_simp
  rw [this]
  apply div_neg_of_neg_of_pos _ hl1
  linarith

theorem sel_pos (w' P l1 l2 : K) (hl1 : 0 < l1) (hw : |w'| ≤ 1) (hP : |P| < l1 * l2) :
    0 < 1 * l2 - w' * P / l1 := by
  have := sel_neg (-w') P l1 l2 hl1 (by rwa [abs_neg]) hP
  have e : 1 * l2 - w' * P / l1 = -((-1) * l2 - (-w') * P / l1) - 0 := by ring
  nlinarith [e]

theorem abs_le_one_of_tri (w : K) (h : w = -1 ∨ w = 0 ∨ w = 1) : |w| ≤ 1 := by
  rcases h with rfl | rfl | rfl <;> simp

/-- in the unit interval -/
def In01 (a : K) : Prop := 0 ≤ a ∧ a ≤ 1

/-- algebraic core of the parallelogram normal: the weighted, oriented sum of the rotated edge directions,
    scaled by any positive length, decreases exactly the barycentric constraints of the selected edges -/
theorem par_alg (d1x d1y d2x d2y l1 l2 wx wy s t : K) (hdet : d1x * d2y - d1y * d2x ≠ 0)
    (hl1 : 0 < l1) (hl1' : l1 * l1 = (-d1y) * (-d1y) + d1x * d1x)
    (hl2 : 0 < l2) (hl2' : l2 * l2 = (-d2y) * (-d2y) + d2x * d2x)
    (hwx : wx = -1 ∨ wx = 0 ∨ wx = 1) (hwy : wy = -1 ∨ wy = 0 ∨ wy = 1)
    (hs : In01 s) (ht : In01 t)
    (hx0 : s = 0 → wx = -1) (hx1 : s = 1 → wx = 1) (hy0 : t = 0 → wy = -1) (hy1 : t = 1 → wy = 1)
    (hb : s = 0 ∨ s = 1 ∨ t = 0 ∨ t = 1)
    (vx vy : K)
    (hvx : vx = ((-d1y / l1) * wy + (-(-d2y / l2)) * wx) * sgn (d1x * d2y - d1y * d2x))
    (hvy : vy = ((d1x / l1) * wy + (-(d2x / l2)) * wx) * sgn (d1x * d2y - d1y * d2x)) :
    ¬ (vx = 0 ∧ vy = 0) ∧ ∀ L : K, 0 < L → ∃ ε₀, 0 < ε₀ ∧ ∀ ε, 0 < ε → ε < ε₀ →
      ¬ (In01 (s + ε * ((d2y * (vx / L) - d2x * (vy / L)) / (d1x * d2y - d1y * d2x))) ∧
         In01 (t + ε * ((d1x * (vy / L) - d1y * (vx / L)) / (d1x * d2y - d1y * d2x)))) ∧
      (In01 (s + (-ε) * ((d2y * (vx / L) - d2x * (vy / L)) / (d1x * d2y - d1y * d2x))) ∧
       In01 (t + (-ε) * ((d1x * (vy / L) - d1y * (vx / L)) / (d1x * d2y - d1y * d2x)))) := by
  set det := d1x * d2y - d1y * d2x with hdetdef
  set sg := sgn det with hsg
  have hκ : 0 < sg / det := by
    have h1 := sgn_mul_self_pos det hdet
    have h2 : 0 < det * det := mul_self_pos.mpr hdet
    have : sg / det = (sg * det) / (det * det) := by field_simp
    rw [this]; exact div_pos h1 h2
  set P := d1x * d2x + d1y * d2y with hP
  have hcs : |P| < l1 * l2 := by
    apply cs_strict d1x d1y d2x d2y l1 l2 hl1 hl2 (by rw [hl1']; ring) (by rw [hl2']; ring) hdet
  have hcs' : |P| < l2 * l1 := by rwa [mul_comm]
  have e1 : (d1x * d1x + d1y * d1y) / l1 = l1 := by
    rw [div_eq_iff hl1.ne']; rw [hl1']; ring
  have e2 : (d2x * d2x + d2y * d2y) / l2 = l2 := by
    rw [div_eq_iff hl2.ne']; rw [hl2']; ring
  -- the two directional derivatives (before division by L)
  have Es : (d2y * vx - d2x * vy) / det = sg / det * (wx * l2 - wy * P / l1) := by
    have : d2y * vx - d2x * vy = sg * (wx * ((d2x * d2x + d2y * d2y) / l2) - wy * P / l1) := by
      rw [hvx, hvy]; ring
    rw [this, e2]; ring
  have Et : (d1x * vy - d1y * vx) / det = sg / det * (wy * l1 - wx * P / l2) := by
    have : d1x * vy - d1y * vx = sg * (wy * ((d1x * d1x + d1y * d1y) / l1) - wx * P / l2) := by
      rw [hvx, hvy]; ring
    rw [this, e1]; ring
  have awx := abs_le_one_of_tri wx hwx
  have awy := abs_le_one_of_tri wy hwy
  have Bs_neg : wx = -1 → wx * l2 - wy * P / l1 < 0 := fun h => by rw [h]; exact sel_neg wy P l1 l2 hl1 awy hcs
  have Bs_pos : wx = 1 → 0 < wx * l2 - wy * P / l1 := fun h => by rw [h]; exact sel_pos wy P l1 l2 hl1 awy hcs
  have Bt_neg : wy = -1 → wy * l1 - wx * P / l2 < 0 := fun h => by rw [h]; exact sel_neg wx P l2 l1 hl2 awx hcs'
  have Bt_pos : wy = 1 → 0 < wy * l1 - wx * P / l2 := fun h => by rw [h]; exact sel_pos wx P l2 l1 hl2 awx hcs'
  constructor
  · rintro ⟨h1, h2⟩
    have z1 : sg / det * (wx * l2 - wy * P / l1) = 0 := by rw [← Es, h1, h2]; simp
    have z2 : sg / det * (wy * l1 - wx * P / l2) = 0 := by rw [← Et, h1, h2]; simp
    have z1' := (mul_eq_zero.mp z1).resolve_left hκ.ne'
    have z2' := (mul_eq_zero.mp z2).resolve_left hκ.ne'
    rcases hb with h | h | h | h
    · have := Bs_neg (hx0 h); linarith
    · have := Bs_pos (hx1 h); linarith
    · have := Bt_neg (hy0 h); linarith
    · have := Bt_pos (hy1 h); linarith
  · intro L hL
    have hDs : (d2y * (vx / L) - d2x * (vy / L)) / det = sg / det * (wx * l2 - wy * P / l1) / L := by
      rw [← Es]; field_simp
    have hDt : (d1x * (vy / L) - d1y * (vx / L)) / det = sg / det * (wy * l1 - wx * P / l2) / L := by
      rw [← Et]; field_simp
    rw [hDs, hDt]
    set Ds := sg / det * (wx * l2 - wy * P / l1) / L with hDsdef
    set Dt := sg / det * (wy * l1 - wx * P / l2) / L with hDtdef
    have Ds_neg : wx = -1 → Ds < 0 := fun h => by
      rw [hDsdef]; exact div_neg_of_neg_of_pos (mul_neg_of_pos_of_neg hκ (Bs_neg h)) hL
    have Ds_pos : wx = 1 → -Ds < 0 := fun h => by
      rw [hDsdef, neg_lt_zero]; exact div_pos (mul_pos hκ (Bs_pos h)) hL
    have Dt_neg : wy = -1 → Dt < 0 := fun h => by
      rw [hDtdef]; exact div_neg_of_neg_of_pos (mul_neg_of_pos_of_neg hκ (Bt_neg h)) hL
    have Dt_pos : wy = 1 → -Dt < 0 := fun h => by
      rw [hDtdef, neg_lt_zero]; exact div_pos (mul_pos hκ (Bt_pos h)) hL
    obtain ⟨a1, ε1, hε1, b1⟩ := edge_step s Ds (wx = -1) hs.1 hx0 Ds_neg
    obtain ⟨a2, ε2, hε2, b2⟩ := edge_step (1 - s) (-Ds) (wx = 1) (by linarith [hs.2]) (fun h => hx1 (by linarith)) Ds_pos
    obtain ⟨a3, ε3, hε3, b3⟩ := edge_step t Dt (wy = -1) ht.1 hy0 Dt_neg
    obtain ⟨a4, ε4, hε4, b4⟩ := edge_step (1 - t) (-Dt) (wy = 1) (by linarith [ht.2]) (fun h => hy1 (by linarith)) Dt_pos
    refine ⟨min (min ε1 ε2) (min ε3 ε4), by positivity, fun ε hε hlt => ?_⟩
    have l1' : ε < ε1 := lt_of_lt_of_le hlt (le_trans (min_le_left _ _) (min_le_left _ _))
    have l2' : ε < ε2 := lt_of_lt_of_le hlt (le_trans (min_le_left _ _) (min_le_right _ _))
    have l3' : ε < ε3 := lt_of_lt_of_le hlt (le_trans (min_le_right _ _) (min_le_left _ _))
    have l4' : ε < ε4 := lt_of_lt_of_le hlt (le_trans (min_le_right _ _) (min_le_right _ _))
    constructor
    · rintro ⟨⟨p1, p2⟩, p3, p4⟩
      rcases hb with h | h | h | h
      · have := a1 h ε hε; linarith
      · have := a2 (by linarith) ε hε; linarith
      · have := a3 h ε hε; linarith
      · have := a4 (by linarith) ε hε; linarith
    · have q1 := b1 ε hε l1'
      have q2 := b2 ε hε l2'
      have q3 := b3 ε hε l3'
      have q4 := b4 ε hε l4'
      refine ⟨⟨q1, by linarith⟩, q3, by linarith⟩


variable [HasSqrt K]

def SqrtOk (K : Type) [Field K] [LinearOrder K] [IsStrictOrderedRing K] [HasSqrt K] : Prop :=
  ∀ x : K, 0 ≤ x → 0 ≤ HasSqrt.sqrt x ∧ HasSqrt.sqrt x * HasSqrt.sqrt x = x

theorem sqrt_pos_of_pos (hsq : SqrtOk K) (x : K) (hx : 0 < x) :
    0 < HasSqrt.sqrt x ∧ HasSqrt.sqrt x * HasSqrt.sqrt x = x := by
  obtain ⟨h1, h2⟩ := hsq x hx.le
  refine ⟨lt_of_le_of_ne h1 (fun h => ?_), h2⟩
  rw [← h] at h2; simp at h2; linarith

/-- tolerances small enough that "close to 0" and "close to 1" exclude each other -/
def Tol.small (τ : Tol K) : Prop := τ.batol + τ.batol + τ.batol + τ.rtol < 1

theorem isZero_iff (a : K) : isZero a = true ↔ a = 0 := by
  unfold isZero
  rw [Bool.and_eq_true, le_iff, le_iff]
  exact ⟨fun h => le_antisymm h.1 h.2, fun h => ⟨h.le, h.ge⟩⟩

theorem parW_facts (τ : Tol K) (hτ : τ.ok) (hsmall : τ.small) (s : K) :
    (closeW τ s 0 (-1) + closeW τ s 1 1 = -1 ∨ closeW τ s 0 (-1) + closeW τ s 1 1 = 0 ∨
      closeW τ s 0 (-1) + closeW τ s 1 1 = 1) ∧
    (s = 0 → closeW τ s 0 (-1) + closeW τ s 1 1 = -1) ∧ (s = 1 → closeW τ s 0 (-1) + closeW τ s 1 1 = 1) := by
  have hb := hτ.2.2; have hr := hτ.2.1
  unfold Tol.small at hsmall
  by_cases c0 : isclose τ.bary s 0 = true <;> by_cases c1 : isclose τ.bary s 1 = true
  · exfalso
    rw [isclose_iff] at c0 c1
    simp only [Tol.bary, sub_zero, abs_zero, mul_zero, add_zero, abs_one, mul_one] at c0 c1
    have := abs_le.mp c0; have := abs_le.mp c1
    linarith
  · simp only [closeW, c0, c1, if_true]
    refine ⟨by simp, by simp, fun h => ?_⟩
    exfalso; apply c1; rw [h]; exact isclose_self_bary τ hτ 1
  · simp only [closeW, c0, c1, if_true]
    refine ⟨by simp, fun h => ?_, by simp⟩
    exfalso; apply c0; rw [h]; exact isclose_self_bary τ hτ 0
  · simp only [closeW, c0, c1]
    refine ⟨by simp, fun h => ?_, fun h => ?_⟩
    · exfalso; apply c0; rw [h]; exact isclose_self_bary τ hτ 0
    · exfalso; apply c1; rw [h]; exact isclose_self_bary τ hτ 1


theorem solveLgs_step (q1 q2 w1 w2 ε d1x d1y d2x d2y : K) :
    solveLgs (q1 + ε * w1) (q2 + ε * w2) d1x d1y d2x d2y =
      ((solveLgs q1 q2 d1x d1y d2x d2y).1 + ε * ((d2y * w1 - d2x * w2) / (d1x * d2y - d1y * d2x)),
       (solveLgs q1 q2 d1x d1y d2x d2y).2 + ε * ((d1x * w2 - d1y * w1) / (d1x * d2y - d1y * d2x))) := by
  simp only [solveLgs]
  refine Prod.ext ?_ ?_ <;> simp only [] <;> ring

/-- **Parallelogram, all edge points and corners, both orientations (scalar form).**  At the point
    `o + s·d₁ + t·d₂` with `(s,t)` on the boundary of the unit square the code's vector is finite, has length 1,
    and in barycentric coordinates a small step along it leaves `[0,1]²` while a small step against it stays inside. -/
theorem par_core (hsq : SqrtOk K) (τ : Tol K) (hτ : τ.ok) (hsmall : τ.small)
    (ox oy ax ay bx cy s t : K)
    (hdet : (ax - ox) * (cy - oy) - (ay - oy) * (bx - ox) ≠ 0)
    (hs : In01 s) (ht : In01 t) (hb : s = 0 ∨ s = 1 ∨ t = 0 ∨ t = 1) :
    ∃ nx ny ε₀, 0 < ε₀ ∧
      finish2 true ((ax - ox) * (cy - oy) - (ay - oy) * (bx - ox))
        (parRaw τ (ox + s * (ax - ox) + t * (bx - ox)) (oy + s * (ay - oy) + t * (cy - oy)) ox oy ax ay bx cy)
          = some [nx, ny] ∧
      nx * nx + ny * ny = 1 ∧
      ∀ ε, 0 < ε → ε < ε₀ →
        ¬ (In01 (s + ε * (((cy - oy) * nx - (bx - ox) * ny) / ((ax - ox) * (cy - oy) - (ay - oy) * (bx - ox)))) ∧
           In01 (t + ε * (((ax - ox) * ny - (ay - oy) * nx) / ((ax - ox) * (cy - oy) - (ay - oy) * (bx - ox))))) ∧
        (In01 (s + (-ε) * (((cy - oy) * nx - (bx - ox) * ny) / ((ax - ox) * (cy - oy) - (ay - oy) * (bx - ox)))) ∧
         In01 (t + (-ε) * (((ax - ox) * ny - (ay - oy) * nx) / ((ax - ox) * (cy - oy) - (ay - oy) * (bx - ox))))) := by
  have hd1 : 0 < (-(ay - oy)) * (-(ay - oy)) + (ax - ox) * (ax - ox) := by
    rcases eq_or_ne (ax - ox) 0 with h | h
    · rcases eq_or_ne (ay - oy) 0 with h' | h'
      · exfalso; apply hdet; rw [h, h']; ring
      · have := mul_self_pos.mpr h'; nlinarith [mul_self_nonneg (ax - ox)]
    · have := mul_self_pos.mpr h; nlinarith [mul_self_nonneg (ay - oy)]
  have hd2 : 0 < (-(cy - oy)) * (-(cy - oy)) + (bx - ox) * (bx - ox) := by
    rcases eq_or_ne (bx - ox) 0 with h | h
    · rcases eq_or_ne (cy - oy) 0 with h' | h'
      · exfalso; apply hdet; rw [h, h']; ring
      · have := mul_self_pos.mpr h'; nlinarith [mul_self_nonneg (bx - ox)]
    · have := mul_self_pos.mpr h; nlinarith [mul_self_nonneg (cy - oy)]
  obtain ⟨hl1, hl1'⟩ := sqrt_pos_of_pos hsq _ hd1
  obtain ⟨hl2, hl2'⟩ := sqrt_pos_of_pos hsq _ hd2
  obtain ⟨wx3, wx0, wx1⟩ := parW_facts τ hτ hsmall s
  obtain ⟨wy3, wy0, wy1⟩ := parW_facts τ hτ hsmall t
  have hsol : solveLgs (ox + s * (ax - ox) + t * (bx - ox) - ox) (oy + s * (ay - oy) + t * (cy - oy) - oy)
      (ax - ox) (ay - oy) (bx - ox) (cy - oy) = (s, t) :=
    solveLgs_fst _ _ _ _ _ _ s t hdet (by ring) (by ring)
  obtain ⟨hne, hstep⟩ := par_alg (ax - ox) (ay - oy) (bx - ox) (cy - oy) _ _ _ _ s t hdet hl1 hl1' hl2 hl2'
    wx3 wy3 hs ht wx0 wx1 wy0 wy1 hb _ _ rfl rfl
  set vx := ((-(ay - oy) / HasSqrt.sqrt ((-(ay - oy)) * (-(ay - oy)) + (ax - ox) * (ax - ox))) *
      (closeW τ t 0 (-1) + closeW τ t 1 1) +
      (-(-(cy - oy) / HasSqrt.sqrt ((-(cy - oy)) * (-(cy - oy)) + (bx - ox) * (bx - ox)))) *
      (closeW τ s 0 (-1) + closeW τ s 1 1)) * sgn ((ax - ox) * (cy - oy) - (ay - oy) * (bx - ox)) with hvx
  set vy := (((ax - ox) / HasSqrt.sqrt ((-(ay - oy)) * (-(ay - oy)) + (ax - ox) * (ax - ox))) *
      (closeW τ t 0 (-1) + closeW τ t 1 1) +
      (-((bx - ox) / HasSqrt.sqrt ((-(cy - oy)) * (-(cy - oy)) + (bx - ox) * (bx - ox)))) *
      (closeW τ s 0 (-1) + closeW τ s 1 1)) * sgn ((ax - ox) * (cy - oy) - (ay - oy) * (bx - ox)) with hvy
  have hvv : 0 < vx * vx + vy * vy := by
    rcases eq_or_ne vx 0 with h | h
    · have h' : vy ≠ 0 := fun h' => hne ⟨h, h'⟩
      have := mul_self_pos.mpr h'; nlinarith [mul_self_nonneg vx]
    · have := mul_self_pos.mpr h; nlinarith [mul_self_nonneg vy]
  obtain ⟨hL, hL'⟩ := sqrt_pos_of_pos hsq _ hvv
  obtain ⟨ε₀, hε₀, hall⟩ := hstep _ hL
  refine ⟨vx / HasSqrt.sqrt (vx * vx + vy * vy), vy / HasSqrt.sqrt (vx * vx + vy * vy), ε₀, hε₀, ?_, ?_, hall⟩
  · simp only [finish2, parRaw, parNormalDir, unit2, hsol, if_true]
    rw [← hvx, ← hvy]
    have hz : (isZero vx && isZero vy) = false := by
      rw [Bool.and_eq_false_iff]
      by_cases h : vx = 0
      · right
        have h' : vy ≠ 0 := fun h' => hne ⟨h, h'⟩
        cases hh : isZero vy
        · rfl
        · exact absurd ((isZero_iff vy).mp hh) h'
      · left
        cases hh : isZero vx
        · rfl
        · exact absurd ((isZero_iff vx).mp hh) h
    simp [hz]
  · rw [div_mul_div_comm, div_mul_div_comm, ← add_div, hL', div_self hvv.ne']


/-! ### triangle -/

/-- in the standard triangle (the comparison the code makes: `0 ≤ s`, `0 ≤ t`, `t + s ≤ 1`) -/
def InTri (a b : K) : Prop := 0 ≤ a ∧ 0 ≤ b ∧ b + a ≤ 1

theorem tri_sel_neg (li lj lk Pj Pk wj wk : K) (hi : 0 < li) (hj : 0 < lj) (hk : 0 < lk)
    (hPj : |Pj| < li * lj) (hPk : |Pk| < li * lk) (hwj : wj = 0 ∨ wj = 1) (hwk : wk = 0 ∨ wk = 1)
    (hnot : ¬ (wj = 1 ∧ wk = 1)) : -(1 * li) + wj * Pj / lj + wk * Pk / lk < 0 := by
  have h1 : Pj / lj < li := by rw [div_lt_iff₀ hj]; exact (abs_lt.mp hPj).2
  have h2 : Pk / lk < li := by rw [div_lt_iff₀ hk]; exact (abs_lt.mp hPk).2
  rcases hwj with rfl | rfl <;> rcases hwk with rfl | rfl
  · simp; exact hi
  · simp; linarith
  · simp; linarith
  · exact absurd ⟨rfl, rfl⟩ hnot

theorem tri_alg (d1x d1y ex ey fx fy gx gy l1 l2 l3 w1 w2 w3 s t : K)
    (hfx : fx = ex - d1x) (hfy : fy = ey - d1y) (hgx : gx = -ex) (hgy : gy = -ey)
    (hdet : d1x * ey - d1y * ex ≠ 0)
    (hl1 : 0 < l1) (hl1' : l1 * l1 = d1y * d1y + (-d1x) * (-d1x))
    (hl2 : 0 < l2) (hl2' : l2 * l2 = fy * fy + (-fx) * (-fx))
    (hl3 : 0 < l3) (hl3' : l3 * l3 = gy * gy + (-gx) * (-gx))
    (hw1 : w1 = 0 ∨ w1 = 1) (hw2 : w2 = 0 ∨ w2 = 1) (hw3 : w3 = 0 ∨ w3 = 1)
    (hnot : ¬ (w1 = 1 ∧ w2 = 1 ∧ w3 = 1))
    (hin : InTri s t)
    (h3 : s = 0 → w3 = 1) (h1 : t = 0 → w1 = 1) (h2 : t + s = 1 → w2 = 1)
    (hb : s = 0 ∨ t = 0 ∨ t + s = 1)
    (vx vy : K)
    (hvx : vx = (gy / l3 * w3 + fy / l2 * w2 + d1y / l1 * w1) * sgn (d1x * ey - d1y * ex))
    (hvy : vy = (-gx / l3 * w3 + -fx / l2 * w2 + -d1x / l1 * w1) * sgn (d1x * ey - d1y * ex)) :
    ¬ (vx = 0 ∧ vy = 0) ∧ ∀ L : K, 0 < L → ∃ ε₀, 0 < ε₀ ∧ ∀ ε, 0 < ε → ε < ε₀ →
      ¬ InTri (s + ε * ((ey * (vx / L) - ex * (vy / L)) / (d1x * ey - d1y * ex)))
              (t + ε * ((d1x * (vy / L) - d1y * (vx / L)) / (d1x * ey - d1y * ex))) ∧
      InTri (s + (-ε) * ((ey * (vx / L) - ex * (vy / L)) / (d1x * ey - d1y * ex)))
            (t + (-ε) * ((d1x * (vy / L) - d1y * (vx / L)) / (d1x * ey - d1y * ex))) := by
  subst hfx hfy hgx hgy
  set det := d1x * ey - d1y * ex with hdetdef
  set sg := sgn det with hsg
  have hκ : 0 < sg / det := by
    have h1 := sgn_mul_self_pos det hdet
    have h2 : 0 < det * det := mul_self_pos.mpr hdet
    have : sg / det = (sg * det) / (det * det) := by field_simp
    rw [this]; exact div_pos h1 h2
  set P1e := d1x * ex + d1y * ey with hP1e
  set Pef := ex * (ex - d1x) + ey * (ey - d1y) with hPef
  set P1f := d1x * (ex - d1x) + d1y * (ey - d1y) with hP1f
  have c13 : |P1e| < l1 * l3 :=
    cs_strict d1x d1y ex ey l1 l3 hl1 hl3 (by rw [hl1']; ring) (by rw [hl3']; ring) hdet
  have c32 : |Pef| < l3 * l2 :=
    cs_strict ex ey (ex - d1x) (ey - d1y) l3 l2 hl3 hl2 (by rw [hl3']; ring) (by rw [hl2']; ring)
      (fun h => hdet (by rw [hdetdef]; linear_combination h))
  have c12 : |P1f| < l1 * l2 :=
    cs_strict d1x d1y (ex - d1x) (ey - d1y) l1 l2 hl1 hl2 (by rw [hl1']; ring) (by rw [hl2']; ring)
      (fun h => hdet (by rw [hdetdef]; linear_combination h))
  have c12n : |-P1f| < l1 * l2 := by rwa [abs_neg]
  have e1 : (d1x * d1x + d1y * d1y) / l1 = l1 := by rw [div_eq_iff hl1.ne', hl1']; ring
  have e2 : ((ex - d1x) * (ex - d1x) + (ey - d1y) * (ey - d1y)) / l2 = l2 := by rw [div_eq_iff hl2.ne', hl2']; ring
  have e3 : (ex * ex + ey * ey) / l3 = l3 := by rw [div_eq_iff hl3.ne', hl3']; ring
  have Es : (ey * vx - ex * vy) / det = sg / det * (-(w3 * l3) + w2 * Pef / l2 + w1 * P1e / l1) := by
    have : ey * vx - ex * vy = sg * (-(w3 * ((ex * ex + ey * ey) / l3)) + w2 * Pef / l2 + w1 * P1e / l1) := by
      rw [hvx, hvy]; ring
    rw [this, e3]; ring
  have Et : (d1x * vy - d1y * vx) / det = sg / det * (-(w1 * l1) + w2 * (-P1f) / l2 + w3 * P1e / l3) := by
    have : d1x * vy - d1y * vx = sg * (-(w1 * ((d1x * d1x + d1y * d1y) / l1)) + w2 * (-P1f) / l2 + w3 * P1e / l3) := by
      rw [hvx, hvy]; ring
    rw [this, e1]; ring
  have Eu : -((ey * vx - ex * vy) / det) - (d1x * vy - d1y * vx) / det =
      sg / det * (-(w2 * l2) + w1 * (-P1f) / l1 + w3 * Pef / l3) := by
    have : -(ey * vx - ex * vy) - (d1x * vy - d1y * vx) =
        sg * (-(w2 * (((ex - d1x) * (ex - d1x) + (ey - d1y) * (ey - d1y)) / l2)) + w1 * (-P1f) / l1 + w3 * Pef / l3) := by
      rw [hvx, hvy]; ring
    rw [← neg_div, ← sub_div, this, e2]; ring
  have n12 : ¬ (w2 = 1 ∧ w1 = 1) ∨ w3 ≠ 1 := by
    by_cases h : w3 = 1
    · left; rintro ⟨a, b⟩; exact hnot ⟨b, a, h⟩
    · right; exact h
  have Bs_neg : w3 = 1 → -(w3 * l3) + w2 * Pef / l2 + w1 * P1e / l1 < 0 := fun h => by
    rw [h]
    exact tri_sel_neg l3 l2 l1 Pef P1e w2 w1 hl3 hl2 hl1 c32 (by rwa [mul_comm]) hw2 hw1
      (fun ⟨a, b⟩ => hnot ⟨b, a, h⟩)
  have Bt_neg : w1 = 1 → -(w1 * l1) + w2 * (-P1f) / l2 + w3 * P1e / l3 < 0 := fun h => by
    rw [h]
    exact tri_sel_neg l1 l2 l3 (-P1f) P1e w2 w3 hl1 hl2 hl3 c12n c13 hw2 hw3
      (fun ⟨a, b⟩ => hnot ⟨h, a, b⟩)
  have Bu_neg : w2 = 1 → -(w2 * l2) + w1 * (-P1f) / l1 + w3 * Pef / l3 < 0 := fun h => by
    rw [h]
    exact tri_sel_neg l2 l1 l3 (-P1f) Pef w1 w3 hl2 hl1 hl3 (by rwa [mul_comm]) (by rwa [mul_comm]) hw1 hw3
      (fun ⟨a, b⟩ => hnot ⟨a, h, b⟩)
  constructor
  · rintro ⟨z1, z2⟩
    have y1 : sg / det * (-(w3 * l3) + w2 * Pef / l2 + w1 * P1e / l1) = 0 := by rw [← Es, z1, z2]; simp
    have y2 : sg / det * (-(w1 * l1) + w2 * (-P1f) / l2 + w3 * P1e / l3) = 0 := by rw [← Et, z1, z2]; simp
    have y3 : sg / det * (-(w2 * l2) + w1 * (-P1f) / l1 + w3 * Pef / l3) = 0 := by rw [← Eu, z1, z2]; simp
    have y1' := (mul_eq_zero.mp y1).resolve_left hκ.ne'
    have y2' := (mul_eq_zero.mp y2).resolve_left hκ.ne'
    have y3' := (mul_eq_zero.mp y3).resolve_left hκ.ne'
    rcases hb with h | h | h
    · have := Bs_neg (h3 h); linarith
    · have := Bt_neg (h1 h); linarith
    · have := Bu_neg (h2 h); linarith
  · intro L hL
    have hDs : (ey * (vx / L) - ex * (vy / L)) / det = sg / det * (-(w3 * l3) + w2 * Pef / l2 + w1 * P1e / l1) / L := by
      rw [← Es]; field_simp
    have hDt : (d1x * (vy / L) - d1y * (vx / L)) / det = sg / det * (-(w1 * l1) + w2 * (-P1f) / l2 + w3 * P1e / l3) / L := by
      rw [← Et]; field_simp
    rw [hDs, hDt]
    set Ds := sg / det * (-(w3 * l3) + w2 * Pef / l2 + w1 * P1e / l1) / L with hDsdef
    set Dt := sg / det * (-(w1 * l1) + w2 * (-P1f) / l2 + w3 * P1e / l3) / L with hDtdef
    have hDu : -Ds - Dt = sg / det * (-(w2 * l2) + w1 * (-P1f) / l1 + w3 * Pef / l3) / L := by
      rw [hDsdef, hDtdef, ← Es, ← Et, ← Eu]; ring
    have Ds_neg : w3 = 1 → Ds < 0 := fun h => by
      rw [hDsdef]; exact div_neg_of_neg_of_pos (mul_neg_of_pos_of_neg hκ (Bs_neg h)) hL
    have Dt_neg : w1 = 1 → Dt < 0 := fun h => by
      rw [hDtdef]; exact div_neg_of_neg_of_pos (mul_neg_of_pos_of_neg hκ (Bt_neg h)) hL
    have Du_neg : w2 = 1 → -Ds - Dt < 0 := fun h => by
      rw [hDu]; exact div_neg_of_neg_of_pos (mul_neg_of_pos_of_neg hκ (Bu_neg h)) hL
    obtain ⟨a1, ε1, hε1, b1⟩ := edge_step s Ds (w3 = 1) hin.1 h3 Ds_neg
    obtain ⟨a2, ε2, hε2, b2⟩ := edge_step t Dt (w1 = 1) hin.2.1 h1 Dt_neg
    obtain ⟨a3, ε3, hε3, b3⟩ := edge_step (1 - s - t) (-Ds - Dt) (w2 = 1) (by linarith [hin.2.2])
      (fun h => h2 (by linarith)) Du_neg
    refine ⟨min (min ε1 ε2) ε3, by positivity, fun ε hε hlt => ?_⟩
    have l1' : ε < ε1 := lt_of_lt_of_le hlt (le_trans (min_le_left _ _) (min_le_left _ _))
    have l2' : ε < ε2 := lt_of_lt_of_le hlt (le_trans (min_le_left _ _) (min_le_right _ _))
    have l3' : ε < ε3 := lt_of_lt_of_le hlt (min_le_right _ _)
    constructor
    · rintro ⟨p1, p2, p3⟩
      rcases hb with h | h | h
      · have := a1 h ε hε; linarith
      · have := a2 h ε hε; linarith
      · have := a3 (by linarith) ε hε; linarith
    · have q1 := b1 ε hε l1'
      have q2 := b2 ε hε l2'
      have q3 := b3 ε hε l3'
      exact ⟨q1, q2, by linarith⟩


theorem sumsq_pos (a b : K) (h : ¬ (a = 0 ∧ b = 0)) : 0 < a * a + (-b) * (-b) := by
  rcases eq_or_ne a 0 with ha | ha
  · have hb : b ≠ 0 := fun hb => h ⟨ha, hb⟩
    have := mul_self_pos.mpr hb; nlinarith [mul_self_nonneg a]
  · have := mul_self_pos.mpr ha; nlinarith [mul_self_nonneg b]

theorem closeW_one (τ : Tol K) (hτ : τ.ok) (a i : K) :
    (closeW τ a i 1 = 0 ∨ closeW τ a i 1 = 1) ∧ (a = i → closeW τ a i 1 = 1) ∧
    (closeW τ a i 1 = 1 → |a - i| ≤ τ.batol + τ.rtol * |i|) := by
  by_cases c : isclose τ.bary a i = true
  · simp only [closeW, c, if_true]
    refine ⟨by simp, by simp, fun _ => ?_⟩
    rw [isclose_iff] at c; simpa [Tol.bary] using c
  · simp only [closeW, c]
    refine ⟨Or.inl (by simp), fun h => ?_, fun h => ?_⟩
    · exfalso; apply c; rw [h]; exact isclose_self_bary τ hτ i
    · exfalso; simp at h

/-- **Triangle, all edge points and corners, both orientations (scalar form).** -/
theorem tri_core (hsq : SqrtOk K) (τ : Tol K) (hτ : τ.ok) (hsmall : τ.small)
    (ox oy ax ay bx cy s t : K)
    (hdet : (ax - ox) * (cy - oy) - (ay - oy) * (bx - ox) ≠ 0)
    (hin : InTri s t) (hb : s = 0 ∨ t = 0 ∨ t + s = 1) :
    ∃ nx ny ε₀, 0 < ε₀ ∧
      finish2 true ((ax - ox) * (cy - oy) - (ay - oy) * (bx - ox))
        (triRaw τ (ox + s * (ax - ox) + t * (bx - ox)) (oy + s * (ay - oy) + t * (cy - oy)) ox oy ax ay bx cy)
          = some [nx, ny] ∧
      nx * nx + ny * ny = 1 ∧
      ∀ ε, 0 < ε → ε < ε₀ →
        ¬ InTri (s + ε * (((cy - oy) * nx - (bx - ox) * ny) / ((ax - ox) * (cy - oy) - (ay - oy) * (bx - ox))))
                (t + ε * (((ax - ox) * ny - (ay - oy) * nx) / ((ax - ox) * (cy - oy) - (ay - oy) * (bx - ox)))) ∧
        InTri (s + (-ε) * (((cy - oy) * nx - (bx - ox) * ny) / ((ax - ox) * (cy - oy) - (ay - oy) * (bx - ox))))
              (t + (-ε) * (((ax - ox) * ny - (ay - oy) * nx) / ((ax - ox) * (cy - oy) - (ay - oy) * (bx - ox)))) := by
  have hd1 : 0 < (ay - oy) * (ay - oy) + (-(ax - ox)) * (-(ax - ox)) :=
    sumsq_pos _ _ (fun ⟨h, h'⟩ => hdet (by rw [h, h']; ring))
  have hd2 : 0 < (cy - ay) * (cy - ay) + (-(bx - ax)) * (-(bx - ax)) :=
    sumsq_pos _ _ (fun ⟨h, h'⟩ => hdet (by
      have e1 : cy = ay := by linarith
      have e2 : bx = ax := by linarith
      rw [e1, e2]; ring))
  have hd3 : 0 < (oy - cy) * (oy - cy) + (-(ox - bx)) * (-(ox - bx)) :=
    sumsq_pos _ _ (fun ⟨h, h'⟩ => hdet (by
      have e1 : cy = oy := by linarith
      have e2 : bx = ox := by linarith
      rw [e1, e2]; ring))
  obtain ⟨hl1, hl1'⟩ := sqrt_pos_of_pos hsq _ hd1
  obtain ⟨hl2, hl2'⟩ := sqrt_pos_of_pos hsq _ hd2
  obtain ⟨hl3, hl3'⟩ := sqrt_pos_of_pos hsq _ hd3
  obtain ⟨w3a, w3b, w3c⟩ := closeW_one τ hτ s 0
  obtain ⟨w1a, w1b, w1c⟩ := closeW_one τ hτ t 0
  obtain ⟨w2a, w2b, w2c⟩ := closeW_one τ hτ (s + t) 1
  have hnot : ¬ (closeW τ t 0 1 = 1 ∧ closeW τ (s + t) 1 1 = 1 ∧ closeW τ s 0 1 = 1) := by
    rintro ⟨a, b, c⟩
    have ha := abs_le.mp (w1c a); have hb' := abs_le.mp (w2c b); have hc := abs_le.mp (w3c c)
    simp only [sub_zero, abs_zero, mul_zero, add_zero, abs_one, mul_one] at ha hb' hc
    unfold Tol.small at hsmall
    linarith [ha.2, hb'.1, hc.2]
  have hsol : solveLgs (ox + s * (ax - ox) + t * (bx - ox) - ox) (oy + s * (ay - oy) + t * (cy - oy) - oy)
      (ax - ox) (ay - oy) (bx - ox) (cy - oy) = (s, t) :=
    solveLgs_fst _ _ _ _ _ _ s t hdet (by ring) (by ring)
  obtain ⟨hne, hstep⟩ := tri_alg (ax - ox) (ay - oy) (bx - ox) (cy - oy) (bx - ax) (cy - ay) (ox - bx) (oy - cy)
    _ _ _ _ _ _ s t (by ring) (by ring) (by ring) (by ring) hdet hl1 hl1' hl2 hl2' hl3 hl3'
    w1a w2a w3a hnot hin w3b w1b (fun h => w2b (by linarith)) hb _ _ rfl rfl
  set vx := ((oy - cy) / HasSqrt.sqrt ((oy - cy) * (oy - cy) + (-(ox - bx)) * (-(ox - bx))) * closeW τ s 0 1 +
      (cy - ay) / HasSqrt.sqrt ((cy - ay) * (cy - ay) + (-(bx - ax)) * (-(bx - ax))) * closeW τ (s + t) 1 1 +
      (ay - oy) / HasSqrt.sqrt ((ay - oy) * (ay - oy) + (-(ax - ox)) * (-(ax - ox))) * closeW τ t 0 1) *
      sgn ((ax - ox) * (cy - oy) - (ay - oy) * (bx - ox)) with hvx
  set vy := (-(ox - bx) / HasSqrt.sqrt ((oy - cy) * (oy - cy) + (-(ox - bx)) * (-(ox - bx))) * closeW τ s 0 1 +
      -(bx - ax) / HasSqrt.sqrt ((cy - ay) * (cy - ay) + (-(bx - ax)) * (-(bx - ax))) * closeW τ (s + t) 1 1 +
      -(ax - ox) / HasSqrt.sqrt ((ay - oy) * (ay - oy) + (-(ax - ox)) * (-(ax - ox))) * closeW τ t 0 1) *
      sgn ((ax - ox) * (cy - oy) - (ay - oy) * (bx - ox)) with hvy
  have hvv : 0 < vx * vx + vy * vy := by
    rcases eq_or_ne vx 0 with h | h
    · have h' : vy ≠ 0 := fun h' => hne ⟨h, h'⟩
      have := mul_self_pos.mpr h'; nlinarith [mul_self_nonneg vx]
    · have := mul_self_pos.mpr h; nlinarith [mul_self_nonneg vy]
  obtain ⟨hL, hL'⟩ := sqrt_pos_of_pos hsq _ hvv
  obtain ⟨ε₀, hε₀, hall⟩ := hstep _ hL
  refine ⟨vx / HasSqrt.sqrt (vx * vx + vy * vy), vy / HasSqrt.sqrt (vx * vx + vy * vy), ε₀, hε₀, ?_, ?_, hall⟩
  · simp only [finish2, triRaw, triNormalDir, unit2, hsol, if_true]
    rw [← hvx, ← hvy]
    have hz : (isZero vx && isZero vy) = false := by
      rw [Bool.and_eq_false_iff]
      by_cases h : vx = 0
      · right
        have h' : vy ≠ 0 := fun h' => hne ⟨h, h'⟩
        cases hh : isZero vy
        · rfl
        · exact absurd ((isZero_iff vy).mp hh) h'
      · left
        cases hh : isZero vx
        · rfl
        · exact absurd ((isZero_iff vx).mp hh) h
    simp [hz]
  · rw [div_mul_div_comm, div_mul_div_comm, ← add_div, hL', div_self hvv.ne']


end TPV.Geom
