/-
C11 (grid evenness in dimension 2, circle line = arclength).

Part A: the barycentric mesh of `Parallelogram._compute_barycentric_grid` (`baryGrid`) is even:
the number of mesh nodes in a barycentric rectangle factors into the two 1-D counts (A1), hence
equals the area share up to an error of the order of the mesh's side lengths (A2); the count is
unchanged by the affine map `parSample` to the parallelogram (A3).

Part B: the uniform angle of `CircleBoundary.sample_random_uniform` is arclength (chord formula,
constant speed `2π|r|`).
-/
import TPV.Props.C11Strat
import TPV.Props.C11Meas
import TPV.Props.C11Affine
import Mathlib.Analysis.SpecialFunctions.Trigonometric.Deriv

namespace TPV.Geom

/-! ### A. evenness of the barycentric mesh -/

section grid2

/-- helper: counting over `range (n1 * n2)` with a predicate that splits into a predicate of
    `idx % n1` and one of `idx / n1` gives the product of the two counts
    (`idx ↦ (idx % n1, idx / n1)` is a bijection `range (n1 n2) ≃ range n1 × range n2`) -/
theorem grid2_countP_divmod (p q : ℕ → Bool) (n1 n2 : ℕ) :
    (List.range (n1 * n2)).countP (fun idx => p (idx % n1) && q (idx / n1)) =
      (List.range n1).countP p * (List.range n2).countP q := by
  induction n2 with
  | zero => simp
  | succ n2 ih =>
    rw [Nat.mul_succ, List.range_add, List.countP_append, ih, List.countP_map, List.range_succ,
      List.countP_append, Nat.mul_add]
    congr 1
    have hc : (List.range n1).countP ((fun idx => p (idx % n1) && q (idx / n1)) ∘ fun x => n1 * n2 + x) =
        (List.range n1).countP (fun j => p j && q n2) := by
      apply List.countP_congr
      intro j hj
      have hj' : j < n1 := List.mem_range.mp hj
      have hpos : 0 < n1 := Nat.lt_of_le_of_lt (Nat.zero_le _) hj'
      simp only [Function.comp]
      rw [Nat.mul_add_mod, Nat.mod_eq_of_lt hj', Nat.mul_add_div hpos, Nat.div_eq_of_lt hj',
        Nat.add_zero]
    rw [hc]
    cases hq : q n2 <;> simp [hq]

/-- the 1-D count of C.10: number of inner `linspace` nodes `(j+1)/(n+1)`, `j < n`, in `[a, b)` -/
def grid2_cnt (n : ℕ) (a b : ℚ) : ℕ :=
  ((List.range n).filter fun j =>
    decide (a ≤ linInner (K := ℚ) n j ∧ linInner (K := ℚ) n j < b)).length

/-- the 2-D count: number of nodes of the `n1 × n2` barycentric mesh (as the code enumerates it,
    `idx < n1 * n2`, x index fastest) in the barycentric rectangle `[a1,b1) × [a2,b2)` -/
def grid2_cnt2 (n1 n2 : ℕ) (a1 b1 a2 b2 : ℚ) : ℕ :=
  ((List.range (n1 * n2)).filter fun idx =>
    decide ((a1 ≤ (baryGrid (K := ℚ) n1 n2 idx).1 ∧ (baryGrid (K := ℚ) n1 n2 idx).1 < b1) ∧
      (a2 ≤ (baryGrid (K := ℚ) n1 n2 idx).2 ∧ (baryGrid (K := ℚ) n1 n2 idx).2 < b2))).length

/-- A1. The number of nodes of the `n1 × n2` barycentric mesh of
    `Parallelogram._compute_barycentric_grid` that lie in a rectangle `[a1,b1) × [a2,b2)` of the
    barycentric square is the product of the number of x-nodes in `[a1,b1)` and the number of
    y-nodes in `[a2,b2)`: the mesh is a full tensor grid (no node missing, none twice). -/
theorem baryGrid_count_factor (n1 n2 : ℕ) (a1 b1 a2 b2 : ℚ) :
    ((List.range (n1 * n2)).filter fun idx =>
      decide ((a1 ≤ (baryGrid (K := ℚ) n1 n2 idx).1 ∧ (baryGrid (K := ℚ) n1 n2 idx).1 < b1) ∧
        (a2 ≤ (baryGrid (K := ℚ) n1 n2 idx).2 ∧ (baryGrid (K := ℚ) n1 n2 idx).2 < b2))).length =
      ((List.range n1).filter fun j =>
        decide (a1 ≤ linInner (K := ℚ) n1 j ∧ linInner (K := ℚ) n1 j < b1)).length *
      ((List.range n2).filter fun j =>
        decide (a2 ≤ linInner (K := ℚ) n2 j ∧ linInner (K := ℚ) n2 j < b2)).length := by
  simp only [← List.countP_eq_length_filter]
  rw [← grid2_countP_divmod]
  apply List.countP_congr
  intro idx _
  rw [Bool.and_eq_true, decide_eq_true_iff, decide_eq_true_iff, decide_eq_true_iff]
  exact Iff.rfl

/-- A1 in terms of the named counts -/
theorem grid2_cnt2_eq (n1 n2 : ℕ) (a1 b1 a2 b2 : ℚ) :
    grid2_cnt2 n1 n2 a1 b1 a2 b2 = grid2_cnt n1 a1 b1 * grid2_cnt n2 a2 b2 :=
  baryGrid_count_factor n1 n2 a1 b1 a2 b2

example : grid2_cnt2 3 2 0 (1/2) 0 1 = 2 := by
  rw [grid2_cnt2_eq]; decide +kernel

example :
    ((List.range (3 * 2)).filter fun idx =>
      decide (((0:ℚ) ≤ (baryGrid (K := ℚ) 3 2 idx).1 ∧ (baryGrid (K := ℚ) 3 2 idx).1 < 1/2) ∧
        ((0:ℚ) ≤ (baryGrid (K := ℚ) 3 2 idx).2 ∧ (baryGrid (K := ℚ) 3 2 idx).2 < 1))).length = 1 * 2 := by
  rw [baryGrid_count_factor]
  have h1 := interval_grid_count 3 0 (1/2) (by norm_num)
  have h2 := interval_grid_count 2 0 1 (by norm_num)
  rw [h1, h2]
  norm_num

/-- helper: product of two approximations (`|c_i − s_i| < 2`, all quantities non-negative) -/
theorem grid2_mul_approx (c1 c2 s1 s2 : ℚ) (hc1 : 0 ≤ c1) (_hc2 : 0 ≤ c2) (hs1 : 0 ≤ s1) (hs2 : 0 ≤ s2)
    (l1 : s1 - 2 < c1) (u1 : c1 < s1 + 2) (l2 : s2 - 2 < c2) (u2 : c2 < s2 + 2) :
    s1 * s2 - (2 * (s1 + s2) + 4) < c1 * c2 ∧ c1 * c2 < s1 * s2 + (2 * (s1 + s2) + 4) := by
  constructor
  · have e1 : 0 < (2 + (c1 - s1)) * (2 + (c2 - s2)) := mul_pos (by linarith) (by linarith)
    have e2 : 0 < (2 - (c1 - s1)) * (2 - (c2 - s2)) := mul_pos (by linarith) (by linarith)
    have e3 : 0 ≤ (2 + (c1 - s1)) * s2 := mul_nonneg (by linarith) hs2
    have e4 : 0 ≤ (2 + (c2 - s2)) * s1 := mul_nonneg (by linarith) hs1
    nlinarith
  · have e1 : 0 < (s1 + 2 - c1) * (s2 + 2) := mul_pos (by linarith) (by linarith)
    have e2 : 0 ≤ c1 * (s2 + 2 - c2) := mul_nonneg hc1 (by linarith)
    nlinarith

/-- A2. Evenness of the barycentric mesh (grid evenness in dimension 2): every rectangle
    `[a1,b1) × [a2,b2)` of the barycentric unit square (widths `w_i = b_i − a_i`) receives its area
    share `n1·n2·w1·w2` of the `n1·n2` mesh nodes, up to a discretisation error of less than
    `2 (n1 w1 + n2 w2) + 4` nodes — of the order of the side lengths of the mesh, not of its area. -/
theorem baryGrid_even (n1 n2 : ℕ) (a1 b1 a2 b2 : ℚ)
    (h10 : 0 ≤ a1) (h1ab : a1 ≤ b1) (h11 : b1 ≤ 1) (h20 : 0 ≤ a2) (h2ab : a2 ≤ b2) (h21 : b2 ≤ 1) :
    (n1 : ℚ) * n2 * (b1 - a1) * (b2 - a2) - (2 * (n1 * (b1 - a1) + n2 * (b2 - a2)) + 4) <
        (((List.range (n1 * n2)).filter fun idx =>
          decide ((a1 ≤ (baryGrid (K := ℚ) n1 n2 idx).1 ∧ (baryGrid (K := ℚ) n1 n2 idx).1 < b1) ∧
            (a2 ≤ (baryGrid (K := ℚ) n1 n2 idx).2 ∧ (baryGrid (K := ℚ) n1 n2 idx).2 < b2))).length : ℚ) ∧
      (((List.range (n1 * n2)).filter fun idx =>
          decide ((a1 ≤ (baryGrid (K := ℚ) n1 n2 idx).1 ∧ (baryGrid (K := ℚ) n1 n2 idx).1 < b1) ∧
            (a2 ≤ (baryGrid (K := ℚ) n1 n2 idx).2 ∧ (baryGrid (K := ℚ) n1 n2 idx).2 < b2))).length : ℚ) <
        (n1 : ℚ) * n2 * (b1 - a1) * (b2 - a2) + (2 * (n1 * (b1 - a1) + n2 * (b2 - a2)) + 4) := by
  rw [baryGrid_count_factor]
  push_cast
  obtain ⟨l1, u1⟩ := interval_grid_even n1 a1 b1 h10 h1ab h11
  obtain ⟨l2, u2⟩ := interval_grid_even n2 a2 b2 h20 h2ab h21
  have hs1 : (0 : ℚ) ≤ n1 * (b1 - a1) := mul_nonneg (Nat.cast_nonneg _) (by linarith)
  have hs2 : (0 : ℚ) ≤ n2 * (b2 - a2) := mul_nonneg (Nat.cast_nonneg _) (by linarith)
  have := grid2_mul_approx _ _ _ _ (Nat.cast_nonneg _) (Nat.cast_nonneg _) hs1 hs2 l1 u1 l2 u2
  have e : (n1 : ℚ) * n2 * (b1 - a1) * (b2 - a2) = n1 * (b1 - a1) * (n2 * (b2 - a2)) := by ring
  rw [e]
  exact this

example :
    ((10 : ℕ) : ℚ) * (20 : ℕ) * (1/2 - 0) * (3/4 - 1/4) - (2 * ((10 : ℕ) * (1/2 - 0) + (20 : ℕ) * (3/4 - 1/4)) + 4) <
      (((List.range (10 * 20)).filter fun idx =>
        decide (((0:ℚ) ≤ (baryGrid (K := ℚ) 10 20 idx).1 ∧ (baryGrid (K := ℚ) 10 20 idx).1 < 1/2) ∧
          ((1/4:ℚ) ≤ (baryGrid (K := ℚ) 10 20 idx).2 ∧ (baryGrid (K := ℚ) 10 20 idx).2 < 3/4))).length : ℚ) :=
  (baryGrid_even 10 20 0 (1/2) (1/4) (3/4) (by norm_num) (by norm_num) (by norm_num) (by norm_num)
    (by norm_num) (by norm_num)).1

/-- A3 (pointwise). For a non-degenerate parallelogram, the grid point of
    `Parallelogram.sample_grid` belonging to the barycentric pair `(s, t)` lies in the affine image
    of a barycentric rectangle iff `(s, t)` lies in that rectangle (the affine map is injective). -/
theorem grid2_parSample_mem_iff (ox oy ax ay bx cy : ℚ)
    (hdet : (ax - ox) * (cy - oy) - (ay - oy) * (bx - ox) ≠ 0) (a1 b1 a2 b2 s t : ℚ) :
    (∃ u v : ℚ, ((a1 ≤ u ∧ u < b1) ∧ (a2 ≤ v ∧ v < b2)) ∧
        parSample ox oy ax ay bx cy s t = parSample ox oy ax ay bx cy u v) ↔
      ((a1 ≤ s ∧ s < b1) ∧ (a2 ≤ t ∧ t < b2)) := by
  constructor
  · rintro ⟨u, v, huv, h⟩
    obtain ⟨rfl, rfl⟩ := parSample_injective ox oy ax ay bx cy s t u v hdet h
    exact huv
  · intro h
    exact ⟨s, t, h, rfl⟩

open Classical in
/-- A3. Transfer of A1/A2 to the parallelogram: for a non-degenerate parallelogram the number of
    grid POINTS `parSample … b.1 b.2` (`b` the mesh node `baryGrid n1 n2 idx`) of
    `Parallelogram.sample_grid` that lie in the affine image of the barycentric rectangle
    `[a1,b1) × [a2,b2)` is the number of mesh nodes in the rectangle — so `baryGrid_count_factor` and
    `baryGrid_even` hold verbatim for sub-parallelograms of the domain (area share
    `n1 n2 · area(cell)/area(domain)`). -/
theorem parGrid_count_eq (ox oy ax ay bx cy : ℚ)
    (hdet : (ax - ox) * (cy - oy) - (ay - oy) * (bx - ox) ≠ 0) (n1 n2 : ℕ) (a1 b1 a2 b2 : ℚ) :
    ((List.range (n1 * n2)).filter fun idx =>
      decide (∃ u v : ℚ, ((a1 ≤ u ∧ u < b1) ∧ (a2 ≤ v ∧ v < b2)) ∧
        parSample ox oy ax ay bx cy (baryGrid (K := ℚ) n1 n2 idx).1 (baryGrid (K := ℚ) n1 n2 idx).2 =
          parSample ox oy ax ay bx cy u v)).length =
    ((List.range (n1 * n2)).filter fun idx =>
      decide ((a1 ≤ (baryGrid (K := ℚ) n1 n2 idx).1 ∧ (baryGrid (K := ℚ) n1 n2 idx).1 < b1) ∧
        (a2 ≤ (baryGrid (K := ℚ) n1 n2 idx).2 ∧ (baryGrid (K := ℚ) n1 n2 idx).2 < b2))).length := by
  congr 1
  apply List.filter_congr
  intro idx _
  rw [decide_eq_decide]
  exact grid2_parSample_mem_iff ox oy ax ay bx cy hdet a1 b1 a2 b2 _ _

example : (∃ u v : ℚ, (((0:ℚ) ≤ u ∧ u < 1/2) ∧ ((0:ℚ) ≤ v ∧ v < 1)) ∧
      parSample (0:ℚ) 0 2 0 1 3 (1/4) (1/3) = parSample (0:ℚ) 0 2 0 1 3 u v) :=
  (grid2_parSample_mem_iff 0 0 2 0 1 3 (by norm_num) 0 (1/2) 0 1 (1/4) (1/3)).2 (by norm_num)

/-- A3 + A2. Evenness of `Parallelogram.sample_grid` on a non-degenerate parallelogram: the affine
    image of every barycentric rectangle receives its area share of the grid points up to an error of
    the order of the mesh's side lengths. -/
theorem parGrid_even (ox oy ax ay bx cy : ℚ)
    (hdet : (ax - ox) * (cy - oy) - (ay - oy) * (bx - ox) ≠ 0) (n1 n2 : ℕ) (a1 b1 a2 b2 : ℚ)
    (h10 : 0 ≤ a1) (h1ab : a1 ≤ b1) (h11 : b1 ≤ 1) (h20 : 0 ≤ a2) (h2ab : a2 ≤ b2) (h21 : b2 ≤ 1) :
    (n1 : ℚ) * n2 * (b1 - a1) * (b2 - a2) - (2 * (n1 * (b1 - a1) + n2 * (b2 - a2)) + 4) <
        (((List.range (n1 * n2)).filter fun idx =>
          @decide (∃ u v : ℚ, ((a1 ≤ u ∧ u < b1) ∧ (a2 ≤ v ∧ v < b2)) ∧
            parSample ox oy ax ay bx cy (baryGrid (K := ℚ) n1 n2 idx).1 (baryGrid (K := ℚ) n1 n2 idx).2 =
              parSample ox oy ax ay bx cy u v) (Classical.propDecidable _)).length : ℚ) ∧
      (((List.range (n1 * n2)).filter fun idx =>
          @decide (∃ u v : ℚ, ((a1 ≤ u ∧ u < b1) ∧ (a2 ≤ v ∧ v < b2)) ∧
            parSample ox oy ax ay bx cy (baryGrid (K := ℚ) n1 n2 idx).1 (baryGrid (K := ℚ) n1 n2 idx).2 =
              parSample ox oy ax ay bx cy u v) (Classical.propDecidable _)).length : ℚ) <
        (n1 : ℚ) * n2 * (b1 - a1) * (b2 - a2) + (2 * (n1 * (b1 - a1) + n2 * (b2 - a2)) + 4) := by
  have h := parGrid_count_eq ox oy ax ay bx cy hdet n1 n2 a1 b1 a2 b2
  rw [h]
  exact baryGrid_even n1 n2 a1 b1 a2 b2 h10 h1ab h11 h20 h2ab h21

end grid2

/-! ### B. circle line: the uniform angle is arclength -/

section arc
open Real

/-- helper: the circle-line sampler in closed form over ℝ -/
theorem arc_circleBdrySample_eq (cx cy r u : ℝ) :
    circleBdrySample cx cy r u = (r * Real.cos (2 * π * u) + cx, r * Real.sin (2 * π * u) + cy) := by
  simp only [circleBdrySample, two_eq_real]
  rfl

/-- B1. Chord formula for `CircleBoundary.sample_random_uniform`: the squared distance of the
    samples at parameters `u` and `v` is `(2 r sin(π (v − u)))²`, i.e. the chord of the central angle
    `Δθ = 2π(v − u)` — it depends on the parameter difference only (the parametrisation is a
    rotation-equivariant, constant-speed traversal of the circle). -/
theorem circleBdrySample_unit_speed (cx cy r u v : ℝ) :
    ((circleBdrySample cx cy r v).1 - (circleBdrySample cx cy r u).1) ^ 2 +
        ((circleBdrySample cx cy r v).2 - (circleBdrySample cx cy r u).2) ^ 2 =
      (2 * r * Real.sin (π * (v - u))) ^ 2 := by
  rw [arc_circleBdrySample_eq, arc_circleBdrySample_eq]
  simp only
  have hA : 2 * π * v = 2 * (π * (v - u)) + 2 * π * u := by ring
  rw [hA]
  generalize π * (v - u) = d
  generalize 2 * π * u = a
  rw [Real.cos_add, Real.sin_add, Real.cos_two_mul, Real.sin_two_mul]
  have h1 := Real.cos_sq_add_sin_sq d
  have h2 := Real.cos_sq_add_sin_sq a
  generalize Real.cos d = C at *
  generalize Real.sin d = S at *
  generalize Real.cos a = P at *
  generalize Real.sin a = Q at *
  linear_combination
    r ^ 2 * ((2 * C ^ 2 - 1) ^ 2 + (2 * S * C) ^ 2 - 2 * (2 * C ^ 2 - 1) + 1) * h2 +
      r ^ 2 * (4 * C ^ 2 - 4) * h1

example : ((circleBdrySample (1:ℝ) 2 3 (1/2)).1 - (circleBdrySample (1:ℝ) 2 3 0).1) ^ 2 +
      ((circleBdrySample (1:ℝ) 2 3 (1/2)).2 - (circleBdrySample (1:ℝ) 2 3 0).2) ^ 2 = (2 * 3) ^ 2 := by
  rw [circleBdrySample_unit_speed, show π * ((1:ℝ) / 2 - 0) = π / 2 by ring, Real.sin_pi_div_two]; norm_num

/-- B2. The circle-line sampler traverses the circle at constant speed: the coordinates of
    `γ u = circleBdrySample cx cy r u` have derivatives `x' = −2πr sin(2πu)`, `y' = 2πr cos(2πu)`, so
    `x'² + y'² = (2πr)²`.  Hence a parameter interval `[u, v] ⊆ [0, 1]` (Lebesgue measure `v − u`, the
    probability of the arc by `circle_arc_law`) is mapped to an arc of length `2π|r|·(v − u)`:
    probability = arclength / circumference. -/
theorem circleBdry_arclength (cx cy r u : ℝ) :
    HasDerivAt (fun u => (circleBdrySample cx cy r u).1) (-(2 * π * r) * Real.sin (2 * π * u)) u ∧
      HasDerivAt (fun u => (circleBdrySample cx cy r u).2) ((2 * π * r) * Real.cos (2 * π * u)) u ∧
      (-(2 * π * r) * Real.sin (2 * π * u)) ^ 2 + ((2 * π * r) * Real.cos (2 * π * u)) ^ 2 =
        (2 * π * r) ^ 2 := by
  have hlin : HasDerivAt (fun u : ℝ => 2 * π * u) (2 * π) u := by
    simpa using (hasDerivAt_id u).const_mul (2 * π)
  refine ⟨?_, ?_, ?_⟩
  · have h := ((hlin.cos).const_mul r).add_const cx
    simp only [arc_circleBdrySample_eq]
    exact h.congr_deriv (by ring)
  · have h := ((hlin.sin).const_mul r).add_const cy
    simp only [arc_circleBdrySample_eq]
    exact h.congr_deriv (by ring)
  · have := Real.cos_sq_add_sin_sq (2 * π * u)
    linear_combination (2 * π * r) ^ 2 * this

/-- B2, arclength form: the speed of the sampled curve is `2π|r|`, so the arc over `[u, v]` has
    length `∫ speed = 2π|r|·(v − u)`, the fraction `v − u` of the circumference `2π|r|`. -/
theorem arc_speed (r u : ℝ) :
    Real.sqrt ((-(2 * π * r) * Real.sin (2 * π * u)) ^ 2 + ((2 * π * r) * Real.cos (2 * π * u)) ^ 2) =
      2 * π * |r| := by
  have := Real.cos_sq_add_sin_sq (2 * π * u)
  have e : (-(2 * π * r) * Real.sin (2 * π * u)) ^ 2 + ((2 * π * r) * Real.cos (2 * π * u)) ^ 2 =
      (2 * π * r) ^ 2 := by linear_combination (2 * π * r) ^ 2 * this
  rw [e, Real.sqrt_sq_eq_abs, abs_mul, abs_of_pos (by positivity : (0:ℝ) < 2 * π)]

example : HasDerivAt (fun u => (circleBdrySample (1:ℝ) 2 3 u).1) (-(2 * π * 3) * Real.sin (2 * π * 0)) 0 :=
  (circleBdry_arclength 1 2 3 0).1

/-- helper: a node of `CircleBoundary.sample_grid` is the random-sampler parametrisation evaluated
    at the equispaced parameter `j / n` -/
theorem arc_circleBdryGrid_eq_sample (cx cy r : ℝ) (n j : ℕ) :
    circleBdryGrid cx cy r n j = circleBdrySample cx cy r (linOpen n j) := rfl

/-- B1 for the grid: consecutive nodes of `CircleBoundary.sample_grid(n)` all have the same chord
    `2 r sin(π / n)` — the grid is equispaced in arclength. -/
theorem arc_circleBdryGrid_chord (cx cy r : ℝ) (n j : ℕ) (hn : 0 < n) :
    ((circleBdryGrid cx cy r n (j + 1)).1 - (circleBdryGrid cx cy r n j).1) ^ 2 +
        ((circleBdryGrid cx cy r n (j + 1)).2 - (circleBdryGrid cx cy r n j).2) ^ 2 =
      (2 * r * Real.sin (π / n)) ^ 2 := by
  rw [arc_circleBdryGrid_eq_sample, arc_circleBdryGrid_eq_sample, circleBdrySample_unit_speed]
  have hn' : (n : ℝ) ≠ 0 := Nat.cast_ne_zero.mpr hn.ne'
  have e : (linOpen n (j + 1) : ℝ) - linOpen n j = 1 / n := by
    simp only [linOpen, natK_eq_cast]
    push_cast
    field_simp
    ring
  rw [e]
  congr 3
  ring

end arc

end TPV.Geom

