/-
  C08 (third part) — nested Sequentials flatten (idempotence of `_fix_points_order`), and `Points.joined` as coded
  (skipping empty Points) agrees with the model's `joined` whenever no argument is empty.
-/
import TPV.Props.C08
namespace TPV.Net
variable {K : Type}

theorem mapOpt_mem {α β : Type} (f : α → Option β) : ∀ (l : List α) (l' : List β), mapOpt f l = some l' →
    ∀ b ∈ l', ∃ a ∈ l, f a = some b
  | [], l', h, b, hb => by simp [mapOpt] at h; subst h; simp at hb
  | a :: as, l', h, b, hb => by
    simp only [mapOpt] at h
    cases ha : f a with
    | none => simp [ha] at h
    | some b0 =>
      cases hm : mapOpt f as with
      | none => simp [ha, hm] at h
      | some bs =>
        simp [ha, hm] at h
        subst h
        rcases List.mem_cons.mp hb with rfl | hb
        · exact ⟨a, by simp, ha⟩
        · obtain ⟨a', ha', hf⟩ := mapOpt_mem f as bs hm b hb
          exact ⟨a', by simp [ha'], hf⟩

theorem selSpace_keys (S : Space) : ∀ (ks : List String) (sp : Space), selSpace S ks = some sp → keys sp = ks
  | [], sp, h => by simp [selSpace, mapOpt] at h; subst h; rfl
  | k :: ks, sp, h => by
    simp only [selSpace, mapOpt] at h
    cases hd : dimOf S k with
    | none => simp [hd] at h
    | some d =>
      cases hm : mapOpt (fun k => Option.map (fun d => (k, d)) (dimOf S k)) ks with
      | none => simp [hd, hm] at h
      | some rest =>
        simp [hd, hm] at h
        subst h
        have := selSpace_keys S ks rest (by simpa [selSpace] using hm)
        simp [keys] at this ⊢
        exact this

theorem colIdx_length (S : Space) : ∀ (ks : List String) (idx : List Nat) (sp : Space),
    colIdx S ks = some idx → selSpace S ks = some sp → idx.length = sdim sp
  | [], idx, sp, h1, h2 => by
    simp [colIdx] at h1; simp [selSpace, mapOpt] at h2; subst h1 h2; rfl
  | k :: ks, idx, sp, h1, h2 => by
    simp only [colIdx] at h1
    simp only [selSpace, mapOpt] at h2
    cases hs : start S k with
    | none => simp [hs] at h1
    | some s =>
      cases hd : dimOf S k with
      | none => simp [hs, hd] at h1
      | some d =>
        cases hc : colIdx S ks with
        | none => simp [hs, hd, hc] at h1
        | some r =>
          cases hm : mapOpt (fun k => Option.map (fun d => (k, d)) (dimOf S k)) ks with
          | none => simp [hd, hm] at h2
          | some rest =>
            simp [hs, hd, hc] at h1
            simp [hd, hm] at h2
            subst h1 h2
            have := colIdx_length S ks r rest hc (by simpa [selSpace] using hm)
            simp [sdim, this]

theorem sameKeys_of_keys_eq (A B : Space) (h : keys A = keys B) : sameKeys A B = true := by
  simp [sameKeys, h, List.all_eq_true]

/-- `_fix_points_order` is idempotent: what it returns is left alone by a second call -/
theorem fixOrder_idem (S : Space) (hn : (keys S).Nodup) (p q : Pts K) (h : fixOrder S p = some q) :
    fixOrder S q = some q := by
  unfold fixOrder at h
  by_cases h1 : p.space = S
  · simp [h1] at h; subst h; simp [fixOrder, h1]
  · by_cases h2 : sameKeys p.space S = true
    · simp only [h1, h2, if_false, if_true] at h
      unfold select at h
      cases hs : selSpace p.space (keys S) with
      | none => simp [hs] at h
      | some sp =>
        cases hi : colIdx p.space (keys S) with
        | none => simp [hs, hi] at h
        | some idx =>
          cases hm : mapOpt (gatherCols idx) p.rows with
          | none => simp [hs, hi, hm] at h
          | some rows =>
            simp [hs, hi, hm] at h
            subst h
            have hk : keys sp = keys S := selSpace_keys p.space (keys S) sp hs
            have hwf : ∀ r ∈ rows, r.length = sdim sp := by
              intro r hr
              obtain ⟨r0, _, hg⟩ := mapOpt_mem (gatherCols idx) p.rows rows hm r hr
              have := mapOpt_length _ _ _ hg
              rw [this, colIdx_length p.space (keys S) idx sp hi hs]
            rw [fixOrder_eq_select S ⟨sp, p.shape, rows⟩ (by simpa [hk] using hn) hwf]
            simp only [sameKeys_of_keys_eq sp S hk, if_true]
            rw [← hk]
            exact select_self ⟨sp, p.shape, rows⟩ (by simpa [hk] using hn) hwf
    · simp [h1, h2] at h

/-- **Nested Sequentials flatten**: `Sequential(Sequential(a, *as), *bs)` is `Sequential(a, *as, *bs)` -/
theorem seq_flatten (a : Model K) (as bs : List (Model K)) (hn : (keys a.inS).Nodup) (p : Pts K) :
    (Model.seq (Model.seq a as) bs).apply p = (Model.seq a (as ++ bs)).apply p := by
  simp only [Model.apply, Model.inS]
  cases h : fixOrder a.inS p with
  | none => rfl
  | some q =>
    simp only [Option.bind_some, fixOrder_idem a.inS hn p q h]
    cases a.apply q with
    | none => rfl
    | some r => simp [applyChain_append]

example : (Model.seq (Model.seq witNew [NormalizationLayer [("u", 1)] [(0, 2)]]) [witNew]).valid = true := by decide


/-! ## `Points.joined` with the skipping of empty Points -/

theorem joinCodeLoop_eq (sh : List Nat) : ∀ (ps : List (Pts K)) (acc : Pts K), (∀ p ∈ ps, p.isEmptyPts = false) →
    joinCodeLoop sh (some acc) ps = joinLoop sh acc ps
  | [], acc, _ => rfl
  | p :: ps, acc, h => by
    have hp : p.isEmptyPts = false := h p (by simp)
    simp only [joinCodeLoop, joinLoop, hp]
    by_cases hc : (disjointKeys acc.space p.space && p.shape == sh) = true
    · simp only [hc, if_true]
      cases hcat acc.rows p.rows with
      | none => rfl
      | some rows =>
        simp only [Option.bind_some]
        exact joinCodeLoop_eq sh ps _ (fun q hq => h q (by simp [hq]))
    · simp [hc]

/-- **`Points.joined` as coded (skipping empty Points) is the `joined` of the model whenever no argument is
    empty** — in particular on every non-empty batch and for parts with a non-zero-dimensional output space. -/
theorem joinedCode_eq_joined (ps : List (Pts K)) (h : ∀ p ∈ ps, p.isEmptyPts = false) : joinedCode ps = joined ps := by
  cases ps with
  | nil => rfl
  | cons p ps =>
    have hp : p.isEmptyPts = false := h p (by simp)
    simp only [joinedCode, joined, joinCodeLoop, joinLoop, hp, beq_self_eq_true, if_true]
    have hd : disjointKeys ([] : Space) p.space = true := by simp [disjointKeys, keys]
    simp only [hd, Bool.true_and, if_true, hcat_nil_left, Option.bind_some]
    exact joinCodeLoop_eq p.shape ps _ (fun q hq => h q (by simp [hq]))

theorem not_isEmptyPts_of_dim (p : Pts K) (h : 0 < sdim p.space) : p.isEmptyPts = false := by
  simp only [Pts.isEmptyPts, Bool.and_eq_false_iff]
  right
  simp; omega

example : joinedCode [(⟨[("u", 1)], [2], [[1], [2]]⟩ : Pts Rat), ⟨[], [0], []⟩, ⟨[("v", 1)], [2], [[3], [4]]⟩]
    = some ⟨[("u", 1), ("v", 1)], [2], [[1, 3], [2, 4]]⟩ := by decide +kernel
example : joined [(⟨[("u", 1)], [2], [[1], [2]]⟩ : Pts Rat), ⟨[("v", 1)], [2], [[3], [4]]⟩]
    = some ⟨[("u", 1), ("v", 1)], [2], [[1, 3], [2, 4]]⟩ := by decide +kernel

end TPV.Net
