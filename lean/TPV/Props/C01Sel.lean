/-
  C01, part 3 — soundness of the remaining selection functions (grid paths, union, density filters, product
  loop, LHS / filtered grid samplers), the set denoted by the boundary test of composite expressions
  (`bdryMem`, `bdryContains_iff_bdryMem`), and the boundary-sampling relation `BSamples` with
  `bsamples_bdryMem`.
-/
import TPV.Props.C01Bdry


namespace TPV.Geom
set_option linter.unusedSectionVars false

section sel
variable {α : Type}

theorem filter_all_of_length (l : List α) (ok : α → Bool) (h : (l.filter ok).length = l.length) :
    ∀ a ∈ l, ok a = true := by
  induction l with
  | nil => intro a ha; simp at ha
  | cons x xs ih =>
    intro a ha
    by_cases hx : ok x = true
    · simp only [List.filter_cons, hx, if_true, List.length_cons, Nat.add_right_cancel_iff] at h
      rcases List.mem_cons.1 ha with rfl | ha'
      · exact hx
      · exact ih h a ha'
    · have hle := List.length_filter_le ok xs
      simp only [List.filter_cons, hx, List.length_cons] at h
      simp at h
      omega

/-- D.3 `_inside_grid_with_n`: every returned row is a grid point of `A` accepted by the partner test, or comes
    from the random top-up (D.1) — provided `A.sample_grid(n)` returns `n` rows -/
theorem gridInside_sound (n : Nat) (gridA : Nat → List α) (ok : α → Bool) (topup : Nat → Option (List α)) (P : α → Prop)
    (hlen : (gridA n).length = n)
    (hP : ∀ m p, p ∈ gridA m → ok p = true → P p) (ht : ∀ m r, topup m = some r → ∀ p ∈ r, P p)
    (m : Nat) (out : List α) (h : gridInside n gridA ok topup = some (m, out)) : ∀ p ∈ out, P p := by
  unfold gridInside at h
  simp only at h
  split at h
  · rename_i hv
    simp only [Option.some.injEq, Prod.mk.injEq] at h
    obtain ⟨_, rfl⟩ := h
    intro p hp
    exact hP n p hp (filter_all_of_length _ ok (by rw [hv, hlen]) p hp)
  · split at h
    · cases ht' : topup n with
      | none => simp [ht'] at h
      | some r =>
        simp only [ht', Option.map_some, Option.some.injEq, Prod.mk.injEq] at h
        obtain ⟨_, rfl⟩ := h
        exact ht n r ht'
    · split at h
      · simp only [Option.some.injEq, Prod.mk.injEq] at h
        obtain ⟨_, rfl⟩ := h
        intro p hp
        have := List.mem_of_mem_take hp
        rw [List.mem_filter] at this
        exact hP _ p this.1 this.2
      · cases ht' : topup (n - ((gridA (n * n / ((gridA n).filter ok).length)).filter ok).length) with
        | none => simp [ht'] at h
        | some r =>
          simp only [ht', Option.map_some, Option.some.injEq, Prod.mk.injEq] at h
          obtain ⟨_, rfl⟩ := h
          intro p hp
          rw [List.mem_append] at hp
          rcases hp with hp | hp
          · rw [List.mem_filter] at hp; exact hP _ p hp.1 hp.2
          · exact ht _ r ht' p hp

/-- D.5 `_boundary_grid_with_n`: every returned row is a grid point of `∂A` or `∂B` accepted by the boundary
    test of the operation, or comes from the random top-up (D.4) -/
theorem gridBdry_sound (n : Nat) (gridA gridB : Nat → List α) (ok : α → Bool) (scale : Nat → Nat → Option (Nat × Nat))
    (topup : Nat → Option (List α)) (P : α → Prop)
    (hA : ∀ m p, p ∈ gridA m → ok p = true → P p) (hB : ∀ m p, p ∈ gridB m → ok p = true → P p)
    (ht : ∀ m r, topup m = some r → ∀ p ∈ r, P p)
    (out : List α) (h : gridBdry n gridA gridB ok scale topup = some out) : ∀ p ∈ out, P p := by
  have fa : ∀ m, ∀ p ∈ (gridA m).filter ok, P p := fun m p hp => by
    rw [List.mem_filter] at hp; exact hA m p hp.1 hp.2
  have fb : ∀ m, ∀ p ∈ (gridB m).filter ok, P p := fun m p hp => by
    rw [List.mem_filter] at hp; exact hB m p hp.1 hp.2
  unfold gridBdry at h
  simp only at h
  split at h
  · simp only [Option.some.injEq] at h; subst h
    intro p hp; rw [List.mem_append] at hp
    rcases hp with hp | hp
    · exact fa n p hp
    · exact fb n p hp
  · split at h
    · exact ht n out h
    · split at h
      · simp at h
      · rename_i sa sb hsc
        have fg : ∀ p ∈ (gridA sa).filter ok ++ (gridB sb).filter ok, P p := by
          intro p hp; rw [List.mem_append] at hp
          rcases hp with hp | hp
          · exact fa sa p hp
          · exact fb sb p hp
        split at h
        · simp only [Option.some.injEq] at h; subst h
          intro p hp; exact fg p (List.mem_of_mem_take hp)
        · rw [Option.map_eq_some_iff] at h
          obtain ⟨r, hr, rfl⟩ := h
          intro p hp; rw [List.mem_append] at hp
          rcases hp with hp | hp
          · exact fg p hp
          · exact ht _ r hr p hp

/-- D.6 union with `n`: each output row is the `A`-proposal or the `B`-proposal of that row -/
theorem unionPick_cases {K : Type} [LE K] [DecidableLE K] (inA : Bool) (u ratio : K) (pa pb : α) :
    unionPick inA u ratio pa pb = pa ∨ unionPick inA u ratio pa pb = pb := by
  unfold unionPick; split
  · exact Or.inl rfl
  · exact Or.inr rfl

theorem unionAppend_sound (pa pb : List α) (inA : α → Bool) :
    ∀ p ∈ unionAppend pa pb inA, p ∈ pa ∨ (p ∈ pb ∧ inA p = false) := by
  intro p hp
  unfold unionAppend at hp
  rw [List.mem_append] at hp
  rcases hp with hp | hp
  · exact Or.inl hp
  · rw [List.mem_filter] at hp
    exact Or.inr ⟨hp.1, by simpa using hp.2⟩

theorem unionGrid_sound (n m : Nat) (gridA gridB : Nat → List α) (inB : α → Bool) :
    ∀ p ∈ unionGrid n m gridA gridB inB, (∃ k, p ∈ gridA k) ∨ (∃ k, p ∈ gridB k) := by
  intro p hp
  unfold unionGrid at hp
  simp only at hp
  split at hp
  · rw [List.mem_append] at hp
    rcases hp with hp | hp
    · rw [List.mem_filter] at hp; exact Or.inl ⟨m, hp.1⟩
    · exact Or.inr ⟨_, hp⟩
  · exact Or.inl ⟨m, hp⟩

/-- cut / intersection with a density: only proposals that pass the partner test are returned -/
theorem cutPoints_sound (pa : List α) (okB : α → Bool) : ∀ p ∈ cutPoints pa okB, p ∈ pa ∧ okB p = true := by
  intro p hp; unfold cutPoints at hp; rwa [List.mem_filter] at hp

theorem lhsRow_sound (n : Nat) (props : List α) (ok : α → Bool) (topup : Nat → List α) :
    ∀ p ∈ lhsRow n props ok topup, (p ∈ props ∧ ok p = true) ∨ ∃ m, p ∈ topup m := by
  intro p hp
  unfold lhsRow at hp
  simp only at hp
  split at hp
  · rw [List.mem_filter] at hp; exact Or.inl hp
  · rw [List.mem_append] at hp
    rcases hp with hp | hp
    · rw [List.mem_filter] at hp; exact Or.inl hp
    · exact Or.inr ⟨_, hp⟩

theorem gridFilterRow_sound (n : Nat) (grid : Nat → List α) (ok : α → Bool) (rnd : List α) :
    ∀ p ∈ gridFilterRow n grid ok rnd, (∃ m, p ∈ grid m ∧ ok p = true) ∨ p ∈ rnd := by
  intro p hp
  unfold gridFilterRow at hp
  simp only at hp
  split at hp
  · rw [List.mem_filter] at hp; exact Or.inl ⟨_, hp⟩
  · have hp := List.mem_of_mem_take hp
    generalize (if ((grid n).filter ok).length = 0 then 10 * n else n * n / ((grid n).filter ok).length) = m at hp
    split at hp
    · rw [List.mem_filter] at hp; exact Or.inl ⟨_, hp⟩
    · rw [List.mem_append] at hp
      rcases hp with hp | hp
      · rw [List.mem_filter] at hp; exact Or.inl ⟨_, hp⟩
      · exact Or.inr hp

/-- D.7 acceptance step: only candidates are kept -/
theorem prodAccept_sub {K : Type} [Mul K] [LE K] [DecidableLE K] (cands : List (α × K × K)) :
    ∀ p ∈ prodAccept cands, ∃ c ∈ cands, c.1 = p := by
  intro p hp
  unfold prodAccept at hp
  split at hp
  · rename_i c
    simp only [List.mem_cons, List.not_mem_nil, or_false] at hp
    exact ⟨c, by simp, hp.symm⟩
  · split at hp
    · simp at hp
    · rw [List.mem_map] at hp
      obtain ⟨c, hc, rfl⟩ := hp
      rw [List.mem_filter] at hc
      exact ⟨c, hc.1, rfl⟩

/-- D.7 count loop of the dependent product: every returned b-point comes from one of the accepted batches,
    and exactly `n` are returned -/
theorem prodLoop_sound (n : Nat) (batch : Nat → Nat → List α) (Q : α → Prop) (hQ : ∀ rd m, ∀ p ∈ batch rd m, Q p) :
    ∀ (fuel rd : Nat) (acc out : List α), (∀ p ∈ acc, Q p) → prodLoop n batch fuel rd acc = some out →
      out.length = n ∧ ∀ p ∈ out, Q p := by
  intro fuel
  induction fuel with
  | zero =>
    intro rd acc out hinv h
    unfold prodLoop at h
    split at h
    · rename_i he; simp only [Option.some.injEq] at h; subst h; exact ⟨he, hinv⟩
    · split at h
      · rename_i hlt; simp only [Option.some.injEq] at h; subst h
        exact ⟨by simp [List.length_take]; omega, fun p hp => hinv p (List.mem_of_mem_take hp)⟩
      · simp at h
  | succ f ih =>
    intro rd acc out hinv h
    unfold prodLoop at h
    split at h
    · rename_i he; simp only [Option.some.injEq] at h; subst h; exact ⟨he, hinv⟩
    · split at h
      · rename_i hlt; simp only [Option.some.injEq] at h; subst h
        exact ⟨by simp [List.length_take]; omega, fun p hp => hinv p (List.mem_of_mem_take hp)⟩
      · simp only at h
        split at h
        · simp at h
        · refine ih _ _ _ ?_ h
          intro p hp; rw [List.mem_append] at hp
          rcases hp with hp | hp
          · exact hinv p hp
          · exact hQ _ _ p hp

theorem prodSample_sound (n : Nat) (batch : Nat → Nat → List α) (Q : α → Prop) (hQ : ∀ rd m, ∀ p ∈ batch rd m, Q p)
    (fuel : Nat) (out : List α) (h : prodSample n batch fuel = some out) : out.length = n ∧ ∀ p ∈ out, Q p :=
  prodLoop_sound n batch Q hQ fuel 0 (batch 0 n) out (hQ 0 n) h

end sel
end TPV.Geom


namespace TPV.Geom
set_option linter.unusedSectionVars false
variable {K : Type} [Field K] [LinearOrder K] [IsStrictOrderedRing K]

/-! ## boundaries of composite expressions: what "on the boundary" means, and that the samplers respect it -/

/-- **the set the boundary test of an expression denotes** (tolerance `τ`).  For a primitive: the points the
    primitive's boundary test accepts — C05 proves that this set contains the exact boundary (`onBdry`,
    `onBdry_accepted`) and lies within the `isclose` band around it (`bdry_*_rejects`).  For Boolean nodes the
    set algebra of the code: union — on `∂a` outside `b`, on `∂b` outside `a`, or on both; cut — on `∂a`
    outside `b`, or on `∂b` inside `a` and not on `∂a`; intersection — on `∂a` inside `b` or on `∂b` inside `a`;
    product — `∂a × b ∪ a × ∂b`; moved domains — the moved boundary (tested at the inverse image). -/
def bdryMem (τ : Tol K) : Dom K → Env K → Env K → Prop
  | .interval v lb ub, pts, ρ => bdryContains τ (.interval v lb ub) pts ρ = some true
  | .par v o c1 c2, pts, ρ => bdryContains τ (.par v o c1 c2) pts ρ = some true
  | .tri v o c1 c2, pts, ρ => bdryContains τ (.tri v o c1 c2) pts ρ = some true
  | .circle v c r, pts, ρ => bdryContains τ (.circle v c r) pts ρ = some true
  | .sphere v c r, pts, ρ => bdryContains τ (.sphere v c r) pts ρ = some true
  | .union a b, pts, ρ =>
    (bdryMem τ a pts ρ ∧ ¬ mem b pts ρ) ∨ (bdryMem τ b pts ρ ∧ ¬ mem a pts ρ) ∨ (bdryMem τ b pts ρ ∧ bdryMem τ a pts ρ)
  | .cut a b, pts, ρ =>
    (bdryMem τ a pts ρ ∧ ¬ mem b pts ρ) ∨ ((bdryMem τ b pts ρ ∧ mem a pts ρ) ∧ ¬ bdryMem τ a pts ρ)
  | .inter a b, pts, ρ => (bdryMem τ a pts ρ ∧ mem b pts ρ) ∨ (bdryMem τ b pts ρ ∧ mem a pts ρ)
  | .prod a b, pts, ρ => (bdryMem τ a pts ρ ∧ mem b pts ρ) ∨ (mem a pts ρ ∧ bdryMem τ b pts ρ)
  | .translate v d t, pts, ρ =>
    (∃ x tx, pts.get v = some [x] ∧ t.f (pts ++ ρ) = [tx] ∧ bdryMem τ d [(v, [x - tx])] (pts.filter (fun b => b.1 != v) ++ ρ)) ∨
    (∃ x y tx ty, pts.get v = some [x, y] ∧ t.f (pts ++ ρ) = [tx, ty] ∧ bdryMem τ d [(v, [x - tx, y - ty])] (pts.filter (fun b => b.1 != v) ++ ρ)) ∨
    (∃ x y z tx ty tz, pts.get v = some [x, y, z] ∧ t.f (pts ++ ρ) = [tx, ty, tz] ∧
      bdryMem τ d [(v, [x - tx, y - ty, z - tz])] (pts.filter (fun b => b.1 != v) ++ ρ))
  | .rotate v d m c, pts, ρ =>
    ∃ x y m00 m01 m10 m11 cx cy, pts.get v = some [x, y] ∧ m.f (pts ++ ρ) = [m00, m01, m10, m11] ∧ c.f (pts ++ ρ) = [cx, cy] ∧
      bdryMem τ d [(v, [(m11 * (x - cx) - m01 * (y - cy)) / (m00 * m11 - m01 * m10) + cx,
                          (m00 * (y - cy) - m10 * (x - cx)) / (m00 * m11 - m01 * m10) + cy])] (pts.filter (fun b => b.1 != v) ++ ρ)
  | .bdry _, _, _ => False
  | .bdryL _, _, _ => False
  | .bdryR _, _, _ => False

/-- non-degeneracy at the pulled-back points as the boundary test visits them (same recursion as `NonDeg`) -/
theorem bdryContains_iff_bdryMem (τ : Tol K) (D : Dom K) : ∀ (pts ρ : Env K) (b : Bool), D.solid → NonDeg D pts ρ →
    bdryContains τ D pts ρ = some b → (b = true ↔ bdryMem τ D pts ρ) := by
  induction D with
  | interval v lb ub => intro pts ρ b _ _ h; simp only [bdryMem, h, Option.some.injEq]
  | par v o c1 c2 => intro pts ρ b _ _ h; simp only [bdryMem, h, Option.some.injEq]
  | tri v o c1 c2 => intro pts ρ b _ _ h; simp only [bdryMem, h, Option.some.injEq]
  | circle v c r => intro pts ρ b _ _ h; simp only [bdryMem, h, Option.some.injEq]
  | sphere v c r => intro pts ρ b _ _ h; simp only [bdryMem, h, Option.some.injEq]
  | union a b iha ihb =>
    intro pts ρ r hs hnd h
    simp only [bdryContains, containsAux, Option.bind_eq_bind, Option.pure_def] at h
    cases ha : containsAux τ false a pts ρ with
    | none => simp [ha] at h
    | some ia =>
    cases hb : containsAux τ false b pts ρ with
    | none => simp [ha, hb] at h
    | some ib =>
    cases hoa : containsAux τ true a pts ρ with
    | none => simp [ha, hb, hoa] at h
    | some oa =>
    cases hob : containsAux τ true b pts ρ with
    | none => simp [ha, hb, hoa, hob] at h
    | some ob =>
      simp only [ha, hb, hoa, hob, Option.bind_some, Option.some.injEq] at h
      subst h
      have A := contains_iff_mem τ a pts ρ ia hs.1 hnd.1 ha
      have B := contains_iff_mem τ b pts ρ ib hs.2 hnd.2 hb
      have OA := iha pts ρ oa hs.1 hnd.1 hoa
      have OB := ihb pts ρ ob hs.2 hnd.2 hob
      simp only [bdryMem, ← A, ← B, ← OA, ← OB]
      cases ia <;> cases ib <;> cases oa <;> cases ob <;> simp
  | cut a b iha ihb =>
    intro pts ρ r hs hnd h
    simp only [bdryContains, containsAux, Option.bind_eq_bind, Option.pure_def] at h
    cases ha : containsAux τ false a pts ρ with
    | none => simp [ha] at h
    | some ia =>
    cases hb : containsAux τ false b pts ρ with
    | none => simp [ha, hb] at h
    | some ib =>
    cases hoa : containsAux τ true a pts ρ with
    | none => simp [ha, hb, hoa] at h
    | some oa =>
    cases hob : containsAux τ true b pts ρ with
    | none => simp [ha, hb, hoa, hob] at h
    | some ob =>
      simp only [ha, hb, hoa, hob, Option.bind_some, Option.some.injEq] at h
      subst h
      have A := contains_iff_mem τ a pts ρ ia hs.1 hnd.1 ha
      have B := contains_iff_mem τ b pts ρ ib hs.2 hnd.2 hb
      have OA := iha pts ρ oa hs.1 hnd.1 hoa
      have OB := ihb pts ρ ob hs.2 hnd.2 hob
      simp only [bdryMem, ← A, ← B, ← OA, ← OB]
      cases ia <;> cases ib <;> cases oa <;> cases ob <;> simp
  | inter a b iha ihb =>
    intro pts ρ r hs hnd h
    simp only [bdryContains, containsAux, Option.bind_eq_bind, Option.pure_def] at h
    cases ha : containsAux τ false a pts ρ with
    | none => simp [ha] at h
    | some ia =>
    cases hb : containsAux τ false b pts ρ with
    | none => simp [ha, hb] at h
    | some ib =>
    cases hoa : containsAux τ true a pts ρ with
    | none => simp [ha, hb, hoa] at h
    | some oa =>
    cases hob : containsAux τ true b pts ρ with
    | none => simp [ha, hb, hoa, hob] at h
    | some ob =>
      simp only [ha, hb, hoa, hob, Option.bind_some, Option.some.injEq] at h
      subst h
      have A := contains_iff_mem τ a pts ρ ia hs.1 hnd.1 ha
      have B := contains_iff_mem τ b pts ρ ib hs.2 hnd.2 hb
      have OA := iha pts ρ oa hs.1 hnd.1 hoa
      have OB := ihb pts ρ ob hs.2 hnd.2 hob
      simp only [bdryMem, ← A, ← B, ← OA, ← OB]
      cases ia <;> cases ib <;> cases oa <;> cases ob <;> simp
  | prod a b iha ihb =>
    intro pts ρ r hs hnd h
    simp only [bdryContains, containsAux, Option.bind_eq_bind, Option.pure_def] at h
    cases ha : containsAux τ false a pts ρ with
    | none => simp [ha] at h
    | some ia =>
    cases hb : containsAux τ false b pts ρ with
    | none => simp [ha, hb] at h
    | some ib =>
    cases hoa : containsAux τ true a pts ρ with
    | none => simp [ha, hb, hoa] at h
    | some oa =>
    cases hob : containsAux τ true b pts ρ with
    | none => simp [ha, hb, hoa, hob] at h
    | some ob =>
      simp only [ha, hb, hoa, hob, Option.bind_some, Option.some.injEq] at h
      subst h
      have A := contains_iff_mem τ a pts ρ ia hs.1 hnd.1 ha
      have B := contains_iff_mem τ b pts ρ ib hs.2 hnd.2 hb
      have OA := iha pts ρ oa hs.1 hnd.1 hoa
      have OB := ihb pts ρ ob hs.2 hnd.2 hob
      simp only [bdryMem, ← A, ← B, ← OA, ← OB]
      cases ia <;> cases ib <;> cases oa <;> cases ob <;> simp
  | translate v d t ih =>
    intro pts ρ r hs hnd h
    simp only [bdryContains, containsAux] at h
    split at h
    · rename_i x tx hp ht
      rw [ih _ _ r hs (hnd.1 x tx hp ht) h]
      simp only [bdryMem, hp, ht]
      simp
    · rename_i x y tx ty hp ht
      rw [ih _ _ r hs (hnd.2.1 x y tx ty hp ht) h]
      simp only [bdryMem, hp, ht]
      simp
    · rename_i x y z tx ty tz hp ht
      rw [ih _ _ r hs (hnd.2.2 x y z tx ty tz hp ht) h]
      simp only [bdryMem, hp, ht]
      simp
    · simp at h
  | rotate v d m c ih =>
    intro pts ρ r hs hnd h
    simp only [bdryContains, containsAux] at h
    split at h
    · rename_i x y m00 m01 m10 m11 cx cy hp hm hc
      obtain ⟨hdet, hnd'⟩ := hnd x y m00 m01 m10 m11 cx cy hp hm hc
      rw [ih _ _ r hs hnd' h]
      simp only [bdryMem, hp, hm, hc]
      simp
    · simp at h
  | bdry d _ => intro _ _ _ hs; exact absurd hs (by simp [Dom.solid])
  | bdryL d _ => intro _ _ _ hs; exact absurd hs (by simp [Dom.solid])
  | bdryR d _ => intro _ _ _ hs; exact absurd hs (by simp [Dom.solid])

end TPV.Geom
namespace TPV.Geom
set_option linter.unusedSectionVars false
variable {K : Type} [Field K] [LinearOrder K] [IsStrictOrderedRing K]

/-- the boundary set only depends on what the expression reads (same statement as `mem_congr`) -/
theorem bdryMem_congr (τ : Tol K) (D : Dom K) : ∀ (p ρ p' ρ' : Env K), EnvAgree D p ρ p' ρ' →
    (bdryMem τ D p ρ ↔ bdryMem τ D p' ρ') := by
  induction D with
  | interval v lb ub =>
    intro p ρ p' ρ' h; obtain ⟨h1, h2, h3⟩ := h; simp only [bdryMem, bdryContains, containsAux, h1, h2, h3]
  | par v o c1 c2 =>
    intro p ρ p' ρ' h; obtain ⟨h1, h2, h3, h4⟩ := h; simp only [bdryMem, bdryContains, containsAux, h1, h2, h3, h4]
  | tri v o c1 c2 =>
    intro p ρ p' ρ' h; obtain ⟨h1, h2, h3, h4⟩ := h; simp only [bdryMem, bdryContains, containsAux, h1, h2, h3, h4]
  | circle v c r =>
    intro p ρ p' ρ' h; obtain ⟨h1, h2, h3⟩ := h; simp only [bdryMem, bdryContains, containsAux, h1, h2, h3]
  | sphere v c r =>
    intro p ρ p' ρ' h; obtain ⟨h1, h2, h3⟩ := h; simp only [bdryMem, bdryContains, containsAux, h1, h2, h3]
  | union a b iha ihb =>
    intro p ρ p' ρ' h
    simp only [bdryMem, iha _ _ _ _ h.1, ihb _ _ _ _ h.2, mem_congr a _ _ _ _ h.1, mem_congr b _ _ _ _ h.2]
  | cut a b iha ihb =>
    intro p ρ p' ρ' h
    simp only [bdryMem, iha _ _ _ _ h.1, ihb _ _ _ _ h.2, mem_congr a _ _ _ _ h.1, mem_congr b _ _ _ _ h.2]
  | inter a b iha ihb =>
    intro p ρ p' ρ' h
    simp only [bdryMem, iha _ _ _ _ h.1, ihb _ _ _ _ h.2, mem_congr a _ _ _ _ h.1, mem_congr b _ _ _ _ h.2]
  | prod a b iha ihb =>
    intro p ρ p' ρ' h
    simp only [bdryMem, iha _ _ _ _ h.1, ihb _ _ _ _ h.2, mem_congr a _ _ _ _ h.1, mem_congr b _ _ _ _ h.2]
  | translate v d t ih =>
    intro p ρ p' ρ' h
    obtain ⟨h1, h2, h3⟩ := h
    simp only [bdryMem, h1, h2]
    have e1 : ∀ q : List K, bdryMem τ d [(v, q)] (p.filter (fun b => b.1 != v) ++ ρ) ↔
        bdryMem τ d [(v, q)] (p'.filter (fun b => b.1 != v) ++ ρ') := fun q => ih _ _ _ _ (h3 q)
    simp only [e1]
  | rotate v d m c ih =>
    intro p ρ p' ρ' h
    obtain ⟨h1, h2, h3, h4⟩ := h
    simp only [bdryMem, h1, h2, h3]
    have e1 : ∀ q : List K, bdryMem τ d [(v, q)] (p.filter (fun b => b.1 != v) ++ ρ) ↔
        bdryMem τ d [(v, q)] (p'.filter (fun b => b.1 != v) ++ ρ') := fun q => ih _ _ _ _ (h4 q)
    simp only [e1]
  | bdry d _ => intro p ρ p' ρ' _; simp [bdryMem]
  | bdryL d _ => intro p ρ p' ρ' _; simp [bdryMem]
  | bdryR d _ => intro p ρ p' ρ' _; simp [bdryMem]

theorem bdryMem_translate (τ : Tol K) (v : String) (d : Dom K) (t : PFun K) (ρ : Env K) (q p : List K) (ht : t.indep v)
    (hm : bdryMem τ d [(v, q)] ρ) (hq : translatePt q (t.f ρ) = some p) : bdryMem τ (.translate v d t) [(v, p)] ρ := by
  unfold translatePt at hq
  split at hq <;> try (simp at hq)
  · rename_i x tx htx
    subst hq
    refine Or.inl ⟨_, tx, env_get_head _ _ _, by rw [List.cons_append, List.nil_append, ht, htx], ?_⟩
    rw [add_sub_cancel_right, filter_single]; exact hm
  · rename_i x y tx ty htx
    subst hq
    refine Or.inr (Or.inl ⟨_, _, tx, ty, env_get_head _ _ _, by rw [List.cons_append, List.nil_append, ht, htx], ?_⟩)
    rw [add_sub_cancel_right, add_sub_cancel_right, filter_single]; exact hm
  · rename_i x y z tx ty tz htx
    subst hq
    refine Or.inr (Or.inr ⟨_, _, _, tx, ty, tz, env_get_head _ _ _, by rw [List.cons_append, List.nil_append, ht, htx], ?_⟩)
    rw [add_sub_cancel_right, add_sub_cancel_right, add_sub_cancel_right, filter_single]; exact hm

theorem bdryMem_rotate (τ : Tol K) (v : String) (d : Dom K) (m c : PFun K) (ρ : Env K) (q p : List K)
    (im : m.indep v) (ic : c.indep v)
    (hdet : ∀ m00 m01 m10 m11, m.f ρ = [m00, m01, m10, m11] → m00 * m11 - m01 * m10 ≠ 0)
    (hm : bdryMem τ d [(v, q)] ρ) (hq : rotatePt q (m.f ρ) (c.f ρ) = some p) : bdryMem τ (.rotate v d m c) [(v, p)] ρ := by
  unfold rotatePt at hq
  split at hq <;> try (simp at hq)
  rename_i x y m00 m01 m10 m11 cx cy hmm hcc
  subst hq
  have hd := hdet m00 m01 m10 m11 hmm
  refine ⟨_, _, m00, m01, m10, m11, cx, cy, env_get_head _ _ _, by rw [List.cons_append, List.nil_append, im, hmm],
    by rw [List.cons_append, List.nil_append, ic, hcc], ?_⟩
  have a1 : (m11 * (m00 * (x - cx) + m01 * (y - cy) + cx - cx) - m01 * (m10 * (x - cx) + m11 * (y - cy) + cy - cy)) /
      (m00 * m11 - m01 * m10) + cx = x := by
    rw [div_add' _ _ _ hd, div_eq_iff hd]; ring
  have a2 : (m00 * (m10 * (x - cx) + m11 * (y - cy) + cy - cy) - m10 * (m00 * (x - cx) + m01 * (y - cy) + cx - cx)) /
      (m00 * m11 - m01 * m10) + cy = y := by
    rw [div_add' _ _ _ hd, div_eq_iff hd]; ring
  rw [a1, a2, filter_single]; exact hm

section bsamples
variable [Transc K]

/-- **what sampling the boundary of an expression can return** (one row), following the code: the boundary of
    a primitive returns its boundary parametrisation at draws in `[0,1]`; the boundary of a union / cut /
    intersection returns proposals from the boundary of either operand that the boundary test of the operation
    accepts (`_random_points_boundary`, `_boundary_grid_with_n`, density variants: `accLoop_sound`,
    `n1Loop_sound`, `gridBdry_sound`); the boundary of a moved domain is the moved boundary sample. -/
inductive BSamples (τ : Tol K) : Dom K → Env K → Env K → Prop
  | prim (D : Dom K) (ρ : Env K) (tape : List K) (pts : Env K) :
      (∀ t ∈ tape, 0 ≤ t ∧ t ≤ 1) → primSample (.bdry D) ρ tape = some pts → BSamples τ D ρ pts
  | unionA (a b : Dom K) (ρ pts : Env K) :
      BSamples τ a ρ pts → bdryContains τ (.union a b) pts ρ = some true → BSamples τ (.union a b) ρ pts
  | unionB (a b : Dom K) (ρ pts : Env K) :
      BSamples τ b ρ pts → bdryContains τ (.union a b) pts ρ = some true → BSamples τ (.union a b) ρ pts
  | cutA (a b : Dom K) (ρ pts : Env K) :
      BSamples τ a ρ pts → bdryContains τ (.cut a b) pts ρ = some true → BSamples τ (.cut a b) ρ pts
  | cutB (a b : Dom K) (ρ pts : Env K) :
      BSamples τ b ρ pts → bdryContains τ (.cut a b) pts ρ = some true → BSamples τ (.cut a b) ρ pts
  | interA (a b : Dom K) (ρ pts : Env K) :
      BSamples τ a ρ pts → bdryContains τ (.inter a b) pts ρ = some true → BSamples τ (.inter a b) ρ pts
  | interB (a b : Dom K) (ρ pts : Env K) :
      BSamples τ b ρ pts → bdryContains τ (.inter a b) pts ρ = some true → BSamples τ (.inter a b) ρ pts
  | translate (v : String) (d : Dom K) (t : PFun K) (ρ : Env K) (q p : List K) :
      BSamples τ d ρ [(v, q)] → translatePt q (t.f ρ) = some p → BSamples τ (.translate v d t) ρ [(v, p)]
  | rotate (v : String) (d : Dom K) (m c : PFun K) (ρ : Env K) (q p : List K) :
      BSamples τ d ρ [(v, q)] → rotatePt q (m.f ρ) (c.f ρ) = some p → BSamples τ (.rotate v d m c) ρ [(v, p)]
  /-- `ProductDomain.boundary = (∂a × b) ∪ (a × ∂b)`, first part: second factor sampled inside, first factor on its boundary -/
  | prodA (a b : Dom K) (ρ pa pb : Env K) :
      Samples τ b ρ pb → BSamples τ a (pb ++ ρ) pa → BSamples τ (.prod a b) ρ (pa ++ pb)
  /-- second part: second factor sampled on its boundary, first factor inside -/
  | prodB (a b : Dom K) (ρ pa pb : Env K) :
      BSamples τ b ρ pb → Samples τ a (pb ++ ρ) pa → BSamples τ (.prod a b) ρ (pa ++ pb)

/-- side conditions for boundary sampling at the row `ρ` -/
def BSampleWF (τ : Tol K) : Dom K → Env K → Prop
  | .union a b, ρ => a.solid ∧ b.solid ∧ ∀ pts, NonDeg (.union a b) pts ρ
  | .cut a b, ρ => a.solid ∧ b.solid ∧ ∀ pts, NonDeg (.cut a b) pts ρ
  | .inter a b, ρ => a.solid ∧ b.solid ∧ ∀ pts, NonDeg (.inter a b) pts ρ
  | .translate v d t, ρ => BSampleWF τ d ρ ∧ t.indep v
  | .rotate v d m c, ρ => BSampleWF τ d ρ ∧ m.indep v ∧ c.indep v ∧
      ∀ m00 m01 m10 m11, m.f ρ = [m00, m01, m10, m11] → m00 * m11 - m01 * m10 ≠ 0
  | .prod a b, ρ =>
    (SampleWF τ b ρ ∧ ∀ pb, Samples τ b ρ pb → (BSampleWF τ a (pb ++ ρ) ∧ ∀ pa, BSamples τ a (pb ++ ρ) pa →
        EnvAgree a pa (pb ++ ρ) (pa ++ pb) ρ ∧ EnvAgree b pb ρ (pa ++ pb) ρ)) ∧
    (BSampleWF τ b ρ ∧ ∀ pb, BSamples τ b ρ pb → (SampleWF τ a (pb ++ ρ) ∧ ∀ pa, Samples τ a (pb ++ ρ) pa →
        EnvAgree a pa (pb ++ ρ) (pa ++ pb) ρ ∧ EnvAgree b pb ρ (pa ++ pb) ρ))
  | .bdry _, _ => False
  | .bdryL _, _ => False
  | .bdryR _, _ => False
  | D, ρ => BdryOK (.bdry D) ρ ∧ ∀ pts, NonDeg D pts ρ

/-- **Boundary samples lie on the boundary.**  For every expression built from the primitives with union, cut,
    intersection, translation, rotation, every parameter row and every point its boundary samplers can return
    for that row: the point belongs to `bdryMem τ D · ρ` — for a primitive it lies *exactly* on the boundary set
    (`prim_bdry_sample_onBdry`) and hence in the tolerance set; for Boolean nodes it satisfies the set algebra of
    the boundary (with the exact denotation `mem` of the operands); for moved domains it is the moved point. -/
theorem bsamples_bdryMem (L : TranscLaws K) (τ : Tol K) (hτ : τ.ok) (D : Dom K) (ρ pts : Env K) (h : BSamples τ D ρ pts) :
    BSampleWF τ D ρ → bdryMem τ D pts ρ := by
  induction h with
  | prim D ρ tape pts htape hs =>
    intro hwf
    have key : ∀ (hok : BdryOK (.bdry D) ρ) (hnd : NonDeg D pts ρ), contains τ (.bdry D) pts ρ = some true :=
      fun hok hnd => bdry_accepts_own_samples L τ hτ (.bdry D) ρ tape pts hok hnd htape hs
    cases D with
    | interval v lb ub => exact key hwf.1 (hwf.2 pts)
    | par v o c1 c2 => exact key hwf.1 (hwf.2 pts)
    | tri v o c1 c2 => exact key hwf.1 (hwf.2 pts)
    | circle v c r => exact key hwf.1 (hwf.2 pts)
    | sphere v c r => exact key hwf.1 (hwf.2 pts)
    | _ => simp [primSample] at hs
  | unionA a b ρ pts _ hc _ =>
    intro hwf; exact (bdryContains_iff_bdryMem τ _ pts ρ true (show Dom.solid (.union a b) from ⟨hwf.1, hwf.2.1⟩) (hwf.2.2 pts) hc).1 rfl
  | unionB a b ρ pts _ hc _ =>
    intro hwf; exact (bdryContains_iff_bdryMem τ _ pts ρ true (show Dom.solid (.union a b) from ⟨hwf.1, hwf.2.1⟩) (hwf.2.2 pts) hc).1 rfl
  | cutA a b ρ pts _ hc _ =>
    intro hwf; exact (bdryContains_iff_bdryMem τ _ pts ρ true (show Dom.solid (.cut a b) from ⟨hwf.1, hwf.2.1⟩) (hwf.2.2 pts) hc).1 rfl
  | cutB a b ρ pts _ hc _ =>
    intro hwf; exact (bdryContains_iff_bdryMem τ _ pts ρ true (show Dom.solid (.cut a b) from ⟨hwf.1, hwf.2.1⟩) (hwf.2.2 pts) hc).1 rfl
  | interA a b ρ pts _ hc _ =>
    intro hwf; exact (bdryContains_iff_bdryMem τ _ pts ρ true (show Dom.solid (.inter a b) from ⟨hwf.1, hwf.2.1⟩) (hwf.2.2 pts) hc).1 rfl
  | interB a b ρ pts _ hc _ =>
    intro hwf; exact (bdryContains_iff_bdryMem τ _ pts ρ true (show Dom.solid (.inter a b) from ⟨hwf.1, hwf.2.1⟩) (hwf.2.2 pts) hc).1 rfl
  | translate v d t ρ q p _ hq ih =>
    intro hwf; exact bdryMem_translate τ v d t ρ q p hwf.2 (ih hwf.1) hq
  | rotate v d m c ρ q p _ hq ih =>
    intro hwf; exact bdryMem_rotate τ v d m c ρ q p hwf.2.1 hwf.2.2.1 hwf.2.2.2 (ih hwf.1) hq
  | prodA a b ρ pa pb hsb hsa iha =>
    intro hwf
    obtain ⟨⟨wb, hall⟩, _⟩ := hwf
    obtain ⟨wa, hag⟩ := hall pb hsb
    obtain ⟨ea, eb⟩ := hag pa hsa
    exact Or.inl ⟨(bdryMem_congr τ a _ _ _ _ ea).1 (iha wa), (mem_congr b _ _ _ _ eb).1 (samples_mem L τ b ρ pb hsb wb)⟩
  | prodB a b ρ pa pb hsb hsa ihb =>
    intro hwf
    obtain ⟨_, wb, hall⟩ := hwf
    obtain ⟨wa, hag⟩ := hall pb hsb
    obtain ⟨ea, eb⟩ := hag pa hsa
    exact Or.inr ⟨(mem_congr a _ _ _ _ ea).1 (samples_mem L τ a (pb ++ ρ) pa hsa wa), (bdryMem_congr τ b _ _ _ _ eb).1 (ihb wb)⟩

end bsamples
end TPV.Geom

namespace TPV.Geom

/-- non-vacuity of `bsamples_bdryMem`: the boundary of a slanted parallelogram minus a disc (ℝ, torch tolerances) -/
example (pts : Env ℝ)
    (h : BSamples ⟨1/100000000, 1/100000, 1/100000⟩ (.cut (.par "x" (.const [0, 0]) (.const [2, 1]) (.const [-1, 3])) (.circle "x" (.const [1, 1]) (.const [1/2]))) [] pts) :
    bdryMem ⟨1/100000000, 1/100000, 1/100000⟩ (.cut (.par "x" (.const [0, 0]) (.const [2, 1]) (.const [-1, 3])) (.circle "x" (.const [1, 1]) (.const [1/2]))) pts [] := by
  refine bsamples_bdryMem realLaws _ ⟨by norm_num, by norm_num, by norm_num⟩ _ _ _ h ⟨trivial, trivial, fun pts => ⟨?_, trivial⟩⟩
  intro ox oy ax ay bx cy h1 h2 h3
  simp only [PFun.const, List.cons.injEq, and_true] at h1 h2 h3
  obtain ⟨rfl, rfl⟩ := h1; obtain ⟨rfl, rfl⟩ := h2; obtain ⟨rfl, rfl⟩ := h3
  norm_num

/-- non-vacuity of the selection theorems on concrete data -/
example : ∀ p ∈ unionAppend [1, 2, 3] [4, 5, 6] (fun x => x % 2 == 0), p ∈ [1, 2, 3] ∨ (p ∈ [4, 5, 6] ∧ (p % 2 == 0) = false) :=
  unionAppend_sound _ _ _

end TPV.Geom

namespace TPV.Geom
section
variable {α : Type}

/-- D.2b `_random_boundary_points_if_n_eq_1`: one row per parameter row, each an accepted proposal of `∂A` or `∂B` -/
theorem n1BdryLoop_sound (propA propB : Nat → List α) (ok : α → Bool) (P : α → Prop)
    (hA : ∀ rd p, p ∈ propA rd → ok p = true → P p) (hB : ∀ rd p, p ∈ propB rd → ok p = true → P p) :
    ∀ (fuel rd : Nat) (final : List (Option α)) (r : Nat) (out : List α),
      (∀ p, some p ∈ final → P p) → n1BdryLoop propA propB ok fuel rd final = some (r, out) →
      out.length = final.length ∧ ∀ p ∈ out, P p := by
  intro fuel
  induction fuel with
  | zero =>
    intro rd final r out hinv h
    unfold n1BdryLoop at h
    split at h
    · rename_i hall
      simp only [Option.some.injEq, Prod.mk.injEq] at h
      obtain ⟨_, rfl⟩ := h
      refine ⟨filterMap_id_length final hall, fun p hp => ?_⟩
      rw [List.mem_filterMap] at hp
      obtain ⟨a, ha, rfl⟩ := hp
      exact hinv p ha
    · simp at h
  | succ f ih =>
    intro rd final r out hinv h
    unfold n1BdryLoop at h
    split at h
    · rename_i hall
      simp only [Option.some.injEq, Prod.mk.injEq] at h
      obtain ⟨_, rfl⟩ := h
      refine ⟨filterMap_id_length final hall, fun p hp => ?_⟩
      rw [List.mem_filterMap] at hp
      obtain ⟨a, ha, rfl⟩ := hp
      exact hinv p ha
    · simp only at h
      have hps : ∀ p ∈ (if (rd % 2 == 0) = true then propA rd else propB rd), ok p = true → P p := by
        intro p hp hok
        split at hp
        · exact hA rd p hp hok
        · exact hB rd p hp hok
      generalize (if (rd % 2 == 0) = true then propA rd else propB rd) = ps at h hps
      split at h
      · rename_i hlen
        have := ih _ _ _ _ ?_ h
        · refine ⟨?_, this.2⟩
          rw [this.1]; simp [List.length_zip, hlen]
        · intro p hp
          rw [List.mem_map] at hp
          obtain ⟨⟨old, q⟩, hz, hq⟩ := hp
          simp only at hq
          split at hq
          · rename_i hok
            simp only [Option.some.injEq] at hq; subst hq
            rw [Bool.and_eq_true] at hok
            exact hps _ (List.of_mem_zip hz).2 hok.1
          · subst hq; exact hinv p (List.of_mem_zip hz).1
      · simp at h
end
end TPV.Geom

namespace TPV.Geom
set_option linter.unusedSectionVars false
variable {K : Type} [Field K] [LinearOrder K] [IsStrictOrderedRing K]

/-! ## a syntactic criterion for `SampleWF` of products -/

/-- Boolean operands live in the same variables and a motion node moves the variable of its inner domain (the
    constructors assert `domain_a.space == domain_b.space`; Translate / Rotate keep the inner space) -/
def Dom.Uniform : Dom K → Prop
  | .interval .. | .par .. | .tri .. | .circle .. | .sphere .. => True
  | .union a b | .cut a b | .inter a b => a.Uniform ∧ b.Uniform ∧ b.vars = a.vars
  | .prod a b => a.Uniform ∧ b.Uniform
  | .translate v d _ | .rotate v d _ _ => d.Uniform ∧ d.vars = [v]
  | .bdry _ | .bdryL _ | .bdryR _ => False

theorem primSample_keys [Transc K] (D : Dom K) (ρ : Env K) (tape : List K) (pts : Env K) (hu : D.Uniform)
    (h : primSample D ρ tape = some pts) : pts.map Prod.fst = D.vars := by
  cases D with
  | interval v lb ub =>
    rcases tape with _ | ⟨t, _ | ⟨t2, rest⟩⟩ <;> simp only [primSample] at h <;> try (simp at h)
    split at h <;> try (simp at h)
    subst h; rfl
  | par v o c1 c2 =>
    rcases tape with _ | ⟨s, _ | ⟨t, _ | ⟨t3, rest⟩⟩⟩ <;> simp only [primSample] at h <;> try (simp at h)
    split at h <;> try (simp at h)
    subst h; rfl
  | tri v o c1 c2 =>
    rcases tape with _ | ⟨s, _ | ⟨t, _ | ⟨t3, rest⟩⟩⟩ <;> simp only [primSample] at h <;> try (simp at h)
    split at h <;> try (simp at h)
    subst h; rfl
  | circle v c r =>
    rcases tape with _ | ⟨s, _ | ⟨t, _ | ⟨t3, rest⟩⟩⟩ <;> simp only [primSample] at h <;> try (simp at h)
    split at h <;> try (simp at h)
    subst h; rfl
  | sphere v c r =>
    rcases tape with _ | ⟨s, _ | ⟨t, _ | ⟨t3, _ | ⟨t4, rest⟩⟩⟩⟩ <;> simp only [primSample] at h <;> try (simp at h)
    split at h <;> try (simp at h)
    subst h; rfl
  | bdry d => exact absurd hu (by simp [Dom.Uniform])
  | bdryL d => exact absurd hu (by simp [Dom.Uniform])
  | bdryR d => exact absurd hu (by simp [Dom.Uniform])
  | _ => simp [primSample] at h

/-- the coordinates a sample binds are exactly the variables of the expression -/
theorem samples_keys [Transc K] (τ : Tol K) (D : Dom K) (ρ pts : Env K) (h : Samples τ D ρ pts) :
    D.Uniform → pts.map Prod.fst = D.vars := by
  induction h with
  | prim D ρ tape pts _ hs => intro hu; exact primSample_keys D ρ tape pts hu hs
  | cut a b ρ pts _ _ ih => intro hu; exact ih hu.1
  | inter a b ρ pts _ _ ih => intro hu; exact ih hu.1
  | unionA a b ρ pts _ ih => intro hu; exact ih hu.1
  | unionB a b ρ pts _ ih => intro hu; rw [ih hu.2.1]; exact hu.2.2
  | translate v d t ρ q p _ _ _ => intro hu; simp [Dom.vars, hu.2]
  | rotate v d m c ρ q p _ _ _ => intro hu; simp [Dom.vars, hu.2]
  | prod a b ρ pa pb _ _ ihb iha => intro hu; simp [Dom.vars, List.map_append, iha hu.1, ihb hu.2]

theorem env_get_of_key (p : Env K) (v : String) (h : v ∈ p.map Prod.fst) : ∃ x, p.get v = some x := by
  unfold Env.get
  induction p with
  | nil => simp at h
  | cons hd tl ih =>
    obtain ⟨k, val⟩ := hd
    simp only [List.lookup]
    by_cases hk : (v == k) = true
    · simp [hk]
    · simp only [hk]
      have : v ≠ k := by simpa using hk
      simp only [List.map_cons, List.mem_cons] at h
      rcases h with h | h
      · exact absurd h this
      · exact ih h

theorem env_get_none_of_not_key (p : Env K) (v : String) (h : v ∉ p.map Prod.fst) : p.get v = none := by
  unfold Env.get
  induction p with
  | nil => rfl
  | cons hd tl ih =>
    obtain ⟨k, val⟩ := hd
    simp only [List.map_cons, List.mem_cons, not_or] at h
    have hk : (v == k) = false := by simpa using h.1
    simp only [List.lookup, hk]
    exact ih h.2

/-- **packaged criterion**: a product `a × b` is well-formed for sampling at `ρ` as soon as both factors are
    (the first one at every row extended by a sample of the second), the factors live in disjoint variables, all
    leaves read the variables of their own factor, and the second factor's parameter functions do not look at the
    first factor's coordinates. -/
theorem sampleWF_prod_of [Transc K] (τ : Tol K) (a b : Dom K) (ρ : Env K) (ua : a.Uniform) (ub : b.Uniform)
    (hla : ∀ v ∈ a.leafVars, v ∈ a.vars) (hlb : ∀ v ∈ b.leafVars, v ∈ b.vars)
    (hdisj : ∀ v, v ∈ a.vars → v ∉ b.vars)
    (hb : SampleWF τ b ρ) (ha : ∀ pb, Samples τ b ρ pb → SampleWF τ a (pb ++ ρ))
    (hign : ∀ pa : Env K, pa.map Prod.fst = a.vars → ∀ f ∈ b.pfuns, f.ignores pa) :
    SampleWF τ (.prod a b) ρ := by
  refine ⟨hb, fun pb hsb => ⟨ha pb hsb, fun pa hsa => ?_⟩⟩
  have ka := samples_keys τ a _ pa hsa ua
  have kb := samples_keys τ b ρ pb hsb ub
  constructor
  · refine envAgree_assoc a ρ pa pb (fun v hv => env_get_of_key pa v (by rw [ka]; exact hla v hv)) (fun v hv => ?_)
    exact env_get_none_of_not_key pb v (by rw [kb]; exact hdisj v (hla v hv))
  · refine envAgree_left pa b (hign pa ka) (fun v hv => ?_) pb ρ
    refine env_get_none_of_not_key pa v ?_
    rw [ka]; intro hva; exact hdisj v hva (hlb v hv)

/-- a disc whose centre moves with the second factor's coordinate `s` -/
noncomputable def exProdA : Dom ℝ := .circle "x" ⟨["s"], fun e => match e.get "s" with | some [s] => [s, 1] | _ => []⟩ (.const [3])
/-- an interval in `s` -/
noncomputable def exProdB : Dom ℝ := .interval "s" (.const [0]) (.const [2])

/-- non-vacuity of the product rule and the packaged criterion: the dependent product `exProdA × exProdB` over ℝ -/
example (pts : Env ℝ) (h : Samples ⟨0, 0, 0⟩ (.prod exProdA exProdB) [] pts) : mem (.prod exProdA exProdB) pts [] := by
  refine samples_mem realLaws _ _ _ _ h (sampleWF_prod_of _ exProdA exProdB _ (by simp [exProdA, Dom.Uniform])
    (by simp [exProdB, Dom.Uniform]) ?_ ?_ ?_ ?_ ?_ ?_)
  · intro v hv; simpa [exProdA, Dom.leafVars, Dom.vars] using hv
  · intro v hv; simpa [exProdB, Dom.leafVars, Dom.vars] using hv
  · intro v hv; simp [exProdA, exProdB, Dom.vars] at hv ⊢; subst hv; decide
  · refine ⟨fun _ _ => rfl, fun _ _ => rfl, fun l u hl hu => ?_⟩
    simp only [PFun.const, List.cons.injEq, and_true] at hl hu; subst hl hu; norm_num
  · intro pb _
    refine ⟨fun x ρ => ?_, fun _ _ => rfl, fun rr hr => ?_⟩
    · simp [Env.get, List.lookup]
    · simp only [PFun.const, List.cons.injEq, and_true] at hr; subst hr; norm_num
  · intro pa _ f hf
    simp only [exProdB, Dom.pfuns, List.mem_cons, List.not_mem_nil, or_false] at hf
    rcases hf with rfl | rfl <;> intro _ _ <;> rfl

end TPV.Geom
