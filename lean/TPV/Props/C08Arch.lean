/-
  C08 (second part) — the point-wise architectures written over the whole batch (table level, as the code is:
  matrix product of the batch with the weight matrix, bias broadcast, Hadamard products, residual sums,
  concatenation of feature tables, the polynomial sum over an explicit axis) are proved to map every row on its
  own: `…T X = mapOpt …Row X`.  Together with `apply_rowWise` (Props/C08.lean) row-wiseness of the library
  classes is a theorem about table-level definitions, not an assumption.  `polynomialOld_mixes_rows`: the pinned
  Polynomial_FCN on two batch axes adds rows up.
-/
import TPV.Props.C08
namespace TPV.Net
section
variable {K : Type} [Add K] [Mul K] [OfNat K 0]

/-! ## the matrix product of the batch with a weight matrix maps every row on its own -/

/-- row-level reading of the outer-product accumulation (proof device) -/
def mvK : Nat → List (List K) → List K → Option (List K)
  | 0, W, x => if x.isEmpty && W.all List.isEmpty then some (W.map fun _ => 0) else none
  | k + 1, W, x =>
    match x with
    | [] => none
    | a :: t => (heads W).bind fun hw =>
        (mvK k (hw.map (·.2)) t).map fun r => List.zipWith (fun (b : K × List K) c => b.1 * a + c) hw r

theorem mapOpt_ite_const {α β : Type} (P : α → Bool) (c : Bool) (z : β) : ∀ (x : α) (xs : List α),
    mapOpt (fun y => if P y && c then some z else none) (x :: xs)
      = if (x :: xs).all P && c then some ((x :: xs).map fun _ => z) else none
  | x, [] => by cases h1 : P x <;> cases c <;> simp [mapOpt, h1]
  | x, y :: ys => by
    have ih := mapOpt_ite_const P c z y ys
    rw [mapOpt, ih]
    cases h1 : P x <;> cases c <;> simp [h1]

theorem mapOpt_zipWith_snd {α β γ δ : Type} (f : β → Option γ) (g : α × β → γ → δ) : ∀ (l : List (α × β)),
    (mapOpt f (l.map (·.2))).map (fun R => List.zipWith g l R) = mapOpt (fun a => (f a.2).map (g a)) l
  | [] => rfl
  | a :: l => by
    have ih := mapOpt_zipWith_snd f g l
    simp only [List.map_cons, mapOpt]
    rw [← ih]
    cases f a.2 <;> cases mapOpt f (l.map (·.2)) <;> simp

theorem mapOpt_none_const {α β : Type} (x : α) (xs : List α) : mapOpt (fun _ => (none : Option β)) (x :: xs) = none := by
  simp [mapOpt]

theorem tMatMulT_rowwise : ∀ (k : Nat) (X W : List (List K)), tMatMulT k X W = mapOpt (mvK k W) X
  | _, [], _ => by simp [tMatMulT, mapOpt]
  | 0, x :: xs, W => by
    have h := mapOpt_ite_const (fun y : List K => y.isEmpty) (W.all List.isEmpty) (W.map fun _ => (0 : K)) x xs
    simp only [tMatMulT]
    rw [← h]
    rfl
  | k + 1, x :: xs, W => by
    simp only [tMatMulT]
    have hrow : mapOpt (mvK (k + 1) W) (x :: xs) = (heads (x :: xs)).bind
        (mapOpt fun at' : K × List K => (heads W).bind fun hw =>
          (mvK k (hw.map (·.2)) at'.2).map fun r => List.zipWith (fun (b : K × List K) c => b.1 * at'.1 + c) hw r) := by
      unfold heads
      rw [mapOpt_bind]
      apply mapOpt_congr
      intro y _
      cases y <;> simp [mvK, heads]
    rw [hrow]
    cases hx : heads (x :: xs) with
    | none => rfl
    | some hx' =>
      simp only [Option.bind_some]
      cases hw : heads W with
      | none =>
        have hl := mapOpt_length _ _ _ hx
        cases hx' with
        | nil => simp at hl
        | cons a l => simp [mapOpt]
      | some hw' =>
        simp only [Option.bind_some]
        rw [tMatMulT_rowwise k (hx'.map (·.2)) (hw'.map (·.2))]
        exact mapOpt_zipWith_snd (mvK k (hw'.map (·.2)))
          (fun (a : K × List K) r => List.zipWith (fun (b : K × List K) c => b.1 * a.1 + c) hw' r) hx'

theorem matVec_cons (W : List (List K)) (a : K) (t : List K) :
    matVec W (a :: t) = (heads W).bind fun hw =>
      (matVec (hw.map (·.2)) t).map fun r => List.zipWith (fun (b : K × List K) c => b.1 * a + c) hw r := by
  unfold matVec heads
  have h : ∀ hw : List (K × List K),
      (mapOpt (fun w => dot w t) (hw.map (·.2))).map (fun r => List.zipWith (fun (b : K × List K) c => b.1 * a + c) hw r)
        = mapOpt (fun b => (dot b.2 t).map (fun c => b.1 * a + c)) hw :=
    fun hw => mapOpt_zipWith_snd (fun w => dot w t) (fun (b : K × List K) c => b.1 * a + c) hw
  simp only [h]
  rw [mapOpt_bind]
  apply mapOpt_congr
  intro w _
  cases w <;> simp [dot]

theorem matVec_nil : ∀ (W : List (List K)),
    matVec W [] = if W.all List.isEmpty then some (W.map fun _ => (0 : K)) else none
  | [] => rfl
  | w :: W => by
    have ih := matVec_nil W
    unfold matVec at ih ⊢
    rw [mapOpt, ih]
    cases w <;> simp [dot]

theorem mvK_eq_matVec : ∀ (k : Nat) (w0 : List K) (Ws : List (List K)) (x : List K), w0.length = k →
    mvK k (w0 :: Ws) x = matVec (w0 :: Ws) x
  | 0, w0, Ws, x, h => by
    have hw0 : w0 = [] := List.eq_nil_of_length_eq_zero h
    subst hw0
    cases x with
    | nil => simp only [mvK, matVec_nil]; simp
    | cons a t => simp [mvK, matVec, mapOpt, dot]
  | k + 1, w0, Ws, x, h => by
    cases w0 with
    | nil => simp at h
    | cons b0 s0 =>
      cases x with
      | nil => simp [mvK, matVec, mapOpt, dot]
      | cons a t =>
        rw [matVec_cons]
        simp only [mvK]
        cases hh : heads ((b0 :: s0) :: Ws) with
        | none => rfl
        | some hw =>
          have : ∃ hw', hw = (b0, s0) :: hw' := by
            simp only [heads, mapOpt, Option.bind_some] at hh
            simp at hh
            obtain ⟨l, _, hl⟩ := hh
            exact ⟨l, hl.symm⟩
          obtain ⟨hw', rfl⟩ := this
          simp only [Option.bind_some, List.map_cons]
          rw [mvK_eq_matVec k s0 (hw'.map (·.2)) t (by simpa using h)]

/-- **The matrix product of the batch with the weight matrix** (`F.linear`, accumulated over the input
    features as a sum of outer products of columns) **maps every row on its own**: it is `matVec W` row by row. -/
theorem tLinearT_eq (X W : List (List K)) : tLinearT X W = mapOpt (matVec W) X := by
  cases W with
  | nil =>
    simp only [tLinearT]
    induction X with
    | nil => rfl
    | cons x xs ih => simp [mapOpt, matVec, ← ih]
  | cons w0 Ws =>
    simp only [tLinearT, tMatMulT_rowwise]
    exact mapOpt_congr _ _ _ (fun x _ => mvK_eq_matVec w0.length w0 Ws x rfl)


/-! ## elementwise table operations, bias, activation -/

theorem tZip_cons (f : List K → List K → Option (List K)) (a b : List K) (A B : List (List K)) :
    tZip f (a :: A) (b :: B) = (f a b).bind fun c => (tZip f A B).map (c :: ·) := by
  unfold tZip
  by_cases h : A.length = B.length <;> simp [h, mapOpt]

theorem tZip_mapOpt {α : Type} (f : List K → List K → Option (List K)) (g1 g2 : α → Option (List K)) (X : List α) :
    ((mapOpt g1 X).bind fun A => (mapOpt g2 X).bind fun B => tZip f A B)
      = mapOpt (fun x => (g1 x).bind fun a => (g2 x).bind fun b => f a b) X := by
  induction X with
  | nil => simp [mapOpt, tZip]
  | cons x xs ih =>
    simp only [mapOpt]
    rw [← ih]
    cases g1 x with
    | none => simp
    | some a =>
      cases g2 x with
      | none => cases mapOpt g1 xs <;> simp
      | some b =>
        cases mapOpt g1 xs with
        | none => simp
        | some A =>
          cases mapOpt g2 xs with
          | none => simp
          | some B => simp [tZip_cons]

theorem mapOpt_const_some {α β : Type} (b : β) : ∀ A : List α, mapOpt (fun _ => some b) A = some (A.map fun _ => b)
  | [] => rfl
  | a :: A => by rw [mapOpt, mapOpt_const_some b A]; rfl

theorem tAddBias_eq (A : List (List K)) (b : List K) : tAddBias A b = mapOpt (fun a => addVec a b) A := by
  have h := tZip_mapOpt addVec (fun a : List K => some a) (fun _ => some b) A
  simp only [Option.bind_some] at h
  rw [← h, mapOpt_some_id, mapOpt_const_some]
  rfl

theorem mapOpt_tMap {α : Type} (act : K → K) (g : α → Option (List K)) (X : List α) :
    (mapOpt g X).map (tMap act) = mapOpt (fun x => (g x).map (·.map act)) X := by
  have h : ∀ A : List (List K), mapOpt (fun r => some (r.map act)) A = some (tMap act A) := by
    intro A
    induction A with
    | nil => rfl
    | cons a A ih => simp [mapOpt, ih, tMap]
  have := mapOpt_bind g (fun r => some (r.map act)) X
  have e : (fun x => (g x).map (·.map act)) = fun a => (g a).bind fun r => some (r.map act) := by
    funext x; cases g x <;> rfl
  rw [e, ← this]
  cases mapOpt g X <;> simp [h]

theorem foldlM_rowwise {L : Type} (sT : List (List K) → L → Option (List (List K))) (sR : List K → L → Option (List K))
    (h : ∀ l H, sT H l = mapOpt (fun x => sR x l) H) :
    ∀ (ls : List L) (X : List (List K)), ls.foldlM sT X = mapOpt (fun x => ls.foldlM sR x) X
  | [], X => by simp [mapOpt_some_id]
  | l :: ls, X => by
    simp only [List.foldlM_cons, Option.bind_eq_bind, h]
    rw [← mapOpt_bind]
    cases mapOpt (fun x => sR x l) X with
    | none => rfl
    | some H => simp [foldlM_rowwise sT sR h ls H]

/-! ## the architectures -/

/-- `nn.Linear` on the batch = `Lin.app` row by row -/
theorem Lin.appT_eq (l : Lin K) (X : List (List K)) : l.appT X = mapOpt l.app X := by
  unfold Lin.appT
  have : (fun A => tAddBias A l.b) = mapOpt (fun a => addVec a l.b) := funext fun A => tAddBias_eq A l.b
  rw [tLinearT_eq, this, mapOpt_bind]
  rfl

/-- **FCN** (batch-level forward: matrix products, bias broadcast, activations on the table) `= rows.map fcnRow` -/
theorem fcnT_eq (hidden : List (Lin K × (K → K))) (last : Lin K) (X : List (List K)) :
    fcnT hidden last X = mapOpt (fcnRow hidden last) X := by
  unfold fcnT fcnRow
  rw [foldlM_rowwise _ (fun h (la : Lin K × (K → K)) => (la.1.app h).map (·.map la.2))
    (fun la H => by rw [Lin.appT_eq, mapOpt_tMap]), ← mapOpt_bind]
  cases mapOpt _ X <;> simp [Lin.appT_eq]

theorem hcat_map {α : Type} (f g : α → List K) (X : List α) :
    hcat (X.map f) (X.map g) = some (X.map fun x => f x ++ g x) := by
  unfold hcat
  simp only [List.length_map, if_true]
  congr 1
  induction X with
  | nil => rfl
  | cons x xs ih => simp [ih]

theorem foldlM_hcat_map {α : Type} (X : List α) : ∀ (fs : List (α → List K)) (f0 : α → List K),
    (fs.map fun f => X.map f).foldlM hcat (X.map f0) = some (X.map fun x => f0 x ++ (fs.map fun f => f x).flatten)
  | [], f0 => by simp
  | f :: fs, f0 => by
    simp only [List.map_cons, List.foldlM_cons, Option.bind_eq_bind, hcat_map, Option.bind_some]
    rw [foldlM_hcat_map X fs (fun x => f0 x ++ f x)]
    simp [List.append_assoc]

/-- `torch.cat([X, cos(πX), sin(πX), …], dim=-1)` = the feature vector of every row -/
theorem harmonicFeaturesT_eq (cosf sinf : K → K) (pi : K) (ofNat : Nat → K) (minF maxF : Nat) (X : List (List K)) :
    harmonicFeaturesT cosf sinf pi ofNat minF maxF X = some (X.map (harmonicFeatures cosf sinf pi ofNat minF maxF)) := by
  unfold harmonicFeaturesT harmonicFeatures
  have h := foldlM_hcat_map X
    ((List.range' minF (maxF - minF)).flatMap fun i =>
      [fun (x : List K) => x.map (fun t => cosf (ofNat (i + 1) * pi * t)), fun x => x.map (fun t => sinf (ofNat (i + 1) * pi * t))])
    (fun x => x)
  simp only [List.map_flatMap, List.map_cons, List.map_nil, List.map_id'] at h
  simp only [tMap]
  rw [h]
  congr 2
  funext x
  congr 1
  simp only [List.flatMap, List.flatten_flatten, List.map_map]
  congr 1
  apply List.map_congr_left
  intro i _
  simp

/-- **Harmonic_FCN** on the batch `= rows.map harmonicRow` -/
theorem harmonicT_eq (cosf sinf : K → K) (pi : K) (ofNat : Nat → K) (minF maxF : Nat)
    (hidden : List (Lin K × (K → K))) (last : Lin K) (X : List (List K)) :
    harmonicT cosf sinf pi ofNat minF maxF hidden last X = mapOpt (harmonicRow cosf sinf pi ofNat minF maxF hidden last) X := by
  unfold harmonicT harmonicRow
  rw [harmonicFeaturesT_eq, Option.bind_some, fcnT_eq]
  induction X with
  | nil => rfl
  | cons x xs ih => simp only [List.map_cons, mapOpt, ih]

/-- the quadratic layer of QRES on the batch (two matrix products, Hadamard product, sums) `= Quad.app` row by row -/
theorem Quad.appT_eq (l : Quad K) (X : List (List K)) : l.appT X = mapOpt l.app X := by
  unfold Quad.appT
  rw [tLinearT_eq, tLinearT_eq]
  have E1 := tZip_mapOpt mulVec (matVec l.W2) (matVec l.W1) X
  have E2 := tZip_mapOpt addVec (fun x => (matVec l.W2 x).bind fun a => (matVec l.W1 x).bind fun b => mulVec a b) (matVec l.W1) X
  have step : ((mapOpt (matVec l.W1) X).bind fun lin => (mapOpt (matVec l.W2) X).bind fun quad =>
        (tZip mulVec quad lin).bind fun ql => (tZip addVec ql lin).bind (tAddBias · l.b))
      = (((mapOpt (matVec l.W2) X).bind fun quad => (mapOpt (matVec l.W1) X).bind fun lin => tZip mulVec quad lin).bind
          fun ql => (mapOpt (matVec l.W1) X).bind fun lin => tZip addVec ql lin).bind (tAddBias · l.b) := by
    generalize mapOpt (matVec l.W1) X = P1
    generalize mapOpt (matVec l.W2) X = P2
    cases P1 <;> cases P2 <;> simp [Option.bind_assoc]
  rw [step, E1, E2]
  have : (fun A => tAddBias A l.b) = mapOpt (fun a => addVec a l.b) := funext fun A => tAddBias_eq A l.b
  rw [this, mapOpt_bind]
  apply mapOpt_congr
  intro x _
  simp only [Quad.app]
  cases matVec l.W1 x <;> cases matVec l.W2 x <;> simp [Option.bind_assoc]

/-- **QRES** on the batch `= rows.map qresRow` -/
theorem qresT_eq (hidden : List (Quad K × (K → K))) (last : Quad K) (X : List (List K)) :
    qresT hidden last X = mapOpt (qresRow hidden last) X := by
  unfold qresT qresRow
  rw [foldlM_rowwise _ (fun h (la : Quad K × (K → K)) => (la.1.app h).map (·.map la.2))
    (fun la H => by rw [Quad.appT_eq, mapOpt_tMap]), ← mapOpt_bind]
  cases mapOpt _ X <;> simp [Quad.appT_eq]

/-- **DeepRitzNet** on the batch (residual blocks add the block input of the same row) `= rows.map ritzRow` -/
theorem ritzT_eq (relu : K → K) (linIn : Lin K) (blocks : List (Lin K × Lin K)) (linOut : Lin K) (X : List (List K)) :
    ritzT relu linIn blocks linOut X = mapOpt (ritzRow relu linIn blocks linOut) X := by
  unfold ritzT ritzRow
  simp only
  have hblock : ∀ (b : Lin K × Lin K) (H : List (List K)),
      ((b.1.appT H).bind fun t1 => (b.2.appT (tMap (fun t => relu (t * t * t)) t1)).bind fun t2 =>
          tZip addVec (tMap (fun t => relu (t * t * t)) t2) H)
        = mapOpt (fun h => (b.1.app h).bind fun t1 => (b.2.app (t1.map fun t => relu (t * t * t))).bind fun t2 =>
            addVec (t2.map fun t => relu (t * t * t)) h) H := by
    intro b H
    have e1 : ((b.1.appT H).bind fun t1 => (b.2.appT (tMap (fun t => relu (t * t * t)) t1)).map (tMap fun t => relu (t * t * t)))
        = mapOpt (fun h => (b.1.app h).bind fun t1 => (b.2.app (t1.map fun t => relu (t * t * t))).map (·.map fun t => relu (t * t * t))) H := by
      rw [Lin.appT_eq, ← mapOpt_bind]
      cases h1 : mapOpt b.1.app H with
      | none => rfl
      | some T1 =>
        simp only [Option.bind_some, Lin.appT_eq]
        have := mapOpt_tMap (fun t => relu (t * t * t)) (fun r : List K => b.2.app (r.map fun t => relu (t * t * t))) T1
        have h2 : mapOpt b.2.app (tMap (fun t => relu (t * t * t)) T1) = mapOpt (fun r : List K => b.2.app (r.map fun t => relu (t * t * t))) T1 := by
          clear this h1
          induction T1 with
          | nil => rfl
          | cons r rs ih => simp only [tMap, List.map_cons, mapOpt] at ih ⊢; rw [ih]
        rw [h2, this]
    have e2 := tZip_mapOpt addVec
      (fun h => (b.1.app h).bind fun t1 => (b.2.app (t1.map fun t => relu (t * t * t))).map (·.map fun t => relu (t * t * t)))
      (fun h : List K => some h) H
    rw [mapOpt_some_id, ← e1] at e2
    simp only [Option.bind_some] at e2
    have lhs : ((b.1.appT H).bind fun t1 => (b.2.appT (tMap (fun t => relu (t * t * t)) t1)).bind fun t2 =>
          tZip addVec (tMap (fun t => relu (t * t * t)) t2) H)
        = (((b.1.appT H).bind fun t1 => (b.2.appT (tMap (fun t => relu (t * t * t)) t1)).map (tMap fun t => relu (t * t * t)))).bind
            fun A => tZip addVec A H := by
      cases b.1.appT H with
      | none => rfl
      | some t1 => simp only [Option.bind_some]; cases b.2.appT (tMap (fun t => relu (t * t * t)) t1) <;> rfl
    rw [lhs, e2]
    apply mapOpt_congr
    intro h _
    cases b.1.app h with
    | none => rfl
    | some t1 => simp only [Option.bind_some]; cases b.2.app (t1.map fun t => relu (t * t * t)) <;> rfl
  rw [Lin.appT_eq, ← mapOpt_bind]
  cases mapOpt linIn.app X with
  | none => rfl
  | some H =>
    simp only [Option.bind_some]
    rw [foldlM_rowwise _ (fun h (b : Lin K × Lin K) => (b.1.app h).bind fun t1 =>
        (b.2.app (t1.map fun t => relu (t * t * t))).bind fun t2 => addVec (t2.map fun t => relu (t * t * t)) h)
      (fun b H => hblock b H), ← mapOpt_bind]
    cases mapOpt _ H <;> simp [Lin.appT_eq]


variable [Div K]

/-- **Polynomial_FCN, one layer of the repaired code on the batch**: the rank-3 tensor summed over `dim=-2`
    (the input features) is `polyLayer` row by row -/
theorem polyLayerT_eq (ofNat : Nat → K) (deg : Nat) (L : List (List (List K))) (X : List (List K)) :
    polyLayerT ofNat deg L X = mapOpt (polyLayer ofNat deg L) X := by
  unfold polyLayerT polyTensor sumAxisM2
  rw [mapOpt_bind]
  rfl

end

/-! ## the pinned `Polynomial_FCN` on two batch axes adds rows up -/

/-- one input, one hidden neuron, one output, degree 1, all coefficients 1: every layer is `x ↦ x + 1` -/
def polyWitLayers : List (List (List (List Rat))) := [[[[1]]], [[[1]]]]
def polyWitNew : Model Rat := PolynomialFCN (fun n => (n : Rat)) [("x", 1)] [("u", 1)] 1 false reluQ polyWitLayers

/-- **The pinned `Polynomial_FCN` mixes rows**: the two points x = 1, x = 2 presented with batch shape (1, 2) are
    accepted and answered with ONE row, u = 6 = ((1+1) + (2+1)) + 1 — the rows were added up by `sum(dim=1)` —
    whereas the repaired model (and the pinned one on the flat batch) answers u = 3 and u = 4.
    (Reproduced on the library before commit ff31a6d.) -/
theorem polynomialOld_mixes_rows :
    polyOldForward2 (fun n => (n : Rat)) 1 reluQ polyWitLayers [[[1], [2]]] = some ([1, 1], [[6]]) ∧
    polyWitNew.apply ⟨[("x", 1)], [1, 2], [[1], [2]]⟩ = some ⟨[("u", 1)], [1, 2], [[3], [4]]⟩ := by
  constructor <;> decide +kernel

end TPV.Net
