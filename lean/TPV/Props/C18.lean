/-
  C18 — the bounding box encloses the domain.
  Property theorems about `bbox` (TPV/Model/GeomBox.lean) and the denotation `mem` (TPV/Proofs/GeomSpec.lean);
  helper lemmas in TPV/Proofs/GeomBoxLemmas.lean.  Generic over any linearly ordered field: the theorems apply
  literally to the executable `Rat` instance the driver runs, and to ℝ.
-/
import TPV.Proofs.GeomBoxLemmas
import TPV.Model.Net
import TPV.Model.GeomTerm
import Mathlib.Algebra.Order.Field.Rat
import Mathlib.Tactic.NormNum

namespace TPV.Geom
set_option linter.unusedSectionVars false
variable {K : Type} [Field K] [LinearOrder K] [IsStrictOrderedRing K]

/-- operands of a Boolean operation live in the same space; a motion node moves the variable it names -/
def Dom.wfVars : Dom K → Prop
  | .interval .. | .par .. | .tri .. | .circle .. | .sphere .. => True
  | .union a b | .cut a b | .inter a b => a.vars = b.vars ∧ a.wfVars ∧ b.wfVars
  | .prod a b => a.wfVars ∧ b.wfVars
  | .translate v d _ | .rotate v d _ _ => d.vars = [v] ∧ d.wfVars
  | .bdry _ | .bdryL _ | .bdryR _ => True

/-- `bounding_box(params)` sees the parameter row `ρ` only, the membership test sees the point joined with
    an environment `σ` (`points.join(params)`; inside motion nodes: the point's other coordinates joined with
    the row): the parameter functions of `D` read the same values from both.
    (Parameter variables and the coordinate variables of the point are different names; for a dependent
    product the partner's coordinates in the parameter row are those of the point.) -/
def AgreeG : Dom K → Env K → Env K → Env K → Prop
  | .interval _ lb ub, pts, σ, ρ => lb.f (pts ++ σ) = lb.f ρ ∧ ub.f (pts ++ σ) = ub.f ρ
  | .par _ o c1 c2, pts, σ, ρ | .tri _ o c1 c2, pts, σ, ρ =>
    o.f (pts ++ σ) = o.f ρ ∧ c1.f (pts ++ σ) = c1.f ρ ∧ c2.f (pts ++ σ) = c2.f ρ
  | .circle _ c r, pts, σ, ρ | .sphere _ c r, pts, σ, ρ => c.f (pts ++ σ) = c.f ρ ∧ r.f (pts ++ σ) = r.f ρ
  | .union a b, pts, σ, ρ | .cut a b, pts, σ, ρ | .inter a b, pts, σ, ρ | .prod a b, pts, σ, ρ =>
    AgreeG a pts σ ρ ∧ AgreeG b pts σ ρ
  | .translate v d t, pts, σ, ρ =>
    t.f (pts ++ σ) = t.f ρ ∧ ∀ q, AgreeG d [(v, q)] (pts.filter (fun b => b.1 != v) ++ σ) ρ
  | .rotate v d m c, pts, σ, ρ =>
    m.f (pts ++ σ) = m.f ρ ∧ c.f (pts ++ σ) = c.f ρ ∧ ∀ q, AgreeG d [(v, q)] (pts.filter (fun b => b.1 != v) ++ σ) ρ
  | .bdry _, _, _, _ | .bdryL _, _, _, _ | .bdryR _, _, _, _ => True

/-- the top-level case: the membership test sees the point joined with its own parameter row -/
def Agree (D : Dom K) (pts ρ : Env K) : Prop := AgreeG D pts ρ ρ

theorem eval1_of {p : PFun K} {ρ : Env K} {a : K} (h : p.f ρ = [a]) : eval1 p ρ = some a := by simp [eval1, h]
theorem eval2_of {p : PFun K} {ρ : Env K} {a b : K} (h : p.f ρ = [a, b]) : eval2 p ρ = some (a, b) := by simp [eval2, h]
theorem eval3_of {p : PFun K} {ρ : Env K} {a b c : K} (h : p.f ρ = [a, b, c]) : eval3 p ρ = some (a, b, c) := by simp [eval3, h]

/-- the induction behind `bbox_encloses`, with the environment `σ` the membership test evaluates parameters in
    kept apart from the parameter row `ρ` the box is computed from (inside motion nodes `σ` also carries the
    point's other coordinates) -/
theorem bbox_encloses_gen (D : Dom K) : ∀ (ρs : List (Env K)) (ρ σ pts : Env K) (box : List (K × K)) (p : List K),
    D.wfVars → ρ ∈ ρs → AgreeG D pts σ ρ → mem D pts σ → bbox D ρs ρ = some box → flatPt D.vars pts = some p →
    Inside box p := by
  induction D with
  | interval v lb ub =>
    intro ρs ρ σ pts box p _ hρ hag hm hb hp
    obtain ⟨x, l, u, hx, hl, hu, h1, h2⟩ := hm
    rw [hag.1] at hl; rw [hag.2] at hu
    simp only [Dom.vars, flatPt_single hx, Option.some.injEq] at hp
    subst hp
    simp only [bbox] at hb
    split at hb
    · rename_i ls us hls hus
      split at hb
      · rename_i lo hi hlo hhi
        simp only [Option.some.injEq] at hb
        subst hb
        obtain ⟨l', hl', e1⟩ := mapOpt_mem hls ρ hρ
        obtain ⟨u', hu', e2⟩ := mapOpt_mem hus ρ hρ
        rw [eval1_of hl] at e1; rw [eval1_of hu] at e2
        simp only [Option.some.injEq] at e1 e2
        subst e1 e2
        have A := (minL_spec hlo).1 l hl'
        have B := (maxL_spec hhi).1 u hu'
        exact List.Forall₂.cons ⟨le_trans A h1, le_trans h2 B⟩ List.Forall₂.nil
      · simp at hb
    · simp at hb
  | par v o c1 c2 =>
    intro ρs ρ σ pts box p _ hρ hag hm hb hp
    obtain ⟨x, y, ox, oy, ax, ay, bx, cy, s, t, hx, ho, h1, h2, hs0, hs1, ht0, ht1, ex, ey⟩ := hm
    rw [hag.1] at ho; rw [hag.2.1] at h1; rw [hag.2.2] at h2
    simp only [Dom.vars, flatPt_single hx, Option.some.injEq] at hp
    subst hp
    simp only [bbox] at hb
    split at hb
    · rename_i cs hcs
      obtain ⟨cr, hcr, e⟩ := mapOpt_mem hcs ρ hρ
      simp only [parCorners, eval2_of ho, eval2_of h1, eval2_of h2, Option.some.injEq] at e
      obtain ⟨x0, x1, y0, y1, rfl, hall, -⟩ := box2_spec hb
      have hin : ∀ q ∈ cr, q ∈ cs.flatten := fun q hq => List.mem_flatten.2 ⟨cr, hcr, hq⟩
      have c0 := hall _ (hin (ox, oy) (by rw [← e]; simp))
      have c1' := hall _ (hin (ax, ay) (by rw [← e]; simp))
      have c2' := hall _ (hin (bx, cy) (by rw [← e]; simp))
      have c3 := hall _ (hin (ax + bx - ox, ay + cy - oy) (by rw [← e]; simp))
      simp only at c0 c1' c2' c3
      have X := par_between s t ox ax bx x0 x1 hs0 hs1 ht0 ht1 ⟨c0.1, c0.2.1⟩ ⟨c1'.1, c1'.2.1⟩ ⟨c2'.1, c2'.2.1⟩ ⟨c3.1, c3.2.1⟩
      have Y := par_between s t oy ay cy y0 y1 hs0 hs1 ht0 ht1 ⟨c0.2.2.1, c0.2.2.2⟩ ⟨c1'.2.2.1, c1'.2.2.2⟩ ⟨c2'.2.2.1, c2'.2.2.2⟩ ⟨c3.2.2.1, c3.2.2.2⟩
      rw [← ex] at X; rw [← ey] at Y
      exact List.Forall₂.cons X (List.Forall₂.cons Y List.Forall₂.nil)
    · simp at hb
  | tri v o c1 c2 =>
    intro ρs ρ σ pts box p _ hρ hag hm hb hp
    obtain ⟨x, y, ox, oy, ax, ay, bx, cy, s, t, hx, ho, h1, h2, hs0, ht0, hst, ex, ey⟩ := hm
    rw [hag.1] at ho; rw [hag.2.1] at h1; rw [hag.2.2] at h2
    simp only [Dom.vars, flatPt_single hx, Option.some.injEq] at hp
    subst hp
    simp only [bbox] at hb
    split at hb
    · rename_i cs hcs
      obtain ⟨cr, hcr, e⟩ := mapOpt_mem hcs ρ hρ
      simp only [triCorners, eval2_of ho, eval2_of h1, eval2_of h2, Option.some.injEq] at e
      obtain ⟨x0, x1, y0, y1, rfl, hall, -⟩ := box2_spec hb
      have hin : ∀ q ∈ cr, q ∈ cs.flatten := fun q hq => List.mem_flatten.2 ⟨cr, hcr, hq⟩
      have c0 := hall _ (hin (ox, oy) (by rw [← e]; simp))
      have c1' := hall _ (hin (ax, ay) (by rw [← e]; simp))
      have c2' := hall _ (hin (bx, cy) (by rw [← e]; simp))
      simp only at c0 c1' c2'
      have X := tri_between s t ox ax bx x0 x1 hs0 ht0 hst ⟨c0.1, c0.2.1⟩ ⟨c1'.1, c1'.2.1⟩ ⟨c2'.1, c2'.2.1⟩
      have Y := tri_between s t oy ay cy y0 y1 hs0 ht0 hst ⟨c0.2.2.1, c0.2.2.2⟩ ⟨c1'.2.2.1, c1'.2.2.2⟩ ⟨c2'.2.2.1, c2'.2.2.2⟩
      rw [← ex] at X; rw [← ey] at Y
      exact List.Forall₂.cons X (List.Forall₂.cons Y List.Forall₂.nil)
    · simp at hb
  | circle v c r =>
    intro ρs ρ σ pts box p _ hρ hag hm hb hp
    obtain ⟨x, y, cx, cy, rr, hx, hc, hr, h0, hd⟩ := hm
    rw [hag.1] at hc; rw [hag.2] at hr
    simp only [Dom.vars, flatPt_single hx, Option.some.injEq] at hp
    subst hp
    simp only [bbox] at hb
    split at hb
    · rename_i cs rs hcs hrs
      split at hb
      · rename_i x0 x1 y0 y1 rm hsx hsy hrm
        simp only [Option.some.injEq] at hb
        subst hb
        obtain ⟨c', hc', e1⟩ := mapOpt_mem hcs ρ hρ
        obtain ⟨r', hr', e2⟩ := mapOpt_mem hrs ρ hρ
        rw [eval2_of hc] at e1; rw [eval1_of hr] at e2
        simp only [Option.some.injEq] at e1 e2
        subst e1 e2
        have X := (span_spec hsx).1 cx (List.mem_map_of_mem (f := (·.1)) hc')
        have Y := (span_spec hsy).1 cy (List.mem_map_of_mem (f := (·.2)) hc')
        have R := (maxL_spec hrm).1 rr hr'
        have bx := ball_coord (x - cx) ((y - cy) ^ 2) rr h0 (sq_nonneg _) hd
        have by' := ball_coord (y - cy) ((x - cx) ^ 2) rr h0 (sq_nonneg _) (by linarith)
        exact List.Forall₂.cons ⟨by linarith [bx.1, X.1], by linarith [bx.2, X.2]⟩
          (List.Forall₂.cons ⟨by linarith [by'.1, Y.1], by linarith [by'.2, Y.2]⟩ List.Forall₂.nil)
      · simp at hb
    · simp at hb
  | sphere v c r =>
    intro ρs ρ σ pts box p _ hρ hag hm hb hp
    obtain ⟨x, y, z, cx, cy, cz, rr, hx, hc, hr, h0, hd⟩ := hm
    rw [hag.1] at hc; rw [hag.2] at hr
    simp only [Dom.vars, flatPt_single hx, Option.some.injEq] at hp
    subst hp
    simp only [bbox] at hb
    split at hb
    · rename_i cs rs hcs hrs
      split at hb
      · rename_i x0 x1 y0 y1 z0 z1 rm hsx hsy hsz hrm
        simp only [Option.some.injEq] at hb
        subst hb
        obtain ⟨c', hc', e1⟩ := mapOpt_mem hcs ρ hρ
        obtain ⟨r', hr', e2⟩ := mapOpt_mem hrs ρ hρ
        rw [eval3_of hc] at e1; rw [eval1_of hr] at e2
        simp only [Option.some.injEq] at e1 e2
        subst e1 e2
        have X := (span_spec hsx).1 cx (List.mem_map_of_mem (f := (·.1)) hc')
        have Y := (span_spec hsy).1 cy (List.mem_map_of_mem (f := (·.2.1)) hc')
        have Z := (span_spec hsz).1 cz (List.mem_map_of_mem (f := (·.2.2)) hc')
        have R := (maxL_spec hrm).1 rr hr'
        have bx := ball_coord (x - cx) ((y - cy) ^ 2 + (z - cz) ^ 2) rr h0 (by positivity) (by linarith)
        have by' := ball_coord (y - cy) ((x - cx) ^ 2 + (z - cz) ^ 2) rr h0 (by positivity) (by linarith)
        have bz := ball_coord (z - cz) ((x - cx) ^ 2 + (y - cy) ^ 2) rr h0 (by positivity) (by linarith)
        exact List.Forall₂.cons ⟨by linarith [bx.1, X.1], by linarith [bx.2, X.2]⟩
          (List.Forall₂.cons ⟨by linarith [by'.1, Y.1], by linarith [by'.2, Y.2]⟩
            (List.Forall₂.cons ⟨by linarith [bz.1, Z.1], by linarith [bz.2, Z.2]⟩ List.Forall₂.nil))
      · simp at hb
    · simp at hb
  | union a b iha ihb =>
    intro ρs ρ σ pts box p hw hρ hag hm hb hp
    simp only [bbox] at hb
    split at hb
    · rename_i ba bb hba hbb
      split at hb
      · rename_i hl
        simp only [Option.some.injEq] at hb
        subst hb
        simp only [Dom.vars] at hp
        rcases hm with hm | hm
        · exact (rowsHull_inside hba hρ fun b0 hb0 => iha ρs ρ σ pts b0 p hw.2.1 hρ hag.1 hm hb0 hp).hull_left hl
        · exact (rowsHull_inside hbb hρ fun b0 hb0 => ihb ρs ρ σ pts b0 p hw.2.2 hρ hag.2 hm hb0 (hw.1 ▸ hp)).hull_right hl
      · simp at hb
    · simp at hb
  | cut a b iha _ =>
    intro ρs ρ σ pts box p hw hρ hag hm hb hp
    simp only [bbox] at hb
    exact iha ρs ρ σ pts box p hw.2.1 hρ hag.1 hm.1 hb hp
  | inter a b iha ihb =>
    intro ρs ρ σ pts box p hw hρ hag hm hb hp
    simp only [bbox] at hb
    split at hb
    · rename_i ba bb hba hbb
      split at hb
      · simp only [Option.some.injEq] at hb
        subst hb
        simp only [Dom.vars] at hp
        exact (rowsHull_inside hba hρ fun b0 hb0 => iha ρs ρ σ pts b0 p hw.2.1 hρ hag.1 hm.1 hb0 hp).meet
          (rowsHull_inside hbb hρ fun b0 hb0 => ihb ρs ρ σ pts b0 p hw.2.2 hρ hag.2 hm.2 hb0 (hw.1 ▸ hp))
      · simp at hb
    · simp at hb
  | prod a b iha ihb =>
    intro ρs ρ σ pts box p hw hρ hag hm hb hp
    simp only [bbox] at hb
    split at hb
    · rename_i ba bb hba hbb
      simp only [Option.some.injEq] at hb
      subst hb
      simp only [Dom.vars] at hp
      obtain ⟨pa, pb, h1, h2, rfl⟩ := flatPt_append hp
      exact (rowsHull_inside hba hρ fun b0 hb0 => iha ρs ρ σ pts b0 pa hw.1 hρ hag.1 hm.1 hb0 h1).append
        (rowsHull_inside hbb hρ fun b0 hb0 => ihb ρs ρ σ pts b0 pb hw.2 hρ hag.2 hm.2 hb0 h2)
    · simp at hb
  | translate v d t ih =>
    intro ρs ρ σ pts box p hw hρ hag hm hb hp
    simp only [bbox] at hb
    split at hb
    · rename_i bd hbd
      simp only [bboxTranslate] at hb
      split at hb
      · rename_i hl
        simp only [Option.some.injEq] at hb
        subst hb
        simp only [Dom.vars, hw.1] at hp
        rcases hm with ⟨q, x, tx, hx, ht, e, hm⟩ | ⟨q1, q2, x, y, tx, ty, hx, ht, e1, e2, hm⟩ |
            ⟨q1, q2, q3, x, y, z, tx, ty, tz, hx, ht, e1, e2, e3, hm⟩
        · rw [hag.1] at ht
          rw [flatPt_single hx, Option.some.injEq] at hp
          subst hp
          have I := ih ρs ρ _ [(v, [q])] bd [q] hw.2 hρ (hag.2 _) hm hbd (by rw [hw.1]; exact flatPt_single (get_single v _))
          rw [ht] at hl ⊢
          have := I.shift hl
          simpa [e] using this
        · rw [hag.1] at ht
          rw [flatPt_single hx, Option.some.injEq] at hp
          subst hp
          have I := ih ρs ρ _ [(v, [q1, q2])] bd [q1, q2] hw.2 hρ (hag.2 _) hm hbd (by rw [hw.1]; exact flatPt_single (get_single v _))
          rw [ht] at hl ⊢
          have := I.shift hl
          simpa [e1, e2] using this
        · rw [hag.1] at ht
          rw [flatPt_single hx, Option.some.injEq] at hp
          subst hp
          have I := ih ρs ρ _ [(v, [q1, q2, q3])] bd [q1, q2, q3] hw.2 hρ (hag.2 _) hm hbd (by rw [hw.1]; exact flatPt_single (get_single v _))
          rw [ht] at hl ⊢
          have := I.shift hl
          simpa [e1, e2, e3] using this
      · simp at hb
    · simp at hb
  | rotate v d m c ih =>
    intro ρs ρ σ pts box p hw hρ hag hm hb hp
    simp only [bbox] at hb
    split at hb
    · rename_i bd hbd
      obtain ⟨q1, q2, x, y, m00, m01, m10, m11, cx, cy, hx, hmm, hc, e1, e2, hm⟩ := hm
      rw [hag.1] at hmm; rw [hag.2.1] at hc
      simp only [Dom.vars, hw.1] at hp
      rw [flatPt_single hx, Option.some.injEq] at hp
      subst hp
      have I := ih ρs ρ _ [(v, [q1, q2])] bd [q1, q2] hw.2 hρ (hag.2.2 _) hm hbd (by rw [hw.1]; exact flatPt_single (get_single v _))
      unfold Inside at I
      cases I with
      | cons hq1 I' =>
        cases I' with
        | cons hq2 I'' =>
          cases I''
          rename_i b1 b2
          obtain ⟨x0, x1⟩ := b1
          obtain ⟨y0, y1⟩ := b2
          simp only [bboxRotate, hmm, hc] at hb
          obtain ⟨X0, X1, Y0, Y1, rfl, hall, -⟩ := box2_spec hb
          have c00 := hall _ (List.mem_cons_self)
          have c01 := hall _ (List.mem_cons_of_mem _ List.mem_cons_self)
          have c10 := hall _ (List.mem_cons_of_mem _ (List.mem_cons_of_mem _ List.mem_cons_self))
          have c11 := hall _ (List.mem_cons_of_mem _ (List.mem_cons_of_mem _ (List.mem_cons_of_mem _ List.mem_cons_self)))
          simp only [rotPt] at c00 c01 c10 c11
          simp only at hq1 hq2
          refine List.Forall₂.cons ⟨?_, ?_⟩ (List.Forall₂.cons ⟨?_, ?_⟩ List.Forall₂.nil)
          · rw [e1]; exact affine_box_lo m00 m01 q1 q2 x0 x1 y0 y1 cx cy cx X0 hq1 hq2 c00.1 c01.1 c10.1 c11.1
          · rw [e1]; exact affine_box_hi m00 m01 q1 q2 x0 x1 y0 y1 cx cy cx X1 hq1 hq2 c00.2.1 c01.2.1 c10.2.1 c11.2.1
          · rw [e2]; exact affine_box_lo m10 m11 q1 q2 x0 x1 y0 y1 cx cy cy Y0 hq1 hq2 c00.2.2.1 c01.2.2.1 c10.2.2.1 c11.2.2.1
          · rw [e2]; exact affine_box_hi m10 m11 q1 q2 x0 x1 y0 y1 cx cy cy Y1 hq1 hq2 c00.2.2.2 c01.2.2.2 c10.2.2.2 c11.2.2.2
    · simp at hb
  | bdry d _ => intro _ _ _ _ _ _ _ _ _ hm; exact absurd hm (by simp [mem])
  | bdryL d _ => intro _ _ _ _ _ _ _ _ _ hm; exact absurd hm (by simp [mem])
  | bdryR d _ => intro _ _ _ _ _ _ _ _ _ hm; exact absurd hm (by simp [mem])


/-- **Main theorem (enclosure).**  For every domain expression — any nesting of union / cut / intersection /
    product / translation / rotation over interval, parallelogram, triangle, disc, ball —, every list of
    supplied parameter rows `ρs`, every row `ρ` among them and every point `pts` of the set the expression
    denotes at that row: each coordinate of the point (in space order) lies in the interval `[min, max]`
    that `bounding_box` returns for its axis (for motion nodes: in the box returned for that row).
    By structural induction: parallelogram / triangle by convexity (the point is a convex combination of the
    corners), disc / ball from `(pᵢ − cᵢ)² ≤ r²`, union = hull, intersection = meet, cut = first operand,
    product = concatenation, translation = shifted inner box, rotation = extreme coordinates of the images of
    all four corners of the inner box (an affine map on a box is extremal at a corner). -/
theorem bbox_encloses (D : Dom K) (ρs : List (Env K)) (ρ pts : Env K) (box : List (K × K)) (p : List K)
    (hw : D.wfVars) (hρ : ρ ∈ ρs) (hag : Agree D pts ρ) (hm : mem D pts ρ) (hb : bbox D ρs ρ = some box)
    (hp : flatPt D.vars pts = some p) : Inside box p :=
  bbox_encloses_gen D ρs ρ ρ pts box p hw hρ hag hm hb hp

/-! ### non-vacuity of `bbox_encloses` on the executable instance -/

/-- the unit square rotated about the origin by the rational rotation (3/5, 4/5) -/
def exRot : Dom Rat :=
  .rotate "x" (.par "x" (.const [0, 0]) (.const [1, 0]) (.const [0, 1])) (.const [3/5, -4/5, 4/5, 3/5]) (.const [0, 0])

/-- a disc whose centre moves with `t`, translated by `(t, 2t)` -/
def exMove : Dom Rat :=
  .translate "x" (.circle "x" ⟨["t"], fun e => match e.get "t" with | some [t] => [t, 0] | _ => []⟩ (.const [1]))
    ⟨["t"], fun e => match e.get "t" with | some [t] => [t, 2 * t] | _ => []⟩

example : bbox exRot [[]] [] = some [(-4/5, 3/5), (0, 7/5)] := by decide +kernel
example : bbox exMove [[("t", [0])], [("t", [1/2])], [("t", [1])]] [("t", [1/2])] = some [(-1/2, 5/2), (0, 2)] := by decide +kernel

/-- the image (3/5, 4/5) of the corner (1, 0) is a point of the rotated square; all hypotheses of
    `bbox_encloses` hold for it -/
example : Inside [((-4/5 : Rat), 3/5), (0, 7/5)] [3/5, 4/5] := by
  refine bbox_encloses exRot [[]] [] [("x", [3/5, 4/5])] _ _ ?_ (by simp) ?_ ?_ (by decide +kernel) (by decide +kernel)
  · simp [exRot, Dom.wfVars, Dom.vars]
  · simp [exRot, Agree, AgreeG, PFun.const]
  · refine ⟨1, 0, 3/5, 4/5, 3/5, -4/5, 4/5, 3/5, 0, 0, rfl, rfl, rfl, by norm_num, by norm_num, ?_⟩
    exact ⟨1, 0, 0, 0, 1, 0, 0, 1, 1, 0, rfl, rfl, rfl, rfl, by norm_num, by norm_num, by norm_num, by norm_num, by norm_num, by norm_num⟩

/-- parameter-dependent case: the point (3/2, 1) = (1/2, 0) + (1, 0) + (0, 1)… of the moved disc at t = 1/2 -/
example : Inside [((-1/2 : Rat), 5/2), (0, 2)] [2, 1] := by
  refine bbox_encloses exMove [[("t", [0])], [("t", [1/2])], [("t", [1])]] [("t", [1/2])] [("x", [2, 1])] _ _ ?_ (by simp) ?_ ?_
    (by decide +kernel) (by decide +kernel)
  · simp [exMove, Dom.wfVars, Dom.vars]
  · refine ⟨by decide +kernel, fun q => ⟨?_, ?_⟩⟩ <;> simp [PFun.const, Env.get, List.lookup]
  · refine Or.inr (Or.inl ⟨3/2, 0, 2, 1, 1/2, 1, rfl, by decide +kernel, by norm_num, by norm_num, ?_⟩)
    exact ⟨3/2, 0, 1/2, 0, 1, rfl, by decide +kernel, rfl, by norm_num, by norm_num⟩

/-! ### the pinned snapshot's rotation box is not an enclosure -/

/-- **Negative result** (the defect repaired by `fix: Rotate.bounding_box rotates all corners of the inner
    box`): with only the corners (min, min) and (max, max) rotated, the unit square rotated by the rational
    rotation (3/5, 4/5) gets the box `[-1/5, 0] × [0, 7/5]`, but the image `(3/5, 4/5)` of its corner
    `(1, 0)` is a point of the rotated square and lies outside that box. -/
theorem rotate_old_not_enclosing :
    ∃ (pts : Env Rat) (inner old : List (Rat × Rat)) (p : List Rat),
      mem exRot pts [] ∧ flatPt exRot.vars pts = some p ∧
      bbox (.par "x" (.const [0, 0]) (.const [1, 0]) (.const [0, 1])) [[]] [] = some inner ∧
      bboxRotateOld inner [3/5, -4/5, 4/5, 3/5] [0, 0] = some old ∧ ¬ Inside old p := by
  refine ⟨[("x", [3/5, 4/5])], [(0, 1), (0, 1)], [(-1/5, 0), (0, 7/5)], [3/5, 4/5], ?_, by decide +kernel, by decide +kernel,
    by decide +kernel, ?_⟩
  · refine ⟨1, 0, 3/5, 4/5, 3/5, -4/5, 4/5, 3/5, 0, 0, rfl, rfl, rfl, by norm_num, by norm_num, ?_⟩
    exact ⟨1, 0, 0, 0, 1, 0, 0, 1, 1, 0, rfl, rfl, rfl, rfl, by norm_num, by norm_num, by norm_num, by norm_num, by norm_num, by norm_num⟩
  · intro h
    cases h with
    | cons h1 _ => norm_num at h1

/-! ### consumers -/

/-- one coordinate of the normalisation layer: the interval `[lo, hi]` goes into `[-1, 1]` -/
theorem normCoord_bounds (lo hi x : K) (h : lo < hi) (h1 : lo ≤ x) (h2 : x ≤ hi) :
    -1 ≤ TPV.Net.normCoord lo hi x ∧ TPV.Net.normCoord lo hi x ≤ 1 := by
  have hp := sub_pos.mpr h
  have hd : hi - lo ≠ 0 := ne_of_gt hp
  have key : TPV.Net.normCoord lo hi x = 2 * (x - lo) / (hi - lo) - 1 := by
    simp only [TPV.Net.normCoord, TPV.Net.normCoeff]; field_simp; ring
  rw [key]
  constructor
  · have : 0 ≤ 2 * (x - lo) / (hi - lo) := div_nonneg (by linarith) hp.le
    linarith
  · have : 2 * (x - lo) / (hi - lo) ≤ 2 := by rw [div_le_iff₀ hp]; linarith
    linarith

/-- **`NormalizationLayer`** built from a box with non-empty interior maps every point inside the box
    into the cube `[-1, 1]^d` -/
theorem normalize_into_cube {box : List (K × K)} {p : List K} (h : Inside box p) (hne : ∀ b ∈ box, b.1 < b.2) :
    ∃ y, TPV.Net.normRow box p = some y ∧ y.length = p.length ∧ ∀ z ∈ y, -1 ≤ z ∧ z ≤ 1 := by
  have hl : box.length = p.length := List.Forall₂.length_eq h
  refine ⟨List.zipWith (fun (c : K × K) t => t * c.1 + c.2) (box.map fun b => TPV.Net.normCoeff b.1 b.2) p, ?_, ?_, ?_⟩
  · simp [TPV.Net.normRow, TPV.Net.diagRow, hl]
  · simp [hl]
  · unfold Inside at h
    induction h with
    | nil => simp
    | @cons b x bs xs hb hrest ih =>
      intro z hz
      simp only [List.map_cons, List.zipWith_cons_cons, List.mem_cons] at hz
      rcases hz with rfl | hz
      · exact normCoord_bounds b.1 b.2 x (hne b List.mem_cons_self) hb.1 hb.2
      · exact ih (fun b' hb' => hne b' (List.mem_cons_of_mem _ hb')) (List.Forall₂.length_eq hrest) z hz

/-- **consequence for the normalisation layer**: every point of the domain (at a supplied parameter row)
    is mapped into `[-1, 1]^d` by the layer built from the domain's bounding box -/
theorem domain_normalized_into_cube (D : Dom K) (ρs : List (Env K)) (ρ pts : Env K) (box : List (K × K)) (p : List K)
    (hw : D.wfVars) (hρ : ρ ∈ ρs) (hag : Agree D pts ρ) (hm : mem D pts ρ) (hb : bbox D ρs ρ = some box)
    (hp : flatPt D.vars pts = some p) (hne : ∀ b ∈ box, b.1 < b.2) :
    ∃ y, TPV.Net.normRow box p = some y ∧ y.length = p.length ∧ ∀ z ∈ y, -1 ≤ z ∧ z ≤ 1 :=
  normalize_into_cube (bbox_encloses D ρs ρ pts box p hw hρ hag hm hb hp) hne

example : TPV.Net.normRow [((-4/5 : Rat), 3/5), (0, 7/5)] [3/5, 4/5] = some [1, 1/7] := by decide +kernel

/-- a Latin-hypercube proposal coordinate (stratum `j < n`, random number `u ∈ [0, 1)`) lies in the box,
    more precisely in its stratum `[lo + j·w, lo + (j+1)·w)`, `w = (hi − lo)/n` -/
theorem lhs_in_box (lo hi u : K) (n j : Nat) (h : lo < hi) (hj : j < n) (hu0 : 0 ≤ u) (hu1 : u < 1) :
    lo + (hi - lo) / n * j ≤ lhsCoord lo hi (n : K) (j : K) u ∧ lhsCoord lo hi (n : K) (j : K) u < lo + (hi - lo) / n * (j + 1) ∧
    lo ≤ lhsCoord lo hi (n : K) (j : K) u ∧ lhsCoord lo hi (n : K) (j : K) u < hi := by
  have hn : (0 : K) < n := by exact_mod_cast (Nat.lt_of_le_of_lt (Nat.zero_le j) hj)
  have hw : 0 < (hi - lo) / n := div_pos (sub_pos.2 h) hn
  have hjn : (j : K) + 1 ≤ n := by exact_mod_cast hj
  have hj0 : (0 : K) ≤ j := by exact_mod_cast Nat.zero_le j
  have e : (hi - lo) / n * n = hi - lo := div_mul_cancel₀ _ (ne_of_gt hn)
  simp only [lhsCoord]
  refine ⟨by nlinarith, by nlinarith, by nlinarith, ?_⟩
  have : (hi - lo) / n * (j + 1) ≤ (hi - lo) / n * n := mul_le_mul_of_nonneg_left hjn hw.le
  nlinarith

/-- **the Latin-hypercube strata cover the whole box**: every coordinate `x ∈ [lo, hi)` is the proposal
    of exactly the stratum it lies in, for a suitable random number `u ∈ [0, 1)` -/
theorem lhs_covers_box (lo hi x : K) (n : Nat) (h : lo < hi) (hn : 0 < n) (h1 : lo ≤ x) (h2 : x < hi) :
    ∃ j < n, ∃ u, 0 ≤ u ∧ u < 1 ∧ lhsCoord lo hi (n : K) (j : K) u = x := by
  have hnK : (0 : K) < n := by exact_mod_cast hn
  have hw : 0 < (hi - lo) / n := div_pos (sub_pos.2 h) hnK
  have e : (hi - lo) / n * n = hi - lo := div_mul_cancel₀ _ (ne_of_gt hnK)
  have key : ∀ m : Nat, x < lo + (hi - lo) / n * m → ∃ j < m, lo + (hi - lo) / n * j ≤ x ∧ x < lo + (hi - lo) / n * (j + 1) := by
    intro m
    induction m with
    | zero => intro hx; simp at hx; exact absurd h1 (not_le.2 hx)
    | succ m ih =>
      intro hx
      by_cases hc : x < lo + (hi - lo) / n * m
      · obtain ⟨j, hj, hh⟩ := ih hc
        exact ⟨j, Nat.lt_succ_of_lt hj, hh⟩
      · refine ⟨m, Nat.lt_succ_self m, le_of_not_gt hc, ?_⟩
        simpa [Nat.cast_succ] using hx
  obtain ⟨j, hj, hlo, hhi⟩ := key n (by rw [e]; linarith)
  refine ⟨j, hj, (x - (lo + (hi - lo) / n * j)) / ((hi - lo) / n), div_nonneg (by linarith) hw.le, ?_, ?_⟩
  · rw [div_lt_one hw]; linarith
  · simp only [lhsCoord]
    rw [mul_div_cancel₀ _ (ne_of_gt hw)]; ring

/-- **consequence for the Latin-hypercube sampler**: every point of the domain whose coordinates are below
    the upper bounds of the box is a possible proposal — on each axis its coordinate is produced by one of
    the `n` strata (the upper face `x = hi` is the closure of the last stratum). -/
theorem lhs_covers_domain (D : Dom K) (ρs : List (Env K)) (ρ pts : Env K) (box : List (K × K)) (p : List K) (n : Nat)
    (hw : D.wfVars) (hρ : ρ ∈ ρs) (hag : Agree D pts ρ) (hm : mem D pts ρ) (hb : bbox D ρs ρ = some box)
    (hp : flatPt D.vars pts = some p) (hn : 0 < n) :
    List.Forall₂ (fun b x => x < b.2 → ∃ j < n, ∃ u, 0 ≤ u ∧ u < 1 ∧ lhsCoord b.1 b.2 (n : K) (j : K) u = x) box p := by
  have h := bbox_encloses D ρs ρ pts box p hw hρ hag hm hb hp
  unfold Inside at h
  clear hb hp
  induction h with
  | nil => exact List.Forall₂.nil
  | cons hb' _ ih =>
    refine List.Forall₂.cons (fun hlt => ?_) ih
    exact lhs_covers_box _ _ _ n (lt_of_le_of_lt hb'.1 hlt) hn hb'.1 hlt

example : lhsCoord (0 : Rat) 1 4 2 (1/2) = 5/8 := by decide +kernel


/-! ### tightness for primitives at a single parameter row -/

def Dom.isPrim : Dom K → Prop
  | .interval .. | .par .. | .tri .. | .circle .. | .sphere .. => True
  | _ => False

/-- the primitive is not empty at the row: `lb ≤ ub`, `0 ≤ r` (parallelograms and triangles always contain
    their corners; positive measure implies all of this) -/
def PrimOk : Dom K → Env K → Prop
  | .interval _ lb ub, ρ => ∀ l u, lb.f ρ = [l] → ub.f ρ = [u] → l ≤ u
  | .circle _ _ r, ρ | .sphere _ _ r, ρ => ∀ rr, r.f ρ = [rr] → 0 ≤ rr
  | _, _ => True

/-- some point of the set has the value `c` as its `i`-th coordinate -/
def Attains (D : Dom K) (ρ : Env K) (i : Nat) (c : K) : Prop :=
  ∃ pts p, mem D pts ρ ∧ flatPt D.vars pts = some p ∧ p[i]? = some c

theorem eval1_inv {p : PFun K} {ρ : Env K} {a : K} (h : eval1 p ρ = some a) : p.f ρ = [a] := by
  unfold eval1 at h; split at h
  · rename_i b hb; simp only [Option.some.injEq] at h; subst h; exact hb
  · simp at h
theorem eval2_inv {p : PFun K} {ρ : Env K} {a b : K} (h : eval2 p ρ = some (a, b)) : p.f ρ = [a, b] := by
  unfold eval2 at h; split at h
  · rename_i a' b' hb; simp only [Option.some.injEq, Prod.mk.injEq] at h; obtain ⟨rfl, rfl⟩ := h; exact hb
  · simp at h
theorem eval3_inv {p : PFun K} {ρ : Env K} {a b c : K} (h : eval3 p ρ = some (a, b, c)) : p.f ρ = [a, b, c] := by
  unfold eval3 at h; split at h
  · rename_i a' b' c' hb; simp only [Option.some.injEq, Prod.mk.injEq] at h; obtain ⟨rfl, rfl, rfl⟩ := h; exact hb
  · simp at h

theorem span_single (a : K) : span [a] = some (a, a) := by simp [span, minL, maxL]

theorem par_corner_mem (v : String) (o c1 c2 : PFun K) (ρ : Env K) (ox oy ax ay bx cy : K)
    (ho : o.f ρ = [ox, oy]) (h1 : c1.f ρ = [ax, ay]) (h2 : c2.f ρ = [bx, cy])
    (hag : ∀ q, Agree (.par v o c1 c2) [(v, q)] ρ) :
    ∀ p ∈ [(ox, oy), (ax, ay), (bx, cy), (ax + bx - ox, ay + cy - oy)], mem (.par v o c1 c2) [(v, [p.1, p.2])] ρ := by
  intro p hp
  have A := hag [p.1, p.2]
  simp only [Agree, AgreeG] at A
  have key : ∀ s t : K, 0 ≤ s → s ≤ 1 → 0 ≤ t → t ≤ 1 → p.1 = ox + s * (ax - ox) + t * (bx - ox) →
      p.2 = oy + s * (ay - oy) + t * (cy - oy) → mem (.par v o c1 c2) [(v, [p.1, p.2])] ρ := by
    intro s t a b c d e1 e2
    exact ⟨p.1, p.2, ox, oy, ax, ay, bx, cy, s, t, get_single v _, by rw [A.1, ho], by rw [A.2.1, h1], by rw [A.2.2, h2], a, b, c, d, e1, e2⟩
  simp only [List.mem_cons, List.not_mem_nil, or_false] at hp
  rcases hp with rfl | rfl | rfl | rfl
  · exact key 0 0 le_rfl zero_le_one le_rfl zero_le_one (by ring) (by ring)
  · exact key 1 0 zero_le_one le_rfl le_rfl zero_le_one (by ring) (by ring)
  · exact key 0 1 le_rfl zero_le_one zero_le_one le_rfl (by ring) (by ring)
  · exact key 1 1 zero_le_one le_rfl zero_le_one le_rfl (by simp only []; ring) (by simp only []; ring)

theorem tri_corner_mem (v : String) (o c1 c2 : PFun K) (ρ : Env K) (ox oy ax ay bx cy : K)
    (ho : o.f ρ = [ox, oy]) (h1 : c1.f ρ = [ax, ay]) (h2 : c2.f ρ = [bx, cy])
    (hag : ∀ q, Agree (.tri v o c1 c2) [(v, q)] ρ) :
    ∀ p ∈ [(ox, oy), (ax, ay), (bx, cy)], mem (.tri v o c1 c2) [(v, [p.1, p.2])] ρ := by
  intro p hp
  have A := hag [p.1, p.2]
  simp only [Agree, AgreeG] at A
  have key : ∀ s t : K, 0 ≤ s → 0 ≤ t → s + t ≤ 1 → p.1 = ox + s * (ax - ox) + t * (bx - ox) →
      p.2 = oy + s * (ay - oy) + t * (cy - oy) → mem (.tri v o c1 c2) [(v, [p.1, p.2])] ρ := by
    intro s t a b c e1 e2
    exact ⟨p.1, p.2, ox, oy, ax, ay, bx, cy, s, t, get_single v _, by rw [A.1, ho], by rw [A.2.1, h1], by rw [A.2.2, h2], a, b, c, e1, e2⟩
  simp only [List.mem_cons, List.not_mem_nil, or_false] at hp
  rcases hp with rfl | rfl | rfl
  · exact key 0 0 le_rfl le_rfl (by norm_num) (by ring) (by ring)
  · exact key 1 0 zero_le_one le_rfl (by norm_num) (by ring) (by ring)
  · exact key 0 1 le_rfl zero_le_one (by norm_num) (by ring) (by ring)

/-- **Tightness.**  For a primitive (interval, parallelogram, triangle, disc, ball) that is not empty,
    evaluated at a single parameter row, every bound of the returned box is attained: for each axis there
    is a point of the set whose coordinate equals the minimum and one whose coordinate equals the maximum. -/
theorem bbox_tight_prim (D : Dom K) (ρ : Env K) (box : List (K × K)) (hprim : D.isPrim) (hok : PrimOk D ρ)
    (hag : ∀ v q, D.vars = [v] → Agree D [(v, q)] ρ) (hb : bbox D [ρ] ρ = some box) :
    ∀ i (h : i < box.length), Attains D ρ i box[i].1 ∧ Attains D ρ i box[i].2 := by
  cases D with
  | interval v lb ub =>
    have hag' := fun q => hag v q rfl
    simp only [bbox] at hb
    split at hb
    · rename_i ls us hls hus
      obtain ⟨l, hl, rfl⟩ := mapOpt_single hls
      obtain ⟨u, hu, rfl⟩ := mapOpt_single hus
      simp only [minL, maxL, List.foldl_nil, Option.some.injEq] at hb
      subst hb
      have hl' := eval1_inv hl
      have hu' := eval1_inv hu
      have hle := hok l u hl' hu'
      intro i h
      have hi : i = 0 := by simpa using h
      subst hi
      have A1 := hag' [l]; have A2 := hag' [u]
      simp only [Agree, AgreeG] at A1 A2
      refine ⟨⟨[(v, [l])], [l], ⟨l, l, u, get_single v _, by rw [A1.1, hl'], by rw [A1.2, hu'], le_rfl, hle⟩,
                flatPt_single (get_single v _), rfl⟩,
              ⟨[(v, [u])], [u], ⟨u, l, u, get_single v _, by rw [A2.1, hl'], by rw [A2.2, hu'], hle, le_rfl⟩,
                flatPt_single (get_single v _), rfl⟩⟩
    · simp at hb
  | par v o c1 c2 =>
    have hag' := fun q => hag v q rfl
    simp only [bbox] at hb
    split at hb
    · rename_i cs hcs
      obtain ⟨cr, hcr, rfl⟩ := mapOpt_single hcs
      simp only [List.flatten_cons, List.flatten_nil, List.append_nil] at hb
      unfold parCorners at hcr
      split at hcr
      · rename_i ox oy ax ay bx cy ho h1 h2
        simp only [Option.some.injEq] at hcr
        subst hcr
        have M := par_corner_mem v o c1 c2 ρ ox oy ax ay bx cy (eval2_inv ho) (eval2_inv h1) (eval2_inv h2) hag'
        obtain ⟨x0, x1, y0, y1, rfl, -, ⟨p1, hp1, e1⟩, ⟨p2, hp2, e2⟩, ⟨p3, hp3, e3⟩, ⟨p4, hp4, e4⟩⟩ := box2_spec hb
        have at0 : ∀ p ∈ [(ox, oy), (ax, ay), (bx, cy), (ax + bx - ox, ay + cy - oy)], Attains (.par v o c1 c2) ρ 0 p.1 :=
          fun p hp => ⟨[(v, [p.1, p.2])], [p.1, p.2], M p hp, flatPt_single (get_single v _), rfl⟩
        have at1 : ∀ p ∈ [(ox, oy), (ax, ay), (bx, cy), (ax + bx - ox, ay + cy - oy)], Attains (.par v o c1 c2) ρ 1 p.2 :=
          fun p hp => ⟨[(v, [p.1, p.2])], [p.1, p.2], M p hp, flatPt_single (get_single v _), rfl⟩
        intro i h
        have hi : i = 0 ∨ i = 1 := by simp at h; omega
        rcases hi with rfl | rfl
        · exact ⟨e1 ▸ at0 p1 hp1, e2 ▸ at0 p2 hp2⟩
        · exact ⟨e3 ▸ at1 p3 hp3, e4 ▸ at1 p4 hp4⟩
      · simp at hcr
    · simp at hb
  | tri v o c1 c2 =>
    have hag' := fun q => hag v q rfl
    simp only [bbox] at hb
    split at hb
    · rename_i cs hcs
      obtain ⟨cr, hcr, rfl⟩ := mapOpt_single hcs
      simp only [List.flatten_cons, List.flatten_nil, List.append_nil] at hb
      unfold triCorners at hcr
      split at hcr
      · rename_i o' a b ho h1 h2
        obtain ⟨ox, oy⟩ := o'; obtain ⟨ax, ay⟩ := a; obtain ⟨bx, cy⟩ := b
        simp only [Option.some.injEq] at hcr
        subst hcr
        have M := tri_corner_mem v o c1 c2 ρ ox oy ax ay bx cy (eval2_inv ho) (eval2_inv h1) (eval2_inv h2) hag'
        obtain ⟨x0, x1, y0, y1, rfl, -, ⟨p1, hp1, e1⟩, ⟨p2, hp2, e2⟩, ⟨p3, hp3, e3⟩, ⟨p4, hp4, e4⟩⟩ := box2_spec hb
        have at0 : ∀ p ∈ [(ox, oy), (ax, ay), (bx, cy)], Attains (.tri v o c1 c2) ρ 0 p.1 :=
          fun p hp => ⟨[(v, [p.1, p.2])], [p.1, p.2], M p hp, flatPt_single (get_single v _), rfl⟩
        have at1 : ∀ p ∈ [(ox, oy), (ax, ay), (bx, cy)], Attains (.tri v o c1 c2) ρ 1 p.2 :=
          fun p hp => ⟨[(v, [p.1, p.2])], [p.1, p.2], M p hp, flatPt_single (get_single v _), rfl⟩
        intro i h
        have hi : i = 0 ∨ i = 1 := by simp at h; omega
        rcases hi with rfl | rfl
        · exact ⟨e1 ▸ at0 p1 hp1, e2 ▸ at0 p2 hp2⟩
        · exact ⟨e3 ▸ at1 p3 hp3, e4 ▸ at1 p4 hp4⟩
      · simp at hcr
    · simp at hb
  | circle v c r =>
    have hag' := fun q => hag v q rfl
    simp only [bbox] at hb
    split at hb
    · rename_i cs rs hcs hrs
      obtain ⟨cc, hc, rfl⟩ := mapOpt_single hcs
      obtain ⟨rr, hr, rfl⟩ := mapOpt_single hrs
      obtain ⟨cx, cy⟩ := cc
      simp only [List.map_cons, List.map_nil, span_single, maxL, List.foldl_nil, Option.some.injEq] at hb
      subst hb
      have hc' := eval2_inv hc
      have hr' := eval1_inv hr
      have h0 := hok rr hr'
      have M : ∀ x y : K, (x - cx) ^ 2 + (y - cy) ^ 2 ≤ rr ^ 2 → mem (.circle v c r) [(v, [x, y])] ρ := by
        intro x y hd
        have A := hag' [x, y]
        simp only [Agree, AgreeG] at A
        exact ⟨x, y, cx, cy, rr, get_single v _, by rw [A.1, hc'], by rw [A.2, hr'], h0, hd⟩
      intro i h
      have hi : i = 0 ∨ i = 1 := by simp at h; omega
      rcases hi with rfl | rfl
      · exact ⟨⟨[(v, [cx - rr, cy])], _, M _ _ (by ring_nf; exact le_rfl), flatPt_single (get_single v _), rfl⟩,
               ⟨[(v, [cx + rr, cy])], _, M _ _ (by ring_nf; exact le_rfl), flatPt_single (get_single v _), rfl⟩⟩
      · exact ⟨⟨[(v, [cx, cy - rr])], _, M _ _ (by ring_nf; exact le_rfl), flatPt_single (get_single v _), rfl⟩,
               ⟨[(v, [cx, cy + rr])], _, M _ _ (by ring_nf; exact le_rfl), flatPt_single (get_single v _), rfl⟩⟩
    · simp at hb
  | sphere v c r =>
    have hag' := fun q => hag v q rfl
    simp only [bbox] at hb
    split at hb
    · rename_i cs rs hcs hrs
      obtain ⟨cc, hc, rfl⟩ := mapOpt_single hcs
      obtain ⟨rr, hr, rfl⟩ := mapOpt_single hrs
      obtain ⟨cx, cy, cz⟩ := cc
      simp only [List.map_cons, List.map_nil, span_single, maxL, List.foldl_nil, Option.some.injEq] at hb
      subst hb
      have hc' := eval3_inv hc
      have hr' := eval1_inv hr
      have h0 := hok rr hr'
      have M : ∀ x y z : K, (x - cx) ^ 2 + (y - cy) ^ 2 + (z - cz) ^ 2 ≤ rr ^ 2 → mem (.sphere v c r) [(v, [x, y, z])] ρ := by
        intro x y z hd
        have A := hag' [x, y, z]
        simp only [Agree, AgreeG] at A
        exact ⟨x, y, z, cx, cy, cz, rr, get_single v _, by rw [A.1, hc'], by rw [A.2, hr'], h0, hd⟩
      intro i h
      have hi : i = 0 ∨ i = 1 ∨ i = 2 := by simp at h; omega
      rcases hi with rfl | rfl | rfl
      · exact ⟨⟨[(v, [cx - rr, cy, cz])], _, M _ _ _ (by ring_nf; exact le_rfl), flatPt_single (get_single v _), rfl⟩,
               ⟨[(v, [cx + rr, cy, cz])], _, M _ _ _ (by ring_nf; exact le_rfl), flatPt_single (get_single v _), rfl⟩⟩
      · exact ⟨⟨[(v, [cx, cy - rr, cz])], _, M _ _ _ (by ring_nf; exact le_rfl), flatPt_single (get_single v _), rfl⟩,
               ⟨[(v, [cx, cy + rr, cz])], _, M _ _ _ (by ring_nf; exact le_rfl), flatPt_single (get_single v _), rfl⟩⟩
      · exact ⟨⟨[(v, [cx, cy, cz - rr])], _, M _ _ _ (by ring_nf; exact le_rfl), flatPt_single (get_single v _), rfl⟩,
               ⟨[(v, [cx, cy, cz + rr])], _, M _ _ _ (by ring_nf; exact le_rfl), flatPt_single (get_single v _), rfl⟩⟩
    · simp at hb
  | union _ _ | cut _ _ | inter _ _ | prod _ _ | translate _ _ _ | rotate _ _ _ _ | bdry _ | bdryL _ | bdryR _ =>
    exact absurd hprim (by simp [Dom.isPrim])


/-- non-vacuity: the disc of radius 3 about (1, 2) — the bound −2 of the first axis is attained -/
example : Attains (.circle "x" (.const [1, 2]) (.const [3]) : Dom Rat) [] 0 (-2) :=
  (bbox_tight_prim (.circle "x" (.const [1, 2]) (.const [3])) [] [(-2, 4), (-1, 5)] trivial
    (by intro rr h; simp only [PFun.const, List.cons.injEq, and_true] at h; subst h; norm_num)
    (by intro v q _; simp [Agree, AgreeG, PFun.const]) (by decide +kernel) 0 (by simp)).1

/-! ### the whole call `bounding_box(params)`: one flat box, or one box per row -/

/-- motions that declare no arguments are constant functions (what the constructors wrap for numbers /
    lists / tensors) -/
def ConstMotions : Dom K → Prop
  | .interval .. | .par .. | .tri .. | .circle .. | .sphere .. => True
  | .union a b | .cut a b | .inter a b | .prod a b => ConstMotions a ∧ ConstMotions b
  | .translate _ d t => (t.args = [] → ∀ ρ ρ', t.f ρ = t.f ρ') ∧ ConstMotions d
  | .rotate _ d m c => (m.args = [] → ∀ ρ ρ', m.f ρ = m.f ρ') ∧ (c.args = [] → ∀ ρ ρ', c.f ρ = c.f ρ') ∧ ConstMotions d
  | .bdry d | .bdryL d | .bdryR d => ConstMotions d

theorem bbox_row_irrelevant (D : Dom K) : D.perRow = false → ConstMotions D → ∀ ρs ρ ρ', bbox D ρs ρ = bbox D ρs ρ' := by
  induction D with
  | interval | par | tri | circle | sphere => intros; simp only [bbox]
  | union a b _ _ | inter a b _ _ | prod a b _ _ => intros; simp only [bbox]
  | cut a b iha _ =>
    intro hp hc ρs ρ ρ'
    simp only [Dom.perRow] at hp
    simp only [bbox, iha hp hc.1 ρs ρ ρ']
  | translate v d t ih =>
    intro hp hc ρs ρ ρ'
    simp only [Dom.perRow, Bool.or_eq_false_iff, Bool.not_eq_false', List.isEmpty_iff] at hp
    simp only [bbox, ih hp.2 hc.2 ρs ρ ρ', hc.1 hp.1 ρ ρ']
  | rotate v d m c ih =>
    intro hp hc ρs ρ ρ'
    simp only [Dom.perRow, Bool.or_eq_false_iff, Bool.not_eq_false', List.isEmpty_iff] at hp
    simp only [bbox, ih hp.2 hc.2.2 ρs ρ ρ', hc.1 hp.1.1 ρ ρ', hc.2.1 hp.1.2 ρ ρ']
  | bdry d ih | bdryL d ih | bdryR d ih =>
    intro hp hc ρs ρ ρ'
    simp only [Dom.perRow] at hp
    simp only [bbox, ih hp hc ρs ρ ρ']

theorem mapOpt_map {α β : Type} {f : α → Option β} : ∀ {l : List α} {r : List β}, mapOpt f l = some r → l.map f = r.map some := by
  intro l
  induction l with
  | nil => intro r h; simp only [mapOpt, Option.some.injEq] at h; subst h; rfl
  | cons x xs ih =>
    intro r h
    simp only [mapOpt] at h
    split at h
    · rename_i b bs hb hbs
      simp only [Option.some.injEq] at h
      subst h
      simp [hb, ih hbs]
    · simp at h

/-- **flat result**: when the call returns a single box (at most one row, or no motion depends on
    parameters), that box encloses the set at EVERY supplied parameter row -/
theorem bboxCall_flat_encloses (D : Dom K) (ρs : List (Env K)) (box : List (K × K))
    (hcall : bboxCall D ρs = some (.inl box)) (hw : D.wfVars) (hc : ConstMotions D) :
    ∀ ρ ∈ ρs, ∀ pts p, Agree D pts ρ → mem D pts ρ → flatPt D.vars pts = some p → Inside box p := by
  intro ρ hρ pts p hag hm hp
  cases ρs with
  | nil => simp at hρ
  | cons ρ0 rest =>
    simp only [bboxCall] at hcall
    split at hcall
    · rename_i hcond
      have hb0 : bbox D (ρ0 :: rest) ρ0 = some box := by
        cases hbb : bbox D (ρ0 :: rest) ρ0 with
        | none => simp [hbb] at hcall
        | some b => simp [hbb] at hcall; rw [hcall]
      have hb : bbox D (ρ0 :: rest) ρ = some box := by
        simp only [Bool.or_eq_true, List.isEmpty_iff, Bool.not_eq_true'] at hcond
        rcases hcond with hr | hpr
        · subst hr
          simp only [List.mem_singleton] at hρ
          rw [hρ]; exact hb0
        · rw [bbox_row_irrelevant D hpr hc _ ρ ρ0]; exact hb0
      exact bbox_encloses D _ ρ pts box p hw hρ hag hm hb hp
    · cases hmm : mapOpt (bbox D (ρ0 :: rest)) (ρ0 :: rest) <;> simp [hmm] at hcall

/-- **one box per row**: when the call returns a box per parameter row (a motion depends on parameters and
    two or more rows are supplied), there are as many boxes as rows and the `i`-th box encloses the set at
    the `i`-th row -/
theorem bboxCall_rows_enclose (D : Dom K) (ρs : List (Env K)) (boxes : List (List (K × K)))
    (hcall : bboxCall D ρs = some (.inr boxes)) (hw : D.wfVars) :
    boxes.length = ρs.length ∧
    ∀ i (h : i < ρs.length) b, boxes[i]? = some b →
      ∀ pts p, Agree D pts ρs[i] → mem D pts ρs[i] → flatPt D.vars pts = some p → Inside b p := by
  cases ρs with
  | nil => simp [bboxCall] at hcall
  | cons ρ0 rest =>
    simp only [bboxCall] at hcall
    split at hcall
    · cases hbb : bbox D (ρ0 :: rest) ρ0 <;> simp [hbb] at hcall
    · cases hmm : mapOpt (bbox D (ρ0 :: rest)) (ρ0 :: rest) with
      | none => simp [hmm] at hcall
      | some bs =>
        simp only [hmm, Option.map_some, Option.some.injEq, Sum.inr.injEq] at hcall
        subst hcall
        have hmap := mapOpt_map hmm
        have hlen : bs.length = (ρ0 :: rest).length := by
          have := congrArg List.length hmap; simpa using this.symm
        refine ⟨hlen, ?_⟩
        intro i h b hb pts p hag hm hp
        have e : ((ρ0 :: rest).map (bbox D (ρ0 :: rest)))[i]? = (bs.map some)[i]? := by rw [hmap]
        rw [List.getElem?_map, List.getElem?_map, List.getElem?_eq_getElem h, hb] at e
        simp only [Option.map_some, Option.some.injEq] at e
        exact bbox_encloses D _ _ pts b p hw (List.getElem_mem h) hag hm e hp

example : bboxCall exMove [[("t", [0])], [("t", [1])]] = some (.inr [[(-1, 2), (-1, 1)], [(0, 3), (1, 3)]]) := by decide +kernel
example : bboxCall exRot [[]] = some (.inl [(-4/5, 3/5), (0, 7/5)]) := by decide +kernel


/-! ### the hypothesis `Agree` holds for the parameter terms of the driver / harness -/

theorem get_append_of_none (v : String) (a b : Env K) (h : a.get v = none) : (a ++ b).get v = b.get v := by
  simp only [Env.get] at h ⊢
  rw [List.lookup_append, h]; rfl

theorem PT.eval_append (t : PT K) (pts ρ : Env K) (h : ∀ v ∈ t.vars, pts.get v = none) :
    t.eval (pts ++ ρ) = t.eval ρ := by
  induction t with
  | c k => rfl
  | var n i => simp only [PT.eval, get_append_of_none n pts ρ (h n (by simp [PT.vars]))]
  | add a b iha ihb | sub a b iha ihb | mul a b iha ihb =>
    simp only [PT.vars, List.mem_append] at h
    simp only [PT.eval, iha (fun v hv => h v (Or.inl hv)), ihb (fun v hv => h v (Or.inr hv))]
  | neg a iha =>
    simp only [PT.vars] at h
    simp only [PT.eval, iha h]

/-- a parameter given by terms (what the harness generates and the driver parses) reads the same values from
    the parameter row alone as from point ⊕ row whenever the point binds none of the term's variables —
    the hypothesis `Agree` of `bbox_encloses` is met by every generated case -/
theorem pfunOf_agree (ts : List (PT K)) (pts ρ : Env K) (h : ∀ t ∈ ts, ∀ v ∈ t.vars, pts.get v = none) :
    (pfunOf ts).f (pts ++ ρ) = (pfunOf ts).f ρ := by
  have e : ts.mapM (·.eval (pts ++ ρ)) = ts.mapM (·.eval ρ) := by
    induction ts with
    | nil => rfl
    | cons t ts ih =>
      simp only [List.mapM_cons, PT.eval_append t pts ρ (h t List.mem_cons_self),
        ih (fun t' ht' => h t' (List.mem_cons_of_mem _ ht'))]
  simp only [pfunOf, e]

example : (pfunOf [PT.add (.c (1 : Rat)) (.mul (.c 2) (.var "t" 0))]).f ([("x", [5, 6])] ++ [("t", [3])]) = [7] := by decide +kernel


/-! ### rotations in three dimensions -/

theorem box3_spec {l : List (K × K × K)} {b : List (K × K)} (h : box3 l = some b) :
    ∃ x0 x1 y0 y1 z0 z1, b = [(x0, x1), (y0, y1), (z0, z1)] ∧
      ∀ p ∈ l, (x0 ≤ p.1 ∧ p.1 ≤ x1) ∧ (y0 ≤ p.2.1 ∧ p.2.1 ≤ y1) ∧ (z0 ≤ p.2.2 ∧ p.2.2 ≤ z1) := by
  unfold box3 at h
  split at h
  · rename_i sx sy sz hx hy hz
    simp only [Option.some.injEq] at h
    obtain ⟨x0, x1⟩ := sx; obtain ⟨y0, y1⟩ := sy; obtain ⟨z0, z1⟩ := sz
    refine ⟨x0, x1, y0, y1, z0, z1, h.symm, fun p hp => ⟨?_, ?_, ?_⟩⟩
    · exact (span_spec hx).1 p.1 (List.mem_map_of_mem hp)
    · exact (span_spec hy).1 p.2.1 (List.mem_map_of_mem hp)
    · exact (span_spec hz).1 p.2.2 (List.mem_map_of_mem hp)
  · simp at h

/-- an affine function of three variables on a box is bounded below by its smallest corner value -/
theorem affine_box3_lo (A B C q1 q2 q3 x0 x1 y0 y1 z0 z1 cx cy cz e lo : K)
    (hx : x0 ≤ q1 ∧ q1 ≤ x1) (hy : y0 ≤ q2 ∧ q2 ≤ y1) (hz : z0 ≤ q3 ∧ q3 ≤ z1)
    (h000 : lo ≤ A * (x0 - cx) + B * (y0 - cy) + C * (z0 - cz) + e) (h001 : lo ≤ A * (x0 - cx) + B * (y0 - cy) + C * (z1 - cz) + e)
    (h010 : lo ≤ A * (x0 - cx) + B * (y1 - cy) + C * (z0 - cz) + e) (h011 : lo ≤ A * (x0 - cx) + B * (y1 - cy) + C * (z1 - cz) + e)
    (h100 : lo ≤ A * (x1 - cx) + B * (y0 - cy) + C * (z0 - cz) + e) (h101 : lo ≤ A * (x1 - cx) + B * (y0 - cy) + C * (z1 - cz) + e)
    (h110 : lo ≤ A * (x1 - cx) + B * (y1 - cy) + C * (z0 - cz) + e) (h111 : lo ≤ A * (x1 - cx) + B * (y1 - cy) + C * (z1 - cz) + e) :
    lo ≤ A * (q1 - cx) + B * (q2 - cy) + C * (q3 - cz) + e := by
  have a : A * x0 ≤ A * q1 ∨ A * x1 ≤ A * q1 := by
    rcases le_total 0 A with hA | hA
    · exact Or.inl (mul_le_mul_of_nonneg_left hx.1 hA)
    · exact Or.inr (mul_le_mul_of_nonpos_left hx.2 hA)
  have b : B * y0 ≤ B * q2 ∨ B * y1 ≤ B * q2 := by
    rcases le_total 0 B with hB | hB
    · exact Or.inl (mul_le_mul_of_nonneg_left hy.1 hB)
    · exact Or.inr (mul_le_mul_of_nonpos_left hy.2 hB)
  have c : C * z0 ≤ C * q3 ∨ C * z1 ≤ C * q3 := by
    rcases le_total 0 C with hC | hC
    · exact Or.inl (mul_le_mul_of_nonneg_left hz.1 hC)
    · exact Or.inr (mul_le_mul_of_nonpos_left hz.2 hC)
  rcases a with a | a <;> rcases b with b | b <;> rcases c with c | c <;> linarith

theorem affine_box3_hi (A B C q1 q2 q3 x0 x1 y0 y1 z0 z1 cx cy cz e hi : K)
    (hx : x0 ≤ q1 ∧ q1 ≤ x1) (hy : y0 ≤ q2 ∧ q2 ≤ y1) (hz : z0 ≤ q3 ∧ q3 ≤ z1)
    (h000 : A * (x0 - cx) + B * (y0 - cy) + C * (z0 - cz) + e ≤ hi) (h001 : A * (x0 - cx) + B * (y0 - cy) + C * (z1 - cz) + e ≤ hi)
    (h010 : A * (x0 - cx) + B * (y1 - cy) + C * (z0 - cz) + e ≤ hi) (h011 : A * (x0 - cx) + B * (y1 - cy) + C * (z1 - cz) + e ≤ hi)
    (h100 : A * (x1 - cx) + B * (y0 - cy) + C * (z0 - cz) + e ≤ hi) (h101 : A * (x1 - cx) + B * (y0 - cy) + C * (z1 - cz) + e ≤ hi)
    (h110 : A * (x1 - cx) + B * (y1 - cy) + C * (z0 - cz) + e ≤ hi) (h111 : A * (x1 - cx) + B * (y1 - cy) + C * (z1 - cz) + e ≤ hi) :
    A * (q1 - cx) + B * (q2 - cy) + C * (q3 - cz) + e ≤ hi := by
  have a : A * q1 ≤ A * x0 ∨ A * q1 ≤ A * x1 := by
    rcases le_total 0 A with hA | hA
    · exact Or.inr (mul_le_mul_of_nonneg_left hx.2 hA)
    · exact Or.inl (mul_le_mul_of_nonpos_left hx.1 hA)
  have b : B * q2 ≤ B * y0 ∨ B * q2 ≤ B * y1 := by
    rcases le_total 0 B with hB | hB
    · exact Or.inr (mul_le_mul_of_nonneg_left hy.2 hB)
    · exact Or.inl (mul_le_mul_of_nonpos_left hy.1 hB)
  have c : C * q3 ≤ C * z0 ∨ C * q3 ≤ C * z1 := by
    rcases le_total 0 C with hC | hC
    · exact Or.inr (mul_le_mul_of_nonneg_left hz.2 hC)
    · exact Or.inl (mul_le_mul_of_nonpos_left hz.1 hC)
  rcases a with a | a <;> rcases b with b | b <;> rcases c with c | c <;> linarith

/-- **3-D rotation** (`Rotate` with an explicit 3×3 matrix, any matrix): the image `M (q − c) + c` of every
    point `q` of the inner box lies in the box spanned by the extreme coordinates of the images of all eight
    corners.  Together with `bbox_encloses` for the inner domain: the rotated domain is enclosed. -/
theorem rotate3_encloses (bd : List (K × K)) (m c : List K) (box : List (K × K)) (q1 q2 q3 : K)
    (hq : Inside bd [q1, q2, q3]) (hb : bboxRotate3 bd m c = some box) :
    ∃ img, rotPt3 m c q1 q2 q3 = some img ∧ Inside box [img.1, img.2.1, img.2.2] := by
  unfold Inside at hq
  cases hq with
  | cons h1 hq =>
    cases hq with
    | cons h2 hq =>
      cases hq with
      | cons h3 hq =>
        cases hq
        rename_i b1 b2 b3
        obtain ⟨x0, x1⟩ := b1; obtain ⟨y0, y1⟩ := b2; obtain ⟨z0, z1⟩ := b3
        simp only at h1 h2 h3
        simp only [bboxRotate3] at hb
        split at hb
        · rename_i imgs himgs
          match m, c with
          | [a11, a12, a13, a21, a22, a23, a31, a32, a33], [cx, cy, cz] =>
            simp only [mapOpt, rotPt3] at himgs
            simp only [Option.some.injEq] at himgs
            subst himgs
            obtain ⟨X0, X1, Y0, Y1, Z0, Z1, rfl, hall⟩ := box3_spec hb
            have c000 := hall _ List.mem_cons_self
            have c001 := hall _ (List.mem_cons_of_mem _ List.mem_cons_self)
            have c010 := hall _ (List.mem_cons_of_mem _ (List.mem_cons_of_mem _ List.mem_cons_self))
            have c011 := hall _ (List.mem_cons_of_mem _ (List.mem_cons_of_mem _ (List.mem_cons_of_mem _ List.mem_cons_self)))
            have c100 := hall _ (List.mem_cons_of_mem _ (List.mem_cons_of_mem _ (List.mem_cons_of_mem _ (List.mem_cons_of_mem _ List.mem_cons_self))))
            have c101 := hall _ (List.mem_cons_of_mem _ (List.mem_cons_of_mem _ (List.mem_cons_of_mem _ (List.mem_cons_of_mem _ (List.mem_cons_of_mem _ List.mem_cons_self)))))
            have c110 := hall _ (List.mem_cons_of_mem _ (List.mem_cons_of_mem _ (List.mem_cons_of_mem _ (List.mem_cons_of_mem _ (List.mem_cons_of_mem _ (List.mem_cons_of_mem _ List.mem_cons_self))))))
            have c111 := hall _ (List.mem_cons_of_mem _ (List.mem_cons_of_mem _ (List.mem_cons_of_mem _ (List.mem_cons_of_mem _ (List.mem_cons_of_mem _ (List.mem_cons_of_mem _ (List.mem_cons_of_mem _ List.mem_cons_self)))))))
            simp only at c000 c001 c010 c011 c100 c101 c110 c111
            refine ⟨_, rfl, List.Forall₂.cons ⟨?_, ?_⟩ (List.Forall₂.cons ⟨?_, ?_⟩ (List.Forall₂.cons ⟨?_, ?_⟩ List.Forall₂.nil))⟩
            · exact affine_box3_lo a11 a12 a13 q1 q2 q3 x0 x1 y0 y1 z0 z1 cx cy cz cx X0 h1 h2 h3 c000.1.1 c001.1.1 c010.1.1 c011.1.1 c100.1.1 c101.1.1 c110.1.1 c111.1.1
            · exact affine_box3_hi a11 a12 a13 q1 q2 q3 x0 x1 y0 y1 z0 z1 cx cy cz cx X1 h1 h2 h3 c000.1.2 c001.1.2 c010.1.2 c011.1.2 c100.1.2 c101.1.2 c110.1.2 c111.1.2
            · exact affine_box3_lo a21 a22 a23 q1 q2 q3 x0 x1 y0 y1 z0 z1 cx cy cz cy Y0 h1 h2 h3 c000.2.1.1 c001.2.1.1 c010.2.1.1 c011.2.1.1 c100.2.1.1 c101.2.1.1 c110.2.1.1 c111.2.1.1
            · exact affine_box3_hi a21 a22 a23 q1 q2 q3 x0 x1 y0 y1 z0 z1 cx cy cz cy Y1 h1 h2 h3 c000.2.1.2 c001.2.1.2 c010.2.1.2 c011.2.1.2 c100.2.1.2 c101.2.1.2 c110.2.1.2 c111.2.1.2
            · exact affine_box3_lo a31 a32 a33 q1 q2 q3 x0 x1 y0 y1 z0 z1 cx cy cz cz Z0 h1 h2 h3 c000.2.2.1 c001.2.2.1 c010.2.2.1 c011.2.2.1 c100.2.2.1 c101.2.2.1 c110.2.2.1 c111.2.2.1
            · exact affine_box3_hi a31 a32 a33 q1 q2 q3 x0 x1 y0 y1 z0 z1 cx cy cz cz Z1 h1 h2 h3 c000.2.2.2 c001.2.2.2 c010.2.2.2 c011.2.2.2 c100.2.2.2 c101.2.2.2 c110.2.2.2 c111.2.2.2
          | [], _ | [_], _ | [_, _], _ | [_, _, _], _ | [_, _, _, _], _ | [_, _, _, _, _], _ | [_, _, _, _, _, _], _
          | [_, _, _, _, _, _, _], _ | [_, _, _, _, _, _, _, _], _ | _ :: _ :: _ :: _ :: _ :: _ :: _ :: _ :: _ :: _ :: _, _ =>
            simp [mapOpt, rotPt3] at himgs
          | [_, _, _, _, _, _, _, _, _], [] | [_, _, _, _, _, _, _, _, _], [_] | [_, _, _, _, _, _, _, _, _], [_, _]
          | [_, _, _, _, _, _, _, _, _], _ :: _ :: _ :: _ :: _ =>
            simp [mapOpt, rotPt3] at himgs
        · simp at hb

/-- the unit cube rotated by Rz(3/5,4/5)·Rx(5/13,12/13) about the origin; the seeded five-corner variant
    would miss the corner image that attains a bound -/
example : bboxRotate3 [((0 : Rat), 1), (0, 1), (0, 1)] [3/5, -4/13, 48/65, 4/5, 3/13, -36/65, 0, 12/13, 5/13] [0, 0, 0]
    = some [(-4/13, 87/65), (-36/65, 67/65), (0, 17/13)] := by decide +kernel


/-! ### evaluated copies `D(**σ)` -/

theorem mapOpt_comp {α β γ : Type} (f : β → Option γ) (g : α → β) : ∀ l : List α, mapOpt (fun a => f (g a)) l = mapOpt f (l.map g)
  | [] => rfl
  | a :: as => by simp only [mapOpt, List.map_cons, mapOpt_comp f g as]

theorem rowsHull_comp (f : Env K → Option (List (K × K))) (g : Env K → Env K) (ρs : List (Env K)) :
    rowsHull (fun ρ => f (g ρ)) ρs = rowsHull f (ρs.map g) := by
  simp only [rowsHull, mapOpt_comp]

theorem mapOpt_eval1_peval (p : PFun K) (σ : Env K) (ρs : List (Env K)) :
    mapOpt (eval1 (p.peval σ)) ρs = mapOpt (eval1 p) (ρs.map (· ++ σ)) := mapOpt_comp (eval1 p) (· ++ σ) ρs
theorem mapOpt_eval2_peval (p : PFun K) (σ : Env K) (ρs : List (Env K)) :
    mapOpt (eval2 (p.peval σ)) ρs = mapOpt (eval2 p) (ρs.map (· ++ σ)) := mapOpt_comp (eval2 p) (· ++ σ) ρs
theorem mapOpt_eval3_peval (p : PFun K) (σ : Env K) (ρs : List (Env K)) :
    mapOpt (eval3 (p.peval σ)) ρs = mapOpt (eval3 p) (ρs.map (· ++ σ)) := mapOpt_comp (eval3 p) (· ++ σ) ρs
theorem mapOpt_parCorners_peval (o c1 c2 : PFun K) (σ : Env K) (ρs : List (Env K)) :
    mapOpt (parCorners (o.peval σ) (c1.peval σ) (c2.peval σ)) ρs = mapOpt (parCorners o c1 c2) (ρs.map (· ++ σ)) :=
  mapOpt_comp (parCorners o c1 c2) (· ++ σ) ρs
theorem mapOpt_triCorners_peval (o c1 c2 : PFun K) (σ : Env K) (ρs : List (Env K)) :
    mapOpt (triCorners (o.peval σ) (c1.peval σ) (c2.peval σ)) ρs = mapOpt (triCorners o c1 c2) (ρs.map (· ++ σ)) :=
  mapOpt_comp (triCorners o c1 c2) (· ++ σ) ρs

/-- **The box of an evaluated copy.**  `D(**σ)` (every parameter function partially evaluated at `σ`, the
    model's `Dom.peval`) asked with the rows `ρs` returns exactly the box `D` itself returns for the rows
    `ρ ++ σ`: the copy carries the fixed values and nothing else — in particular its box does not depend on
    the parent's later use, on other copies made from the same parent, or on the order in which they were
    made (in the model an evaluated copy is a value; the harness checks that the live objects behave so). -/
theorem bbox_peval (σ : Env K) (D : Dom K) : ∀ (ρs : List (Env K)) (ρ : Env K),
    bbox (D.peval σ) ρs ρ = bbox D (ρs.map (· ++ σ)) (ρ ++ σ) := by
  induction D with
  | interval v lb ub =>
    intro ρs ρ
    simp only [Dom.peval, bbox, mapOpt_eval1_peval]
  | par v o c1 c2 =>
    intro ρs ρ
    simp only [Dom.peval, bbox, mapOpt_parCorners_peval]
  | tri v o c1 c2 =>
    intro ρs ρ
    simp only [Dom.peval, bbox, mapOpt_triCorners_peval]
  | circle v c r =>
    intro ρs ρ
    simp only [Dom.peval, bbox, mapOpt_eval1_peval, mapOpt_eval2_peval]
  | sphere v c r =>
    intro ρs ρ
    simp only [Dom.peval, bbox, mapOpt_eval1_peval, mapOpt_eval3_peval]
  | union a b iha ihb | inter a b iha ihb | prod a b iha ihb =>
    intro ρs ρ
    have ha : rowsHull (bbox (a.peval σ) ρs) ρs = rowsHull (bbox a (ρs.map (· ++ σ))) (ρs.map (· ++ σ)) := by
      rw [show bbox (a.peval σ) ρs = fun ρ => bbox a (ρs.map (· ++ σ)) (ρ ++ σ) from funext (iha ρs)]
      exact rowsHull_comp (bbox a (ρs.map (· ++ σ))) (· ++ σ) ρs
    have hb : rowsHull (bbox (b.peval σ) ρs) ρs = rowsHull (bbox b (ρs.map (· ++ σ))) (ρs.map (· ++ σ)) := by
      rw [show bbox (b.peval σ) ρs = fun ρ => bbox b (ρs.map (· ++ σ)) (ρ ++ σ) from funext (ihb ρs)]
      exact rowsHull_comp (bbox b (ρs.map (· ++ σ))) (· ++ σ) ρs
    simp only [Dom.peval, bbox, ha, hb]
  | cut a b iha _ =>
    intro ρs ρ
    simp only [Dom.peval, bbox, iha]
  | translate v d t ih =>
    intro ρs ρ
    simp only [Dom.peval, bbox, ih]
    rfl
  | rotate v d m c ih =>
    intro ρs ρ
    simp only [Dom.peval, bbox, ih]
    rfl
  | bdry d ih | bdryL d ih | bdryR d ih =>
    intro ρs ρ
    simp only [Dom.peval, bbox, ih]

/-- the disc moving with `t` under a `t`-dependent translation, evaluated at t = 1/2: the copy asked without
    parameters answers what the parent answers for the row t = 1/2 -/
example : bbox (exMove.peval [("t", [1/2])]) [[]] [] = bbox exMove [[("t", [1/2])]] [("t", [1/2])] :=
  bbox_peval _ _ _ _
example : bbox (exMove.peval [("t", [1/2])]) [[]] [] = some [(0, 2), (0, 2)] := by decide +kernel


end TPV.Geom
