/-
  C06 — boundary normals are finite outward unit vectors.
  Model: TPV/Model/GeomNormal.lean; denotation `mem`: TPV/Proofs/GeomSpec.lean; algebra: TPV/Proofs/GeomNormalLemmas.lean.
-/
import TPV.Proofs.GeomNormalLemmas

namespace TPV.Geom
set_option linter.unusedSectionVars false
variable {K : Type} [Field K] [LinearOrder K] [IsStrictOrderedRing K] [HasSqrt K]

/-! ### outwardness in terms of the denoted set -/

/-- `p + ε·n`, coordinatewise -/
def moved (p n : List K) (ε : K) : List K := List.zipWith (fun x ni => x + ε * ni) p n

def dot (a b : List K) : K := (List.zipWith (fun x y => x * y) a b).sum

/-- `n` points out of `D` at the point `p` of variable `v` (parameter row `ρ`): every step of length
    `0 < ε < ε₀` along `n` ends outside the denoted set, every such step against `n` ends inside -/
def OutwardAt (D : Dom K) (v : String) (p n : List K) (ρ : Env K) (ε₀ : K) : Prop :=
  ∀ ε, 0 < ε → ε < ε₀ → ¬ mem D [(v, moved p n ε)] ρ ∧ mem D [(v, moved p n (-ε))] ρ

theorem get_single (v : String) (q : List K) : Env.get [(v, q)] v = some q := by
  simp [Env.get, List.lookup]

theorem par_mem_iff (v : String) (o c1 c2 : PFun K) (ρ : Env K) (x y ox oy ax ay bx cy : K)
    (ho : o.f ([(v, [x, y])] ++ ρ) = [ox, oy]) (h1 : c1.f ([(v, [x, y])] ++ ρ) = [ax, ay])
    (h2 : c2.f ([(v, [x, y])] ++ ρ) = [bx, cy])
    (hdet : (ax - ox) * (cy - oy) - (ay - oy) * (bx - ox) ≠ 0) :
    mem (.par v o c1 c2) [(v, [x, y])] ρ ↔
      In01 (solveLgs (x - ox) (y - oy) (ax - ox) (ay - oy) (bx - ox) (cy - oy)).1 ∧
      In01 (solveLgs (x - ox) (y - oy) (ax - ox) (ay - oy) (bx - ox) (cy - oy)).2 := by
  have hnd : NonDeg (.par v o c1 c2) [(v, [x, y])] ρ := by
    intro ox' oy' ax' ay' bx' cy' e0 e1 e2
    rw [ho] at e0; rw [h1] at e1; rw [h2] at e2
    simp only [List.cons.injEq, and_true] at e0 e1 e2
    obtain ⟨rfl, rfl⟩ := e0; obtain ⟨rfl, rfl⟩ := e1; obtain ⟨rfl, rfl⟩ := e2
    exact hdet
  have hc : contains (⟨0, 0, 0⟩ : Tol K) (.par v o c1 c2) [(v, [x, y])] ρ = some
      ((le 0 (solveLgs (x - ox) (y - oy) (ax - ox) (ay - oy) (bx - ox) (cy - oy)).1 &&
          le (solveLgs (x - ox) (y - oy) (ax - ox) (ay - oy) (bx - ox) (cy - oy)).1 1) &&
        (le 0 (solveLgs (x - ox) (y - oy) (ax - ox) (ay - oy) (bx - ox) (cy - oy)).2 &&
          le (solveLgs (x - ox) (y - oy) (ax - ox) (ay - oy) (bx - ox) (cy - oy)).2 1)) := by
    simp only [contains, containsAux, get_single, ho, h1, h2, Bool.false_eq_true, if_false]
  have h := contains_iff_mem (⟨0, 0, 0⟩ : Tol K) (.par v o c1 c2) [(v, [x, y])] ρ _ trivial hnd hc
  rw [← h]
  simp [In01, le_iff]


theorem dot2 (a b : K) : dot [a, b] [a, b] = a * a + b * b := by simp [dot]

/-- **Parallelogram.** For every parallelogram the constructor accepts with non-zero area — any position, size,
    slant and either vertex orientation, possibly parameter-dependent (evaluated at the row `ρ`) — and every
    point of its boundary (the four closed edges, corners included), the coded normal is a finite unit vector
    and points out of the denoted set. -/
theorem par_normal_outward (hsq : SqrtOk K) (τ : Tol K) (hτ : τ.ok) (hsmall : τ.small)
    (v : String) (o c1 c2 : PFun K) (ρ : Env K) (ox oy ax ay bx cy s t : K)
    (ho : ∀ q, o.f ([(v, q)] ++ ρ) = [ox, oy]) (h1 : ∀ q, c1.f ([(v, q)] ++ ρ) = [ax, ay])
    (h2 : ∀ q, c2.f ([(v, q)] ++ ρ) = [bx, cy])
    (hdet : (ax - ox) * (cy - oy) - (ay - oy) * (bx - ox) ≠ 0)
    (hs : In01 s) (ht : In01 t) (hb : s = 0 ∨ s = 1 ∨ t = 0 ∨ t = 1) :
    ∃ n ε₀, 0 < ε₀ ∧
      normalAux true τ (.par v o c1 c2)
        [(v, [ox + s * (ax - ox) + t * (bx - ox), oy + s * (ay - oy) + t * (cy - oy)])] ρ = some n ∧
      dot n n = 1 ∧
      OutwardAt (.par v o c1 c2) v [ox + s * (ax - ox) + t * (bx - ox), oy + s * (ay - oy) + t * (cy - oy)] n ρ ε₀ := by
  obtain ⟨nx, ny, ε₀, hε, hfin, hunit, hall⟩ := par_core hsq τ hτ hsmall ox oy ax ay bx cy s t hdet hs ht hb
  refine ⟨[nx, ny], ε₀, hε, ?_, ?_, ?_⟩
  · simp only [normalAux, get_single, ho, h1, h2]; exact hfin
  · rw [dot2]; exact hunit
  · intro ε h0 hlt
    have key : ∀ e : K, solveLgs (ox + s * (ax - ox) + t * (bx - ox) + e * nx - ox)
        (oy + s * (ay - oy) + t * (cy - oy) + e * ny - oy) (ax - ox) (ay - oy) (bx - ox) (cy - oy) =
        (s + e * (((cy - oy) * nx - (bx - ox) * ny) / ((ax - ox) * (cy - oy) - (ay - oy) * (bx - ox))),
         t + e * (((ax - ox) * ny - (ay - oy) * nx) / ((ax - ox) * (cy - oy) - (ay - oy) * (bx - ox)))) := by
      intro e
      have e1 : ox + s * (ax - ox) + t * (bx - ox) + e * nx - ox = (s * (ax - ox) + t * (bx - ox)) + e * nx := by ring
      have e2 : oy + s * (ay - oy) + t * (cy - oy) + e * ny - oy = (s * (ay - oy) + t * (cy - oy)) + e * ny := by ring
      rw [e1, e2, solveLgs_step, solveLgs_fst _ _ _ _ _ _ s t hdet rfl rfl]
    obtain ⟨hout, hin⟩ := hall ε h0 hlt
    simp only [moved, List.zipWith_cons_cons, List.zipWith_nil_right]
    rw [par_mem_iff v o c1 c2 ρ _ _ ox oy ax ay bx cy (ho _) (h1 _) (h2 _) hdet,
      par_mem_iff v o c1 c2 ρ _ _ ox oy ax ay bx cy (ho _) (h1 _) (h2 _) hdet, key, key]
    exact ⟨hout, hin⟩


theorem tri_mem_iff (v : String) (o c1 c2 : PFun K) (ρ : Env K) (x y ox oy ax ay bx cy : K)
    (ho : o.f ([(v, [x, y])] ++ ρ) = [ox, oy]) (h1 : c1.f ([(v, [x, y])] ++ ρ) = [ax, ay])
    (h2 : c2.f ([(v, [x, y])] ++ ρ) = [bx, cy])
    (hdet : (ax - ox) * (cy - oy) - (ay - oy) * (bx - ox) ≠ 0) :
    mem (.tri v o c1 c2) [(v, [x, y])] ρ ↔
      InTri (solveLgs (x - ox) (y - oy) (ax - ox) (ay - oy) (bx - ox) (cy - oy)).1
            (solveLgs (x - ox) (y - oy) (ax - ox) (ay - oy) (bx - ox) (cy - oy)).2 := by
  have hnd : NonDeg (.tri v o c1 c2) [(v, [x, y])] ρ := by
    intro ox' oy' ax' ay' bx' cy' e0 e1 e2
    rw [ho] at e0; rw [h1] at e1; rw [h2] at e2
    simp only [List.cons.injEq, and_true] at e0 e1 e2
    obtain ⟨rfl, rfl⟩ := e0; obtain ⟨rfl, rfl⟩ := e1; obtain ⟨rfl, rfl⟩ := e2
    exact hdet
  have hc : contains (⟨0, 0, 0⟩ : Tol K) (.tri v o c1 c2) [(v, [x, y])] ρ = some
      ((le 0 (solveLgs (x - ox) (y - oy) (ax - ox) (ay - oy) (bx - ox) (cy - oy)).1 &&
          le 0 (solveLgs (x - ox) (y - oy) (ax - ox) (ay - oy) (bx - ox) (cy - oy)).2) &&
        le ((solveLgs (x - ox) (y - oy) (ax - ox) (ay - oy) (bx - ox) (cy - oy)).2 +
            (solveLgs (x - ox) (y - oy) (ax - ox) (ay - oy) (bx - ox) (cy - oy)).1) 1) := by
    simp only [contains, containsAux, get_single, ho, h1, h2, Bool.false_eq_true, if_false]
  have h := contains_iff_mem (⟨0, 0, 0⟩ : Tol K) (.tri v o c1 c2) [(v, [x, y])] ρ _ trivial hnd hc
  rw [← h]
  simp [InTri, le_iff, and_assoc]

/-- **Triangle.** For every triangle with non-zero area — any position, shape and either vertex orientation
    (the docstring asks for counter-clockwise corners, the constructor accepts both), possibly parameter-dependent —
    and every point of its boundary (three closed edges, corners included), the coded normal is a finite unit
    vector and points out of the denoted set. -/
theorem tri_normal_outward (hsq : SqrtOk K) (τ : Tol K) (hτ : τ.ok) (hsmall : τ.small)
    (v : String) (o c1 c2 : PFun K) (ρ : Env K) (ox oy ax ay bx cy s t : K)
    (ho : ∀ q, o.f ([(v, q)] ++ ρ) = [ox, oy]) (h1 : ∀ q, c1.f ([(v, q)] ++ ρ) = [ax, ay])
    (h2 : ∀ q, c2.f ([(v, q)] ++ ρ) = [bx, cy])
    (hdet : (ax - ox) * (cy - oy) - (ay - oy) * (bx - ox) ≠ 0)
    (hin : InTri s t) (hb : s = 0 ∨ t = 0 ∨ t + s = 1) :
    ∃ n ε₀, 0 < ε₀ ∧
      normalAux true τ (.tri v o c1 c2)
        [(v, [ox + s * (ax - ox) + t * (bx - ox), oy + s * (ay - oy) + t * (cy - oy)])] ρ = some n ∧
      dot n n = 1 ∧
      OutwardAt (.tri v o c1 c2) v [ox + s * (ax - ox) + t * (bx - ox), oy + s * (ay - oy) + t * (cy - oy)] n ρ ε₀ := by
  obtain ⟨nx, ny, ε₀, hε, hfin, hunit, hall⟩ := tri_core hsq τ hτ hsmall ox oy ax ay bx cy s t hdet hin hb
  refine ⟨[nx, ny], ε₀, hε, ?_, ?_, ?_⟩
  · simp only [normalAux, get_single, ho, h1, h2]; exact hfin
  · rw [dot2]; exact hunit
  · intro ε h0 hlt
    have key : ∀ e : K, solveLgs (ox + s * (ax - ox) + t * (bx - ox) + e * nx - ox)
        (oy + s * (ay - oy) + t * (cy - oy) + e * ny - oy) (ax - ox) (ay - oy) (bx - ox) (cy - oy) =
        (s + e * (((cy - oy) * nx - (bx - ox) * ny) / ((ax - ox) * (cy - oy) - (ay - oy) * (bx - ox))),
         t + e * (((ax - ox) * ny - (ay - oy) * nx) / ((ax - ox) * (cy - oy) - (ay - oy) * (bx - ox)))) := by
      intro e
      have e1 : ox + s * (ax - ox) + t * (bx - ox) + e * nx - ox = (s * (ax - ox) + t * (bx - ox)) + e * nx := by ring
      have e2 : oy + s * (ay - oy) + t * (cy - oy) + e * ny - oy = (s * (ay - oy) + t * (cy - oy)) + e * ny := by ring
      rw [e1, e2, solveLgs_step, solveLgs_fst _ _ _ _ _ _ s t hdet rfl rfl]
    obtain ⟨hout, hin'⟩ := hall ε h0 hlt
    simp only [moved, List.zipWith_cons_cons, List.zipWith_nil_right]
    rw [tri_mem_iff v o c1 c2 ρ _ _ ox oy ax ay bx cy (ho _) (h1 _) (h2 _) hdet,
      tri_mem_iff v o c1 c2 ρ _ _ ox oy ax ay bx cy (ho _) (h1 _) (h2 _) hdet, key, key]
    exact ⟨hout, hin'⟩


/-! ### union / cut / intersection: operand selection and sign flip -/

theorem moved_neg (p n : List K) (ε : K) : moved p (n.map (- ·)) ε = moved p n (-ε) := by
  induction p generalizing n with
  | nil => simp [moved]
  | cons x xs ih =>
    cases n with
    | nil => simp [moved]
    | cons y ys =>
      simp only [moved, List.map_cons, List.zipWith_cons_cons, List.cons.injEq]
      exact ⟨by ring, ih ys⟩

theorem map_neg_neg (n : List K) : (n.map (- ·)).map (- ·) = n := by
  induction n with
  | nil => rfl
  | cons x xs ih => simp

theorem dot_neg (n : List K) : dot (n.map (- ·)) (n.map (- ·)) = dot n n := by
  induction n with
  | nil => rfl
  | cons x xs ih =>
    simp only [dot, List.map_cons, List.zipWith_cons_cons, List.sum_cons] at ih ⊢
    rw [ih]; ring

theorem OutwardAt.mono {D : Dom K} {v : String} {p n : List K} {ρ : Env K} {ε₀ ε₁ : K}
    (h : OutwardAt D v p n ρ ε₀) (hle : ε₁ ≤ ε₀) : OutwardAt D v p n ρ ε₁ :=
  fun ε h0 hlt => h ε h0 (lt_of_lt_of_le hlt hle)

/-- union, point on `∂a`: `a`'s normal is outward for `a ∪ b` if the outward step does not enter `b` -/
theorem union_outward_left (a b : Dom K) (v : String) (p n : List K) (ρ : Env K) (ε₀ : K)
    (ha : OutwardAt a v p n ρ ε₀) (hsep : ∀ ε, 0 < ε → ε < ε₀ → ¬ mem b [(v, moved p n ε)] ρ) :
    OutwardAt (.union a b) v p n ρ ε₀ := fun ε h0 hlt => by
  obtain ⟨h1, h2⟩ := ha ε h0 hlt
  exact ⟨fun h => h.elim h1 (hsep ε h0 hlt), Or.inl h2⟩

/-- union, point not on `∂a`: `b`'s normal is outward for `a ∪ b` if the outward step does not enter `a` -/
theorem union_outward_right (a b : Dom K) (v : String) (p n : List K) (ρ : Env K) (ε₀ : K)
    (hb : OutwardAt b v p n ρ ε₀) (hsep : ∀ ε, 0 < ε → ε < ε₀ → ¬ mem a [(v, moved p n ε)] ρ) :
    OutwardAt (.union a b) v p n ρ ε₀ := fun ε h0 hlt => by
  obtain ⟨h1, h2⟩ := hb ε h0 hlt
  exact ⟨fun h => h.elim (hsep ε h0 hlt) h1, Or.inr h2⟩

/-- intersection: the selected operand's normal is outward if the inward step stays in the partner -/
theorem inter_outward_left (a b : Dom K) (v : String) (p n : List K) (ρ : Env K) (ε₀ : K)
    (ha : OutwardAt a v p n ρ ε₀) (hsep : ∀ ε, 0 < ε → ε < ε₀ → mem b [(v, moved p n (-ε))] ρ) :
    OutwardAt (.inter a b) v p n ρ ε₀ := fun ε h0 hlt => by
  obtain ⟨h1, h2⟩ := ha ε h0 hlt
  exact ⟨fun h => h1 h.1, h2, hsep ε h0 hlt⟩

theorem inter_outward_right (a b : Dom K) (v : String) (p n : List K) (ρ : Env K) (ε₀ : K)
    (hb : OutwardAt b v p n ρ ε₀) (hsep : ∀ ε, 0 < ε → ε < ε₀ → mem a [(v, moved p n (-ε))] ρ) :
    OutwardAt (.inter a b) v p n ρ ε₀ := fun ε h0 hlt => by
  obtain ⟨h1, h2⟩ := hb ε h0 hlt
  exact ⟨fun h => h1 h.2, hsep ε h0 hlt, h2⟩

/-- cut, point on `∂a`: `a`'s normal is outward for `a ∖ b` if the inward step does not enter `b` -/
theorem cut_outward_left (a b : Dom K) (v : String) (p n : List K) (ρ : Env K) (ε₀ : K)
    (ha : OutwardAt a v p n ρ ε₀) (hsep : ∀ ε, 0 < ε → ε < ε₀ → ¬ mem b [(v, moved p n (-ε))] ρ) :
    OutwardAt (.cut a b) v p n ρ ε₀ := fun ε h0 hlt => by
  obtain ⟨h1, h2⟩ := ha ε h0 hlt
  exact ⟨fun h => h1 h.1, h2, hsep ε h0 hlt⟩

/-- cut, point on the removed part's boundary: the FLIPPED normal of `b` is outward for `a ∖ b`
    if the step out of `b` stays in `a` -/
theorem cut_outward_right (a b : Dom K) (v : String) (p nb : List K) (ρ : Env K) (ε₀ : K)
    (hb : OutwardAt b v p nb ρ ε₀) (hsep : ∀ ε, 0 < ε → ε < ε₀ → mem a [(v, moved p nb ε)] ρ) :
    OutwardAt (.cut a b) v p (nb.map (- ·)) ρ ε₀ := fun ε h0 hlt => by
  obtain ⟨h1, h2⟩ := hb ε h0 hlt
  rw [moved_neg, moved_neg, neg_neg]
  exact ⟨fun h => h.2 h2, hsep ε h0 hlt, h1⟩

/-- the separation hypothesis along the path of operands the code selects at the point `p`
    (`n` = the normal the composite returns; on the removed side of a cut the operand sees `−n`).
    Leaves (primitives): "the primitive's own coded normal is outward for the primitive" — what
    `par_/tri_/circle_/sphere_/interval_normal_outward` establish. -/
def Sep (o : Bool) (τ : Tol K) : Dom K → String → List K → List K → Env K → K → Prop
  | .union a b, v, p, n, ρ, ε₀ =>
    (bdryContains τ a [(v, p)] ρ = some true → Sep o τ a v p n ρ ε₀ ∧ ∀ ε, 0 < ε → ε < ε₀ → ¬ mem b [(v, moved p n ε)] ρ) ∧
    (bdryContains τ a [(v, p)] ρ = some false → Sep o τ b v p n ρ ε₀ ∧ ∀ ε, 0 < ε → ε < ε₀ → ¬ mem a [(v, moved p n ε)] ρ)
  | .inter a b, v, p, n, ρ, ε₀ =>
    (bdryContains τ a [(v, p)] ρ = some true → Sep o τ a v p n ρ ε₀ ∧ ∀ ε, 0 < ε → ε < ε₀ → mem b [(v, moved p n (-ε))] ρ) ∧
    (bdryContains τ a [(v, p)] ρ = some false → Sep o τ b v p n ρ ε₀ ∧ ∀ ε, 0 < ε → ε < ε₀ → mem a [(v, moved p n (-ε))] ρ)
  | .cut a b, v, p, n, ρ, ε₀ =>
    (bdryContains τ a [(v, p)] ρ = some true → Sep o τ a v p n ρ ε₀ ∧ ∀ ε, 0 < ε → ε < ε₀ → ¬ mem b [(v, moved p n (-ε))] ρ) ∧
    (bdryContains τ a [(v, p)] ρ = some false →
      Sep o τ b v p (n.map (- ·)) ρ ε₀ ∧ ∀ ε, 0 < ε → ε < ε₀ → mem a [(v, moved p n (-ε))] ρ)
  | d, v, p, n, ρ, ε₀ => normalAux o τ d [(v, p)] ρ = some n → OutwardAt d v p n ρ ε₀

/-- **Nested unions, cuts and intersections.** For every expression built from union / cut / intersection over
    any leaves, at every point where the model returns a normal `n`: if the separation hypothesis holds along the
    path of selected operands (the partner is not entered / not left by the relevant step, and the selected
    primitive's own normal is outward for that primitive), then `n` — with the sign flips the code applies on
    removed parts, at any nesting depth — is outward for the whole composite. -/
theorem normal_bool_outward (o : Bool) (τ : Tol K) (D : Dom K) : ∀ (v : String) (p n : List K) (ρ : Env K) (ε₀ : K),
    normalAux o τ D [(v, p)] ρ = some n → Sep o τ D v p n ρ ε₀ → OutwardAt D v p n ρ ε₀ := by
  induction D with
  | union a b iha ihb =>
    intro v p n ρ ε₀ hn hs
    simp only [normalAux, Option.bind_eq_bind] at hn
    simp only [Sep, bdryContains] at hs
    cases hon : containsAux τ true a [(v, p)] ρ with
    | none => simp [hon] at hn
    | some onA =>
      cases onA with
      | true =>
        simp only [hon, Option.bind_some, if_true] at hn
        obtain ⟨h1, h2⟩ := hs.1 hon
        exact union_outward_left a b v p n ρ ε₀ (iha v p n ρ ε₀ hn h1) h2
      | false =>
        simp only [hon, Option.bind_some, Bool.false_eq_true, if_false] at hn
        obtain ⟨h1, h2⟩ := hs.2 hon
        exact union_outward_right a b v p n ρ ε₀ (ihb v p n ρ ε₀ hn h1) h2
  | inter a b iha ihb =>
    intro v p n ρ ε₀ hn hs
    simp only [normalAux, Option.bind_eq_bind] at hn
    simp only [Sep, bdryContains] at hs
    cases hon : containsAux τ true a [(v, p)] ρ with
    | none => simp [hon] at hn
    | some onA =>
      cases onA with
      | true =>
        simp only [hon, Option.bind_some, if_true] at hn
        obtain ⟨h1, h2⟩ := hs.1 hon
        exact inter_outward_left a b v p n ρ ε₀ (iha v p n ρ ε₀ hn h1) h2
      | false =>
        simp only [hon, Option.bind_some, Bool.false_eq_true, if_false] at hn
        obtain ⟨h1, h2⟩ := hs.2 hon
        exact inter_outward_right a b v p n ρ ε₀ (ihb v p n ρ ε₀ hn h1) h2
  | cut a b iha ihb =>
    intro v p n ρ ε₀ hn hs
    simp only [normalAux, Option.bind_eq_bind] at hn
    simp only [Sep, bdryContains] at hs
    cases hon : containsAux τ true a [(v, p)] ρ with
    | none => simp [hon] at hn
    | some onA =>
      cases onA with
      | true =>
        simp only [hon, Option.bind_some, if_true] at hn
        obtain ⟨h1, h2⟩ := hs.1 hon
        exact cut_outward_left a b v p n ρ ε₀ (iha v p n ρ ε₀ hn h1) h2
      | false =>
        simp only [hon, Option.bind_some, Bool.false_eq_true, if_false, Option.map_eq_some_iff] at hn
        obtain ⟨nb, hnb, rfl⟩ := hn
        obtain ⟨h1, h2⟩ := hs.2 hon
        rw [map_neg_neg] at h1
        refine cut_outward_right a b v p nb ρ ε₀ (ihb v p nb ρ ε₀ hnb h1) (fun ε h0 hlt => ?_)
        have := h2 ε h0 hlt
        rwa [moved_neg, neg_neg] at this
  | interval | par | tri | circle | sphere | prod | translate | rotate | bdry | bdryL | bdryR =>
    intro v p n ρ ε₀ hn hs
    exact hs hn

/-- the leaves' normals are unit vectors -/
def LeavesUnit (o : Bool) (τ : Tol K) : Dom K → Env K → Env K → Prop
  | .union a b, pts, ρ | .inter a b, pts, ρ | .cut a b, pts, ρ => LeavesUnit o τ a pts ρ ∧ LeavesUnit o τ b pts ρ
  | d, pts, ρ => ∀ n, normalAux o τ d pts ρ = some n → dot n n = 1

/-- **Unit length is inherited**: the normal of any nested union / cut / intersection is, up to the sign flip,
    the normal of one of its leaves — hence a unit vector whenever the leaves' normals are. -/
theorem normal_bool_unit (o : Bool) (τ : Tol K) (D : Dom K) : ∀ (pts ρ : Env K) (n : List K),
    LeavesUnit o τ D pts ρ → normalAux o τ D pts ρ = some n → dot n n = 1 := by
  induction D with
  | union a b iha ihb | inter a b iha ihb =>
    intro pts ρ n hl hn
    simp only [normalAux, Option.bind_eq_bind] at hn
    simp only [LeavesUnit] at hl
    cases hon : containsAux τ true a pts ρ with
    | none => simp [hon] at hn
    | some onA =>
      cases onA with
      | true => simp only [hon, Option.bind_some, if_true] at hn; exact iha pts ρ n hl.1 hn
      | false => simp only [hon, Option.bind_some, Bool.false_eq_true, if_false] at hn; exact ihb pts ρ n hl.2 hn
  | cut a b iha ihb =>
    intro pts ρ n hl hn
    simp only [normalAux, Option.bind_eq_bind] at hn
    simp only [LeavesUnit] at hl
    cases hon : containsAux τ true a pts ρ with
    | none => simp [hon] at hn
    | some onA =>
      cases onA with
      | true => simp only [hon, Option.bind_some, if_true] at hn; exact iha pts ρ n hl.1 hn
      | false =>
        simp only [hon, Option.bind_some, Bool.false_eq_true, if_false, Option.map_eq_some_iff] at hn
        obtain ⟨nb, hnb, rfl⟩ := hn
        rw [dot_neg]; exact ihb pts ρ nb hl.2 hnb
  | interval | par | tri | circle | sphere | prod | translate | rotate | bdry | bdryL | bdryR =>
    intro pts ρ n hl hn
    exact hl n hn

/-! ### disc, ball, interval -/

theorem circle_mem_iff (v : String) (c r : PFun K) (ρ : Env K) (x y cx cy rr : K)
    (hc : c.f ([(v, [x, y])] ++ ρ) = [cx, cy]) (hr : r.f ([(v, [x, y])] ++ ρ) = [rr]) (hpos : 0 ≤ rr) :
    mem (.circle v c r) [(v, [x, y])] ρ ↔ (x - cx) ^ 2 + (y - cy) ^ 2 ≤ rr ^ 2 := by
  simp only [mem, get_single]
  constructor
  · rintro ⟨x', y', cx', cy', rr', hp, hc', hr', _, h⟩
    rw [hc] at hc'; rw [hr] at hr'
    simp only [Option.some.injEq, List.cons.injEq, and_true] at hp hc' hr'
    obtain ⟨rfl, rfl⟩ := hp; obtain ⟨rfl, rfl⟩ := hc'; subst hr'; exact h
  · intro h; exact ⟨x, y, cx, cy, rr, rfl, hc, hr, hpos, h⟩

/-- **Disc.** At every point of the circle line (any centre, any positive radius, parameter-dependent or not) the
    coded normal `(p − c)/r` is a unit vector; every step along it leaves the disc, every step shorter than the
    diameter against it stays inside. -/
theorem circle_normal_outward (o : Bool) (τ : Tol K) (v : String) (c r : PFun K) (ρ : Env K) (x y cx cy rr : K)
    (hc : ∀ q, c.f ([(v, q)] ++ ρ) = [cx, cy]) (hr : ∀ q, r.f ([(v, q)] ++ ρ) = [rr]) (hpos : 0 < rr)
    (hon : (x - cx) ^ 2 + (y - cy) ^ 2 = rr ^ 2) :
    normalAux o τ (.circle v c r) [(v, [x, y])] ρ = some [(x - cx) / rr, (y - cy) / rr] ∧
    dot [(x - cx) / rr, (y - cy) / rr] [(x - cx) / rr, (y - cy) / rr] = 1 ∧
    OutwardAt (.circle v c r) v [x, y] [(x - cx) / rr, (y - cy) / rr] ρ (2 * rr) := by
  have hz : isZero rr = false := by
    cases h : isZero rr
    · rfl
    · exact absurd ((isZero_iff rr).mp h) hpos.ne'
  refine ⟨by simp only [normalAux, get_single, hc, hr, hz]; simp, ?_, ?_⟩
  · rw [dot2, div_mul_div_comm, div_mul_div_comm, ← add_div, div_eq_one_iff_eq (by positivity)]
    rw [← pow_two rr, ← hon]; ring
  · intro ε h0 hlt
    simp only [moved, List.zipWith_cons_cons, List.zipWith_nil_right]
    rw [circle_mem_iff v c r ρ _ _ cx cy rr (hc _) (hr _) hpos.le, circle_mem_iff v c r ρ _ _ cx cy rr (hc _) (hr _) hpos.le]
    have e : ∀ e : K, (x + e * ((x - cx) / rr) - cx) ^ 2 + (y + e * ((y - cy) / rr) - cy) ^ 2 = (1 + e / rr) ^ 2 * rr ^ 2 := by
      intro e
      have : (x + e * ((x - cx) / rr) - cx) ^ 2 + (y + e * ((y - cy) / rr) - cy) ^ 2 =
          (1 + e / rr) ^ 2 * ((x - cx) ^ 2 + (y - cy) ^ 2) := by field_simp; ring
      rw [this, hon]
    rw [e, e]
    have hr2 : 0 < rr ^ 2 := by positivity
    have hk : 0 < ε / rr := div_pos h0 hpos
    have hk2 : ε / rr < 2 := by rw [div_lt_iff₀ hpos]; linarith
    constructor
    · rw [not_le]
      have h1 : 1 < (1 + ε / rr) ^ 2 := by nlinarith
      have := mul_lt_mul_of_pos_right h1 hr2
      linarith
    · have : (1 + -ε / rr) ^ 2 ≤ 1 := by
        have : -ε / rr = -(ε / rr) := by ring
        rw [this]; nlinarith
      nlinarith

theorem dot3 (a b c : K) : dot [a, b, c] [a, b, c] = a * a + b * b + c * c := by simp [dot]; ring

theorem sphere_mem_iff (v : String) (c r : PFun K) (ρ : Env K) (x y z cx cy cz rr : K)
    (hc : c.f ([(v, [x, y, z])] ++ ρ) = [cx, cy, cz]) (hr : r.f ([(v, [x, y, z])] ++ ρ) = [rr]) (hpos : 0 ≤ rr) :
    mem (.sphere v c r) [(v, [x, y, z])] ρ ↔ (x - cx) ^ 2 + (y - cy) ^ 2 + (z - cz) ^ 2 ≤ rr ^ 2 := by
  simp only [mem, get_single]
  constructor
  · rintro ⟨x', y', z', cx', cy', cz', rr', hp, hc', hr', _, h⟩
    rw [hc] at hc'; rw [hr] at hr'
    simp only [Option.some.injEq, List.cons.injEq, and_true] at hp hc' hr'
    obtain ⟨rfl, rfl, rfl⟩ := hp; obtain ⟨rfl, rfl, rfl⟩ := hc'; subst hr'; exact h
  · intro h; exact ⟨x, y, z, cx, cy, cz, rr, rfl, hc, hr, hpos, h⟩

/-- **Ball.** The same for the sphere surface in three dimensions. -/
theorem sphere_normal_outward (o : Bool) (τ : Tol K) (v : String) (c r : PFun K) (ρ : Env K)
    (x y z cx cy cz rr : K)
    (hc : ∀ q, c.f ([(v, q)] ++ ρ) = [cx, cy, cz]) (hr : ∀ q, r.f ([(v, q)] ++ ρ) = [rr]) (hpos : 0 < rr)
    (hon : (x - cx) ^ 2 + (y - cy) ^ 2 + (z - cz) ^ 2 = rr ^ 2) :
    normalAux o τ (.sphere v c r) [(v, [x, y, z])] ρ = some [(x - cx) / rr, (y - cy) / rr, (z - cz) / rr] ∧
    dot [(x - cx) / rr, (y - cy) / rr, (z - cz) / rr] [(x - cx) / rr, (y - cy) / rr, (z - cz) / rr] = 1 ∧
    OutwardAt (.sphere v c r) v [x, y, z] [(x - cx) / rr, (y - cy) / rr, (z - cz) / rr] ρ (2 * rr) := by
  have hz : isZero rr = false := by
    cases h : isZero rr
    · rfl
    · exact absurd ((isZero_iff rr).mp h) hpos.ne'
  refine ⟨by simp only [normalAux, get_single, hc, hr, hz]; simp, ?_, ?_⟩
  · rw [dot3, div_mul_div_comm, div_mul_div_comm, div_mul_div_comm, ← add_div, ← add_div,
      div_eq_one_iff_eq (by positivity)]
    rw [← pow_two rr, ← hon]; ring
  · intro ε h0 hlt
    simp only [moved, List.zipWith_cons_cons, List.zipWith_nil_right]
    rw [sphere_mem_iff v c r ρ _ _ _ cx cy cz rr (hc _) (hr _) hpos.le,
      sphere_mem_iff v c r ρ _ _ _ cx cy cz rr (hc _) (hr _) hpos.le]
    have e : ∀ e : K, (x + e * ((x - cx) / rr) - cx) ^ 2 + (y + e * ((y - cy) / rr) - cy) ^ 2 +
        (z + e * ((z - cz) / rr) - cz) ^ 2 = (1 + e / rr) ^ 2 * rr ^ 2 := by
      intro e
      have : (x + e * ((x - cx) / rr) - cx) ^ 2 + (y + e * ((y - cy) / rr) - cy) ^ 2 +
          (z + e * ((z - cz) / rr) - cz) ^ 2 =
          (1 + e / rr) ^ 2 * ((x - cx) ^ 2 + (y - cy) ^ 2 + (z - cz) ^ 2) := by field_simp; ring
      rw [this, hon]
    rw [e, e]
    have hr2 : 0 < rr ^ 2 := by positivity
    have hk : 0 < ε / rr := div_pos h0 hpos
    have hk2 : ε / rr < 2 := by rw [div_lt_iff₀ hpos]; linarith
    constructor
    · rw [not_le]
      have h1 : 1 < (1 + ε / rr) ^ 2 := by nlinarith
      have := mul_lt_mul_of_pos_right h1 hr2
      linarith
    · have : (1 + -ε / rr) ^ 2 ≤ 1 := by
        have : -ε / rr = -(ε / rr) := by ring
        rw [this]; nlinarith
      nlinarith

theorem interval_mem_iff (v : String) (lb ub : PFun K) (ρ : Env K) (x l u : K)
    (hl : lb.f ([(v, [x])] ++ ρ) = [l]) (hu : ub.f ([(v, [x])] ++ ρ) = [u]) :
    mem (.interval v lb ub) [(v, [x])] ρ ↔ l ≤ x ∧ x ≤ u := by
  simp only [mem, get_single]
  constructor
  · rintro ⟨x', l', u', hp, hl', hu', h1, h2⟩
    rw [hl] at hl'; rw [hu] at hu'
    simp only [Option.some.injEq, List.cons.injEq, and_true] at hp hl' hu'
    subst hp hl' hu'; exact ⟨h1, h2⟩
  · rintro ⟨h1, h2⟩; exact ⟨x, l, u, rfl, hl, hu, h1, h2⟩

/-- **Interval.** At the left end the coded normal is −1, at the right end +1 (whenever the interval is longer
    than the `isclose` tolerance, so that the right end is not mistaken for the left one); both point outwards. -/
theorem interval_normal_outward (o : Bool) (τ : Tol K) (hτ : τ.ok) (v : String) (lb ub : PFun K) (ρ : Env K) (l u : K)
    (hl : ∀ q, lb.f ([(v, q)] ++ ρ) = [l]) (hu : ∀ q, ub.f ([(v, q)] ++ ρ) = [u])
    (hsep : τ.atol + τ.rtol * |l| < u - l) :
    (normalAux o τ (.interval v lb ub) [(v, [l])] ρ = some [-1] ∧ OutwardAt (.interval v lb ub) v [l] [-1] ρ (u - l)) ∧
    (normalAux o τ (.interval v lb ub) [(v, [u])] ρ = some [1] ∧ OutwardAt (.interval v lb ub) v [u] [1] ρ (u - l)) := by
  have hnc : isclose τ u l = false := by
    cases h : isclose τ u l
    · rfl
    · rw [isclose_iff] at h
      have := le_abs_self (u - l); linarith
  refine ⟨⟨by simp only [normalAux, get_single, hl, hu, isclose_self τ hτ l, if_true], ?_⟩,
          ⟨by simp only [normalAux, get_single, hl, hu, hnc]; simp, ?_⟩⟩
  · intro ε h0 hlt
    simp only [moved, List.zipWith_cons_cons, List.zipWith_nil_right]
    rw [interval_mem_iff v lb ub ρ _ l u (hl _) (hu _), interval_mem_iff v lb ub ρ _ l u (hl _) (hu _)]
    constructor
    · rintro ⟨h1, _⟩; linarith
    · constructor <;> linarith
  · intro ε h0 hlt
    simp only [moved, List.zipWith_cons_cons, List.zipWith_nil_right]
    rw [interval_mem_iff v lb ub ρ _ l u (hl _) (hu _), interval_mem_iff v lb ub ρ _ l u (hl _) (hu _)]
    constructor
    · rintro ⟨_, h2⟩; linarith
    · constructor <;> linarith



/-- `Interval.boundary_left / boundary_right` (`IntervalSingleBoundaryPoint.normal`) return the constants −1 / +1 —
    outward at the left / right end by `interval_normal_outward`; `.boundary.normal` of any other expression is
    `normalAux`. -/
theorem side_normal (o : Bool) (τ : Tol K) (v : String) (lb ub : PFun K) (ρ : Env K) (x : K) :
    normal o τ (.bdryL (.interval v lb ub)) [(v, [x])] ρ = some [-1] ∧
    normal o τ (.bdryR (.interval v lb ub)) [(v, [x])] ρ = some [1] ∧
    ∀ (d : Dom K) (pts : Env K), normal o τ (.bdry d) pts ρ = normalAux o τ d pts ρ := by
  refine ⟨?_, ?_, fun d pts => rfl⟩ <;> simp only [normal, get_single]


/-! ### the code before the orientation fix (`oriented = false`) -/

theorem sgn_neg_of_neg (d : K) (h : d < 0) : sgn d = -1 := by
  unfold sgn
  have : ¬ (0 : K) ≤ d := not_le.mpr h
  simp [le_of_lt h, this]

theorem isZero_neg (a : K) : isZero (-a) = isZero a := by
  cases h : isZero a
  · cases h' : isZero (-a)
    · rfl
    · have := (isZero_iff (-a)).mp h'
      have : a = 0 := by linarith
      rw [(isZero_iff a).mpr this] at h; exact absurd h (by simp)
  · have := (isZero_iff a).mp h
    exact (isZero_iff (-a)).mpr (by rw [this]; simp)

/-- for clockwise vertices (negative determinant) the old code returned exactly the opposite vector -/
theorem finish2_flip (det : K) (hdet : det < 0) (raw : K × K) :
    finish2 false det raw = (finish2 true det raw).map (·.map (- ·)) := by
  simp only [finish2, sgn_neg_of_neg det hdet, if_true, Bool.false_eq_true, if_false, mul_one, mul_neg, isZero_neg]
  cases isZero raw.1 && isZero raw.2
  · simp only [Bool.false_eq_true, if_false, Option.map_some, List.map_cons, List.map_nil, unit2]
    have e : -raw.1 * -raw.1 + -raw.2 * -raw.2 = raw.1 * raw.1 + raw.2 * raw.2 := by ring
    rw [e]
    congr 2
    · ring
    · congr 1; ring
  · simp

/-- **The property was false of the code before the fix**: for EVERY clockwise parallelogram (negative
    determinant) and every boundary point, the vector returned by the old `normal` points INTO the domain — a small
    step along it stays inside, a small step against it leaves. -/
theorem par_normal_old_inward (hsq : SqrtOk K) (τ : Tol K) (hτ : τ.ok) (hsmall : τ.small)
    (v : String) (o c1 c2 : PFun K) (ρ : Env K) (ox oy ax ay bx cy s t : K)
    (ho : ∀ q, o.f ([(v, q)] ++ ρ) = [ox, oy]) (h1 : ∀ q, c1.f ([(v, q)] ++ ρ) = [ax, ay])
    (h2 : ∀ q, c2.f ([(v, q)] ++ ρ) = [bx, cy])
    (hcw : (ax - ox) * (cy - oy) - (ay - oy) * (bx - ox) < 0)
    (hs : In01 s) (ht : In01 t) (hb : s = 0 ∨ s = 1 ∨ t = 0 ∨ t = 1) :
    ∃ n ε₀, 0 < ε₀ ∧
      normalAux false τ (.par v o c1 c2)
        [(v, [ox + s * (ax - ox) + t * (bx - ox), oy + s * (ay - oy) + t * (cy - oy)])] ρ = some n ∧
      ∀ ε, 0 < ε → ε < ε₀ →
        mem (.par v o c1 c2) [(v, moved [ox + s * (ax - ox) + t * (bx - ox), oy + s * (ay - oy) + t * (cy - oy)] n ε)] ρ ∧
        ¬ mem (.par v o c1 c2) [(v, moved [ox + s * (ax - ox) + t * (bx - ox), oy + s * (ay - oy) + t * (cy - oy)] n (-ε))] ρ := by
  obtain ⟨n, ε₀, hε, hn, _, hout⟩ := par_normal_outward hsq τ hτ hsmall v o c1 c2 ρ ox oy ax ay bx cy s t ho h1 h2 hcw.ne hs ht hb
  refine ⟨n.map (- ·), ε₀, hε, ?_, fun ε h0 hlt => ?_⟩
  · simp only [normalAux, get_single, ho, h1, h2] at hn ⊢
    rw [finish2_flip _ hcw, hn]; rfl
  · obtain ⟨a, b⟩ := hout ε h0 hlt
    rw [moved_neg, moved_neg, neg_neg]
    exact ⟨b, a⟩

/-- the same for every clockwise triangle -/
theorem tri_normal_old_inward (hsq : SqrtOk K) (τ : Tol K) (hτ : τ.ok) (hsmall : τ.small)
    (v : String) (o c1 c2 : PFun K) (ρ : Env K) (ox oy ax ay bx cy s t : K)
    (ho : ∀ q, o.f ([(v, q)] ++ ρ) = [ox, oy]) (h1 : ∀ q, c1.f ([(v, q)] ++ ρ) = [ax, ay])
    (h2 : ∀ q, c2.f ([(v, q)] ++ ρ) = [bx, cy])
    (hcw : (ax - ox) * (cy - oy) - (ay - oy) * (bx - ox) < 0)
    (hin : InTri s t) (hb : s = 0 ∨ t = 0 ∨ t + s = 1) :
    ∃ n ε₀, 0 < ε₀ ∧
      normalAux false τ (.tri v o c1 c2)
        [(v, [ox + s * (ax - ox) + t * (bx - ox), oy + s * (ay - oy) + t * (cy - oy)])] ρ = some n ∧
      ∀ ε, 0 < ε → ε < ε₀ →
        mem (.tri v o c1 c2) [(v, moved [ox + s * (ax - ox) + t * (bx - ox), oy + s * (ay - oy) + t * (cy - oy)] n ε)] ρ ∧
        ¬ mem (.tri v o c1 c2) [(v, moved [ox + s * (ax - ox) + t * (bx - ox), oy + s * (ay - oy) + t * (cy - oy)] n (-ε))] ρ := by
  obtain ⟨n, ε₀, hε, hn, _, hout⟩ := tri_normal_outward hsq τ hτ hsmall v o c1 c2 ρ ox oy ax ay bx cy s t ho h1 h2 hcw.ne hin hb
  refine ⟨n.map (- ·), ε₀, hε, ?_, fun ε h0 hlt => ?_⟩
  · simp only [normalAux, get_single, ho, h1, h2] at hn ⊢
    rw [finish2_flip _ hcw, hn]; rfl
  · obtain ⟨a, b⟩ := hout ε h0 hlt
    rw [moved_neg, moved_neg, neg_neg]
    exact ⟨b, a⟩

/-! ### real numbers: `Real.sqrt` is a square root, the Euclidean length of the normal is 1 -/

noncomputable instance : HasSqrt ℝ := ⟨Real.sqrt⟩

theorem sqrtOk_real : SqrtOk ℝ := fun x hx => ⟨Real.sqrt_nonneg x, Real.mul_self_sqrt hx⟩

/-- over ℝ: `‖n‖ = √(n·n) = 1` -/
theorem normal_norm_real (n : List ℝ) (h : dot n n = 1) : Real.sqrt (dot n n) = 1 := by
  rw [h, Real.sqrt_one]

/-- torch's tolerances (`isclose` defaults, `BARY_ATOL`) as real numbers -/
noncomputable def tolR : Tol ℝ := ⟨1 / 100000000, 1 / 100000, 1 / 100000⟩

theorem tolR_ok : tolR.ok ∧ tolR.small := by
  refine ⟨⟨?_, ?_, ?_⟩, ?_⟩ <;> simp only [tolR, Tol.small] <;> norm_num

/-- non-vacuity: a slanted CLOCKWISE parallelogram (det = −5) at its corner `corner_2`, over ℝ -/
example : ∃ n ε₀, 0 < ε₀ ∧
    normalAux true tolR (.par "x" (.const [0, 0]) (.const [1, 2]) (.const [3, 1]))
      [("x", [0 + 0 * (1 - 0) + 1 * (3 - 0), 0 + 0 * (2 - 0) + 1 * (1 - 0)])] [] = some n ∧ dot n n = 1 ∧
    OutwardAt (.par "x" (.const [0, 0]) (.const [1, 2]) (.const [3, 1])) "x"
      [0 + 0 * (1 - 0) + 1 * (3 - 0), 0 + 0 * (2 - 0) + 1 * (1 - 0)] n [] ε₀ :=
  par_normal_outward sqrtOk_real tolR tolR_ok.1 tolR_ok.2 "x" _ _ _ [] 0 0 1 2 3 1 0 1
    (fun _ => rfl) (fun _ => rfl) (fun _ => rfl) (by norm_num) ⟨by norm_num, by norm_num⟩ ⟨by norm_num, by norm_num⟩
    (Or.inl rfl)

/-- non-vacuity: a clockwise triangle on its slanted edge `s + t = 1`, over ℝ; and the old code's inward normal -/
example : ∃ n ε₀, 0 < ε₀ ∧
    normalAux true tolR (.tri "x" (.const [0, 0]) (.const [0, 1]) (.const [2, 0]))
      [("x", [0 + 1 / 4 * (0 - 0) + 3 / 4 * (2 - 0), 0 + 1 / 4 * (1 - 0) + 3 / 4 * (0 - 0)])] [] = some n ∧ dot n n = 1 ∧
    OutwardAt (.tri "x" (.const [0, 0]) (.const [0, 1]) (.const [2, 0])) "x"
      [0 + 1 / 4 * (0 - 0) + 3 / 4 * (2 - 0), 0 + 1 / 4 * (1 - 0) + 3 / 4 * (0 - 0)] n [] ε₀ :=
  tri_normal_outward sqrtOk_real tolR tolR_ok.1 tolR_ok.2 "x" _ _ _ [] 0 0 0 1 2 0 (1 / 4) (3 / 4)
    (fun _ => rfl) (fun _ => rfl) (fun _ => rfl) (by norm_num) ⟨by norm_num, by norm_num, by norm_num⟩
    (Or.inr (Or.inr (by norm_num)))

example : ∃ n ε₀, 0 < ε₀ ∧
    normalAux false tolR (.par "x" (.const [0, 0]) (.const [0, 1]) (.const [1, 0]))
      [("x", [0 + 1 / 2 * (0 - 0) + 0 * (1 - 0), 0 + 1 / 2 * (1 - 0) + 0 * (0 - 0)])] [] = some n ∧
    ∀ ε, 0 < ε → ε < ε₀ →
      mem (.par "x" (.const [0, 0]) (.const [0, 1]) (.const [1, 0]))
        [("x", moved [0 + 1 / 2 * (0 - 0) + 0 * (1 - 0), 0 + 1 / 2 * (1 - 0) + 0 * (0 - 0)] n ε)] [] ∧
      ¬ mem (.par "x" (.const [0, 0]) (.const [0, 1]) (.const [1, 0]))
        [("x", moved [0 + 1 / 2 * (0 - 0) + 0 * (1 - 0), 0 + 1 / 2 * (1 - 0) + 0 * (0 - 0)] n (-ε))] [] :=
  par_normal_old_inward sqrtOk_real tolR tolR_ok.1 tolR_ok.2 "x" _ _ _ [] 0 0 0 1 1 0 (1 / 2) 0
    (fun _ => rfl) (fun _ => rfl) (fun _ => rfl) (by norm_num) ⟨by norm_num, by norm_num⟩ ⟨by norm_num, by norm_num⟩
    (Or.inr (Or.inr (Or.inl rfl)))

/-! ### perpendicularity on open edges -/

theorem closeW_far0 (τ : Tol K) (t w : K) (h : τ.batol < t) : closeW τ t 0 w = 0 := by
  have : isclose τ.bary t 0 = false := by
    cases hh : isclose τ.bary t 0
    · rfl
    · rw [isclose_iff] at hh
      simp only [Tol.bary, sub_zero, abs_zero, mul_zero, add_zero] at hh
      have := le_abs_self t; linarith
  simp [closeW, this]

theorem closeW_far1 (τ : Tol K) (t w : K) (h : t + τ.batol + τ.rtol < 1) : closeW τ t 1 w = 0 := by
  have : isclose τ.bary t 1 = false := by
    cases hh : isclose τ.bary t 1
    · rfl
    · rw [isclose_iff] at hh
      simp only [Tol.bary, abs_one, mul_one] at hh
      have := neg_abs_le (t - 1); linarith
  simp [closeW, this]

theorem finish2_some (det : K) (raw : K × K) (nx ny : K) (h : finish2 true det raw = some [nx, ny]) :
    nx = raw.1 * sgn det / HasSqrt.sqrt (raw.1 * sgn det * (raw.1 * sgn det) + raw.2 * sgn det * (raw.2 * sgn det)) ∧
    ny = raw.2 * sgn det / HasSqrt.sqrt (raw.1 * sgn det * (raw.1 * sgn det) + raw.2 * sgn det * (raw.2 * sgn det)) := by
  simp only [finish2, if_true, unit2] at h
  split at h
  · simp at h
  · simp only [Option.some.injEq, List.cons.injEq, and_true] at h
    exact ⟨h.1.symm, h.2.symm⟩

/-- **Perpendicular on the open edges of a parallelogram.** At a point of an edge `s ∈ {0,1}` whose other
    barycentric coordinate is farther than the tolerance from 0 and 1, the coded normal is perpendicular to that
    edge (direction `corner_2 − origin`); symmetrically for the edges `t ∈ {0,1}` (direction `corner_1 − origin`). -/
theorem par_normal_perp (τ : Tol K) (v : String) (o c1 c2 : PFun K) (ρ : Env K)
    (ox oy ax ay bx cy s t nx ny : K)
    (ho : ∀ q, o.f ([(v, q)] ++ ρ) = [ox, oy]) (h1 : ∀ q, c1.f ([(v, q)] ++ ρ) = [ax, ay])
    (h2 : ∀ q, c2.f ([(v, q)] ++ ρ) = [bx, cy])
    (hdet : (ax - ox) * (cy - oy) - (ay - oy) * (bx - ox) ≠ 0)
    (hn : normalAux true τ (.par v o c1 c2)
      [(v, [ox + s * (ax - ox) + t * (bx - ox), oy + s * (ay - oy) + t * (cy - oy)])] ρ = some [nx, ny]) :
    (τ.batol < t → t + τ.batol + τ.rtol < 1 → nx * (bx - ox) + ny * (cy - oy) = 0) ∧
    (τ.batol < s → s + τ.batol + τ.rtol < 1 → nx * (ax - ox) + ny * (ay - oy) = 0) := by
  simp only [normalAux, get_single, ho, h1, h2] at hn
  obtain ⟨e1, e2⟩ := finish2_some _ _ nx ny hn
  have hsol : solveLgs (ox + s * (ax - ox) + t * (bx - ox) - ox) (oy + s * (ay - oy) + t * (cy - oy) - oy)
      (ax - ox) (ay - oy) (bx - ox) (cy - oy) = (s, t) :=
    solveLgs_fst _ _ _ _ _ _ s t hdet (by ring) (by ring)
  simp only [parRaw, parNormalDir, unit2, hsol] at e1 e2
  constructor
  · intro ha hb
    rw [closeW_far0 τ t _ ha, closeW_far1 τ t _ hb] at e1 e2
    rw [e1, e2]; ring
  · intro ha hb
    rw [closeW_far0 τ s _ ha, closeW_far1 τ s _ hb] at e1 e2
    rw [e1, e2]; ring

/-- **Perpendicular on the open edges of a triangle**: on the edge opposite to a corner, away from the
    other two edges by more than the tolerance, the coded normal is perpendicular to that edge. -/
theorem tri_normal_perp (τ : Tol K) (v : String) (o c1 c2 : PFun K) (ρ : Env K)
    (ox oy ax ay bx cy s t nx ny : K)
    (ho : ∀ q, o.f ([(v, q)] ++ ρ) = [ox, oy]) (h1 : ∀ q, c1.f ([(v, q)] ++ ρ) = [ax, ay])
    (h2 : ∀ q, c2.f ([(v, q)] ++ ρ) = [bx, cy])
    (hdet : (ax - ox) * (cy - oy) - (ay - oy) * (bx - ox) ≠ 0)
    (hn : normalAux true τ (.tri v o c1 c2)
      [(v, [ox + s * (ax - ox) + t * (bx - ox), oy + s * (ay - oy) + t * (cy - oy)])] ρ = some [nx, ny]) :
    -- edge origin → corner_2 (s = 0)
    (τ.batol < t → s + t + τ.batol + τ.rtol < 1 → nx * (bx - ox) + ny * (cy - oy) = 0) ∧
    -- edge origin → corner_1 (t = 0)
    (τ.batol < s → s + t + τ.batol + τ.rtol < 1 → nx * (ax - ox) + ny * (ay - oy) = 0) ∧
    -- edge corner_1 → corner_2 (s + t = 1)
    (τ.batol < s → τ.batol < t → nx * (bx - ax) + ny * (cy - ay) = 0) := by
  simp only [normalAux, get_single, ho, h1, h2] at hn
  obtain ⟨e1, e2⟩ := finish2_some _ _ nx ny hn
  have hsol : solveLgs (ox + s * (ax - ox) + t * (bx - ox) - ox) (oy + s * (ay - oy) + t * (cy - oy) - oy)
      (ax - ox) (ay - oy) (bx - ox) (cy - oy) = (s, t) :=
    solveLgs_fst _ _ _ _ _ _ s t hdet (by ring) (by ring)
  simp only [triRaw, triNormalDir, unit2, hsol] at e1 e2
  refine ⟨fun ha hb => ?_, fun ha hb => ?_, fun ha hb => ?_⟩
  · rw [closeW_far0 τ t _ ha, closeW_far1 τ (s + t) _ hb] at e1 e2
    rw [e1, e2]; ring
  · rw [closeW_far0 τ s _ ha, closeW_far1 τ (s + t) _ hb] at e1 e2
    rw [e1, e2]; ring
  · rw [closeW_far0 τ s _ ha, closeW_far0 τ t _ hb] at e1 e2
    rw [e1, e2]; ring

theorem finish2_shape (o : Bool) (det : K) (raw : K × K) (n : List K) (h : finish2 o det raw = some n) :
    ∃ nx ny, n = [nx, ny] := by
  cases o
  · simp only [finish2, Bool.false_eq_true, if_false] at h
    split at h
    · simp at h
    · exact ⟨_, _, (Option.some.inj h).symm⟩
  · simp only [finish2, if_true] at h
    split at h
    · simp at h
    · exact ⟨_, _, (Option.some.inj h).symm⟩

/-- non-vacuity of `par_normal_perp`: the clockwise slanted parallelogram of the example above, middle of the edge
    `s = 0`: a normal exists and is perpendicular to `corner_2 − origin = (3, 1)` -/
example : ∃ nx ny : ℝ, normalAux true tolR (.par "x" (.const [0, 0]) (.const [1, 2]) (.const [3, 1]))
      [("x", [0 + 0 * (1 - 0) + 1 / 2 * (3 - 0), 0 + 0 * (2 - 0) + 1 / 2 * (1 - 0)])] [] = some [nx, ny] ∧
    nx * (3 - 0) + ny * (1 - 0) = 0 := by
  obtain ⟨n, _, _, hn, _, _⟩ := par_normal_outward sqrtOk_real tolR tolR_ok.1 tolR_ok.2 "x"
    (.const [0, 0]) (.const [1, 2]) (.const [3, 1]) [] 0 0 1 2 3 1 0 (1 / 2)
    (fun _ => rfl) (fun _ => rfl) (fun _ => rfl) (by norm_num) ⟨by norm_num, by norm_num⟩ ⟨by norm_num, by norm_num⟩
    (Or.inl rfl)
  have hn' := hn
  simp only [normalAux, get_single, PFun.const] at hn'
  obtain ⟨nx, ny, rfl⟩ := finish2_shape _ _ _ _ hn'
  refine ⟨nx, ny, hn, ?_⟩
  exact (par_normal_perp tolR "x" (.const [0, 0]) (.const [1, 2]) (.const [3, 1]) [] 0 0 1 2 3 1 0 (1 / 2) nx ny
    (fun _ => rfl) (fun _ => rfl) (fun _ => rfl) (by norm_num) hn).1 (by simp only [tolR]; norm_num) (by simp only [tolR]; norm_num)

/-! ### non-vacuity of the Boolean theorems on the executable instance `ℚ` -/

section examples
/-- only so that the model can be evaluated over `ℚ` in the examples below; no square root is taken on discs,
    balls and intervals, and the theorems used here do not assume `SqrtOk` -/
local instance ratNoSqrt : HasSqrt Rat := ⟨fun x => x⟩

def tolQ : Tol Rat := ⟨1 / 100000000, 1 / 100000, 1 / 100000⟩

/-- square `[0,4]²` minus the unit disc around (2,2) -/
def exCut : Dom Rat :=
  .cut (.par "x" (.const [0, 0]) (.const [4, 0]) (.const [0, 4])) (.circle "x" (.const [2, 2]) (.const [1]))

/-- at the point (3,2) of the hole's rim the model returns the FLIPPED disc normal (−1, 0), and it is outward for
    the cut domain: steps towards the hole's centre leave the domain, steps away from it stay inside. -/
example : normalAux true tolQ exCut [("x", [3, 2])] [] = some [-1, 0] ∧
    OutwardAt exCut "x" [3, 2] [-1, 0] [] 1 := by
  have hn : normalAux true tolQ exCut [("x", [3, 2])] [] = some [-1, 0] := by decide +kernel
  refine ⟨hn, normal_bool_outward true tolQ exCut "x" [3, 2] [-1, 0] [] 1 hn ?_⟩
  simp only [exCut, Sep]
  refine ⟨fun h => absurd h (by decide +kernel), fun _ => ⟨?_, ?_⟩⟩
  · intro _
    have h := circle_normal_outward true tolQ "x" (.const [2, 2]) (.const [1]) [] 3 2 2 2 1
      (fun _ => rfl) (fun _ => rfl) (by norm_num) (by norm_num)
    have e : ([(3 - 2) / 1, (2 - 2) / 1] : List Rat) = [1, 0] := by norm_num
    rw [e] at h
    have e2 : (([-1, 0] : List Rat).map (- ·)) = [1, 0] := by norm_num
    rw [e2]
    exact h.2.2.mono (by norm_num)
  · intro ε h0 hlt
    simp only [moved, List.zipWith_cons_cons, List.zipWith_nil_right]
    refine ⟨_, _, 0, 0, 4, 0, 0, 4, (3 + ε) / 4, 1 / 2, get_single _ _, rfl, rfl, rfl, ?_, ?_, ?_, ?_, ?_, ?_⟩
    · linarith
    · linarith
    · norm_num
    · norm_num
    · ring
    · ring

/-- interval `[0, 2]`: −1 at the left end, +1 at the right end -/
example : (normalAux true tolQ (.interval "y" (.const [0]) (.const [2]) : Dom Rat) [("y", [0])] [] = some [-1] ∧
      OutwardAt (.interval "y" (.const [0]) (.const [2]) : Dom Rat) "y" [0] [-1] [] (2 - 0)) ∧
    (normalAux true tolQ (.interval "y" (.const [0]) (.const [2]) : Dom Rat) [("y", [2])] [] = some [1] ∧
      OutwardAt (.interval "y" (.const [0]) (.const [2]) : Dom Rat) "y" [2] [1] [] (2 - 0)) :=
  interval_normal_outward true tolQ (by simp only [Tol.ok, tolQ]; norm_num) "y" (.const [0]) (.const [2]) [] (0 : Rat) 2
    (fun _ => rfl) (fun _ => rfl) (by simp only [tolQ]; norm_num)

/-- ball of radius 3 around (1,0,0) at the rational surface point (3,1,2) -/
example : dot [(3 - 1) / 3, (1 - 0) / 3, (2 - 0) / (3 : Rat)] [(3 - 1) / 3, (1 - 0) / 3, (2 - 0) / 3] = 1 ∧
    OutwardAt (.sphere "z" (.const [1, 0, 0]) (.const [3]) : Dom Rat) "z" [3, 1, 2] [(3 - 1) / 3, (1 - 0) / 3, (2 - 0) / 3] [] (2 * 3) :=
  (sphere_normal_outward true tolQ "z" (.const [1, 0, 0]) (.const [3]) [] 3 1 2 1 0 0 3
    (fun _ => rfl) (fun _ => rfl) (by norm_num) (by norm_num)).2

end examples

section finding
/-- a square-root function on `ℚ` that is exact on every radicand occurring in the witness below
    (9, 16, 25 — a 3-4-5 triangle — and 0, 1) -/
def sqrtQ (x : Rat) : Rat := if x = 25 then 5 else if x = 16 then 4 else if x = 9 then 3 else x

local instance ratSqrt345 : HasSqrt Rat := ⟨sqrtQ⟩

/-- 3-4-5 triangle ∪ unit disc around (8, −2) -/
def exUnion : Dom Rat :=
  .union (.tri "x" (.const [0, 0]) (.const [4, 0]) (.const [0, 3])) (.circle "x" (.const [8, -2]) (.const [1]))

/-- the third-edge clause of `TriangleBoundary._contains` BEFORE the repair de8b0f5: `isclose(bary_x + bary_y, 1)`
    without any range check -/
def triThirdEdgeOld (τ : Tol Rat) (x y ox oy ax ay bx cy : Rat) : Bool :=
  let b := solveLgs (x - ox) (y - oy) (ax - ox) (ay - oy) (bx - ox) (cy - oy)
  isclose τ.bary (b.1 + b.2) 1

/-- **Finding `tri_boundary_extended_line` (repaired in /repo de8b0f5), negative result about the old code.**
    The lowest point (8, −3) of the disc lies on the infinite line through the triangle's edge corner_1–corner_2
    (3x + 4y = 12), far outside the triangle. The OLD third-edge test accepted it, so `on_a` was true and the union's
    `where(on_a, a_normals, b_normals)` returned the TRIANGLE's normal there, which is (3/5, 4/5) — but a step of 1/2
    along it ends inside the disc: not outward. -/
theorem union_extended_line_old :
    triThirdEdgeOld tolQ 8 (-3) 0 0 4 0 0 3 = true ∧
    normalAux true tolQ (.tri "x" (.const [0, 0]) (.const [4, 0]) (.const [0, 3])) [("x", [8, -3])] [] = some [3 / 5, 4 / 5] ∧
    mem exUnion [("x", moved [8, -3] [3 / 5, 4 / 5] (1 / 2))] [] := by
  refine ⟨by decide +kernel, by decide +kernel, ?_⟩
  refine (contains_iff_mem tolQ exUnion _ _ true ?_ ?_ ?_).1 rfl
  · simp [exUnion, Dom.solid]
  · simp only [exUnion, NonDeg, PFun.const]
    refine ⟨?_, trivial⟩
    intro ox oy ax ay bx cy h1 h2 h3
    simp only [List.cons.injEq, and_true] at h1 h2 h3
    obtain ⟨rfl, rfl⟩ := h1; obtain ⟨rfl, rfl⟩ := h2; obtain ⟨rfl, rfl⟩ := h3
    norm_num
  · decide +kernel

/-- **After the repair** the triangle's boundary test rejects that point, the union's boundary test still accepts it
    (it is on the disc), and `normal` returns the disc's radial vector (0, −1), which is outward there. -/
theorem union_extended_line_repaired :
    bdryContains tolQ (.tri "x" (.const [0, 0]) (.const [4, 0]) (.const [0, 3])) [("x", [8, -3])] [] = some false ∧
    bdryContains tolQ exUnion [("x", [8, -3])] [] = some true ∧
    normalAux true tolQ exUnion [("x", [8, -3])] [] = some [0, -1] := by
  refine ⟨by decide +kernel, by decide +kernel, by decide +kernel⟩
end finding


end TPV.Geom
